package main

// c03norm.go — source pre-normalisation for C03 (packages ansi and vaxis), run before any C03 rule and after the
// global helper inlining (gnorm.go). Two purely syntactic, conservative, re-type-checked rewrites that undo
// refactorings the rules would otherwise have to see through one by one:
//
//   1. boolean flags: a local that is defined once from a pure boolean expression
//      (`private := len(I) == 1 && I[0] == '?'`, `sgr := …`) and only read afterwards is substituted into its
//      uses when no operand of the expression can change between the definition and the use (the propagation of
//      c15norm.go, restricted to boolean definitions that are real conditions); likewise a local that only names a
//      channel field (`ch := vx.chCursorPos`), which is what inlining a send helper leaves behind;
//   0. (before everything else) new generic helpers are instantiated per call and inlined (c03mono.go);
//   2. constant tables: `for i, row := range table { B }` over an unexported package-level array/slice that is
//      initialised by a literal with at most c03MaxRows rows and is never written, sliced, aliased or passed on
//      anywhere in the package is unrolled into one block per row, `row.field` / `row` / `i` replaced by the
//      row's (converted) initialiser expression. B must not break/continue/goto/label, close over or assign
//      the loop variables;
//   3. working-variable structs: a local struct whose value is never observed as a whole (only `V.f`, or `p.f`
//      through a never-reassigned `p := &V`) is replaced by one local per field (c03sra.go).
//
// On a tree that has neither construct the pass changes nothing. VX_NO_NORMALISE=1 switches it off.

import (
	"go/ast"
	"go/token"
	"go/types"
	"os"
	"reflect"
	"strconv"

	"golang.org/x/tools/go/packages"
)

const c03MaxRows = 16

func c03Normalise(c *Ctx) {
	if os.Getenv("VX_NO_NORMALISE") != "" {
		return
	}
	shorts := []string{"ansi", "vaxis"}
	c03Monomorphise(c, shorts) // generic helpers: instantiated per call, then inlined (c03mono.go)
	any := false
	for round := 0; round < 8; round++ {
		changed := map[*packages.Package]map[*ast.File]bool{}
		for _, sh := range shorts {
			pk := c.P.Pkg(sh)
			if pk == nil {
				continue
			}
			tables := c03Tables(pk)
			for _, f := range pk.Syntax {
				for _, d := range f.Decls {
					fd, ok := d.(*ast.FuncDecl)
					if !ok || fd.Body == nil {
						continue
					}
					did := false
					if c03HasFlagDef(pk.TypesInfo, fd) {
						old := c15PropagateOnly
						c15PropagateOnly = c03IsPropDef
						did = c15PropagateIn(c, pk, pk.TypesInfo, f, fd)
						c15PropagateOnly = old
					}
					if !did {
						did = c03StripChanConv(pk, fd)
					}
					if !did {
						did = c03UnrollTables(pk, f, fd, tables)
					}
					if !did {
						did = c03ScalarReplace(pk, f, fd)
					}
					if did {
						if changed[pk] == nil {
							changed[pk] = map[*ast.File]bool{}
						}
						changed[pk][f] = true
					}
				}
			}
		}
		if len(changed) == 0 {
			break
		}
		any = true
		if err := c15Recheck(c, shorts, changed); err != nil {
			c.undecided("LOAD", "normalise", 0, "C03 pre-normalisation (flags / constant tables) produced code that does not type-check (%v)", err)
			return
		}
	}
	if any {
		installAccessorResolver(c.P)
	}
}

// c03IsPropDef: the single-definition locals that are substituted into their uses: boolean conditions and aliases
// of a channel field (c03mono.go).
func c03IsPropDef(info *types.Info, o types.Object, def ast.Expr) bool {
	return c03IsFlagDef(info, o, def) || c03IsChanAlias(info, o, def)
}

// c03IsFlagDef: the definition is a boolean condition (comparison, &&, ||, !), not a plain copy of another variable.
func c03IsFlagDef(info *types.Info, o types.Object, def ast.Expr) bool {
	b, ok := o.Type().Underlying().(*types.Basic)
	if !ok || b.Info()&types.IsBoolean == 0 {
		return false
	}
	if tv, ok := info.Types[def]; ok && tv.Value != nil {
		return false // a constant: leave it to the rules
	}
	switch t := unparen(def).(type) {
	case *ast.BinaryExpr:
		switch t.Op {
		case token.LAND, token.LOR, token.EQL, token.NEQ, token.LSS, token.LEQ, token.GTR, token.GEQ:
			return true
		}
	case *ast.UnaryExpr:
		return t.Op == token.NOT
	}
	return false
}

func c03HasFlagDef(info *types.Info, fd *ast.FuncDecl) bool {
	found := false
	ast.Inspect(fd.Body, func(n ast.Node) bool {
		if found {
			return false
		}
		switch t := n.(type) {
		case *ast.FuncLit:
			return false
		case *ast.AssignStmt:
			if t.Tok == token.DEFINE && len(t.Lhs) == 1 && len(t.Rhs) == 1 {
				if id, ok := t.Lhs[0].(*ast.Ident); ok {
					if o := info.Defs[id]; o != nil && c03IsPropDef(info, o, t.Rhs[0]) {
						found = true
					}
				}
			}
		case *ast.ValueSpec:
			if len(t.Names) == 1 && len(t.Values) == 1 {
				if o := info.Defs[t.Names[0]]; o != nil && c03IsPropDef(info, o, t.Values[0]) {
					found = true
				}
			}
		}
		return true
	})
	return found
}

// ---------------------------------------------------------------------------
// constant tables

type c03Table struct {
	obj  *types.Var
	file *ast.File
	rows []ast.Expr // the row initialisers, in order
	elem types.Type
	def  ast.Stmt // local table: its defining statement
}

// c03Tables: the unexported package-level variables of array/slice type that are initialised by a literal of
// positional rows and are used in the whole package only as `range T`, `T[i]` (read) and `len(T)`.
func c03Tables(pk *packages.Package) map[types.Object]*c03Table {
	info := pk.TypesInfo
	out := map[types.Object]*c03Table{}
	for _, f := range pk.Syntax {
		for _, d := range f.Decls {
			gd, ok := d.(*ast.GenDecl)
			if !ok || gd.Tok != token.VAR {
				continue
			}
			for _, sp := range gd.Specs {
				vs, ok := sp.(*ast.ValueSpec)
				if !ok || len(vs.Names) != len(vs.Values) {
					continue
				}
				for i, nm := range vs.Names {
					v, ok := info.Defs[nm].(*types.Var)
					if !ok || nm.IsExported() || nm.Name == "_" {
						continue
					}
					cl, ok := unparen(vs.Values[i]).(*ast.CompositeLit)
					if !ok || len(cl.Elts) > c03MaxRows {
						continue
					}
					var elem types.Type
					switch t := v.Type().Underlying().(type) {
					case *types.Slice:
						elem = t.Elem()
					case *types.Array:
						if t.Len() != int64(len(cl.Elts)) {
							continue
						}
						elem = t.Elem()
					default:
						continue
					}
					switch elem.Underlying().(type) {
					case *types.Struct, *types.Basic:
					default:
						continue
					}
					positional := true
					for _, el := range cl.Elts {
						if _, kv := el.(*ast.KeyValueExpr); kv {
							positional = false
						}
					}
					if !positional {
						continue
					}
					out[v] = &c03Table{obj: v, file: f, rows: cl.Elts, elem: elem}
				}
			}
		}
	}
	if len(out) == 0 {
		return out
	}
	// every use must be harmless
	for _, f := range pk.Syntax {
		var stack []ast.Node
		ast.Inspect(f, func(n ast.Node) bool {
			if n == nil {
				stack = stack[:len(stack)-1]
				return true
			}
			stack = append(stack, n)
			id, ok := n.(*ast.Ident)
			if !ok {
				return true
			}
			o := info.Uses[id]
			if o == nil || out[o] == nil || len(stack) < 2 {
				return true
			}
			okUse := false
			switch p := stack[len(stack)-2].(type) {
			case *ast.RangeStmt:
				okUse = p.X == ast.Expr(id)
			case *ast.IndexExpr:
				if p.X == ast.Expr(id) && len(stack) >= 3 {
					okUse = true
					switch gp := stack[len(stack)-3].(type) {
					case *ast.AssignStmt:
						for _, l := range gp.Lhs {
							if l == ast.Expr(p) {
								okUse = false
							}
						}
					case *ast.IncDecStmt:
						okUse = false
					case *ast.UnaryExpr:
						if gp.Op == token.AND {
							okUse = false
						}
					case *ast.SelectorExpr, *ast.IndexExpr, *ast.SliceExpr:
						// T[i].f = …, &T[i].f, T[i][j] …: look no further, refuse unless the element is a plain value read
						okUse = false
						if se, isSel := gp.(*ast.SelectorExpr); isSel && len(stack) >= 4 {
							okUse = true
							switch ggp := stack[len(stack)-4].(type) {
							case *ast.AssignStmt:
								for _, l := range ggp.Lhs {
									if l == ast.Expr(se) {
										okUse = false
									}
								}
							case *ast.IncDecStmt, *ast.SelectorExpr, *ast.IndexExpr, *ast.SliceExpr:
								okUse = false
							case *ast.UnaryExpr:
								if ggp.Op == token.AND {
									okUse = false
								}
							case *ast.CallExpr:
								if ggp.Fun == ast.Expr(se) {
									okUse = false // a method call on the element (pointer receivers take its address)
								}
							}
						}
					}
				}
			case *ast.CallExpr:
				if fid, ok := unparen(p.Fun).(*ast.Ident); ok && len(p.Args) == 1 && p.Args[0] == ast.Expr(id) {
					if b, ok := info.Uses[fid].(*types.Builtin); ok && b.Name() == "len" {
						okUse = true
					}
				}
			}
			if !okUse {
				delete(out, o)
			}
			return true
		})
	}
	return out
}

// c03LitTable: the table a slice/array literal of at most c03MaxRows positional rows stands for (nil if it is none).
func c03LitTable(info *types.Info, file *ast.File, cl *ast.CompositeLit) *c03Table {
	if len(cl.Elts) > c03MaxRows {
		return nil
	}
	tp := info.TypeOf(cl)
	if tp == nil {
		return nil
	}
	var elem types.Type
	switch t := tp.Underlying().(type) {
	case *types.Slice:
		elem = t.Elem()
	case *types.Array:
		if t.Len() != int64(len(cl.Elts)) {
			return nil
		}
		elem = t.Elem()
	default:
		return nil
	}
	switch elem.Underlying().(type) {
	case *types.Struct, *types.Basic:
	default:
		return nil
	}
	for _, el := range cl.Elts {
		if _, kv := el.(*ast.KeyValueExpr); kv {
			return nil
		}
	}
	return &c03Table{file: file, rows: cl.Elts, elem: elem}
}

// c03LocalTables: locals of fd that are defined once (`t := []T{…}`) by a table literal and used exactly once, as the
// operand of a range statement of the function itself (not of a closure). The definition goes away with the loop.
func c03LocalTables(info *types.Info, file *ast.File, fd *ast.FuncDecl) map[types.Object]*c03Table {
	out := map[types.Object]*c03Table{}
	ast.Inspect(fd.Body, func(n ast.Node) bool {
		switch t := n.(type) {
		case *ast.FuncLit:
			return false
		case *ast.AssignStmt:
			if t.Tok != token.DEFINE || len(t.Lhs) != 1 || len(t.Rhs) != 1 {
				return true
			}
			id, ok := t.Lhs[0].(*ast.Ident)
			cl, isLit := unparen(t.Rhs[0]).(*ast.CompositeLit)
			if !ok || !isLit || id.Name == "_" || info.Defs[id] == nil {
				return true
			}
			if tb := c03LitTable(info, file, cl); tb != nil {
				tb.def = t
				out[info.Defs[id]] = tb
			}
		}
		return true
	})
	if len(out) == 0 {
		return out
	}
	uses := map[types.Object]int{}
	ranged := map[types.Object]bool{}
	var walk func(n ast.Node, inLit bool)
	walk = func(n ast.Node, inLit bool) {
		ast.Inspect(n, func(m ast.Node) bool {
			switch t := m.(type) {
			case *ast.FuncLit:
				if m != n {
					walk(t.Body, true)
					return false
				}
			case *ast.RangeStmt:
				if id, ok := unparen(t.X).(*ast.Ident); ok && !inLit && t.Tok == token.DEFINE {
					if o := info.Uses[id]; o != nil && out[o] != nil {
						ranged[o] = true
					}
				}
			case *ast.Ident:
				if o := info.Uses[t]; o != nil && out[o] != nil {
					uses[o]++
				}
			}
			return true
		})
	}
	walk(fd.Body, false)
	for o := range out {
		if uses[o] != 1 || !ranged[o] {
			delete(out, o)
		}
	}
	return out
}

// c03UnrollTables unrolls the range loops over constant tables in fd (outermost first, one per call chain).
func c03UnrollTables(pk *packages.Package, file *ast.File, fd *ast.FuncDecl, tables map[types.Object]*c03Table) bool {
	info := pk.TypesInfo
	changed := false
	// names declared inside the function (parameters, results, receiver, locals): a row expression that mentions one
	// of them would be captured
	localNames := map[string]bool{}
	ast.Inspect(fd, func(n ast.Node) bool {
		if id, ok := n.(*ast.Ident); ok {
			if o := info.Defs[id]; o != nil && id != fd.Name {
				localNames[id.Name] = true
			}
		}
		return true
	})
	for _, o := range info.Implicits {
		if o.Pos() >= fd.Pos() && o.Pos() < fd.End() {
			localNames[o.Name()] = true
		}
	}
	all := map[types.Object]*c03Table{}
	for o, tb := range tables {
		all[o] = tb
	}
	for o, tb := range c03LocalTables(info, file, fd) {
		all[o] = tb
	}
	tables = all
	drop := map[ast.Stmt]bool{}
	defer func() {
		if len(drop) > 0 {
			c15DropStmts(fd.Body, drop)
		}
	}()
	var rewrite func(list []ast.Stmt) []ast.Stmt
	rewrite = func(list []ast.Stmt) []ast.Stmt {
		var out []ast.Stmt
		for _, st := range list {
			rs, ok := st.(*ast.RangeStmt)
			if !ok {
				out = append(out, st)
				continue
			}
			blocks, ok := c03Unroll(pk, file, rs, tables, localNames)
			if !ok {
				out = append(out, st)
				continue
			}
			changed = true
			if id, ok := unparen(rs.X).(*ast.Ident); ok {
				if tb := tables[info.Uses[id]]; tb != nil && tb.def != nil {
					drop[tb.def] = true
				}
			}
			out = append(out, blocks...)
		}
		return out
	}
	ast.Inspect(fd.Body, func(n ast.Node) bool {
		if changed {
			return false // one loop per round: the copies have no type information yet
		}
		switch t := n.(type) {
		case *ast.FuncLit:
			return false
		case *ast.BlockStmt:
			t.List = rewrite(t.List)
		case *ast.CaseClause:
			t.Body = rewrite(t.Body)
		case *ast.CommClause:
			t.Body = rewrite(t.Body)
		}
		return !changed
	})
	return changed
}

func c03Unroll(pk *packages.Package, file *ast.File, rs *ast.RangeStmt, tables map[types.Object]*c03Table, localNames map[string]bool) ([]ast.Stmt, bool) {
	info := pk.TypesInfo
	if rs.Tok != token.DEFINE {
		return nil, false
	}
	var tb *c03Table
	switch t := unparen(rs.X).(type) {
	case *ast.Ident:
		tb = tables[info.Uses[t]]
	case *ast.CompositeLit:
		tb = c03LitTable(info, file, t) // for … := range []T{…}
	}
	if tb == nil {
		return nil, false
	}
	var keyObj, valObj types.Object
	if id, ok := rs.Key.(*ast.Ident); ok && id.Name != "_" {
		keyObj = info.Defs[id]
	} else if rs.Key != nil && !ok {
		return nil, false
	}
	if id, ok := rs.Value.(*ast.Ident); ok && id.Name != "_" {
		valObj = info.Defs[id]
	} else if rs.Value != nil && !ok {
		return nil, false
	}
	// the body: no jump that refers to the loop, no closure, no write / address of the loop variables
	okBody := true
	var scan func(n ast.Node, inLoop, inBreakable bool)
	scan = func(n ast.Node, inLoop, inBreakable bool) {
		ast.Inspect(n, func(m ast.Node) bool {
			if !okBody || m == nil {
				return false
			}
			switch t := m.(type) {
			case *ast.FuncLit, *ast.DeferStmt, *ast.GoStmt, *ast.LabeledStmt:
				okBody = false
			case *ast.BranchStmt:
				switch {
				case t.Label != nil, t.Tok == token.GOTO, t.Tok == token.FALLTHROUGH && !inBreakable:
					okBody = false
				case t.Tok == token.CONTINUE && !inLoop:
					okBody = false
				case t.Tok == token.BREAK && !inBreakable:
					okBody = false
				}
			case *ast.ForStmt:
				if m != n {
					scan(t.Body, true, true)
					for _, s := range []ast.Node{t.Init, t.Cond, t.Post} {
						if s != nil && !reflect.ValueOf(s).IsNil() {
							scan(s, inLoop, inBreakable)
						}
					}
					return false
				}
			case *ast.RangeStmt:
				if m != n {
					scan(t.Body, true, true)
					scan(t.X, inLoop, inBreakable)
					return false
				}
			case *ast.SwitchStmt, *ast.TypeSwitchStmt, *ast.SelectStmt:
				if m != n {
					var body *ast.BlockStmt
					switch s := t.(type) {
					case *ast.SwitchStmt:
						body = s.Body
						if s.Init != nil {
							scan(s.Init, inLoop, inBreakable)
						}
						if s.Tag != nil {
							scan(s.Tag, inLoop, inBreakable)
						}
					case *ast.TypeSwitchStmt:
						body = s.Body
						if s.Init != nil {
							scan(s.Init, inLoop, inBreakable)
						}
						scan(s.Assign, inLoop, inBreakable)
					case *ast.SelectStmt:
						body = s.Body
					}
					scan(body, inLoop, true)
					return false
				}
			case *ast.AssignStmt:
				for _, l := range t.Lhs {
					if r := rootObj(info, l); r != nil && (r == keyObj || r == valObj) {
						okBody = false
					}
				}
			case *ast.IncDecStmt:
				if r := rootObj(info, t.X); r != nil && (r == keyObj || r == valObj) {
					okBody = false
				}
			case *ast.UnaryExpr:
				if t.Op == token.AND {
					if r := rootObj(info, t.X); r != nil && (r == keyObj || r == valObj) {
						okBody = false
					}
				}
			}
			return okBody
		})
	}
	scan(rs.Body, false, false)
	if !okBody {
		return nil, false
	}
	st, isStruct := tb.elem.Underlying().(*types.Struct)
	// the uses of the value variable: row.field (struct rows) or row (basic rows); method calls refuse
	par := map[ast.Node]ast.Node{}
	var stack []ast.Node
	ast.Inspect(rs.Body, func(n ast.Node) bool {
		if n == nil {
			stack = stack[:len(stack)-1]
			return true
		}
		if len(stack) > 0 {
			par[n] = stack[len(stack)-1]
		}
		stack = append(stack, n)
		return true
	})
	okUses := true
	ast.Inspect(rs.Body, func(n ast.Node) bool {
		id, ok := n.(*ast.Ident)
		if !ok || valObj == nil || info.Uses[id] != valObj {
			return true
		}
		if !isStruct {
			return true
		}
		sel, ok := par[id].(*ast.SelectorExpr)
		if !ok || sel.X != ast.Expr(id) {
			okUses = false
			return true
		}
		s, ok := info.Selections[sel]
		if !ok || s.Kind() != types.FieldVal || len(s.Index()) != 1 {
			okUses = false
		}
		return true
	})
	if !okUses {
		return nil, false
	}
	// the row expressions, per field
	type rowT struct {
		whole  ast.Expr
		fields []ast.Expr
	}
	var rows []rowT
	for _, r := range tb.rows {
		if !isStruct {
			e, ok := c03Portable(pk, file, tb, r, tb.elem, localNames)
			if !ok {
				return nil, false
			}
			rows = append(rows, rowT{whole: e})
			continue
		}
		cl, ok := unparen(r).(*ast.CompositeLit)
		if !ok {
			return nil, false
		}
		fields := make([]ast.Expr, st.NumFields())
		for i, el := range cl.Elts {
			idx := i
			val := el
			if kv, ok := el.(*ast.KeyValueExpr); ok {
				kid, ok := kv.Key.(*ast.Ident)
				if !ok {
					return nil, false
				}
				idx = -1
				for j := 0; j < st.NumFields(); j++ {
					if st.Field(j).Name() == kid.Name {
						idx = j
					}
				}
				val = kv.Value
			}
			if idx < 0 || idx >= st.NumFields() {
				return nil, false
			}
			e, ok := c03Portable(pk, file, tb, val, st.Field(idx).Type(), localNames)
			if !ok {
				return nil, false
			}
			fields[idx] = e
		}
		rows = append(rows, rowT{fields: fields})
	}
	// which fields are read?
	if isStruct {
		bad := false
		ast.Inspect(rs.Body, func(n ast.Node) bool {
			sel, ok := n.(*ast.SelectorExpr)
			if !ok {
				return true
			}
			if id, ok := sel.X.(*ast.Ident); ok && valObj != nil && info.Uses[id] == valObj {
				idx := info.Selections[sel].Index()[0]
				for _, r := range rows {
					if r.fields[idx] == nil {
						bad = true // a field the row leaves at its zero value
					}
				}
			}
			return true
		})
		if bad {
			return nil, false
		}
	}
	var out []ast.Stmt
	for i, r := range rows {
		track := map[ast.Expr]ast.Expr{}
		body := c15Copy(rs.Body, nil, track).(*ast.BlockStmt)
		c03ReplaceExprs(body, func(e ast.Expr) ast.Expr {
			switch t := e.(type) {
			case *ast.SelectorExpr:
				osel, _ := track[t].(*ast.SelectorExpr)
				if osel == nil || !isStruct || valObj == nil {
					return nil
				}
				if id, ok := osel.X.(*ast.Ident); ok && info.Uses[id] == valObj {
					return c15Copy(r.fields[info.Selections[osel].Index()[0]], nil).(ast.Expr)
				}
			case *ast.Ident:
				oid, _ := track[t].(*ast.Ident)
				if oid == nil {
					return nil
				}
				switch o := info.Uses[oid]; {
				case o == nil:
				case o == valObj && !isStruct:
					return c15Copy(r.whole, nil).(ast.Expr)
				case o == keyObj:
					return &ast.CallExpr{Fun: ast.NewIdent("int"), Args: []ast.Expr{&ast.BasicLit{Kind: token.INT, Value: strconv.Itoa(i)}}}
				}
			}
			return nil
		})
		out = append(out, body)
	}
	if len(out) == 0 {
		out = append(out, &ast.BlockStmt{})
	}
	return out, true
}

// c03Portable: a copy of the row expression e that means the same inside a function body of the package (file `file`),
// converted to the type want. Only literals, package-level names that no local of the function hides, operators,
// conversions and composite literals of package-level types; no calls.
func c03Portable(pk *packages.Package, file *ast.File, tb *c03Table, e ast.Expr, want types.Type, localNames map[string]bool) (ast.Expr, bool) {
	info := pk.TypesInfo
	ok := true
	if localNames["int"] {
		return nil, false
	}
	ast.Inspect(e, func(n ast.Node) bool {
		switch t := n.(type) {
		case *ast.Ident:
			o := info.Uses[t]
			if o == nil {
				if info.Defs[t] == nil {
					// a key of a composite literal (field name) has neither
					return true
				}
				ok = false
				return false
			}
			if localNames[t.Name] {
				ok = false
			}
			if o.Pkg() == nil { // universe: true, false, nil, int, …
				return true
			}
			if _, isPkg := o.(*types.PkgName); isPkg {
				if tb.file != file {
					ok = false
				}
				return true
			}
			if v, isVar := o.(*types.Var); isVar {
				if !v.IsField() {
					ok = false // a variable is read when the table is initialised, not when the loop runs
				}
				return true
			}
			if o.Pkg() == pk.Types && o.Parent() != pk.Types.Scope() {
				ok = false
			}
			if o.Pkg() != pk.Types && tb.file != file {
				ok = false // a qualified identifier: the import name is only known to hold in the table's file
			}
		case *ast.CallExpr:
			if tv, isT := info.Types[t.Fun]; !isT || !tv.IsType() {
				ok = false
			}
		case *ast.FuncLit, *ast.UnaryExpr:
			if u, isU := n.(*ast.UnaryExpr); !isU || u.Op == token.ARROW || u.Op == token.AND {
				ok = false
			}
		}
		return ok
	})
	if !ok {
		return nil, false
	}
	cp := c15Copy(unparen(e), nil).(ast.Expr)
	if cl, isLit := cp.(*ast.CompositeLit); isLit && cl.Type == nil {
		return nil, false // elided type of a nested literal
	}
	tv := info.Types[e]
	if tv.Value == nil && tv.Type != nil && types.Identical(tv.Type, want) {
		switch cp.(type) {
		case *ast.Ident, *ast.BasicLit, *ast.SelectorExpr, *ast.CompositeLit, *ast.CallExpr:
			return cp, true
		}
		return &ast.ParenExpr{X: cp}, true
	}
	var te ast.Expr
	switch t := want.(type) {
	case *types.Basic:
		if localNames[t.Name()] {
			return nil, false
		}
		te = ast.NewIdent(t.Name())
	case *types.Named:
		if t.Obj().Pkg() != pk.Types || t.Obj().Parent() != pk.Types.Scope() || localNames[t.Obj().Name()] || t.TypeArgs().Len() > 0 {
			return nil, false
		}
		te = ast.NewIdent(t.Obj().Name())
	default:
		return nil, false
	}
	return &ast.CallExpr{Fun: te, Args: []ast.Expr{cp}}, true
}

// c03ReplaceExprs replaces, top-down and in place, every expression for which f returns a non-nil replacement
// (the replacement is not visited again).
func c03ReplaceExprs(root ast.Node, f func(ast.Expr) ast.Expr) {
	exprType := reflect.TypeOf((*ast.Expr)(nil)).Elem()
	seen := map[uintptr]bool{}
	var walk func(v reflect.Value)
	walk = func(v reflect.Value) {
		switch v.Kind() {
		case reflect.Interface:
			if v.IsNil() {
				return
			}
			if v.Type() == exprType && v.CanSet() {
				if r := f(v.Interface().(ast.Expr)); r != nil {
					v.Set(reflect.ValueOf(r))
					return
				}
			}
			walk(v.Elem())
		case reflect.Ptr:
			if v.IsNil() {
				return
			}
			switch v.Interface().(type) {
			case *ast.Object, *ast.Scope:
				return
			}
			if seen[v.Pointer()] {
				return
			}
			seen[v.Pointer()] = true
			walk(v.Elem())
		case reflect.Struct:
			for i := 0; i < v.NumField(); i++ {
				walk(v.Field(i))
			}
		case reflect.Slice:
			for i := 0; i < v.Len(); i++ {
				walk(v.Index(i))
			}
		}
	}
	walk(reflect.ValueOf(root))
}
