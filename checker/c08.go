package main

// C08 — parser lifecycle: one EOF, last, then close; delivered sequences are
// never modified; timer callback vs close hazard.

import (
	"fmt"
	"go/ast"
	"go/types"
	"strings"

	"golang.org/x/tools/go/cfg"
)

func init() { register("C08", false, runC08) }

func runC08(c *Ctx) {
	dropOrphanHelpers(c)
	debugDumpFuncs(c) // VX_DUMP_FN=... prints functions as the rules see them
	c.Clauses = []string{
		"C08.a end-of-input marker emitted exactly once, after the loop on every exit, followed by the only close of the channel and the closed signal; the close request is polled at the loop head before each read; Close only signals and cannot block",
		"C08.b ownership transfer: a parser-owned slice stored into a delivered sequence is replaced by fresh storage before the dispatch function returns (never re-sliced and reused)",
		"C08.c every goroutine context that sends on the sequence channel is ordered before its close (timer callback hazard)",
		"C08.d Escape timeout delivers Escape once and returns to ground (shared with C02.c)",
	}
	c.NotDec = []string{"the 10 ms disambiguation delay itself (real time)", "behaviour for end-of-input at every byte offset (values)"}
	c.expect("C08.a", 9)
	c.expect("C08.b", 3)
	c.expect("C08.c", 1)
	pk := c.P.Pkg("ansi")
	if pk == nil {
		c.undecided("C08.a", "package ansi", 0, "not loaded")
		return
	}
	c08RunLoop(c)
	parserOwnership(c, "C08.b")
	c08TimerHazard(c)
	c08TimerStopped(c)
	c.expect("C08.d", 2)
}

// c08TimerStopped: the Escape timer is armed in exactly one place and is stopped after every read,
// before the byte is interpreted ("an ESC promptly followed by further bytes is never reported as Escape").
func c08TimerStopped(c *Ctx) {
	pk := c.P.Pkg("ansi")
	info := pk.TypesInfo
	rr := c.P.Func("ansi.(*Parser).readRune")
	if rr == nil {
		c.undecided("C08.d", "ansi.(*Parser).readRune", 0, "readRune not found")
		return
	}
	g := c.P.Graph(rr)
	reads := g.Calls(func(fn *types.Func, _ *ast.CallExpr) bool { return fn != nil && fullName(fn) == "bufio.Reader.ReadRune" })
	isStop := func(n ast.Node) bool {
		call, ok := n.(*ast.CallExpr)
		if !ok {
			return false
		}
		sel, ok := call.Fun.(*ast.SelectorExpr)
		return ok && sel.Sel.Name == "Stop" && canonPath(info, sel.X) == "Parser.escTimeout"
	}
	stops := g.Find(isStop)
	ok := len(reads) >= 1 && len(stops) >= 1
	why := "readRune does not stop the Escape timer"
	if ok {
		// the stop is guarded by nothing but the nil test, and that test is on every path from the first read to the exit
		for _, st := range stops {
			for _, k := range guardKeys(g, st.Loc) {
				if k != "Parser.escTimeout!=nil" {
					ok, why = false, "the timer is stopped only under "+k
				}
			}
		}
		st := stops[0]
		var testBlock *cfg.Block
		for _, gd := range g.Guards(st.Loc) {
			testBlock = gd.From
		}
		reachedExit := false
		g.walk(Loc{reads[0].Loc.B, reads[0].Loc.Idx + 1}, func(l Loc, n ast.Node) bool {
			if testBlock != nil && l.B == testBlock {
				return false
			}
			return !containsNode(n, isStop)
		}, func(b *cfg.Block) { reachedExit = true })
		if reachedExit {
			ok, why = false, "some path from the read to the return of readRune does not stop the timer"
		}
	}
	c.check(ok, "C08.d", rr.Name+"/Escape timer stopped after every read", rr.Decl.Pos(), "every byte that arrives cancels a pending Escape timeout before it is interpreted", why+": an ESC promptly followed by ESC/CAN/SUB (handled before the escape state runs) is still reported as Escape 10 ms later")
	// armed only where ESC is recognised
	n := 0
	where := ""
	for _, fi := range c.P.FuncsIn("ansi") {
		if fi.Decl.Body == nil {
			continue
		}
		ast.Inspect(fi.Decl.Body, func(x ast.Node) bool {
			if call, ok := x.(*ast.CallExpr); ok {
				if fn := calleeOf(info, call); fn != nil && (fullName(fn) == "time.AfterFunc" || fullName(fn) == "time.NewTimer") {
					n++
					where = fi.Name
				}
			}
			return true
		})
	}
	c.check(n == 1, "C08.d", "ansi/Escape timer armed in one place", rr.Decl.Pos(), "armed in "+where, fmt.Sprintf("%d timer creations in package ansi", n))
}

func ansiFieldPath(info *types.Info, e ast.Expr) string {
	// "Parser.sequences" for p.sequences
	return canonPath(info, e)
}

func c08RunLoop(c *Ctx) {
	pk := c.P.Pkg("ansi")
	info := pk.TypesInfo
	run := c.P.Func("ansi.(*Parser).run")
	if run == nil {
		c.undecided("C08.a", "ansi.(*Parser).run", 0, "run not found")
		return
	}
	g := c.P.Graph(run)
	isEmitEOF := func(n ast.Node) bool {
		call, ok := n.(*ast.CallExpr)
		if !ok || len(call.Args) != 1 {
			return false
		}
		fn := calleeOf(info, call)
		if fn == nil || fn.Name() != "emit" {
			return false
		}
		// the argument is a value of the package's EOF type, however it is spelled (EOF{}, a variable, a constant)
		if nt, ok := info.TypeOf(call.Args[0]).(*types.Named); ok {
			return nt.Obj().Name() == "EOF" && nt.Obj().Pkg() == pk.Types
		}
		return false
	}
	isCloseSeq := func(n ast.Node) bool {
		call, ok := n.(*ast.CallExpr)
		if !ok || len(call.Args) != 1 {
			return false
		}
		id, ok := call.Fun.(*ast.Ident)
		if !ok || id.Name != "close" {
			return false
		}
		_, isB := info.Uses[id].(*types.Builtin)
		return isB && ansiFieldPath(info, call.Args[0]) == "Parser.sequences"
	}
	isSendClosed := func(n ast.Node) bool {
		s, ok := n.(*ast.SendStmt)
		return ok && ansiFieldPath(info, s.Chan) == "Parser.closed"
	}
	// exactly one EOF emission and one close in the whole package
	nEOF, nClose := 0, 0
	var eofIn, closeIn string
	for _, fi := range c.P.FuncsIn("ansi") {
		if fi.Decl.Body == nil {
			continue
		}
		ast.Inspect(fi.Decl.Body, func(n ast.Node) bool {
			if isEmitEOF(n) {
				nEOF++
				eofIn = fi.Name
			}
			if isCloseSeq(n) {
				nClose++
				closeIn = fi.Name
			}
			return true
		})
	}
	c.check(nEOF == 1 && eofIn == run.Name, "C08.a", "ansi/one EOF emission site, in run", run.Decl.Pos(), "single site", fmt.Sprintf("found %d EOF emission sites (last in %s): the end-of-input marker can be delivered twice or from the wrong place", nEOF, eofIn))
	c.check(nClose == 1 && closeIn == run.Name, "C08.a", "ansi/one close(sequences) site, in run", run.Decl.Pos(), "single site", fmt.Sprintf("found %d close(p.sequences) sites (last in %s)", nClose, closeIn))
	okEOF, _ := g.MustFollow(Loc{g.Blocks[0], -1}, isEmitEOF)
	c.check(okEOF, "C08.a", run.Name+"/every exit emits EOF", run.Decl.Pos(), "no return bypasses the marker", "some path through run returns without emitting the end-of-input marker (consumer hangs)")
	eofHits := g.Find(isEmitEOF)
	closeHits := g.Find(isCloseSeq)
	sendHits := g.Find(isSendClosed)
	if len(eofHits) == 1 && len(closeHits) == 1 {
		c.check(g.MustPrecede(isEmitEOF, closeHits[0].Loc), "C08.a", run.Name+"/EOF before close", closeHits[0].Node.Pos(), "marker is the last item", "the channel can be closed before the marker is sent (panic: send on closed channel, or marker lost)")
		okC, _ := g.MustFollow(eofHits[0].Loc, isCloseSeq)
		c.check(okC, "C08.a", run.Name+"/close follows EOF on every path", eofHits[0].Node.Pos(), "channel closed after the marker", "the channel is not closed after the marker on some path")
		// no other emit after the EOF emission
		later := false
		g.walk(Loc{eofHits[0].Loc.B, eofHits[0].Loc.Idx + 1}, func(l Loc, n ast.Node) bool {
			if containsNode(n, func(m ast.Node) bool {
				call, ok := m.(*ast.CallExpr)
				if !ok {
					return false
				}
				fn := calleeOf(info, call)
				return fn != nil && fn.Name() == "emit"
			}) {
				later = true
			}
			return true
		}, nil)
		c.check(!later, "C08.a", run.Name+"/nothing emitted after EOF", eofHits[0].Node.Pos(), "marker is last", "something is emitted after the end-of-input marker")
	} else {
		c.undecided("C08.a", run.Name+"/EOF and close sites", run.Decl.Pos(), "expected one EOF emission and one close in run (found %d, %d)", len(eofHits), len(closeHits))
	}
	if len(sendHits) >= 1 && len(closeHits) == 1 {
		c.check(g.MustPrecede(isCloseSeq, sendHits[0].Loc), "C08.a", run.Name+"/closed signalled after close", sendHits[0].Node.Pos(), "WaitClose returns only after the channel is closed", "WaitClose can return before the channel is closed")
		okS, _ := g.MustFollow(closeHits[0].Loc, isSendClosed)
		c.check(okS, "C08.a", run.Name+"/closed signalled on every path", closeHits[0].Node.Pos(), "Suspend's WaitClose is always released", "run can finish without signalling closed: WaitClose (Suspend, Close) hangs")
	} else {
		c.bad("C08.a", run.Name+"/closed signalled", run.Decl.Pos(), "run does not send on p.closed")
	}
	// the close request is tested before every read, and nothing is read once it was received (path property,
	// c08y.go: independent of labelled breaks / flags / helpers)
	c08PollBeforeRead(c, run)
	// Close only signals; the signal channels are buffered so that Close cannot block
	if cl := c.P.Func("ansi.(*Parser).Close"); cl != nil {
		onlySend, _ := c08IsPlainSend(c, cl, "Parser.close", false)
		c.check(onlySend, "C08.a", "ansi.(*Parser).Close/only signals", cl.Decl.Pos(), "Close is a single send on the close channel", "Close does more than signal the run loop")
	}
	if np := c.P.Func("ansi.NewParser"); np != nil {
		caps := c08ParserChanCaps(c)
		c.check(caps["close"] >= 1, "C08.a", "ansi.NewParser/close channel buffered", np.Decl.Pos(), "Close never blocks while the reader is blocked", "the close channel is unbuffered: Close blocks until the loop polls it, i.e. forever while the reader is blocked (Suspend deadlocks)")
		c.check(caps["closed"] >= 1, "C08.a", "ansi.NewParser/closed channel buffered", np.Decl.Pos(), "run can finish without a waiter", "the closed channel is unbuffered: run (and the parser goroutine) never finishes unless someone calls WaitClose")
	}
}

// parserOwnership implements the ownership-transfer rule; it is shared by C02 and C08.
func parserOwnership(c *Ctx, rule string) {
	pk := c.P.Pkg("ansi")
	info := pk.TypesInfo
	parserObj, _ := pk.Types.Scope().Lookup("Parser").(*types.TypeName)
	if parserObj == nil {
		c.undecided(rule, "ansi.Parser", 0, "Parser type not found")
		return
	}
	ptr := types.NewPointer(parserObj.Type())
	holdsSlice := func(t types.Type) bool {
		switch u := t.Underlying().(type) {
		case *types.Slice:
			return true
		case *types.Struct:
			for i := 0; i < u.NumFields(); i++ {
				if _, ok := u.Field(i).Type().Underlying().(*types.Slice); ok {
					return true
				}
			}
		}
		return false
	}
	// parserField: e is p.F (p of type *Parser) with F holding slice storage; returns F's name
	parserField := func(e ast.Expr) string {
		sel, ok := unparen(e).(*ast.SelectorExpr)
		if !ok {
			return ""
		}
		s, ok := info.Selections[sel]
		if !ok || s.Kind() != types.FieldVal || !types.Identical(info.TypeOf(sel.X), ptr) {
			return ""
		}
		if !holdsSlice(s.Obj().Type()) {
			return ""
		}
		return sel.Sel.Name
	}
	freshDepth := 0
	var isFresh func(e ast.Expr, field string) (bool, string)
	isFresh = func(e ast.Expr, field string) (bool, string) {
		e = unparen(e)
		switch t := e.(type) {
		case *ast.CompositeLit:
			return true, "composite literal"
		case *ast.Ident:
			if t.Name == "nil" {
				return true, "nil"
			}
			// a local defined exactly once stands for its definition (fresh := pool.Get(); p.f = fresh)
			if src := singleDefOf(info, info.ObjectOf(t)); src != nil && freshDepth < 3 {
				freshDepth++
				ok, why := isFresh(src, field)
				freshDepth--
				return ok, why
			}
		case *ast.CallExpr:
			if id, ok := t.Fun.(*ast.Ident); ok && id.Name == "make" {
				return true, "make"
			}
			if sel, ok := t.Fun.(*ast.SelectorExpr); ok && sel.Sel.Name == "Get" {
				return true, "pool.Get"
			}
		case *ast.SliceExpr:
			if parserField(t.X) == field {
				return false, "re-slice of the delivered storage"
			}
			if ok, why := func() (bool, string) {
				if call, isCall := unparen(t.X).(*ast.CallExpr); isCall {
					if sel, ok := call.Fun.(*ast.SelectorExpr); ok && sel.Sel.Name == "Get" {
						return true, "pool.Get()[:0]"
					}
				}
				return false, ""
			}(); ok {
				return true, why
			}
		}
		return false, types.ExprString(e)
	}
	covered := map[string]bool{}
	defer func() {
		// non-vacuity: the parser hands over at least three distinct buffers (intermediates, OSC and APC payloads
		// on today's tree); the count of hand-over SITES depends on how the code is cut into helpers
		if len(covered) < 3 {
			c.undecided(rule, "coverage/distinct delivered buffers", 0, "only %d parser buffers are seen being handed over (%v): the rule no longer sees the deliveries", len(covered), sortedKeys(covered))
		}
	}()
	for _, fi := range c.P.FuncsIn("ansi") {
		if fi.Decl.Recv == nil || fi.Decl.Body == nil {
			continue
		}
		if !types.Identical(info.TypeOf(fi.Decl.Recv.List[0].Type), ptr) {
			continue
		}
		g := c.P.Graph(fi)
		emits := g.Calls(func(fn *types.Func, _ *ast.CallExpr) bool { return fn != nil && fn.Name() == "emit" })
		// alias sites: p.F used as a value that is stored (not appended to, not len'd, not indexed)
		type alias struct {
			field string
			hit   Hit
		}
		var aliases []alias
		for _, h := range g.Find(func(n ast.Node) bool {
			switch t := n.(type) {
			case *ast.AssignStmt:
				for i, r := range t.Rhs {
					if f := parserField(r); f != "" && i < len(t.Lhs) {
						// p.x = p.x is not an alias; local.Field = p.F or p.other.Field = p.F is
						if parserField(t.Lhs[i]) != f {
							return true
						}
					}
				}
			case *ast.KeyValueExpr:
				if parserField(t.Value) != "" {
					return true
				}
			case *ast.CallExpr:
				if fn := calleeOf(info, t); fn != nil && fn.Name() == "emit" && len(t.Args) == 1 && parserField(t.Args[0]) != "" {
					return true
				}
			}
			return false
		}) {
			var f string
			switch t := h.Node.(type) {
			case *ast.AssignStmt:
				for i, r := range t.Rhs {
					if x := parserField(r); x != "" && i < len(t.Lhs) && parserField(t.Lhs[i]) != x {
						f = x
					}
				}
			case *ast.KeyValueExpr:
				f = parserField(t.Value)
			case *ast.CallExpr:
				f = parserField(t.Args[0])
			}
			aliases = append(aliases, alias{f, h})
		}
		if len(aliases) == 0 {
			continue
		}
		for _, a := range aliases {
			covered[a.field] = true
		}
		// does the function deliver or store the alias? (emit here, or the alias is stored into another parser field emitted elsewhere)
		_ = emits
		for _, a := range aliases {
			key := fmt.Sprintf("%s/%s handed over then replaced by fresh storage", fi.Name, a.field)
			var reason string
			isReassign := func(n ast.Node) bool {
				as, ok := n.(*ast.AssignStmt)
				if !ok {
					return false
				}
				for i, l := range as.Lhs {
					if parserField(l) == a.field && i < len(as.Rhs) {
						ok2, why := isFresh(as.Rhs[i], a.field)
						reason = why
						return ok2
					}
				}
				return false
			}
			okF, _ := g.MustFollow(a.hit.Loc, isReassign)
			if okF {
				c.ok(rule, key, a.hit.Node.Pos(), "after the hand-over the field is assigned fresh storage (%s) on every path", reason)
			} else {
				// find what it is assigned instead, for the message
				what := "is not reassigned"
				ast.Inspect(fi.Decl.Body, func(n ast.Node) bool {
					if as, ok := n.(*ast.AssignStmt); ok {
						for i, l := range as.Lhs {
							if parserField(l) == a.field && i < len(as.Rhs) {
								if ok2, why := isFresh(as.Rhs[i], a.field); !ok2 {
									what = "is reassigned to " + why
								}
							}
						}
					}
					return true
				})
				c.bad(rule, key, a.hit.Node.Pos(), "p.%s is stored into a delivered sequence but afterwards %s on some path: later parsing overwrites a sequence the consumer already holds", a.field, what)
			}
		}
	}
}

func c08TimerHazard(c *Ctx) {
	pk := c.P.Pkg("ansi")
	info := pk.TypesInfo
	for _, fi := range c.P.FuncsIn("ansi") {
		if fi.Decl.Body == nil {
			continue
		}
		ast.Inspect(fi.Decl.Body, func(n ast.Node) bool {
			call, ok := n.(*ast.CallExpr)
			if !ok {
				return true
			}
			fn := calleeOf(info, call)
			if fn == nil || fullName(fn) != "time.AfterFunc" || len(call.Args) != 2 {
				return true
			}
			// the callback: a literal, or a method value / function of the package
			var lit ast.Node
			var litBody *ast.BlockStmt
			var lg *FG
			switch cb := unparen(call.Args[1]).(type) {
			case *ast.FuncLit:
				lit, litBody = cb, cb.Body
				lg = c.P.GraphOfLit(fi.Pkg, fi.Name+"$timer", cb)
			default:
				if f := calleeOfExpr(info, cb); f != nil {
					if cfi := c.P.FuncOfObj(f); cfi != nil && cfi.Decl.Body != nil {
						lit, litBody = cfi.Decl, cfi.Decl.Body
						lg = c.P.Graph(cfi)
					}
				}
			}
			if lit == nil {
				c.undecided("C08.c", fi.Name+"/timer callback", call.Pos(), "the function passed to time.AfterFunc cannot be resolved to a body")
				return true
			}
			sends := containsNode(litBody, func(m ast.Node) bool {
				c2, ok := m.(*ast.CallExpr)
				if !ok {
					return false
				}
				f2 := calleeOf(info, c2)
				return f2 != nil && f2.Name() == "emit"
			})
			if !sends {
				c.ok("C08.c", fi.Name+"/timer callback does not send", call.Pos(), "no emission from the timer goroutine")
				return true
			}
			// The emission is ordered before run's close iff the callback tests, under the parser
			// mutex, a flag that run sets under the same mutex before closing.
			key := fi.Name + "/timer callback emission ordered before close(sequences)"
			isLock := func(m ast.Node) bool {
				c2, ok := m.(*ast.CallExpr)
				if !ok {
					return false
				}
				sel, ok := c2.Fun.(*ast.SelectorExpr)
				return ok && sel.Sel.Name == "Lock" && canonPath(info, sel.X) == "Parser.mu"
			}
			isUnlock := func(m ast.Node) bool {
				c2, ok := m.(*ast.CallExpr)
				if !ok {
					return false
				}
				if _, isDefer := c.P.Parents(fi.Pkg)[c2].(*ast.DeferStmt); isDefer {
					return false
				}
				sel, ok := c2.Fun.(*ast.SelectorExpr)
				return ok && sel.Sel.Name == "Unlock" && canonPath(info, sel.X) == "Parser.mu"
			}
			okAll := true
			why := ""
			for _, h := range lg.Calls(func(f2 *types.Func, _ *ast.CallExpr) bool { return f2 != nil && f2.Name() == "emit" }) {
				flag := ""
				for _, k := range guardKeys(lg, h.Loc) {
					if strings.HasPrefix(k, "-Parser.") {
						flag = strings.TrimPrefix(k, "-")
					}
				}
				if flag == "" {
					okAll, why = false, "the callback emits without testing a parser flag"
					continue
				}
				// lock held at the emission: a Lock precedes it with no (non-deferred) Unlock in between
				locks := lg.Find(isLock)
				held := false
				for _, lk := range locks {
					if lg.MustPrecede(isLock, h.Loc) && !lg.ReachesAvoiding(lk.Loc, h.Loc, nil) == false && !reachesThrough(lg, lk.Loc, h.Loc, isUnlock) {
						held = true
					}
				}
				if !held {
					okAll, why = false, "the flag test and the emission are not under p.mu"
					continue
				}
				// run sets the flag under the mutex before close(sequences)
				run := c.P.Func("ansi.(*Parser).run")
				if run == nil {
					okAll, why = false, "run not found"
					continue
				}
				rg := c.P.Graph(run)
				isSetStmt := func(m ast.Node) bool {
					as, ok := m.(*ast.AssignStmt)
					if !ok || len(as.Lhs) != 1 || len(as.Rhs) != 1 {
						return false
					}
					tv := info.Types[as.Rhs[0]]
					return lhsPath(info, as.Lhs[0]) == flag && tv.Value != nil && tv.Value.String() == "true"
				}
				// a helper of the package that, on every path, sets the flag while holding p.mu (Lock before the
				// store, no non-deferred Unlock in between) counts as a locked store at its call site
				isSetHelper := func(m ast.Node) bool {
					c2, ok := m.(*ast.CallExpr)
					if !ok {
						return false
					}
					hf := c.P.FuncOfObj(calleeOf(info, c2))
					if hf == nil || hf.Pkg != fi.Pkg || hf.Decl.Body == nil || hf == run {
						return false
					}
					hg := c.P.Graph(hf)
					hsets := hg.Find(isSetStmt)
					if len(hsets) == 0 {
						return false
					}
					if every, _ := hg.MustFollow(Loc{hg.Blocks[0], -1}, isSetStmt); !every {
						return false
					}
					for _, st := range hsets {
						locked := false
						for _, lk := range hg.Find(isLock) {
							if hg.ReachesAvoiding(lk.Loc, st.Loc, nil) && !reachesThrough(hg, lk.Loc, st.Loc, isUnlock) {
								locked = true
							}
						}
						if !locked {
							return false
						}
					}
					return true
				}
				isSet := func(m ast.Node) bool { return isSetStmt(m) || isSetHelper(m) }
				closes := rg.Find(func(m ast.Node) bool {
					c2, ok := m.(*ast.CallExpr)
					if !ok || len(c2.Args) != 1 {
						return false
					}
					id, ok := c2.Fun.(*ast.Ident)
					return ok && id.Name == "close" && canonPath(info, c2.Args[0]) == "Parser.sequences"
				})
				sets := rg.Find(isSet)
				if len(closes) == 0 || len(sets) == 0 {
					okAll, why = false, "run does not set "+flag+" before closing the channel"
					continue
				}
				for _, cl := range closes {
					if !rg.MustPrecede(isSet, cl.Loc) {
						okAll, why = false, "close(sequences) is reachable in run without "+flag+" = true"
					}
				}
				for _, st := range sets {
					lockedSet := isSetHelper(st.Node)
					for _, lk := range rg.Find(isLock) {
						if rg.ReachesAvoiding(lk.Loc, st.Loc, nil) && !reachesThrough(rg, lk.Loc, st.Loc, isUnlock) {
							lockedSet = true
						}
					}
					if !lockedSet {
						okAll, why = false, "run sets "+flag+" without holding p.mu"
					}
				}
			}
			if okAll {
				c.ok("C08.c", key, lit.Pos(), "callback tests a done flag under p.mu; run sets it under p.mu before close(sequences)")
			} else {
				c.bad("C08.c", key, lit.Pos(), "the time.AfterFunc callback sends on the sequence channel from its own goroutine and is not ordered before run's close(p.sequences) (%s; Timer.Stop does not wait for a running callback): panic `send on closed channel` when input ends about 10 ms after a lone ESC", why)
			}
			return true
		})
	}
}

// reachesThrough: is `to` reachable from just after `from` ONLY... no: is there a path from `from` to `to`
// that passes a node satisfying pred? (approximation used for lock regions: true if every path is clean
// is what callers want, so this returns true when some path passes pred.)
func reachesThrough(g *FG, from, to Loc, pred func(ast.Node) bool) bool {
	// to is reachable avoiding pred on all paths iff ReachesAvoiding(from,to,pred) covers every path;
	// we answer conservatively: some path passes pred iff the set of blocks between contains a pred node.
	region := g.blocksBetween(from.B, to.B)
	for b := range region {
		for i, n := range b.Nodes {
			if b == from.B && i <= from.Idx {
				continue
			}
			if b == to.B && i >= to.Idx {
				break
			}
			if containsNode(n, pred) {
				return true
			}
		}
	}
	return false
}
