package main

// C20.g — bounded evaluation of a cell count the pattern recogniser (c20CellCount) does not know.
//
// The value a Resize method stores as its CellSize is, on one path of the executor, an arithmetic term over
//   - one pixel extent e of the image resizeImage returned,
//   - the cell pixel extent d that was passed to resizeImage,
//   - integer constants,
// and the path carries facts about sub-terms (remainder tests, comparisons, intervals). Such a term is a
// function of two small integers, so the obligation "stored value = ceil(e/d)" is decided by evaluating the term
// for every (e, d) of a bounded grid that is consistent with the facts of the path:
//
//   value > ceil(e/d) for a consistent (e, d)   VIOLATED  - resizeImage returns an image of e pixels for the box
//                                               ceil(e/d) (an image that fits is handed back untouched; a scaled
//                                               one is made to fit exactly), so CellSize exceeds the box.
//                                               The typical form is a numerator rounded up before the division
//                                               ((e+5)/6*6, e + (6 - e%6), a padding loop): f(e) >= e, f != id.
//   value < ceil(e/d) for a consistent (e, d)   VIOLATED  - the count rounds down (as the pattern rule says)
//   value = ceil(e/d) on the whole grid         OK        - an exact reformulation ((e+d-1)/d, (e-1)/d+1 under
//                                               e > 0, e/d + (e%d+d-1)/d, ...)
//   the term has another leaf (a call, a field, a float operation)   not judged here (UNDECIDED as before)
//
// Helpers are not an obstacle: the executor runs them in the caller's state (c20ip.go), so what arrives here is
// the term they computed on the path taken.

import (
	"fmt"
	"go/token"
	"go/types"
	"sort"
)

func c20IsFloat(t types.Type) bool {
	if t == nil {
		return false
	}
	b, ok := t.Underlying().(*types.Basic)
	return ok && b.Info()&types.IsFloat != 0
}

const (
	c20EvalMaxE = 50 // pixel extents 1..50
	c20EvalMaxD = 20 // cell pixel extents 20..1
)

type c20Evaluator struct {
	ext   *c20Val // the extent leaf
	den   *c20Val // the cell pixel extent handed to resizeImage (nil: none)
	e, d  int64
	cache map[int]c20EvalRes
}

type c20EvalRes struct {
	v  int64
	ok bool
}

// leaves collects the non-constant leaves of the integer term v; ok=false if v contains something that is not
// integer arithmetic over extents, den and constants.
func (ev *c20Evaluator) leaves(v *c20Val, exts map[*c20Val]bool, usesDen *bool, seen map[int]bool) bool {
	if v == nil {
		return false
	}
	if ev.den != nil && v.id == ev.den.id {
		*usesDen = true
		return true
	}
	if seen[v.id] {
		return true
	}
	seen[v.id] = true
	switch v.kind {
	case "const":
		return v.hasK
	case "ext", "extmax":
		exts[v] = true
		return true
	case "inc":
		return ev.leaves(v.base, exts, usesDen, seen)
	case "bin":
		if v.flt || len(v.args) != 2 {
			return false
		}
		switch v.op {
		case token.ADD, token.SUB, token.MUL, token.QUO, token.REM, token.SHL, token.SHR, token.AND, token.OR, token.XOR, token.AND_NOT:
			return ev.leaves(v.args[0], exts, usesDen, seen) && ev.leaves(v.args[1], exts, usesDen, seen)
		}
	case "min", "max":
		if v.flt || len(v.args) == 0 {
			return false
		}
		for _, a := range v.args {
			if !ev.leaves(a, exts, usesDen, seen) {
				return false
			}
		}
		return true
	}
	return false
}

// value of v under the current assignment; ok=false: not evaluable (foreign leaf, division by zero, overflow).
func (ev *c20Evaluator) val(v *c20Val) (int64, bool) {
	if v == nil {
		return 0, false
	}
	if ev.den != nil && v.id == ev.den.id {
		return ev.d, true
	}
	if v == ev.ext {
		return ev.e, true
	}
	if r, ok := ev.cache[v.id]; ok {
		return r.v, r.ok
	}
	r, ok := ev.val1(v)
	if ok && (r > 1<<40 || r < -(1<<40)) {
		ok = false
	}
	ev.cache[v.id] = c20EvalRes{r, ok}
	return r, ok
}

func (ev *c20Evaluator) val1(v *c20Val) (int64, bool) {
	switch v.kind {
	case "const":
		return v.k, v.hasK
	case "inc":
		b, ok := ev.val(v.base)
		return b + int64(v.inc), ok
	case "bin":
		if v.flt || len(v.args) != 2 {
			return 0, false
		}
		a, ok1 := ev.val(v.args[0])
		b, ok2 := ev.val(v.args[1])
		if !ok1 || !ok2 {
			return 0, false
		}
		switch v.op {
		case token.ADD:
			return a + b, true
		case token.SUB:
			return a - b, true
		case token.MUL:
			return a * b, true
		case token.QUO:
			if b == 0 {
				return 0, false
			}
			return a / b, true
		case token.REM:
			if b == 0 {
				return 0, false
			}
			return a % b, true
		case token.SHL:
			if b < 0 || b > 30 {
				return 0, false
			}
			return a << uint(b), true
		case token.SHR:
			if b < 0 || b > 62 {
				return 0, false
			}
			return a >> uint(b), true
		case token.AND:
			return a & b, true
		case token.OR:
			return a | b, true
		case token.XOR:
			return a ^ b, true
		case token.AND_NOT:
			return a &^ b, true
		}
	case "min", "max":
		if v.flt || len(v.args) == 0 {
			return 0, false
		}
		var out int64
		for i, a := range v.args {
			n, ok := ev.val(a)
			if !ok {
				return 0, false
			}
			if i == 0 || (v.kind == "min" && n < out) || (v.kind == "max" && n > out) {
				out = n
			}
		}
		return out, true
	}
	return 0, false
}

func c20RelHolds(a, b int64, allowed uint8) bool {
	switch {
	case a < b:
		return allowed&c20LT != 0
	case a == b:
		return allowed&c20EQ != 0
	}
	return allowed&c20GT != 0
}

// consistent: does the current assignment satisfy every fact of the path whose operands are evaluable?
func (ev *c20Evaluator) consistent(st *c20State, byID map[int]*c20Val, rels [][2]int) bool {
	for id, r := range st.iv {
		if v := byID[id]; v != nil {
			if n, ok := ev.val(v); ok && (n < r[0] || n > r[1]) {
				return false
			}
		}
	}
	for _, k := range rels {
		a, b := byID[k[0]], byID[k[1]]
		if a == nil || b == nil {
			continue
		}
		x, ok1 := ev.val(a)
		y, ok2 := ev.val(b)
		if ok1 && ok2 && !c20RelHolds(x, y, st.rel[k]) {
			return false
		}
	}
	if len(st.rem) > 0 {
		for _, v := range st.vals {
			if v.kind != "bin" || v.op != token.REM || len(v.args) != 2 {
				continue
			}
			nz, known := st.rem[c20RemKey(v.args[0], v.args[1])]
			if !known {
				continue
			}
			if n, ok := ev.val(v); ok && (n != 0) != nz {
				return false
			}
		}
	}
	return true
}

type c20EvalVerdict struct {
	decided bool
	cells   c20Cells // ok, ext, den, status, why filled in for the caller's switch
	// witness of a difference
	e, d, got, want int64
	padded          string // the numerator is a rounded-up extent: its text and an example
}

// c20EvalCellCount decides fv = ceil(ext/den) by evaluation. den is the cell pixel extent resizeImage received.
func c20EvalCellCount(st *c20State, fv, den *c20Val) c20EvalVerdict {
	if fv == nil || den == nil {
		return c20EvalVerdict{}
	}
	ev := &c20Evaluator{den: den}
	dLo, dHi := int64(1), int64(c20EvalMaxD)
	if den.kind == "const" {
		if !den.hasK || den.k <= 0 {
			return c20EvalVerdict{}
		}
		ev.den = nil // a constant cell extent is evaluated as what it is
		dLo, dHi = den.k, den.k
	}
	exts := map[*c20Val]bool{}
	usesDen := false
	if !ev.leaves(fv, exts, &usesDen, map[int]bool{}) || len(exts) != 1 {
		return c20EvalVerdict{}
	}
	if ev.den != nil && !usesDen {
		return c20EvalVerdict{} // a term that ignores the cell extent it was told: not a reformulation of the count
	}
	for e := range exts {
		ev.ext = e
	}
	// opaque conditions on the extent or the cell extent decide feasibility in a way the evaluation cannot see:
	// nothing is claimed under them
	for _, leaf := range []*c20Val{ev.ext, den} {
		for d := range leaf.deps {
			if st.opqDep[d] {
				return c20EvalVerdict{}
			}
		}
	}
	byID := make(map[int]*c20Val, len(st.vals))
	for _, v := range st.vals {
		byID[v.id] = v
	}
	rels := make([][2]int, 0, len(st.rel))
	for k := range st.rel {
		rels = append(rels, k)
	}
	sort.Slice(rels, func(i, j int) bool {
		if rels[i][0] != rels[j][0] {
			return rels[i][0] < rels[j][0]
		}
		return rels[i][1] < rels[j][1]
	})
	// a comparison of a term over the extent with something the grid does not range over (the box, a field)
	// restricts the extents that reach this point in a way the evaluation cannot see: no witness is claimed then
	partial := false
	mentions := func(v *c20Val) (evaluable, dependent bool) {
		if v == nil {
			return false, false
		}
		ex := map[*c20Val]bool{}
		ud := false
		if !ev.leaves(v, ex, &ud, map[int]bool{}) {
			return false, false
		}
		return true, ex[ev.ext] || ud
	}
	for _, k := range rels {
		a, b := byID[k[0]], byID[k[1]]
		if a == nil || b == nil || st.rel[k] == c20LT|c20EQ|c20GT {
			continue
		}
		ea, da := mentions(a)
		eb, db := mentions(b)
		if (ea && da && !eb) || (eb && db && !ea) {
			partial = true
		}
	}
	out := c20EvalVerdict{cells: c20Cells{ok: true, ext: ev.ext, den: den}}
	// the quantities whose cell count fv is: a quantity other than the extent that is never below it and
	// sometimes above is a rounded-up (padded) extent
	var cands []*c20Val
	if ev.den != nil {
		ev.denFreeTerms(fv, &cands, map[int]bool{})
	} else if q := c20QuoOf(fv); q != nil {
		cands = []*c20Val{q.args[0]}
	}
	notBelow := make([]bool, len(cands))
	for i, p := range cands {
		notBelow[i] = p != ev.ext
	}
	feasible := 0
	var over, under *c20EvalVerdict
	for d := dHi; d >= dLo; d-- {
		for e := int64(1); e <= c20EvalMaxE; e++ { // (an empty image is not a witness of anything)
			ev.e, ev.d = e, d
			ev.cache = map[int]c20EvalRes{}
			if !ev.consistent(st, byID, rels) {
				continue
			}
			got, ok := ev.val(fv)
			if !ok {
				continue
			}
			feasible++
			for i, p := range cands {
				if n, ok := ev.val(p); notBelow[i] && (!ok || n < e) {
					notBelow[i] = false
				}
			}
			want := (e + d - 1) / d
			switch {
			case got > want && over == nil:
				over = &c20EvalVerdict{e: e, d: d, got: got, want: want}
			case got < want && under == nil:
				under = &c20EvalVerdict{e: e, d: d, got: got, want: want}
			}
		}
	}
	w := over
	if w == nil {
		w = under
	} else {
		ev.e, ev.d, ev.cache = w.e, w.d, map[int]c20EvalRes{}
		for i, p := range cands {
			if n, ok := ev.val(p); notBelow[i] && ok && n > w.e {
				w.padded = fmt.Sprintf("%s, never below the extent and %d for an extent of %d pixels", p.disp, n, w.e)
				break
			}
		}
	}
	switch {
	case feasible == 0:
		return c20EvalVerdict{}
	case w != nil && partial:
		return c20EvalVerdict{}
	case w != nil:
		out.decided = true
		out.e, out.d, out.got, out.want, out.padded = w.e, w.d, w.got, w.want, w.padded
		out.cells.status = 3
	default:
		out.decided = true
		out.cells.status = 1
		out.cells.why = fmt.Sprintf("%s equals ceil(%s / cell extent) for every extent 1..%d and cell extent %d..%d consistent with the path (%d evaluated)",
			fv.disp, ev.ext.disp, c20EvalMaxE, dLo, dHi, feasible)
	}
	return out
}

// denFreeTerms: the maximal sub-terms of v that mention the extent but not the cell extent - the quantities
// whose cell count v takes.
func (ev *c20Evaluator) denFreeTerms(v *c20Val, out *[]*c20Val, seen map[int]bool) (hasExt, hasDen bool) {
	if v == nil {
		return false, false
	}
	if ev.den != nil && v.id == ev.den.id {
		return false, true
	}
	if v == ev.ext {
		return true, false
	}
	var kids []*c20Val
	switch v.kind {
	case "inc":
		kids = []*c20Val{v.base}
	case "bin", "min", "max":
		kids = v.args
	default:
		return false, false
	}
	type r struct{ e, d bool }
	rs := make([]r, len(kids))
	var sub []*c20Val
	for i, k := range kids {
		rs[i].e, rs[i].d = ev.denFreeTerms(k, &sub, seen)
		hasExt = hasExt || rs[i].e
		hasDen = hasDen || rs[i].d
	}
	if !hasDen {
		return hasExt, false // the caller decides whether this is maximal
	}
	// v mentions the cell extent: its den-free children that mention the extent are maximal
	for i, k := range kids {
		if rs[i].e && !rs[i].d && !seen[k.id] {
			seen[k.id] = true
			*out = append(*out, k)
		}
	}
	*out = append(*out, sub...)
	return hasExt, true
}

// c20QuoOf: the quotient a cell count is (an increment of), or nil.
func c20QuoOf(v *c20Val) *c20Val {
	if v != nil && v.kind == "inc" {
		v = v.base
	}
	if v == nil || v.kind != "bin" || v.op != token.QUO || len(v.args) != 2 {
		return nil
	}
	return v
}
