package main

// A small concrete interpreter over the AST, used where a function's behaviour
// depends only on integer/boolean/function-valued locals and on a handful of
// tracked fields of one receiver-like object (the parser). Anything it cannot
// evaluate becomes "unknown"; branching on unknown is reported (undecided),
// never guessed.

import (
	"fmt"
	"go/ast"
	"go/constant"
	"go/token"
	"go/types"
	"sort"
	"strings"
)

type vkind int

const (
	vUnknown vkind = iota
	vInt
	vBool
	vFunc // function or method value
	vNil
	vObj // the tracked object itself (e.g. the *Parser)
)

type val struct {
	k  vkind
	i  int64
	b  bool
	fn *types.Func
}

func (v val) String() string {
	switch v.k {
	case vInt:
		return fmt.Sprintf("%d", v.i)
	case vBool:
		return fmt.Sprintf("%v", v.b)
	case vFunc:
		return v.fn.Name()
	case vNil:
		return "nil"
	case vObj:
		return "<obj>"
	}
	return "?"
}

// Machine interprets functions of one package.
type Machine struct {
	info     *types.Info
	prog     *Program
	objType  types.Type         // type of the tracked object (pointer)
	fields   map[string]val     // tracked fields of the object
	actions  []string           // recorded effects, in order
	problems []string           // reasons the run is undecided
	tracked  func(f *types.Var) bool
	depth    int
	funcDecl func(fn *types.Func) *ast.FuncDecl
	// onMethod is called for a method call on the tracked object; it returns true if it handled the call.
	onMethod func(m *Machine, fn *types.Func, call *ast.CallExpr, args []val) bool
	// resolve, if set, supplies values for expressions (e.g. capability flags from an assignment).
	resolve func(e ast.Expr) (val, bool)
	// onCall, if set, intercepts calls of any statically resolved function.
	onCall func(m *Machine, fn *types.Func, call *ast.CallExpr, args []val) (val, bool)
}

type frame struct {
	env    map[types.Object]val
	defers []func()
	ret    []val
	done   bool
}

func (m *Machine) problem(format string, a ...any) {
	m.problems = append(m.problems, fmt.Sprintf(format, a...))
}

func (m *Machine) act(format string, a ...any) {
	m.actions = append(m.actions, fmt.Sprintf(format, a...))
}

func (m *Machine) snapshot() string {
	keys := make([]string, 0, len(m.fields))
	for k := range m.fields {
		keys = append(keys, k)
	}
	sort.Strings(keys)
	var sb strings.Builder
	for _, k := range keys {
		fmt.Fprintf(&sb, "%s=%s;", k, m.fields[k])
	}
	return sb.String()
}

// callFunc interprets fn's declaration with the given argument values.
func (m *Machine) callDecl(fd *ast.FuncDecl, args []val) []val {
	if fd == nil || fd.Body == nil {
		m.problem("no body")
		return nil
	}
	m.depth++
	defer func() { m.depth-- }()
	if m.depth > 8 {
		m.problem("call depth exceeded in %s", fd.Name.Name)
		return nil
	}
	fr := &frame{env: map[types.Object]val{}}
	i := 0
	if fd.Recv != nil {
		for _, f := range fd.Recv.List {
			for _, n := range f.Names {
				fr.env[m.info.Defs[n]] = val{k: vObj}
			}
		}
	}
	for _, f := range fd.Type.Params.List {
		for _, n := range f.Names {
			if i < len(args) {
				fr.env[m.info.Defs[n]] = args[i]
			}
			i++
		}
	}
	if fd.Type.Results != nil {
		for _, f := range fd.Type.Results.List {
			for _, n := range f.Names {
				fr.env[m.info.Defs[n]] = val{}
			}
		}
	}
	m.block(fr, fd.Body.List)
	for j := len(fr.defers) - 1; j >= 0; j-- {
		fr.defers[j]()
	}
	return fr.ret
}

func (m *Machine) block(fr *frame, list []ast.Stmt) {
	for _, s := range list {
		if fr.done {
			return
		}
		m.stmt(fr, s)
	}
}

func (m *Machine) stmt(fr *frame, s ast.Stmt) {
	switch s := s.(type) {
	case *ast.BlockStmt:
		m.block(fr, s.List)
	case *ast.ExprStmt:
		m.expr(fr, s.X)
	case *ast.ReturnStmt:
		fr.ret = nil
		for _, r := range s.Results {
			fr.ret = append(fr.ret, m.expr(fr, r))
		}
		fr.done = true
	case *ast.IfStmt:
		if s.Init != nil {
			m.stmt(fr, s.Init)
		}
		c := m.expr(fr, s.Cond)
		if c.k != vBool {
			// a branch on an untracked condition is harmless if neither arm can affect what is tracked
			if m.inert(fr, s.Body) && (s.Else == nil || m.inert(fr, s.Else)) {
				return
			}
			m.problem("branch on unknown condition %s", types.ExprString(s.Cond))
			fr.done = true
			return
		}
		if c.b {
			m.block(fr, s.Body.List)
		} else if s.Else != nil {
			m.stmt(fr, s.Else)
		}
	case *ast.SwitchStmt:
		if s.Init != nil {
			m.stmt(fr, s.Init)
		}
		var tag val
		if s.Tag != nil {
			tag = m.expr(fr, s.Tag)
			if tag.k == vUnknown {
				m.problem("switch on unknown tag %s", types.ExprString(s.Tag))
				fr.done = true
				return
			}
		}
		var def *ast.CaseClause
		for _, cl := range s.Body.List {
			cc := cl.(*ast.CaseClause)
			if cc.List == nil {
				def = cc
				continue
			}
			for _, e := range cc.List {
				v := m.expr(fr, e)
				match := false
				if s.Tag == nil {
					if v.k != vBool {
						m.problem("case on unknown condition %s", types.ExprString(e))
						fr.done = true
						return
					}
					match = v.b
				} else {
					if v.k == vUnknown {
						m.problem("case on unknown value %s", types.ExprString(e))
						fr.done = true
						return
					}
					match = valEq(tag, v)
				}
				if match {
					m.caseBody(fr, cc)
					return
				}
			}
		}
		if def != nil {
			m.caseBody(fr, def)
		}
	case *ast.AssignStmt:
		if len(s.Lhs) == 2 && len(s.Rhs) == 1 {
			if ix, ok := unparen(s.Rhs[0]).(*ast.IndexExpr); ok {
				if v, found, ok := m.tableLookup(fr, ix); ok {
					m.assign(fr, s.Lhs[0], v, s)
					m.assign(fr, s.Lhs[1], val{k: vBool, b: found}, s)
					return
				}
			}
		}
		if len(s.Lhs) != len(s.Rhs) {
			// multi-value call: evaluate for effects, results unknown
			for _, r := range s.Rhs {
				m.expr(fr, r)
			}
			for _, l := range s.Lhs {
				m.assign(fr, l, val{}, s)
			}
			return
		}
		vals := make([]val, len(s.Rhs))
		for i, r := range s.Rhs {
			if s.Tok != token.ASSIGN && s.Tok != token.DEFINE {
				vals[i] = val{} // compound assignment: unknown
				m.expr(fr, r)
				continue
			}
			vals[i] = m.exprFor(fr, r, s.Lhs[i])
		}
		for i, l := range s.Lhs {
			m.assign(fr, l, vals[i], s)
		}
	case *ast.DeclStmt:
		if gd, ok := s.Decl.(*ast.GenDecl); ok {
			for _, sp := range gd.Specs {
				if vs, ok := sp.(*ast.ValueSpec); ok {
					for i, n := range vs.Names {
						v := m.zero(m.info.Defs[n].Type())
						if i < len(vs.Values) {
							v = m.expr(fr, vs.Values[i])
						}
						fr.env[m.info.Defs[n]] = v
					}
				}
			}
		}
	case *ast.DeferStmt:
		call := s.Call
		if lit, ok := call.Fun.(*ast.FuncLit); ok && len(call.Args) == 0 {
			fr.defers = append(fr.defers, func() {
				inner := &frame{env: fr.env}
				m.block(inner, lit.Body.List)
			})
		} else {
			fr.defers = append(fr.defers, func() { m.expr(fr, call) })
		}
	case *ast.IncDecStmt:
		m.assign(fr, s.X, val{}, s)
	case *ast.EmptyStmt:
	case *ast.BranchStmt:
		if s.Tok == token.BREAK {
			// only meaningful inside switch case bodies: handled by caseBody
			fr.done = true
			fr.ret = []val{{k: vUnknown}}
			m.problem("unsupported branch statement")
		}
	default:
		m.problem("unsupported statement %T", s)
		fr.done = true
	}
}

func (m *Machine) caseBody(fr *frame, cc *ast.CaseClause) {
	for _, s := range cc.Body {
		if fr.done {
			return
		}
		if br, ok := s.(*ast.BranchStmt); ok && br.Tok == token.BREAK && br.Label == nil {
			return
		}
		m.stmt(fr, s)
	}
}

func (m *Machine) zero(t types.Type) val {
	switch u := t.Underlying().(type) {
	case *types.Basic:
		if u.Info()&types.IsBoolean != 0 {
			return val{k: vBool}
		}
		if u.Info()&types.IsInteger != 0 {
			return val{k: vInt}
		}
	case *types.Signature, *types.Pointer, *types.Slice, *types.Map, *types.Chan, *types.Interface:
		return val{k: vNil}
	}
	return val{}
}

func valEq(a, b val) bool {
	if a.k != b.k {
		return false
	}
	switch a.k {
	case vInt:
		return a.i == b.i
	case vBool:
		return a.b == b.b
	case vFunc:
		return a.fn == b.fn
	case vNil:
		return true
	}
	return false
}

// fieldOfObj: if e is <tracked object>.<field>, return the field.
func (m *Machine) fieldOfObj(fr *frame, e ast.Expr) (*types.Var, bool) {
	sel, ok := e.(*ast.SelectorExpr)
	if !ok {
		return nil, false
	}
	s, ok := m.info.Selections[sel]
	if !ok || s.Kind() != types.FieldVal {
		return nil, false
	}
	if !m.isObjExpr(fr, sel.X) {
		return nil, false
	}
	f, _ := s.Obj().(*types.Var)
	return f, f != nil
}

func (m *Machine) isObjExpr(fr *frame, e ast.Expr) bool {
	t := m.info.TypeOf(e)
	return t != nil && m.objType != nil && types.Identical(t, m.objType)
}

func (m *Machine) assign(fr *frame, lhs ast.Expr, v val, at ast.Node) {
	switch l := lhs.(type) {
	case *ast.Ident:
		if l.Name == "_" {
			return
		}
		if o := m.info.ObjectOf(l); o != nil {
			fr.env[o] = v
		}
		return
	}
	if f, ok := m.fieldOfObj(fr, lhs); ok {
		if m.tracked(f) {
			m.fields[f.Name()] = v
			if v.k == vUnknown {
				m.problem("tracked field %s assigned an unknown value", f.Name())
			}
			return
		}
		// untracked field of the object: record as an effect
		desc := "set:" + f.Name()
		if a, ok := m.appendToSelf(fr, lhs, at); ok {
			desc = "append:" + f.Name() + a
		}
		m.act("%s", desc)
		return
	}
	// nested field of object (p.dcs.Data = ...) or anything else: record root if it is the object
	if sel, ok := lhs.(*ast.SelectorExpr); ok {
		if f, ok := m.fieldOfObj(fr, sel.X); ok {
			if a, ok := m.appendToSelf(fr, lhs, at); ok {
				m.act("append:%s.%s%s", f.Name(), sel.Sel.Name, a)
				return
			}
			m.act("set:%s.%s", f.Name(), sel.Sel.Name)
			return
		}
	}
}

// appendToSelf: the assignment `lhs = append(lhs, v...)`; returns the appended values as "(v1,v2)".
func (m *Machine) appendToSelf(fr *frame, lhs ast.Expr, at ast.Node) (string, bool) {
	as, ok := at.(*ast.AssignStmt)
	if !ok || len(as.Rhs) != 1 || len(as.Lhs) != 1 {
		return "", false
	}
	call, ok := as.Rhs[0].(*ast.CallExpr)
	if !ok || len(call.Args) < 2 {
		return "", false
	}
	id, ok := call.Fun.(*ast.Ident)
	if !ok || id.Name != "append" {
		return "", false
	}
	if _, isB := m.info.Uses[id].(*types.Builtin); !isB {
		return "", false
	}
	if types.ExprString(unparen(call.Args[0])) != types.ExprString(unparen(lhs)) {
		return "", false
	}
	var vs []string
	for _, a := range call.Args[1:] {
		vs = append(vs, m.expr(fr, a).String())
	}
	return "(" + strings.Join(vs, ",") + ")", true
}

// exprFor evaluates rhs knowing the lhs it is stored to (used to recognise append-to-self).
func (m *Machine) exprFor(fr *frame, rhs ast.Expr, lhs ast.Expr) val {
	if call, ok := rhs.(*ast.CallExpr); ok {
		if id, ok := call.Fun.(*ast.Ident); ok && id.Name == "append" {
			if _, isB := m.info.Uses[id].(*types.Builtin); isB {
				return val{}
			}
		}
	}
	return m.expr(fr, rhs)
}

func (m *Machine) expr(fr *frame, e ast.Expr) val {
	if tv, ok := m.info.Types[e]; ok && tv.Value != nil {
		switch tv.Value.Kind() {
		case constant.Int:
			if i, ok := constant.Int64Val(tv.Value); ok {
				return val{k: vInt, i: i}
			}
		case constant.Bool:
			return val{k: vBool, b: constant.BoolVal(tv.Value)}
		}
		return val{}
	}
	switch e := e.(type) {
	case *ast.ParenExpr:
		return m.expr(fr, e.X)
	case *ast.Ident:
		if e.Name == "nil" {
			if _, ok := m.info.Uses[e].(*types.Nil); ok {
				return val{k: vNil}
			}
		}
		o := m.info.ObjectOf(e)
		if v, ok := fr.env[o]; ok {
			return v
		}
		if fn, ok := o.(*types.Func); ok {
			return val{k: vFunc, fn: fn}
		}
		return val{}
	case *ast.SelectorExpr:
		if m.resolve != nil {
			if v, ok := m.resolve(e); ok {
				return v
			}
		}
		if f, ok := m.fieldOfObj(fr, e); ok {
			if m.tracked(f) {
				if v, ok := m.fields[f.Name()]; ok {
					return v
				}
				return m.zero(f.Type())
			}
			return val{}
		}
		// method value on the tracked object: p.oscEnd
		if s, ok := m.info.Selections[e]; ok && s.Kind() == types.MethodVal && m.isObjExpr(fr, e.X) {
			return val{k: vFunc, fn: s.Obj().(*types.Func)}
		}
		return val{}
	case *ast.UnaryExpr:
		x := m.expr(fr, e.X)
		switch e.Op {
		case token.NOT:
			if x.k == vBool {
				return val{k: vBool, b: !x.b}
			}
		case token.SUB:
			if x.k == vInt {
				return val{k: vInt, i: -x.i}
			}
		}
		return val{}
	case *ast.BinaryExpr:
		if e.Op == token.LAND || e.Op == token.LOR {
			x := m.expr(fr, e.X)
			if x.k == vBool {
				if e.Op == token.LAND && !x.b {
					return val{k: vBool, b: false}
				}
				if e.Op == token.LOR && x.b {
					return val{k: vBool, b: true}
				}
				y := m.expr(fr, e.Y)
				if y.k == vBool {
					return y
				}
			}
			return val{}
		}
		x, y := m.expr(fr, e.X), m.expr(fr, e.Y)
		if e.Op == token.EQL || e.Op == token.NEQ {
			if x.k == vUnknown || y.k == vUnknown {
				return val{}
			}
			// func compared with nil
			eq := valEq(x, y)
			if (x.k == vFunc && y.k == vNil) || (x.k == vNil && y.k == vFunc) {
				eq = false
			}
			if e.Op == token.NEQ {
				eq = !eq
			}
			return val{k: vBool, b: eq}
		}
		if x.k == vInt && y.k == vInt {
			switch e.Op {
			case token.LSS:
				return val{k: vBool, b: x.i < y.i}
			case token.LEQ:
				return val{k: vBool, b: x.i <= y.i}
			case token.GTR:
				return val{k: vBool, b: x.i > y.i}
			case token.GEQ:
				return val{k: vBool, b: x.i >= y.i}
			case token.ADD:
				return val{k: vInt, i: x.i + y.i}
			case token.SUB:
				return val{k: vInt, i: x.i - y.i}
			case token.AND:
				return val{k: vInt, i: x.i & y.i}
			case token.OR:
				return val{k: vInt, i: x.i | y.i}
			}
		}
		return val{}
	case *ast.CallExpr:
		return m.call(fr, e)
	case *ast.FuncLit:
		return val{}
	case *ast.IndexExpr:
		if v, _, ok := m.tableLookup(fr, e); ok {
			return v
		}
		return val{}
	}
	return val{}
}

// tableLookup evaluates T[k] where T is a package-level variable that is only ever initialised (never
// stored to) with a map, array or slice literal of constant keys, and k evaluates to an integer.
// ok=false: not such a table. found=false: the key is absent (v is the element type's zero value).
func (m *Machine) tableLookup(fr *frame, ix *ast.IndexExpr) (v val, found bool, ok bool) {
	id, isId := unparen(ix.X).(*ast.Ident)
	if !isId || m.prog == nil {
		return val{}, false, false
	}
	obj, _ := m.info.Uses[id].(*types.Var)
	if obj == nil || obj.Pkg() == nil || obj.Parent() != obj.Pkg().Scope() {
		return val{}, false, false
	}
	lit := m.prog.ReadOnlyTable(obj)
	if lit == nil {
		return val{}, false, false
	}
	k := m.expr(fr, ix.Index)
	if k.k != vInt {
		return val{}, false, false
	}
	var elem types.Type
	switch u := obj.Type().Underlying().(type) {
	case *types.Map:
		elem = u.Elem()
	case *types.Slice:
		elem = u.Elem()
	case *types.Array:
		elem = u.Elem()
	default:
		return val{}, false, false
	}
	_, isMap := obj.Type().Underlying().(*types.Map)
	pos := int64(0)
	for _, el := range lit.Elts {
		value := el
		if kv, isKV := el.(*ast.KeyValueExpr); isKV {
			kvv := m.expr(fr, kv.Key)
			if kvv.k != vInt {
				return val{}, false, false
			}
			pos = kvv.i
			value = kv.Value
		} else if isMap {
			return val{}, false, false
		}
		if pos == k.i {
			return m.expr(fr, value), true, true
		}
		pos++
	}
	if !isMap {
		return val{}, false, false // out of range / unset array slot: not modelled
	}
	return m.zero(elem), false, true
}

func (m *Machine) call(fr *frame, call *ast.CallExpr) val {
	// conversion: T(x)
	if tv, ok := m.info.Types[call.Fun]; ok && tv.IsType() {
		if len(call.Args) == 1 {
			v := m.expr(fr, call.Args[0])
			if v.k == vInt {
				return v
			}
		}
		return val{}
	}
	args := make([]val, len(call.Args))
	for i, a := range call.Args {
		args[i] = m.expr(fr, a)
	}
	// dynamic call through a tracked func-typed field: p.exit(), p.state(r, p)
	if f, ok := m.fieldOfObj(fr, call.Fun); ok && m.tracked(f) {
		target := m.fields[f.Name()]
		switch target.k {
		case vFunc:
			return m.invoke(fr, target.fn, call, args, "via:"+f.Name())
		case vNil:
			m.act("NILCALL:%s", f.Name())
			m.problem("call of nil function field %s", f.Name())
			return val{}
		default:
			m.problem("call through unknown function field %s", f.Name())
			return val{}
		}
	}
	fn := calleeOf(m.info, call)
	if fn == nil {
		if id, ok := call.Fun.(*ast.Ident); ok {
			if _, isB := m.info.Uses[id].(*types.Builtin); isB {
				return val{}
			}
		}
		return val{}
	}
	return m.invoke(fr, fn, call, args, "")
}

func (m *Machine) invoke(fr *frame, fn *types.Func, call *ast.CallExpr, args []val, how string) val {
	if m.onCall != nil {
		if v, ok := m.onCall(m, fn, call, args); ok {
			return v
		}
	}
	sig := fn.Type().(*types.Signature)
	if sig.Recv() != nil && types.Identical(sig.Recv().Type(), m.objType) {
		if m.onMethod != nil && m.onMethod(m, fn, call, args) {
			return val{}
		}
		return val{}
	}
	if sig.Recv() == nil && fn.Pkg() != nil && m.funcDecl != nil {
		if fd := m.funcDecl(fn); fd != nil {
			ret := m.callDecl(fd, args)
			if len(ret) == 1 {
				return ret[0]
			}
			return val{}
		}
	}
	return val{}
}

// inert: the statement contains no return/branch, no assignment to a tracked field or to a local,
// and no call of a method of the tracked object or of an interpreted repository function.
func (m *Machine) inert(fr *frame, n ast.Node) bool {
	ok := true
	ast.Inspect(n, func(x ast.Node) bool {
		switch t := x.(type) {
		case *ast.ReturnStmt, *ast.BranchStmt, *ast.GoStmt, *ast.DeferStmt:
			ok = false
		case *ast.AssignStmt:
			for _, l := range t.Lhs {
				if _, isId := l.(*ast.Ident); isId {
					ok = false
				}
				if f, isF := m.fieldOfObj(fr, l); isF && m.tracked(f) {
					ok = false
				}
			}
		case *ast.IncDecStmt:
			ok = false
		case *ast.CallExpr:
			if f, isF := m.fieldOfObj(fr, t.Fun); isF && m.tracked(f) {
				ok = false
			}
			if fn := calleeOf(m.info, t); fn != nil {
				if sig, _ := fn.Type().(*types.Signature); sig != nil && sig.Recv() != nil && m.objType != nil && types.Identical(sig.Recv().Type(), m.objType) {
					ok = false
				}
				if m.funcDecl != nil && m.funcDecl(fn) != nil {
					ok = false
				}
			}
		}
		return ok
	})
	return ok
}
