package main

// A small concrete interpreter over the AST, used where a function's behaviour
// depends only on integer/boolean/function-valued locals and on a handful of
// tracked fields of one receiver-like object (the parser). Anything it cannot
// evaluate becomes "unknown"; branching on unknown is reported (undecided),
// never guessed.

import (
	"fmt"
	"go/ast"
	"go/constant"
	"go/token"
	"go/types"
	"sort"
	"strings"
)

type vkind int

const (
	vUnknown vkind = iota
	vInt
	vBool
	vFunc // function or method value
	vNil
	vObj // the tracked object itself (e.g. the *Parser)
	vArr    // array or slice value with known elements (constant tables)
	vStruct // struct value with known fields (rows of constant tables)
	vLit    // function literal (closure) bound to the environment it was created in
)

type val struct {
	k   vkind
	i   int64
	b   bool
	fn  *types.Func
	arr []val          // vArr
	fld map[string]val // vStruct
	lit *ast.FuncLit   // vLit
	env map[types.Object]val
}

func (v val) String() string {
	switch v.k {
	case vInt:
		return fmt.Sprintf("%d", v.i)
	case vBool:
		return fmt.Sprintf("%v", v.b)
	case vFunc:
		return v.fn.Name()
	case vNil:
		return "nil"
	case vObj:
		return "<obj>"
	case vArr:
		return fmt.Sprintf("<table of %d>", len(v.arr))
	case vStruct:
		return "<row>"
	case vLit:
		return "<closure>"
	}
	return "?"
}

// Machine interprets functions of one package.
type Machine struct {
	info     *types.Info
	prog     *Program
	objType  types.Type         // type of the tracked object (pointer)
	fields   map[string]val     // tracked fields of the object
	actions  []string           // recorded effects, in order
	problems []string           // reasons the run is undecided
	tracked  func(f *types.Var) bool
	depth    int
	funcDecl func(fn *types.Func) *ast.FuncDecl
	// onMethod is called for a method call on the tracked object; it returns true if it handled the call.
	onMethod func(m *Machine, fn *types.Func, call *ast.CallExpr, args []val) bool
	// resolve, if set, supplies values for expressions (e.g. capability flags from an assignment).
	resolve func(e ast.Expr) (val, bool)
	// onCall, if set, intercepts calls of any statically resolved function.
	onCall func(m *Machine, fn *types.Func, call *ast.CallExpr, args []val) (val, bool)
}

type frame struct {
	env    map[types.Object]val
	defers []func()
	ret    []val
	done   bool
	// pending break/continue (brNone when none); label "" = the innermost breakable statement
	br      int
	brLabel string
}

const (
	brNone = iota
	brBreak
	brContinue
)

// stopped: control has left the current statement list (return, break or continue under way)
func (fr *frame) stopped() bool { return fr.done || fr.br != brNone }

// interpLoopBudget bounds the iterations of one interpreted loop (tables are small)
const interpLoopBudget = 1 << 16

func (m *Machine) problem(format string, a ...any) {
	m.problems = append(m.problems, fmt.Sprintf(format, a...))
}

func (m *Machine) act(format string, a ...any) {
	m.actions = append(m.actions, fmt.Sprintf(format, a...))
}

func (m *Machine) snapshot() string {
	keys := make([]string, 0, len(m.fields))
	for k := range m.fields {
		keys = append(keys, k)
	}
	sort.Strings(keys)
	var sb strings.Builder
	for _, k := range keys {
		fmt.Fprintf(&sb, "%s=%s;", k, m.fields[k])
	}
	return sb.String()
}

// callFunc interprets fn's declaration with the given argument values.
func (m *Machine) callDecl(fd *ast.FuncDecl, args []val) []val {
	if fd == nil || fd.Body == nil {
		m.problem("no body")
		return nil
	}
	m.depth++
	defer func() { m.depth-- }()
	if m.depth > 8 {
		m.problem("call depth exceeded in %s", fd.Name.Name)
		return nil
	}
	fr := &frame{env: map[types.Object]val{}}
	i := 0
	if fd.Recv != nil {
		for _, f := range fd.Recv.List {
			for _, n := range f.Names {
				fr.env[m.info.Defs[n]] = val{k: vObj}
			}
		}
	}
	for _, f := range fd.Type.Params.List {
		for _, n := range f.Names {
			if i < len(args) {
				fr.env[m.info.Defs[n]] = args[i]
			}
			i++
		}
	}
	if fd.Type.Results != nil {
		for _, f := range fd.Type.Results.List {
			for _, n := range f.Names {
				fr.env[m.info.Defs[n]] = val{}
			}
		}
	}
	m.block(fr, fd.Body.List)
	for j := len(fr.defers) - 1; j >= 0; j-- {
		fr.defers[j]()
	}
	return fr.ret
}

func (m *Machine) block(fr *frame, list []ast.Stmt) {
	for _, s := range list {
		if fr.stopped() {
			return
		}
		m.stmt(fr, s)
	}
}

func (m *Machine) stmt(fr *frame, s ast.Stmt) { m.stmtL(fr, s, "") }

// absorbBreak: a pending break that targets the statement just executed (unlabelled, or its own label) ends here
func (fr *frame) absorbBreak(label string) {
	if fr.br == brBreak && (fr.brLabel == "" || (label != "" && fr.brLabel == label)) {
		fr.br, fr.brLabel = brNone, ""
	}
}

// loopControl is called after one execution of a loop body; it reports whether the loop must stop
func (fr *frame) loopControl(label string) (stop bool) {
	if fr.done {
		return true
	}
	switch fr.br {
	case brBreak:
		if fr.brLabel == "" || (label != "" && fr.brLabel == label) {
			fr.br, fr.brLabel = brNone, ""
		}
		return true
	case brContinue:
		if fr.brLabel == "" || (label != "" && fr.brLabel == label) {
			fr.br, fr.brLabel = brNone, ""
			return false
		}
		return true // continue of an outer loop
	}
	return false
}

// stmtL executes s; label is the label attached to s ("" if none)
func (m *Machine) stmtL(fr *frame, s ast.Stmt, label string) {
	switch s := s.(type) {
	case *ast.LabeledStmt:
		m.stmtL(fr, s.Stmt, s.Label.Name)
		// a labelled break out of a plain block / if statement
		if fr.br == brBreak && fr.brLabel == s.Label.Name {
			fr.br, fr.brLabel = brNone, ""
		}
	case *ast.ForStmt:
		if s.Init != nil {
			m.stmt(fr, s.Init)
		}
		for n := 0; ; n++ {
			if n > interpLoopBudget {
				m.problem("loop does not end within %d iterations", interpLoopBudget)
				fr.done = true
				return
			}
			if s.Cond != nil {
				c := m.expr(fr, s.Cond)
				if c.k != vBool {
					if n == 0 && m.inert(fr, s.Body) && (s.Post == nil || m.inert(fr, s.Post)) {
						return
					}
					m.problem("loop on unknown condition %s", types.ExprString(s.Cond))
					fr.done = true
					return
				}
				if !c.b {
					return
				}
			}
			m.block(fr, s.Body.List)
			if fr.loopControl(label) {
				return
			}
			if s.Post != nil {
				m.stmt(fr, s.Post)
			}
		}
	case *ast.RangeStmt:
		m.rangeStmt(fr, s, label)
	case *ast.BlockStmt:
		m.block(fr, s.List)
	case *ast.ExprStmt:
		m.expr(fr, s.X)
	case *ast.ReturnStmt:
		fr.ret = nil
		for _, r := range s.Results {
			fr.ret = append(fr.ret, m.expr(fr, r))
		}
		fr.done = true
	case *ast.IfStmt:
		if s.Init != nil {
			m.stmt(fr, s.Init)
		}
		c := m.expr(fr, s.Cond)
		if c.k != vBool {
			// a branch on an untracked condition is harmless if neither arm can affect what is tracked
			if m.inert(fr, s.Body) && (s.Else == nil || m.inert(fr, s.Else)) {
				return
			}
			m.problem("branch on unknown condition %s", types.ExprString(s.Cond))
			fr.done = true
			return
		}
		if c.b {
			m.block(fr, s.Body.List)
		} else if s.Else != nil {
			m.stmt(fr, s.Else)
		}
	case *ast.SwitchStmt:
		if s.Init != nil {
			m.stmt(fr, s.Init)
		}
		var tag val
		if s.Tag != nil {
			tag = m.expr(fr, s.Tag)
			if tag.k == vUnknown {
				m.problem("switch on unknown tag %s", types.ExprString(s.Tag))
				fr.done = true
				return
			}
		}
		var def *ast.CaseClause
		for _, cl := range s.Body.List {
			cc := cl.(*ast.CaseClause)
			if cc.List == nil {
				def = cc
				continue
			}
			for _, e := range cc.List {
				v := m.expr(fr, e)
				match := false
				if s.Tag == nil {
					if v.k != vBool {
						m.problem("case on unknown condition %s", types.ExprString(e))
						fr.done = true
						return
					}
					match = v.b
				} else {
					if v.k == vUnknown {
						m.problem("case on unknown value %s", types.ExprString(e))
						fr.done = true
						return
					}
					match = valEq(tag, v)
				}
				if match {
					m.caseBody(fr, cc)
					fr.absorbBreak(label)
					return
				}
			}
		}
		if def != nil {
			m.caseBody(fr, def)
			fr.absorbBreak(label)
		}
	case *ast.AssignStmt:
		if len(s.Lhs) == 2 && len(s.Rhs) == 1 {
			if ix, ok := unparen(s.Rhs[0]).(*ast.IndexExpr); ok {
				if v, found, ok := m.tableLookup(fr, ix); ok {
					m.assign(fr, s.Lhs[0], v, s)
					m.assign(fr, s.Lhs[1], val{k: vBool, b: found}, s)
					return
				}
			}
		}
		if len(s.Lhs) != len(s.Rhs) {
			// multi-value call: evaluate for effects, results unknown
			for _, r := range s.Rhs {
				m.expr(fr, r)
			}
			for _, l := range s.Lhs {
				m.assign(fr, l, val{}, s)
			}
			return
		}
		vals := make([]val, len(s.Rhs))
		for i, r := range s.Rhs {
			if s.Tok != token.ASSIGN && s.Tok != token.DEFINE {
				vals[i] = val{} // compound assignment: unknown
				m.expr(fr, r)
				continue
			}
			vals[i] = m.exprFor(fr, r, s.Lhs[i])
		}
		for i, l := range s.Lhs {
			m.assign(fr, l, vals[i], s)
		}
	case *ast.DeclStmt:
		if gd, ok := s.Decl.(*ast.GenDecl); ok {
			for _, sp := range gd.Specs {
				if vs, ok := sp.(*ast.ValueSpec); ok {
					for i, n := range vs.Names {
						v := m.zero(m.info.Defs[n].Type())
						if i < len(vs.Values) {
							v = m.expr(fr, vs.Values[i])
						}
						fr.env[m.info.Defs[n]] = v
					}
				}
			}
		}
	case *ast.DeferStmt:
		call := s.Call
		if lit, ok := call.Fun.(*ast.FuncLit); ok && len(call.Args) == 0 {
			fr.defers = append(fr.defers, func() {
				inner := &frame{env: fr.env}
				m.block(inner, lit.Body.List)
			})
		} else {
			// the arguments of a deferred call are evaluated when the defer statement executes: the locals they
			// mention keep the values they have now
			snap := map[types.Object]val{}
			for _, a := range call.Args {
				ast.Inspect(a, func(n ast.Node) bool {
					if id, ok := n.(*ast.Ident); ok {
						if o := m.info.Uses[id]; o != nil {
							if v, has := fr.env[o]; has {
								snap[o] = v
							}
						}
					}
					return true
				})
			}
			fr.defers = append(fr.defers, func() {
				saved := map[types.Object]val{}
				for o, v := range snap {
					saved[o] = fr.env[o]
					fr.env[o] = v
				}
				m.expr(fr, call)
				for o, v := range saved {
					fr.env[o] = v
				}
			})
		}
	case *ast.IncDecStmt:
		if x := m.expr(fr, s.X); x.k == vInt {
			if s.Tok == token.INC {
				x.i++
			} else {
				x.i--
			}
			m.assign(fr, s.X, x, s)
			return
		}
		m.assign(fr, s.X, val{}, s)
	case *ast.EmptyStmt:
	case *ast.BranchStmt:
		switch s.Tok {
		case token.BREAK, token.CONTINUE:
			fr.br = brBreak
			if s.Tok == token.CONTINUE {
				fr.br = brContinue
			}
			fr.brLabel = ""
			if s.Label != nil {
				fr.brLabel = s.Label.Name
			}
		default:
			fr.done = true
			fr.ret = []val{{k: vUnknown}}
			m.problem("unsupported branch statement %s", s.Tok)
		}
	default:
		m.problem("unsupported statement %T", s)
		fr.done = true
	}
}

func (m *Machine) caseBody(fr *frame, cc *ast.CaseClause) {
	for _, s := range cc.Body {
		if fr.stopped() {
			return
		}
		m.stmt(fr, s)
	}
}

// rangeStmt: `for k, v := range X` over an integer, or over an array/slice whose elements are known (or,
// for an array, whose length is: the elements are then unknown values)
func (m *Machine) rangeStmt(fr *frame, s *ast.RangeStmt, label string) {
	x := m.expr(fr, s.X)
	var elems []val
	n := -1
	switch x.k {
	case vInt:
		n = int(x.i)
	case vArr:
		n, elems = len(x.arr), append([]val{}, x.arr...)
	default:
		if t := m.info.TypeOf(s.X); t != nil {
			u := t.Underlying()
			if p, ok := u.(*types.Pointer); ok {
				u = p.Elem().Underlying()
			}
			if a, ok := u.(*types.Array); ok {
				n = int(a.Len())
			}
		}
	}
	if n < 0 || n > interpLoopBudget {
		if m.inert(fr, s.Body) {
			return
		}
		m.problem("range over unknown value %s", types.ExprString(s.X))
		fr.done = true
		return
	}
	for i := 0; i < n; i++ {
		if s.Key != nil {
			m.assign(fr, s.Key, val{k: vInt, i: int64(i)}, s)
		}
		if s.Value != nil {
			v := val{}
			if i < len(elems) {
				v = elems[i]
			}
			m.assign(fr, s.Value, v, s)
		}
		m.block(fr, s.Body.List)
		if fr.loopControl(label) {
			return
		}
	}
}

func (m *Machine) zero(t types.Type) val {
	switch u := t.Underlying().(type) {
	case *types.Basic:
		if u.Info()&types.IsBoolean != 0 {
			return val{k: vBool}
		}
		if u.Info()&types.IsInteger != 0 {
			return val{k: vInt}
		}
	case *types.Signature, *types.Pointer, *types.Slice, *types.Map, *types.Chan, *types.Interface:
		return val{k: vNil}
	case *types.Array:
		if u.Len() >= 0 && u.Len() <= 4096 {
			out := val{k: vArr, arr: make([]val, u.Len())}
			for i := range out.arr {
				out.arr[i] = m.zero(u.Elem())
			}
			return out
		}
	case *types.Struct:
		if u.NumFields() <= 32 {
			out := val{k: vStruct, fld: map[string]val{}}
			for i := 0; i < u.NumFields(); i++ {
				out.fld[u.Field(i).Name()] = m.zero(u.Field(i).Type())
			}
			return out
		}
	}
	return val{}
}

// copyVal: arrays and structs have value semantics
func copyVal(v val) val {
	switch v.k {
	case vArr:
		out := v
		out.arr = make([]val, len(v.arr))
		for i, e := range v.arr {
			out.arr[i] = copyVal(e)
		}
		return out
	case vStruct:
		out := v
		out.fld = make(map[string]val, len(v.fld))
		for k, e := range v.fld {
			out.fld[k] = copyVal(e)
		}
		return out
	}
	return v
}

func valEq(a, b val) bool {
	if a.k != b.k {
		return false
	}
	switch a.k {
	case vInt:
		return a.i == b.i
	case vBool:
		return a.b == b.b
	case vFunc:
		return a.fn == b.fn
	case vNil:
		return true
	}
	return false
}

// fieldOfObj: if e is <tracked object>.<field>, return the field.
func (m *Machine) fieldOfObj(fr *frame, e ast.Expr) (*types.Var, bool) {
	sel, ok := e.(*ast.SelectorExpr)
	if !ok {
		return nil, false
	}
	s, ok := m.info.Selections[sel]
	if !ok || s.Kind() != types.FieldVal {
		return nil, false
	}
	if !m.isObjExpr(fr, sel.X) {
		return nil, false
	}
	f, _ := s.Obj().(*types.Var)
	return f, f != nil
}

func (m *Machine) isObjExpr(fr *frame, e ast.Expr) bool {
	t := m.info.TypeOf(e)
	return t != nil && m.objType != nil && types.Identical(t, m.objType)
}

func (m *Machine) assign(fr *frame, lhs ast.Expr, v val, at ast.Node) {
	switch l := lhs.(type) {
	case *ast.ParenExpr:
		m.assign(fr, l.X, v, at)
		return
	case *ast.Ident:
		if l.Name == "_" {
			return
		}
		if o := m.info.ObjectOf(l); o != nil {
			if _, isArr := o.Type().Underlying().(*types.Array); isArr || v.k == vStruct {
				v = copyVal(v)
			}
			fr.env[o] = v
		}
		return
	case *ast.IndexExpr:
		// element of a local table: t[i] = v
		if id, ok := unparen(l.X).(*ast.Ident); ok {
			if o := m.info.ObjectOf(id); o != nil {
				if t, ok := fr.env[o]; ok {
					ix := m.expr(fr, l.Index)
					if t.k == vArr && ix.k == vInt && ix.i >= 0 && int(ix.i) < len(t.arr) {
						t.arr[ix.i] = v
						return
					}
					// the table is no longer known
					fr.env[o] = val{}
					return
				}
			}
		}
	case *ast.SelectorExpr:
		// field of a local struct value: row.f = v
		if id, ok := unparen(l.X).(*ast.Ident); ok {
			if o := m.info.ObjectOf(id); o != nil {
				if t, ok := fr.env[o]; ok && t.k == vStruct {
					t.fld[l.Sel.Name] = v
					return
				}
			}
		}
	}
	if f, ok := m.fieldOfObj(fr, lhs); ok {
		if m.tracked(f) {
			m.fields[f.Name()] = v
			if v.k == vUnknown {
				m.problem("tracked field %s assigned an unknown value", f.Name())
			}
			return
		}
		// untracked field of the object: record as an effect
		desc := "set:" + f.Name()
		if a, ok := m.appendToSelf(fr, lhs, at); ok {
			desc = "append:" + f.Name() + a
		}
		m.act("%s", desc)
		return
	}
	// nested field of object (p.dcs.Data = ...) or anything else: record root if it is the object
	if sel, ok := lhs.(*ast.SelectorExpr); ok {
		if f, ok := m.fieldOfObj(fr, sel.X); ok {
			if a, ok := m.appendToSelf(fr, lhs, at); ok {
				m.act("append:%s.%s%s", f.Name(), sel.Sel.Name, a)
				return
			}
			m.act("set:%s.%s", f.Name(), sel.Sel.Name)
			return
		}
	}
}

// appendToSelf: the assignment `lhs = append(lhs, v...)`; returns the appended values as "(v1,v2)".
func (m *Machine) appendToSelf(fr *frame, lhs ast.Expr, at ast.Node) (string, bool) {
	as, ok := at.(*ast.AssignStmt)
	if !ok || len(as.Rhs) != 1 || len(as.Lhs) != 1 {
		return "", false
	}
	call, ok := as.Rhs[0].(*ast.CallExpr)
	if !ok || len(call.Args) < 2 {
		return "", false
	}
	id, ok := call.Fun.(*ast.Ident)
	if !ok || id.Name != "append" {
		return "", false
	}
	if _, isB := m.info.Uses[id].(*types.Builtin); !isB {
		return "", false
	}
	if types.ExprString(unparen(call.Args[0])) != types.ExprString(unparen(lhs)) {
		return "", false
	}
	var vs []string
	for _, a := range call.Args[1:] {
		vs = append(vs, m.expr(fr, a).String())
	}
	return "(" + strings.Join(vs, ",") + ")", true
}

// exprFor evaluates rhs knowing the lhs it is stored to (used to recognise append-to-self).
func (m *Machine) exprFor(fr *frame, rhs ast.Expr, lhs ast.Expr) val {
	if call, ok := rhs.(*ast.CallExpr); ok {
		if id, ok := call.Fun.(*ast.Ident); ok && id.Name == "append" {
			if _, isB := m.info.Uses[id].(*types.Builtin); isB {
				return val{}
			}
		}
	}
	return m.expr(fr, rhs)
}

func (m *Machine) expr(fr *frame, e ast.Expr) val {
	if tv, ok := m.info.Types[e]; ok && tv.Value != nil {
		switch tv.Value.Kind() {
		case constant.Int:
			if i, ok := constant.Int64Val(tv.Value); ok {
				return val{k: vInt, i: i}
			}
		case constant.Bool:
			return val{k: vBool, b: constant.BoolVal(tv.Value)}
		}
		return val{}
	}
	switch e := e.(type) {
	case *ast.ParenExpr:
		return m.expr(fr, e.X)
	case *ast.Ident:
		if e.Name == "nil" {
			if _, ok := m.info.Uses[e].(*types.Nil); ok {
				return val{k: vNil}
			}
		}
		o := m.info.ObjectOf(e)
		if v, ok := fr.env[o]; ok {
			return v
		}
		if fn, ok := o.(*types.Func); ok {
			return val{k: vFunc, fn: fn}
		}
		if gv, ok := o.(*types.Var); ok {
			if v, ok := m.globalValue(gv); ok {
				return v
			}
		}
		return val{}
	case *ast.SelectorExpr:
		if m.resolve != nil {
			if v, ok := m.resolve(e); ok {
				return v
			}
		}
		// field of a known struct value (row of a constant table)
		if s, ok := m.info.Selections[e]; ok && s.Kind() == types.FieldVal && len(s.Index()) == 1 {
			if _, isObj := m.fieldOfObj(fr, e); !isObj {
				if x := m.structOperand(fr, e.X); x.k == vStruct {
					if v, ok := x.fld[e.Sel.Name]; ok {
						return v
					}
					return val{}
				}
			}
		}
		if f, ok := m.fieldOfObj(fr, e); ok {
			if m.tracked(f) {
				if v, ok := m.fields[f.Name()]; ok {
					return v
				}
				return m.zero(f.Type())
			}
			return val{}
		}
		// method value on the tracked object: p.oscEnd
		if s, ok := m.info.Selections[e]; ok && s.Kind() == types.MethodVal && m.isObjExpr(fr, e.X) {
			return val{k: vFunc, fn: s.Obj().(*types.Func)}
		}
		return val{}
	case *ast.UnaryExpr:
		x := m.expr(fr, e.X)
		switch e.Op {
		case token.NOT:
			if x.k == vBool {
				return val{k: vBool, b: !x.b}
			}
		case token.SUB:
			if x.k == vInt {
				return val{k: vInt, i: -x.i}
			}
		}
		return val{}
	case *ast.BinaryExpr:
		if e.Op == token.LAND || e.Op == token.LOR {
			x := m.expr(fr, e.X)
			if x.k == vBool {
				if e.Op == token.LAND && !x.b {
					return val{k: vBool, b: false}
				}
				if e.Op == token.LOR && x.b {
					return val{k: vBool, b: true}
				}
				y := m.expr(fr, e.Y)
				if y.k == vBool {
					return y
				}
			}
			return val{}
		}
		x, y := m.expr(fr, e.X), m.expr(fr, e.Y)
		if e.Op == token.EQL || e.Op == token.NEQ {
			if x.k == vUnknown || y.k == vUnknown {
				return val{}
			}
			// func compared with nil
			eq := valEq(x, y)
			if (x.k == vFunc && y.k == vNil) || (x.k == vNil && y.k == vFunc) {
				eq = false
			} else if (x.k == vLit && y.k == vNil) || (x.k == vNil && y.k == vLit) {
				eq = false
			} else if x.k >= vArr || y.k >= vArr {
				return val{} // tables, rows and closures are not compared here
			}
			if e.Op == token.NEQ {
				eq = !eq
			}
			return val{k: vBool, b: eq}
		}
		if x.k == vInt && y.k == vInt {
			switch e.Op {
			case token.LSS:
				return val{k: vBool, b: x.i < y.i}
			case token.LEQ:
				return val{k: vBool, b: x.i <= y.i}
			case token.GTR:
				return val{k: vBool, b: x.i > y.i}
			case token.GEQ:
				return val{k: vBool, b: x.i >= y.i}
			case token.ADD:
				return val{k: vInt, i: x.i + y.i}
			case token.SUB:
				return val{k: vInt, i: x.i - y.i}
			case token.AND:
				return val{k: vInt, i: x.i & y.i}
			case token.OR:
				return val{k: vInt, i: x.i | y.i}
			}
		}
		return val{}
	case *ast.CallExpr:
		return m.call(fr, e)
	case *ast.FuncLit:
		return val{k: vLit, lit: e, env: fr.env}
	case *ast.IndexExpr:
		if v, _, ok := m.tableLookup(fr, e); ok {
			return v
		}
		if tv, ok := m.info.Types[e.X]; ok && !tv.IsType() {
			if _, isMap := tv.Type.Underlying().(*types.Map); !isMap {
				if x := m.structOperand(fr, e.X); x.k == vArr {
					if ix := m.expr(fr, e.Index); ix.k == vInt && ix.i >= 0 && int(ix.i) < len(x.arr) {
						return x.arr[ix.i]
					}
				}
			}
		}
		return val{}
	case *ast.CompositeLit:
		return m.compositeLit(fr, e)
	}
	return val{}
}

// structOperand evaluates the operand of a selector/index expression only where that cannot have effects
// worth recording twice: identifiers, nested selectors/indexes and parenthesised forms of them.
func (m *Machine) structOperand(fr *frame, e ast.Expr) val {
	switch t := unparen(e).(type) {
	case *ast.Ident:
		return m.expr(fr, t)
	case *ast.SelectorExpr, *ast.IndexExpr:
		if t, ok := m.info.Types[t.(ast.Expr)]; ok && t.IsType() {
			return val{}
		}
		return m.expr(fr, t.(ast.Expr))
	case *ast.StarExpr:
		return m.structOperand(fr, t.X)
	case *ast.CompositeLit:
		return m.expr(fr, t)
	}
	return val{}
}

// compositeLit: array/slice literals with constant keys and struct literals become table values; anything
// else is unknown
func (m *Machine) compositeLit(fr *frame, cl *ast.CompositeLit) val {
	t := m.info.TypeOf(cl)
	if t == nil {
		return val{}
	}
	switch u := t.Underlying().(type) {
	case *types.Array, *types.Slice:
		var elem types.Type
		n := -1
		if a, ok := u.(*types.Array); ok {
			elem, n = a.Elem(), int(a.Len())
		} else {
			elem = u.(*types.Slice).Elem()
		}
		if n > 4096 || len(cl.Elts) > 4096 {
			return val{}
		}
		var arr []val
		pos := 0
		for _, el := range cl.Elts {
			value := el
			if kv, ok := el.(*ast.KeyValueExpr); ok {
				k := m.expr(fr, kv.Key)
				if k.k != vInt || k.i < 0 || k.i > 4096 {
					return val{}
				}
				pos, value = int(k.i), kv.Value
			}
			for len(arr) <= pos {
				arr = append(arr, m.zero(elem))
			}
			if inner, ok := value.(*ast.CompositeLit); ok && inner.Type == nil {
				arr[pos] = m.compositeLit(fr, inner)
			} else {
				arr[pos] = copyVal(m.expr(fr, value))
			}
			pos++
		}
		for n >= 0 && len(arr) < n {
			arr = append(arr, m.zero(elem))
		}
		return val{k: vArr, arr: arr}
	case *types.Struct:
		if u.NumFields() > 32 {
			return val{}
		}
		out := m.zero(t)
		if out.k != vStruct {
			return val{}
		}
		for i, el := range cl.Elts {
			if kv, ok := el.(*ast.KeyValueExpr); ok {
				id, ok := kv.Key.(*ast.Ident)
				if !ok {
					return val{}
				}
				out.fld[id.Name] = copyVal(m.expr(fr, kv.Value))
			} else if i < u.NumFields() {
				out.fld[u.Field(i).Name()] = copyVal(m.expr(fr, el))
			}
		}
		return out
	}
	return val{}
}

// interpGlobals caches the values of package-level variables that are initialised once and only ever read
// (see readOnlyInit); a nil entry means "not such a variable / not evaluable".
var interpGlobals = map[*types.Var]*val{}

// globalValue: the value of a package-level table variable that is never written after its initialisation,
// obtained by interpreting the initialiser (a literal, or a function literal called on the spot that fills
// the table in a loop). Only array, slice and struct values qualify: scalars that matter are constants.
func (m *Machine) globalValue(obj *types.Var) (val, bool) {
	if m.prog == nil || obj.Pkg() == nil || obj.Parent() != obj.Pkg().Scope() {
		return val{}, false
	}
	if p, ok := interpGlobals[obj]; ok {
		if p == nil {
			return val{}, false
		}
		return *p, true
	}
	interpGlobals[obj] = nil
	init, info := readOnlyInit(m.prog, obj)
	if init == nil {
		return val{}, false
	}
	sub := &Machine{info: info, prog: m.prog, fields: map[string]val{}, tracked: func(*types.Var) bool { return false },
		funcDecl: m.funcDecl, depth: m.depth}
	fr := &frame{env: map[types.Object]val{}}
	v := sub.expr(fr, init)
	if len(sub.problems) > 0 || len(sub.actions) > 0 || (v.k != vArr && v.k != vStruct) {
		return val{}, false
	}
	interpGlobals[obj] = &v
	return v, true
}

// readOnlyInit returns the initialiser expression of a package-level variable provided the variable is never
// assigned, never has an element or field stored, is never passed to a function other than len/cap and
// never has its address taken anywhere in its package. nil otherwise.
func readOnlyInit(p *Program, obj *types.Var) (ast.Expr, *types.Info) {
	for _, pk := range p.Pkgs {
		if pk.Types != obj.Pkg() {
			continue
		}
		var init ast.Expr
		written := false
		parents := p.Parents(pk)
		for _, f := range pk.Syntax {
			ast.Inspect(f, func(n ast.Node) bool {
				switch t := n.(type) {
				case *ast.ValueSpec:
					for i, nm := range t.Names {
						if pk.TypesInfo.Defs[nm] == obj && len(t.Values) == len(t.Names) {
							init = t.Values[i]
						}
					}
				case *ast.Ident:
					if pk.TypesInfo.Uses[t] != obj {
						return true
					}
					// climb through the access path: T[k], T[k].f, (T)
					var child ast.Node = t
					par := parents[child]
					for {
						switch pt := par.(type) {
						case *ast.ParenExpr:
							child, par = pt, parents[pt]
							continue
						case *ast.IndexExpr:
							if pt.X == child {
								child, par = pt, parents[pt]
								continue
							}
						case *ast.SelectorExpr:
							if pt.X == child {
								if s, ok := pk.TypesInfo.Selections[pt]; !ok || s.Kind() != types.FieldVal {
									written = true // method call on the table: may mutate
								}
								child, par = pt, parents[pt]
								continue
							}
						}
						break
					}
					switch pt := par.(type) {
					case *ast.AssignStmt:
						for _, l := range pt.Lhs {
							if l == child {
								written = true
							}
						}
					case *ast.IncDecStmt:
						written = true
					case *ast.UnaryExpr:
						if pt.Op == token.AND {
							written = true
						}
					case *ast.RangeStmt:
						if pt.X != child {
							written = true
						}
					case *ast.CallExpr:
						if child == t {
							if id, ok := pt.Fun.(*ast.Ident); !ok || (id.Name != "len" && id.Name != "cap") {
								written = true // the whole table passed to a function (may be mutated there)
							}
						}
					case *ast.SliceExpr:
						written = true
					}
				}
				return true
			})
		}
		if written || init == nil {
			return nil, nil
		}
		return init, pk.TypesInfo
	}
	return nil, nil
}

// tableLookup evaluates T[k] where T is a package-level variable that is only ever initialised (never
// stored to) with a map, array or slice literal of constant keys, and k evaluates to an integer.
// ok=false: not such a table. found=false: the key is absent (v is the element type's zero value).
func (m *Machine) tableLookup(fr *frame, ix *ast.IndexExpr) (v val, found bool, ok bool) {
	id, isId := unparen(ix.X).(*ast.Ident)
	if !isId || m.prog == nil {
		return val{}, false, false
	}
	obj, _ := m.info.Uses[id].(*types.Var)
	if obj == nil || obj.Pkg() == nil || obj.Parent() != obj.Pkg().Scope() {
		return val{}, false, false
	}
	lit := m.prog.ReadOnlyTable(obj)
	if lit == nil {
		return val{}, false, false
	}
	k := m.expr(fr, ix.Index)
	if k.k != vInt {
		return val{}, false, false
	}
	var elem types.Type
	switch u := obj.Type().Underlying().(type) {
	case *types.Map:
		elem = u.Elem()
	case *types.Slice:
		elem = u.Elem()
	case *types.Array:
		elem = u.Elem()
	default:
		return val{}, false, false
	}
	_, isMap := obj.Type().Underlying().(*types.Map)
	pos := int64(0)
	for _, el := range lit.Elts {
		value := el
		if kv, isKV := el.(*ast.KeyValueExpr); isKV {
			kvv := m.expr(fr, kv.Key)
			if kvv.k != vInt {
				return val{}, false, false
			}
			pos = kvv.i
			value = kv.Value
		} else if isMap {
			return val{}, false, false
		}
		if pos == k.i {
			return m.expr(fr, value), true, true
		}
		pos++
	}
	if !isMap {
		return val{}, false, false // out of range / unset array slot: not modelled
	}
	return m.zero(elem), false, true
}

func (m *Machine) call(fr *frame, call *ast.CallExpr) val {
	// conversion: T(x)
	if tv, ok := m.info.Types[call.Fun]; ok && tv.IsType() {
		if len(call.Args) == 1 {
			v := m.expr(fr, call.Args[0])
			if v.k == vInt {
				return v
			}
		}
		return val{}
	}
	args := make([]val, len(call.Args))
	for i, a := range call.Args {
		args[i] = m.expr(fr, a)
	}
	// a function literal called on the spot, or a closure held in a local variable
	switch f := unparen(call.Fun).(type) {
	case *ast.FuncLit:
		return m.callLit(val{k: vLit, lit: f, env: fr.env}, args)
	case *ast.Ident:
		if o := m.info.ObjectOf(f); o != nil {
			if v, ok := fr.env[o]; ok && v.k == vLit {
				return m.callLit(v, args)
			}
		}
	}
	// dynamic call through a tracked func-typed field: p.exit(), p.state(r, p)
	if f, ok := m.fieldOfObj(fr, call.Fun); ok && m.tracked(f) {
		target := m.fields[f.Name()]
		switch target.k {
		case vFunc:
			return m.invoke(fr, target.fn, call, args, "via:"+f.Name())
		case vLit:
			return m.callLit(target, args)
		case vNil:
			m.act("NILCALL:%s", f.Name())
			m.problem("call of nil function field %s", f.Name())
			return val{}
		default:
			m.problem("call through unknown function field %s", f.Name())
			return val{}
		}
	}
	fn := calleeOf(m.info, call)
	if fn == nil {
		if id, ok := call.Fun.(*ast.Ident); ok {
			if _, isB := m.info.Uses[id].(*types.Builtin); isB {
				return val{}
			}
		}
		return val{}
	}
	return m.invoke(fr, fn, call, args, "")
}

// callLit runs a function literal in the environment it closes over (its own parameters and locals are
// distinct objects, so sharing the map is sound for non-recursive closures).
func (m *Machine) callLit(f val, args []val) val {
	m.depth++
	defer func() { m.depth-- }()
	if m.depth > 8 {
		m.problem("call depth exceeded in a function literal")
		return val{}
	}
	fr := &frame{env: f.env}
	i := 0
	for _, fl := range f.lit.Type.Params.List {
		for _, n := range fl.Names {
			if i < len(args) {
				fr.env[m.info.Defs[n]] = args[i]
			}
			i++
		}
	}
	if f.lit.Type.Results != nil {
		for _, fl := range f.lit.Type.Results.List {
			for _, n := range fl.Names {
				fr.env[m.info.Defs[n]] = m.zero(m.info.Defs[n].Type())
			}
		}
	}
	m.block(fr, f.lit.Body.List)
	for j := len(fr.defers) - 1; j >= 0; j-- {
		fr.defers[j]()
	}
	if len(fr.ret) == 1 {
		return fr.ret[0]
	}
	return val{}
}

func (m *Machine) invoke(fr *frame, fn *types.Func, call *ast.CallExpr, args []val, how string) val {
	if m.onCall != nil {
		if v, ok := m.onCall(m, fn, call, args); ok {
			return v
		}
	}
	sig := fn.Type().(*types.Signature)
	if sig.Recv() != nil && types.Identical(sig.Recv().Type(), m.objType) {
		if m.onMethod != nil && m.onMethod(m, fn, call, args) {
			return val{}
		}
		return val{}
	}
	if sig.Recv() == nil && fn.Pkg() != nil && m.funcDecl != nil {
		if fd := m.funcDecl(fn); fd != nil {
			ret := m.callDecl(fd, args)
			if len(ret) == 1 {
				return ret[0]
			}
			return val{}
		}
	}
	return val{}
}

// inert: the statement contains no return/branch, no assignment to a tracked field or to a local,
// and no call of a method of the tracked object or of an interpreted repository function.
func (m *Machine) inert(fr *frame, n ast.Node) bool {
	ok := true
	ast.Inspect(n, func(x ast.Node) bool {
		switch t := x.(type) {
		case *ast.ReturnStmt, *ast.BranchStmt, *ast.GoStmt, *ast.DeferStmt:
			ok = false
		case *ast.AssignStmt:
			for _, l := range t.Lhs {
				if _, isId := l.(*ast.Ident); isId {
					ok = false
				}
				if f, isF := m.fieldOfObj(fr, l); isF && m.tracked(f) {
					ok = false
				}
			}
		case *ast.IncDecStmt:
			ok = false
		case *ast.CallExpr:
			if f, isF := m.fieldOfObj(fr, t.Fun); isF && m.tracked(f) {
				ok = false
			}
			if fn := calleeOf(m.info, t); fn != nil {
				if sig, _ := fn.Type().(*types.Signature); sig != nil && sig.Recv() != nil && m.objType != nil && types.Identical(sig.Recv().Type(), m.objType) {
					ok = false
				}
				if m.funcDecl != nil && m.funcDecl(fn) != nil {
					ok = false
				}
			}
		}
		return ok
	})
	return ok
}
