package main

// C16 — how the segment is cut into word ++ trSpace, whatever way the cut is spelt.
//
//   * findPieces: the two pieces are `word = seg[:K]` and `trSpace = seg[K:]` for one index K. K is
//     either len(word) (the trailing space is taken after the word was found) or a common index
//     expression (both pieces are sliced at a cursor).
//   * trimByCursor: the hand-written right-trim of the rich scanner is read as a little machine over a
//     cursor c: one iteration examines the cell seg[c+d], moves the cursor back by one over a whitespace
//     cell and stops at the first non-whitespace cell; the word is seg[:e+1] for the last examined index e
//     (e == -1 when the loop ran out of cells). The loop body is executed symbolically on each of its
//     paths, so `for i := len(seg)-1; i >= 0; i-- { if space {continue}; word = seg[:i+1]; break }` and
//     `k := len(seg); for k > 0 { if !space(seg[k-1]) {break}; k-- }; word = seg[:k]` are the same thing,
//     and an off-by-one in the start, the bound, the step or the cut is a violation in either spelling.
//   * partitioned measure: one loop over seg that adds the Width of cells before the cut to one
//     accumulator and of the others to a second one measures word and trSpace.

import (
	"fmt"
	"go/ast"
	"go/token"
	"go/types"
	"strings"
)

type c16SegSlice struct {
	obj  types.Object
	sl   *ast.SliceExpr
	stmt ast.Stmt
}

func (s *c16Scanner) findPieces() {
	info := s.info
	var prefixes, suffixes []*c16SegSlice
	add := func(lhs ast.Expr, rhs ast.Expr, st ast.Stmt) {
		id, ok := unparen(lhs).(*ast.Ident)
		if !ok || id.Name == "_" {
			return
		}
		o := info.ObjectOf(id)
		if o == nil || o == s.seg {
			return
		}
		sl, ok := unparen(rhs).(*ast.SliceExpr)
		if !ok || sl.Slice3 || !s.isObj(sl.X, s.seg) {
			return
		}
		switch {
		case sl.Low != nil && sl.High == nil:
			suffixes = append(suffixes, &c16SegSlice{o, sl, st})
		case sl.Low == nil && sl.High != nil:
			prefixes = append(prefixes, &c16SegSlice{o, sl, st})
		}
	}
	ast.Inspect(s.loop.Body, func(n ast.Node) bool {
		switch t := n.(type) {
		case *ast.FuncLit:
			return false
		case *ast.AssignStmt:
			if (t.Tok == token.DEFINE || t.Tok == token.ASSIGN) && len(t.Lhs) == len(t.Rhs) {
				for i := range t.Lhs {
					add(t.Lhs[i], t.Rhs[i], t)
				}
			}
		case *ast.DeclStmt:
			if gd, ok := t.Decl.(*ast.GenDecl); ok && gd.Tok == token.VAR {
				for _, sp := range gd.Specs {
					if vs, ok := sp.(*ast.ValueSpec); ok && len(vs.Names) == len(vs.Values) {
						for i := range vs.Names {
							add(vs.Names[i], vs.Values[i], t)
						}
					}
				}
			}
		}
		return true
	})
	// trSpace := seg[len(word):]
	for _, sf := range suffixes {
		cl, ok := unparen(sf.sl.Low).(*ast.CallExpr)
		if !ok || len(cl.Args) != 1 {
			continue
		}
		id, ok := cl.Fun.(*ast.Ident)
		if !ok || id.Name != "len" {
			continue
		}
		if _, isB := info.Uses[id].(*types.Builtin); !isB {
			continue
		}
		wid, ok := unparen(cl.Args[0]).(*ast.Ident)
		if !ok || info.ObjectOf(wid) == nil || info.ObjectOf(wid) == s.seg {
			continue
		}
		s.trSpace, s.word, s.spaceDef = sf.obj, info.ObjectOf(wid), sf
		s.cut, s.hasCut = c15LinOf(info, sf.sl.Low), true
		return
	}
	// word = seg[:K]; trSpace = seg[K:]
	for _, sf := range suffixes {
		l := c15LinOf(info, sf.sl.Low)
		for _, pf := range prefixes {
			if pf.obj != sf.obj && c15LinOf(info, pf.sl.High).canon() == l.canon() {
				s.trSpace, s.word, s.spaceDef, s.wordDef = sf.obj, pf.obj, sf, pf
				s.cut, s.hasCut = l, true
				return
			}
		}
	}
}

// checkCut: with an index cut, both pieces are taken at the same value of the index, and the index keeps
// that value for the rest of the iteration (the measuring loop may compare against it).
func (s *c16Scanner) checkCut() {
	c, info := s.c, s.info
	key := s.name + "/seg = word ++ trSpace"
	if s.wordDef == nil {
		// trSpace := seg[len(word):] was matched structurally; word is a prefix of seg (checkWord)
		c.ok("C16.a", key, s.loop.Pos(), "trSpace := seg[len(word):] and word is a prefix of seg")
		return
	}
	top := c15Flat(s.loop.Body.List)
	iw, is := -1, -1
	for k, st := range top {
		if st == s.wordDef.stmt {
			iw = k
		}
		if st == s.spaceDef.stmt {
			is = k
		}
	}
	if iw < 0 || is < 0 {
		s.und("C16.a", "seg = word ++ trSpace", s.wordDef.stmt.Pos(), "word / trSpace are not cut at the top level of the segment loop")
		return
	}
	first := iw
	if is < first {
		first = is
	}
	paths := append(c15Paths(info, s.wordDef.sl.High), c15Paths(info, s.spaceDef.sl.Low)...)
	paths = append(paths, termOf(info, s.wordDef.sl.X).ID)
	roots := objsIn(info, s.wordDef.sl.High)
	for o := range objsIn(info, s.spaceDef.sl.Low) {
		roots[o] = true
	}
	okAll, why := true, ""
	for k := first + 1; k < len(top); k++ {
		if k == iw || k == is {
			continue
		}
		between := (k > iw) != (k > is)
		// only the cut index matters after both pieces were taken; the segment itself may then lose its terminator
		ps := paths[:len(paths)-1]
		if between {
			ps = paths
		}
		if c15Modifies(info, top[k], ps, roots) {
			if between {
				okAll, why = false, "the segment or the cut index changes between `"+s.word.Name()+" = "+types.ExprString(s.wordDef.sl)+"` and `"+s.trSpace.Name()+" = "+types.ExprString(s.spaceDef.sl)+"`"
			} else if okAll {
				s.und("C16.a", "seg = word ++ trSpace", top[k].Pos(), "the cut index %s is modified after the pieces were taken", types.ExprString(s.wordDef.sl.High))
				return
			}
		}
	}
	c.check(okAll, "C16.a", key, s.wordDef.stmt.Pos(), "word = seg[:k] and trSpace = seg[k:] for the same k = "+types.ExprString(s.wordDef.sl.High),
		why+": word ++ trSpace is no longer the segment (cells are lost or repeated)")
}

// ---------------------------------------------------------------------------
// the trim loop as a machine over a cursor

type c16TrimTest struct {
	d     c15Lin // examined index, in terms of the cursor's value at the start of the iteration
	space bool
}

type c16TrimPath struct {
	tests    []c16TrimTest
	delta    int64 // cursor movement so far
	exit     string
	wordSet  bool
	wordH    c15Lin
	defDelta map[types.Object]int64
	bad      string
}

func (p c16TrimPath) clone() c16TrimPath {
	q := p
	q.tests = append([]c16TrimTest{}, p.tests...)
	q.defDelta = map[types.Object]int64{}
	for k, v := range p.defDelta {
		q.defDelta[k] = v
	}
	return q
}

type c16Trim struct {
	s      *c16Scanner
	loop   *ast.ForStmt
	cursor types.Object
	label  string
}

// cursorStep: st moves the cursor by a constant.
func (tr *c16Trim) cursorStep(st ast.Stmt) (int64, bool) {
	info := tr.s.info
	switch t := st.(type) {
	case *ast.IncDecStmt:
		if tr.s.isObj(t.X, tr.cursor) {
			if t.Tok == token.INC {
				return 1, true
			}
			return -1, true
		}
	case *ast.AssignStmt:
		if len(t.Lhs) != 1 || len(t.Rhs) != 1 || !tr.s.isObj(t.Lhs[0], tr.cursor) {
			return 0, false
		}
		if t.Tok == token.SUB_ASSIGN {
			if v, ok := constInt(info, t.Rhs[0]); ok {
				return -v, true
			}
			return 0, false
		}
		if inc, ok := c16Advance(info, t, tr.cursor); ok && len(inc.co) == 0 {
			return inc.k, true
		}
	}
	return 0, false
}

func (tr *c16Trim) writesCursor(n ast.Node) bool {
	return assignsAny(tr.s.info, n, map[types.Object]bool{tr.cursor: true})
}

// resolveAt follows locals defined earlier on this path; the value of the cursor an expression sees is the one
// at its definition.
func (tr *c16Trim) resolveAt(e ast.Expr, cur int64, p *c16TrimPath) (ast.Expr, int64) {
	for depth := 0; depth < 6; depth++ {
		e = unparen(e)
		id, ok := e.(*ast.Ident)
		if !ok {
			return e, cur
		}
		o := tr.s.info.ObjectOf(id)
		d, seen := p.defDelta[o]
		if o == nil || !seen || tr.s.defs.count[o] != 1 || tr.s.defs.def[o] == nil {
			return e, cur
		}
		e, cur = tr.s.defs.def[o], d
	}
	return e, cur
}

// spaceTest: cond is  [!]unicode.IsSpace(<a rune of seg[c+d].Grapheme>)
func (tr *c16Trim) spaceTest(cond ast.Expr, p *c16TrimPath) (d c15Lin, neg bool, ok bool) {
	s, info := tr.s, tr.s.info
	cond = unparen(cond)
	for {
		u, isU := cond.(*ast.UnaryExpr)
		if !isU || u.Op != token.NOT {
			break
		}
		neg = !neg
		cond = unparen(u.X)
	}
	if be, isB := cond.(*ast.BinaryExpr); isB && (be.Op == token.EQL || be.Op == token.NEQ) {
		for _, pr := range [][2]ast.Expr{{be.X, be.Y}, {be.Y, be.X}} {
			if tv, isC := info.Types[pr[1]]; isC && tv.Value != nil && (tv.Value.String() == "true" || tv.Value.String() == "false") {
				if (tv.Value.String() == "true") != (be.Op == token.EQL) {
					neg = !neg
				}
				d2, n2, ok2 := tr.spaceTest(pr[0], p)
				return d2, neg != n2, ok2
			}
		}
	}
	cl, isC := cond.(*ast.CallExpr)
	if !isC || len(cl.Args) != 1 || fullName(calleeOf(info, cl)) != "unicode.IsSpace" {
		return d, neg, false
	}
	r, at := tr.resolveAt(cl.Args[0], p.delta, p)
	dc, isD := unparen(r).(*ast.CallExpr)
	if !isD || len(dc.Args) != 1 || !strings.HasPrefix(fullName(calleeOf(info, dc)), "unicode/utf8.Decode") {
		return d, neg, false
	}
	gs, isSel := unparen(dc.Args[0]).(*ast.SelectorExpr)
	if !isSel || gs.Sel.Name != "Grapheme" {
		return d, neg, false
	}
	el, at2 := tr.resolveAt(gs.X, at, p)
	ix, isIx := unparen(el).(*ast.IndexExpr)
	if !isIx || !s.isObj(ix.X, s.seg) {
		return d, neg, false
	}
	idx := c15LinOf(info, ix.Index)
	if idx.co[ptrID(tr.cursor)] != 1 {
		return d, neg, false
	}
	return idx.plus(at2), neg, true
}

func (tr *c16Trim) exec(list []ast.Stmt, in c16TrimPath) []c16TrimPath {
	paths := []c16TrimPath{in}
	for _, st := range list {
		var next []c16TrimPath
		for _, p := range paths {
			if p.exit != "" || p.bad != "" {
				next = append(next, p)
				continue
			}
			next = append(next, tr.step(st, p)...)
		}
		paths = next
	}
	return paths
}

func (tr *c16Trim) step(st ast.Stmt, p c16TrimPath) []c16TrimPath {
	s, info := tr.s, tr.s.info
	one := func(q c16TrimPath) []c16TrimPath { return []c16TrimPath{q} }
	switch t := st.(type) {
	case *ast.EmptyStmt:
		return one(p)
	case *ast.BlockStmt:
		return tr.exec(t.List, p)
	case *ast.DeclStmt:
		if tr.writesCursor(t) {
			p.bad = "the cursor is redeclared"
		}
		return one(p)
	case *ast.IncDecStmt:
		if k, ok := tr.cursorStep(t); ok {
			p.delta += k
			return one(p)
		}
		p.bad = "statement " + nodeString(t)
		return one(p)
	case *ast.BranchStmt:
		lbl := ""
		if t.Label != nil {
			lbl = t.Label.Name
		}
		if lbl != "" && lbl != tr.label {
			p.bad = "jump out of the trim loop (" + lbl + ")"
			return one(p)
		}
		switch t.Tok {
		case token.BREAK:
			p.exit = "break"
		case token.CONTINUE:
			p.exit = "next"
		default:
			p.bad = "goto/fallthrough"
		}
		return one(p)
	case *ast.AssignStmt:
		if k, ok := tr.cursorStep(t); ok {
			p.delta += k
			return one(p)
		}
		if t.Tok == token.DEFINE {
			for _, l := range t.Lhs {
				if id, ok := l.(*ast.Ident); ok {
					if o := info.Defs[id]; o != nil {
						p.defDelta[o] = p.delta
						continue
					}
					if id.Name == "_" {
						continue
					}
				}
				p.bad = "statement " + nodeString(t)
			}
			return one(p)
		}
		if len(t.Lhs) == 1 && len(t.Rhs) == 1 && t.Tok == token.ASSIGN && s.isObj(t.Lhs[0], s.word) {
			r := unparen(t.Rhs[0])
			if isNilExpr(info, r) || c16IsEmptyLit(r) {
				p.wordSet, p.wordH = true, c15Const(0) // an empty word: cut at 0
				return one(p)
			}
			if sl, ok := r.(*ast.SliceExpr); ok && s.isObj(sl.X, s.seg) && sl.Low == nil && sl.High != nil && !sl.Slice3 {
				h := c15LinOf(info, sl.High)
				if h.co[ptrID(tr.cursor)] == 1 {
					h = h.plus(p.delta)
				}
				p.wordSet, p.wordH = true, h
				return one(p)
			}
		}
		p.bad = "statement " + nodeString(t)
		return one(p)
	case *ast.IfStmt:
		if t.Init != nil {
			outs := tr.step(t.Init, p)
			if len(outs) != 1 || outs[0].bad != "" {
				p.bad = "if-init not understood"
				return one(p)
			}
			p = outs[0]
		}
		d, neg, ok := tr.spaceTest(t.Cond, &p)
		if !ok {
			p.bad = "a branch on " + types.ExprString(t.Cond) + " (not a whitespace test of a cell of the segment at the cursor)"
			return one(p)
		}
		a := p.clone()
		a.tests = append(a.tests, c16TrimTest{d, !neg})
		outs := tr.exec(t.Body.List, a)
		b := p.clone()
		b.tests = append(b.tests, c16TrimTest{d, neg})
		if t.Else != nil {
			outs = append(outs, tr.step(t.Else, b)...)
		} else {
			outs = append(outs, b)
		}
		return outs
	}
	p.bad = fmt.Sprintf("construct %T", st)
	return one(p)
}

func nodeString(n ast.Node) string {
	switch t := n.(type) {
	case ast.Expr:
		return types.ExprString(t)
	case *ast.AssignStmt:
		var l, r []string
		for _, x := range t.Lhs {
			l = append(l, types.ExprString(x))
		}
		for _, x := range t.Rhs {
			r = append(r, types.ExprString(x))
		}
		return strings.Join(l, ", ") + " " + t.Tok.String() + " " + strings.Join(r, ", ")
	case *ast.IncDecStmt:
		return types.ExprString(t.X) + t.Tok.String()
	}
	return fmt.Sprintf("%T", n)
}

// trimByCursor decides the rule "word is seg without its trailing whitespace" for a hand-written trim loop.
// asg is the one assignment (or definition) of word to a prefix of seg. decided == false: the shape is not a
// cursor machine this function understands (the caller falls back / reports undecided).
func (s *c16Scanner) trimByCursor(asgStmt ast.Stmt, high ast.Expr) (decided, ok bool, why string, loop *ast.ForStmt) {
	info := s.info
	h := c15LinOf(info, high)
	// the cursor: the one local of the cut with coefficient 1
	var cursor types.Object
	for id, co := range h.co {
		if co != 1 || cursor != nil {
			return false, false, "the cut " + types.ExprString(high) + " is not cursor + constant", nil
		}
		ast.Inspect(high, func(n ast.Node) bool {
			if x, isId := n.(*ast.Ident); isId {
				if o := info.ObjectOf(x); o != nil && ptrID(o) == id {
					if _, isVar := o.(*types.Var); isVar {
						cursor = o
					}
				}
			}
			return true
		})
	}
	if cursor == nil {
		return false, false, "the cut " + types.ExprString(high) + " does not depend on a cursor", nil
	}
	a := h.k // word = seg[:cursor + a]
	// the trim loop: encloses the assignment (in-loop form) or is the top-level loop of the segment loop that moves the cursor
	inLoop := false
	for cur := s.par[asgStmt]; cur != nil && cur != ast.Node(s.loop.Body); cur = s.par[cur] {
		if f, isFor := cur.(*ast.ForStmt); isFor {
			loop, inLoop = f, true
		}
	}
	top := c15Flat(s.loop.Body.List)
	if !inLoop {
		n := 0
		for _, st := range top {
			if st.Pos() >= asgStmt.Pos() {
				break
			}
			if f, isFor := st.(*ast.ForStmt); isFor && assignsAny(info, f, map[types.Object]bool{cursor: true}) {
				loop = f
				n++
			}
		}
		if n != 1 {
			return false, false, fmt.Sprintf("%d loops move the cursor %s before the word is cut", n, cursor.Name()), nil
		}
	}
	if loop == nil {
		return false, false, "no trim loop", nil
	}
	tr := &c16Trim{s: s, loop: loop, cursor: cursor}
	if ls, isL := s.par[loop].(*ast.LabeledStmt); isL {
		tr.label = ls.Label.Name
	}
	cT := c15TermLin(ptrID(cursor), cursor.Name(), false)
	lenSeg := c15TermLin("len("+fmt.Sprintf("%p", s.seg)+")", "len(seg)", true)
	// start value of the cursor
	var c0 c15Lin
	haveC0 := false
	if loop.Init != nil {
		ia, isA := loop.Init.(*ast.AssignStmt)
		if !isA || len(ia.Lhs) != 1 || len(ia.Rhs) != 1 || !s.isObj(ia.Lhs[0], cursor) || (ia.Tok != token.DEFINE && ia.Tok != token.ASSIGN) {
			return false, false, "the trim loop's init statement does not set the cursor", loop
		}
		c0, haveC0 = c15LinOf(info, ia.Rhs[0]), true
	}
	// every other write of the cursor in the segment loop: exactly the start value, at the top level, before the loop
	for _, st := range top {
		if st == ast.Stmt(loop) || !assignsAny(info, st, map[types.Object]bool{cursor: true}) {
			continue
		}
		if inner, isL := st.(*ast.LabeledStmt); isL && inner.Stmt == ast.Stmt(loop) {
			continue
		}
		if haveC0 || st.Pos() > loop.Pos() {
			return false, false, "the cursor " + cursor.Name() + " is written outside the trim loop (" + nodeString(st) + ")", loop
		}
		switch t := st.(type) {
		case *ast.AssignStmt:
			if len(t.Lhs) == len(t.Rhs) && (t.Tok == token.DEFINE || t.Tok == token.ASSIGN) {
				for i, l := range t.Lhs {
					if s.isObj(l, cursor) {
						c0, haveC0 = c15LinOf(info, t.Rhs[i]), true
					}
				}
			}
		case *ast.DeclStmt:
			if gd, isG := t.Decl.(*ast.GenDecl); isG {
				for _, sp := range gd.Specs {
					if vs, isV := sp.(*ast.ValueSpec); isV && len(vs.Names) == len(vs.Values) {
						for i, nm := range vs.Names {
							if info.Defs[nm] == cursor {
								c0, haveC0 = c15LinOf(info, vs.Values[i]), true
							}
						}
					}
				}
			}
		}
		if !haveC0 {
			return false, false, "the start value of the cursor is not understood (" + nodeString(st) + ")", loop
		}
	}
	if !haveC0 {
		return false, false, "the cursor " + cursor.Name() + " gets no start value inside the segment loop", loop
	}
	// the loop condition: [bound] or [bound && whitespace-test]
	if loop.Cond == nil {
		return false, false, "the trim loop has no condition", loop
	}
	var conj []ast.Expr
	var split func(e ast.Expr)
	split = func(e ast.Expr) {
		e = unparen(e)
		if b, isB := e.(*ast.BinaryExpr); isB && b.Op == token.LAND {
			split(b.X)
			split(b.Y)
			return
		}
		conj = append(conj, e)
	}
	split(loop.Cond)
	if len(conj) > 2 {
		return false, false, "the trim loop's condition has more than two conjuncts", loop
	}
	start := c16TrimPath{defDelta: map[types.Object]int64{}}
	var synth []c16TrimPath
	if len(conj) == 2 {
		d, neg, isT := tr.spaceTest(conj[1], &start)
		if !isT || neg {
			return false, false, "the second conjunct of the trim loop's condition is not a whitespace test at the cursor", loop
		}
		start.tests = append(start.tests, c16TrimTest{d, true})
		synth = append(synth, c16TrimPath{tests: []c16TrimTest{{d, false}}, exit: "break", defDelta: map[types.Object]int64{}})
	}
	paths := append(tr.exec(loop.Body.List, start), synth...)
	// the post statement
	var post int64
	if loop.Post != nil {
		k, isStep := tr.cursorStep(loop.Post)
		if !isStep {
			return false, false, "the trim loop's post statement does not step the cursor by a constant", loop
		}
		post = k
	}
	var d c15Lin
	haveD := false
	for i := range paths {
		p := &paths[i]
		if p.bad != "" {
			return false, false, "trim loop not understood: " + p.bad, loop
		}
		if len(p.tests) != 1 {
			return false, false, fmt.Sprintf("an iteration of the trim loop tests %d cells", len(p.tests)), loop
		}
		if haveD && p.tests[0].d.canon() != d.canon() {
			return false, false, "the iterations of the trim loop examine different cells", loop
		}
		d, haveD = p.tests[0].d, true
		if p.exit == "" || p.exit == "next" {
			p.exit = "next"
			p.delta += post
		}
	}
	if !haveD {
		return false, false, "the trim loop examines no cell", loop
	}
	dk := d.add(cT, -1) // the examined cell is seg[cursor + dk]
	if len(dk.co) != 0 {
		return false, false, "the examined index is not cursor + constant", loop
	}
	// --- from here on the shape is understood: every mismatch is a defect
	decided = true
	fail := func(w string) (bool, bool, string, *ast.ForStmt) { return true, false, w, loop }
	// 1. the first examined cell is the last cell of the segment
	if c0.plus(dk.k).canon() != lenSeg.plus(-1).canon() {
		return fail("the trim loop starts at cell " + c0.plus(dk.k).String() + ", not at the last cell len(seg)-1")
	}
	// 2. it goes on while the examined index is >= 0
	atoms, isConj := c15Conj(c15Formula(info, conj[0]))
	if !isConj || len(atoms) != 1 {
		return false, false, "the bound of the trim loop is not a single comparison", loop
	}
	if atoms[0].canon() != d.neg().canon() {
		return fail("the trim loop does not run while the examined index " + d.String() + " >= 0 (its bound is " + types.ExprString(conj[0]) + ")")
	}
	// 3. whitespace: one cell back, next iteration; non-whitespace: stop, the word ends after this cell
	nSpace, nWord := 0, 0
	for _, p := range paths {
		if p.tests[0].space {
			nSpace++
			if p.exit != "next" {
				return fail("the trim loop stops at a whitespace cell")
			}
			if p.delta != -1 {
				return fail(fmt.Sprintf("a whitespace cell moves the cursor by %d, not by -1", p.delta))
			}
			if p.wordSet {
				return fail("the word is cut at a whitespace cell")
			}
			continue
		}
		nWord++
		if p.exit != "break" {
			return fail("the trim loop goes on after the first non-whitespace cell")
		}
		want := d.plus(1) // e + 1
		if inLoop {
			if !p.wordSet {
				return fail("the word is not cut at the first non-whitespace cell")
			}
			if p.wordH.canon() != want.canon() {
				return fail("word is not seg[:i+1]: it is cut at " + p.wordH.String() + " where the first non-whitespace cell (from the end) is " + d.String())
			}
		} else {
			if p.wordSet {
				return false, false, "the word is cut both inside and after the trim loop", loop
			}
			got := cT.plus(p.delta + a)
			if got.canon() != want.canon() {
				return fail("word is not seg[:i+1]: it is cut at " + got.String() + " where the first non-whitespace cell (from the end) is " + d.String())
			}
		}
	}
	if nSpace == 0 || nWord == 0 {
		return false, false, "the trim loop does not distinguish whitespace from other cells", loop
	}
	if inLoop {
		// a segment of whitespace only: the loop runs out and the word must be empty
		cleared := false
		for cur := s.declOf(s.word); cur != nil; cur = s.par[cur] {
			if cur == ast.Node(s.loop.Body) {
				cleared = true
			}
		}
		for _, st := range top {
			if st.Pos() >= loop.Pos() {
				break
			}
			if as, isA := st.(*ast.AssignStmt); isA && len(as.Lhs) == 1 && len(as.Rhs) == 1 && s.isObj(as.Lhs[0], s.word) {
				if r := unparen(as.Rhs[0]); isNilExpr(info, r) || c16IsEmptyLit(r) {
					cleared = true
				}
			}
		}
		if !cleared {
			return fail("word keeps the value of the previous segment when the segment is whitespace only")
		}
	} else {
		// running out of cells: examined index -1, the cut must be 0
		if a != dk.k+1 {
			return fail("word is not empty for a segment of whitespace only")
		}
	}
	return true, true, "", loop
}

// ---------------------------------------------------------------------------
// one loop measuring both pieces

// partitionedMeasure:  for i, ch := range seg { if i < cut { A += ch.Width } else { B += ch.Width } }
func (s *c16Scanner) partitionedMeasure(st ast.Stmt) bool {
	info := s.info
	if !s.hasCut {
		return false
	}
	it := c15IterOf(info, s.defs, st)
	if it == nil || !it.full || it.idx == nil || !s.isObj(it.x, s.seg) {
		return false
	}
	body := c15Flat(it.body.List)
	if len(body) != 1 {
		return false
	}
	ifs, ok := body[0].(*ast.IfStmt)
	if !ok || ifs.Init != nil || ifs.Else == nil {
		return false
	}
	els, ok := ifs.Else.(*ast.BlockStmt)
	if !ok {
		return false
	}
	adv := func(list []ast.Stmt) types.Object {
		b := c15Flat(list)
		if len(b) != 1 {
			return nil
		}
		as, ok := b[0].(*ast.AssignStmt)
		if !ok || len(as.Lhs) != 1 {
			return nil
		}
		lid, ok := as.Lhs[0].(*ast.Ident)
		if !ok {
			return nil
		}
		acc := info.ObjectOf(lid)
		inc, isAdv := c16Advance(info, as, acc)
		wT, found := it.elemField(as.Rhs[0], "Width")
		if !isAdv || !found || inc.canon() != wT.canon() || acc == s.w {
			return nil
		}
		return acc
	}
	a, b := adv(ifs.Body.List), adv(els.List)
	if a == nil || b == nil || a == b {
		return false
	}
	atoms, isConj := c15Conj(c15Formula(info, ifs.Cond))
	if !isConj || len(atoms) != 1 {
		return false
	}
	iT := c15TermLin(ptrID(it.idx), it.idx.Name(), true)
	switch atoms[0].canon() {
	case iT.add(s.cut, -1).plus(1).canon(): // i < cut
		s.measure[s.word], s.measure[s.trSpace] = a, b
	case s.cut.add(iT, -1).canon(): // i >= cut
		s.measure[s.word], s.measure[s.trSpace] = b, a
	default:
		return false
	}
	s.measureLoop[st] = true
	return true
}
