package main

import (
	"fmt"
	"go/ast"
	"go/token"
	"go/types"
	"math"
	"sort"

	"golang.org/x/tools/go/packages"
)

// ---------------------------------------------------------------------------------------------
// C19.a / C19.e — widgets/list
// ---------------------------------------------------------------------------------------------

func c19WidgetsList(c *Ctx) {
	const pkgName = "widgets/list"
	p := c19LoadPkg(c, pkgName)
	if p == nil {
		c.undecided("C19.a", pkgName, 0, "package not found")
		return
	}
	info := p.info
	tn, st := c19StructOf(p.pk, "List")
	fIndex, fOffset, fItems := c19FieldNamed(st, "index"), c19FieldNamed(st, "offset"), c19FieldNamed(st, "items")
	if tn == nil || fIndex == nil || fOffset == nil || fItems == nil {
		c.undecided("C19.a", pkgName+".List", 0, "type List with fields index, offset, items not found")
		return
	}
	// the invariant is only an invariant if nobody can write the fields behind the rule's back
	for _, file := range p.pk.Syntax {
		ast.Inspect(file, func(n ast.Node) bool {
			if u, ok := n.(*ast.UnaryExpr); ok && u.Op == token.AND {
				if fv := c19SelField(info, u.X); fv == fIndex || fv == fOffset {
					c.undecided("C19.a", pkgName+"/address of "+fv.Name(), u.Pos(), "the address of List.%s is taken; its stores can no longer be enumerated", fv.Name())
				}
			}
			if cl, ok := n.(*ast.CompositeLit); ok {
				if t := info.TypeOf(cl); t != nil && types.Identical(t, tn.Type()) {
					c19ListLiteral(c, info, cl, st, pkgName)
				}
			}
			return true
		})
	}
	nIndexStores, nAccess, nDrawn := 0, 0, 0
	for _, fi := range p.roots() {
		a, b, d := c19ListRoot(c, p, fi, fIndex, fOffset, fItems)
		nIndexStores += a
		nAccess += b
		nDrawn += d
	}
	if nIndexStores == 0 {
		c.undecided("C19.a", pkgName+"/stores to index", 0, "no store to List.index found: the selection cannot move")
	}
	if nAccess == 0 {
		c.undecided("C19.a", pkgName+"/items access", 0, "no access items[...] found: nothing draws the items")
	}
	if nDrawn == 0 {
		c.undecided("C19.e", pkgName+"/draw", 0, "no Window drawing call that draws an element of items was recognised")
	}
}

func c19ListRoot(c *Ctx, p *c19Pkg, fi *FuncInfo, fIndex, fOffset, fItems *types.Var) (nIndexStores, nAccess, nDrawn int) {
	info := p.info
	recv := c19RecvObj(fi)
	evs := map[*c19Frame]*c19Eval{}
	storesItems := false
	aliases := map[types.Object]bool{}
	var curPos *c19Pos
	var fl *c19Flow
	var itemStores []c19Store
	field := func(_ *c19Eval, sel *ast.SelectorExpr, fv *types.Var) (c19AV, bool) {
		if _, ok := unparen(sel.X).(*ast.Ident); !ok {
			return c19AV{}, false
		}
		switch fv {
		case fIndex:
			a := c19AV{0, math.Inf(1), 0}
			if storesItems {
				a.rel = math.Inf(1) // the bound refers to the items being replaced
			}
			return a, true
		case fOffset:
			return c19AV{0, math.Inf(1), math.Inf(1)}, true
		}
		return c19AV{}, false
	}
	itemsStoredBefore := func(pos c19Pos) bool {
		for _, s := range itemStores {
			stmt := s.stmt
			if !fl.mustPrecede(func(sn *c19SNode) bool { return sn.n == ast.Node(stmt) }, pos) {
				return false
			}
		}
		return true
	}
	// len(arg) is the length of the list the index has to fit: len(m.items) once items has its new
	// value, or len of the very slice that is (being) stored into items
	lenL := func(arg ast.Expr) bool {
		if c19SelField(info, arg) == fItems {
			return !storesItems || (curPos != nil && itemsStoredBefore(*curPos))
		}
		if pth, ok := c19Chain(info, unparen(arg)); ok && len(pth.path) == 0 {
			return aliases[pth.root]
		}
		return false
	}
	var evalFor func(fr *c19Frame) *c19Eval
	evalFor = func(fr *c19Frame) *c19Eval {
		if ev, ok := evs[fr]; ok {
			return ev
		}
		ev := &c19Eval{c: c, pk: p.pk, info: info, field: field, lenL: lenL, fr: fr, fi: fr.fi}
		evs[fr] = ev
		if fr.parent != nil {
			pev := evalFor(fr.parent)
			ev.env = map[types.Object]c19AV{}
			for po, arg := range fr.args {
				ev.env[po] = pev.eval(arg)
			}
		}
		return ev
	}
	bev := &c19Eval{c: c, pk: p.pk, info: info, field: field, fi: fi}
	fl = c19NewFlow(c, fi, c19WithLen(bev.bounds()), p.allow)
	stores := fl.stores(fIndex, fOffset, fItems)
	access := fl.find(func(n ast.Node) bool {
		switch t := n.(type) {
		case *ast.SliceExpr:
			return c19SelField(info, t.X) == fItems
		case *ast.IndexExpr:
			return c19SelField(info, t.X) == fItems
		}
		return false
	})
	if len(stores) == 0 && len(access) == 0 {
		return
	}
	for _, s := range stores {
		if s.fv != fItems {
			continue
		}
		storesItems = true
		itemStores = append(itemStores, s)
		if s.rhs == nil || s.tok != token.ASSIGN {
			continue
		}
		c19With(s.sn.fr, func() {
			pth, ok := c19Chain(info, unparen(s.rhs))
			if !ok || len(pth.path) != 0 {
				return
			}
			// the stored slice variable must never be reassigned in the function that declares it
			for _, fr := range fl.frames() {
				isParam := false
				for _, f := range fr.fi.Decl.Type.Params.List {
					for _, n := range f.Names {
						if info.Defs[n] == pth.root {
							isParam = true
						}
					}
				}
				if !isParam {
					continue
				}
				reassigned := false
				ast.Inspect(fr.fi.Decl.Body, func(n ast.Node) bool {
					if n != nil && assignsAny(info, n, map[types.Object]bool{pth.root: true}) {
						if _, blk := n.(*ast.BlockStmt); !blk {
							reassigned = true
						}
					}
					return !reassigned
				})
				if !reassigned {
					aliases[pth.root] = true
				}
			}
		})
	}
	var rootLins struct{ index, offset, lenItems *c19Lin }
	if recv != nil {
		rootLins.index = c19PathLin(recv, []string{fIndex.Name()}, true)
		rootLins.offset = c19PathLin(recv, []string{fOffset.Name()}, true)
		rootLins.lenItems = c19LenPathLin(recv, []string{fItems.Name()})
	}
	type pending struct {
		s    c19Store
		goal *c19Form
	}
	var pend []pending
	for _, s := range stores {
		if s.fv == fItems {
			continue
		}
		var goal *c19Form
		if l := s.lin(info); l != nil {
			goal = fl.goalAt(fl.ge0(l), s.c19Pos)
		}
		pend = append(pend, pending{s, goal})
	}
	_, hVar := fl.sizeVars()
	type accGoal struct {
		h                c19Hit
		low              ast.Expr
		inRange, follows *c19Form
		lower            *c19Form
		isSlice          bool
	}
	var ags []accGoal
	for _, h := range access {
		ag := accGoal{h: h}
		var itemsExpr ast.Expr
		switch t := h.node.(type) {
		case *ast.SliceExpr:
			ag.isSlice, ag.low, itemsExpr = true, t.Low, t.X
			if t.High != nil || t.Max != nil {
				c.undecided("C19.a", fi.Name+"/items[lo:hi]", t.Pos(), "a slice of items with an upper bound is not a shape this rule understands")
				continue
			}
		case *ast.IndexExpr:
			ag.low, itemsExpr = t.Index, t.X
		}
		nAccess++
		if ag.low == nil {
			c.okTrivial("C19.a", fi.Name+"/items[:] within items", h.node.Pos(), "no lower bound expression")
			continue
		}
		c19With(h.sn.fr, func() {
			low := c19LinOf(info, ag.low)
			ag.lower = fl.goalAt(fl.ge0(low), h.c19Pos)
			lenItems := c19LenLin(info, itemsExpr)
			var idx *c19Lin
			if pth, ok := c19Chain(info, itemsExpr); ok && len(pth.path) == 1 {
				idx = c19PathLin(pth.root, []string{fIndex.Name()}, true)
			}
			if ag.isSlice {
				alts := []*c19Form{fl.le(low.plus(lenItems, -1))} // low <= len(items)
				if idx != nil && !storesItems {
					alts = append(alts, fl.le(low.plus(idx, -1))) // low <= index <= max(0,len-1) <= len
				}
				ag.inRange = fl.goalAt(c19Or(alts...), h.c19Pos)
			} else {
				ag.inRange = fl.goalAt(fl.le(low.plus(lenItems, -1).addK(1)), h.c19Pos) // low <= len-1
			}
		})
		// the viewport follows the selection wherever the items are accessed in a function that draws
		if rootLins.index != nil {
			f1 := fl.le(rootLins.offset.plus(rootLins.index, -1)) // offset <= index
			if hVar != nil {
				f2 := fl.le(rootLins.index.plus(rootLins.offset, -1).plus(hVar.lin(info), -1).addK(1)) // index - offset - height <= -1
				ag.follows = fl.goalAt(c19And(f1, f2), h.c19Pos)
			} else {
				ag.follows = c19U
			}
		}
		ags = append(ags, ag)
	}
	rcs := fl.rowCalls(fItems)
	fl.solve()

	okIndexStore := map[ast.Stmt]bool{}
	for _, pd := range pend {
		s := pd.s
		pos := s.c19Pos
		curPos = &pos
		ev := evalFor(s.sn.fr)
		ev.memo = nil
		use := s.sn.loc
		ev.use = &use
		av := s.av(ev).norm()
		ev.use = nil
		curPos = nil
		key := fmt.Sprintf("%s/store %s >= 0", fi.Name, s.fv.Name())
		switch {
		case av.lo >= 0:
			c.ok("C19.a", key, s.stmt.Pos(), "%s: the stored value lies in [%v, %v] (fields index/offset >= 0 and len >= 0 assumed inductively)", c19Short(s.stmt), av.lo, av.hi)
		case pd.goal != nil:
			fl.prove("C19.a", key, s.stmt.Pos(), s.c19Pos, pd.goal, "stored value >= 0",
				fmt.Sprintf("List.%s can become negative (interval lower bound %v); Draw then slices items[offset:] with a negative offset and panics", s.fv.Name(), av.lo))
		default:
			c.bad("C19.a", key, s.stmt.Pos(), "the stored value has lower bound %v: List.%s can become negative", av.lo, s.fv.Name())
		}
		if s.fv == fIndex {
			nIndexStores++
			key := fmt.Sprintf("%s/store index <= last item", fi.Name)
			if av.rel <= 0 {
				okIndexStore[s.stmt] = true
				c.ok("C19.a", key, s.stmt.Pos(), "the stored value is bounded by max(0, len(items)-1) (slack %v)", -av.rel)
			} else {
				c.bad("C19.a", key, s.stmt.Pos(), "the stored value is not bounded by max(0, len(items)-1) (excess: %v): the selected index can leave the list, and Draw can slice beyond len(items)", av.rel)
			}
		}
	}
	for _, s := range itemStores {
		key := fmt.Sprintf("%s/store items paired with a clamp of index", fi.Name)
		isClamp := func(sn *c19SNode) bool { st, ok := sn.n.(ast.Stmt); return ok && okIndexStore[st] }
		c.check(fl.mustFollow(s.c19Pos, isClamp) || fl.mustPrecede(isClamp, s.c19Pos), "C19.a", key, s.stmt.Pos(),
			"every path through the replacement of items also stores an index bounded by the new length",
			"items is replaced without re-clamping index on every path: after shrinking the list the selected index is out of range")
	}
	doneFollows := false
	for _, ag := range ags {
		h := ag.h
		name := "items[" + types.ExprString(stripRecv(ag.low)) + ":]"
		if !ag.isSlice {
			name = "items[" + types.ExprString(stripRecv(ag.low)) + "]"
		}
		ev := evalFor(h.sn.fr)
		use := h.sn.loc
		ev.use = &use
		av := ev.eval(ag.low)
		ev.use = nil
		key := fmt.Sprintf("%s/%s lower bound >= 0", fi.Name, name)
		if av.lo >= 0 {
			c.ok("C19.a", key, h.node.Pos(), "the bound lies in [%v, %v] by the store invariant", av.lo, av.hi)
		} else {
			fl.prove("C19.a", key, h.node.Pos(), h.c19Pos, ag.lower, "bound >= 0", "a negative slice bound or index panics")
		}
		fl.prove("C19.a", fmt.Sprintf("%s/%s within len(items)", fi.Name, name), h.node.Pos(), h.c19Pos, ag.inRange,
			"the access stays within items (directly, or bound <= index which never exceeds the last item)",
			"the bound can exceed len(items) and Draw panics (e.g. a window of height 0 or less: Window.New yields negative sizes)")
		if len(rcs) == 0 || doneFollows {
			continue // only functions that draw must show the selection
		}
		doneFollows = true
		if ag.follows == c19U {
			c.undecided("C19.e", fmt.Sprintf("%s/viewport follows selection", fi.Name), h.node.Pos(), "no height obtained from Window.Size in this function")
		} else if ag.follows != nil {
			fl.prove("C19.e", fmt.Sprintf("%s/viewport follows selection", fi.Name), h.node.Pos(), h.c19Pos, ag.follows,
				"offset <= index < offset+height", "after a selection change the selected row can lie outside the drawn rows")
		}
	}
	// rows: element J of items is drawn on row J - offset, and the highlighted element is J == index
	if rootLins.index == nil {
		return
	}
	var items []*c19Lin
	for _, rc := range rcs {
		if rc.item == nil {
			continue
		}
		nDrawn++
		items = append(items, rc.item)
		l := rc.item.plus(rc.row, -1).plus(rootLins.offset, -1)
		c.check(c19IsZeroLin(l), "C19.e", fi.Name+"/item drawn on row index-of-item - offset", rc.call.Pos(),
			"the visible items are drawn on consecutive rows in order, starting with items[offset] on row 0",
			"the row passed to "+rc.fn.Name()+" is "+rc.row.String()+" for item "+rc.item.String()+": items are not laid out in order and contiguously from the scroll offset")
	}
	if len(items) == 0 {
		return
	}
	nCmp := 0
	seenFn := map[*FuncInfo]bool{}
	for _, fr := range fl.frames() {
		if seenFn[fr.fi] {
			continue
		}
		seenFn[fr.fi] = true
		g := c19Graph(c, fr.fi)
		check := func(x, y ast.Expr, at ast.Node) {
			if !isIntegerExpr(info, x) || !isIntegerExpr(info, y) {
				return
			}
			var l *c19Lin
			c19With(fr, func() {
				var use *Loc
				if loc, ok := g.Locate(at); ok {
					use = &loc
				}
				l = c19Resolve(c, fr.fi, c19LinOf(info, x).plus(c19LinOf(info, y), -1), use)
			})
			var idxID string
			for id := range rootLins.index.coef {
				idxID = id
			}
			k := l.coef[idxID]
			if (k != 1 && k != -1) || len(l.ids()) < 2 {
				return
			}
			nCmp++
			okCmp := false
			for _, it := range items {
				// k*l == index - J   <=>   l*k + J - index == 0
				if c19IsZeroLin(c19NewLin().plus(l, k).plus(it, 1).plus(rootLins.index, -1)) {
					okCmp = true
				}
			}
			c.check(okCmp, "C19.e", fi.Name+"/highlighted item is the selected one", at.Pos(),
				"the index of the drawn item is compared with List.index",
				"the comparison "+c19Short(at)+" does not compare the index of the drawn item with List.index: the highlighted row is not the selected item")
		}
		ast.Inspect(fr.fi.Decl.Body, func(n ast.Node) bool {
			switch t := n.(type) {
			case *ast.BinaryExpr:
				if t.Op == token.EQL || t.Op == token.NEQ {
					check(t.X, t.Y, t)
				}
			case *ast.SwitchStmt:
				if t.Tag != nil {
					for _, cl := range t.Body.List {
						for _, e := range cl.(*ast.CaseClause).List {
							check(t.Tag, e, e)
						}
					}
				}
			}
			return true
		})
	}
	if nCmp == 0 {
		c.undecided("C19.e", fi.Name+"/highlighted item is the selected one", fi.Decl.Pos(), "no comparison of the drawn item's position with List.index found")
	}
	return
}

func c19ListLiteral(c *Ctx, info *types.Info, cl *ast.CompositeLit, st *types.Struct, pkgName string) {
	key := pkgName + "/List literal starts at index 0, offset 0"
	okAll := true
	for i, el := range cl.Elts {
		name := ""
		val := el
		if kv, ok := el.(*ast.KeyValueExpr); ok {
			if id, ok := kv.Key.(*ast.Ident); ok {
				name = id.Name
			}
			val = kv.Value
		} else if i < st.NumFields() {
			name = st.Field(i).Name()
		}
		if name == "index" || name == "offset" {
			if v, ok := constInt(info, val); !ok || v != 0 {
				okAll = false
			}
		}
	}
	c.check(okAll, "C19.a", key, cl.Pos(), "index and offset start at zero", "a List literal sets index/offset to something other than 0: not known to be inside the list")
}

// ---------------------------------------------------------------------------------------------
// C19.b — widgets/pager
// ---------------------------------------------------------------------------------------------

type c19PagerInfo struct {
	p                      *c19Pkg
	pk                     *packages.Package
	info                   *types.Info
	fLines, fOffset, fWide *types.Var
	lineT                  *types.Named
	chars                  map[*types.Var]bool  // slice fields of line
	appenders              map[*types.Func]bool // methods of line that append one element to a chars field
	layouts                map[*types.Func]bool // functions whose supergraph stores to Model.lines
	// builders (set per layout function by c19PagerLayout): local slices of the type of Model.lines that are stored
	// in Model.lines (`m.lines = b`, the commit): the lines are collected in b and handed over at the end
	builders map[types.Object]bool
}

func c19Pager(c *Ctx) {
	const pkgName = "widgets/pager"
	// a helper that takes the pending line and returns the line that is pending afterwards re-assigns its pointer
	// parameter: such parameters are bound by value, the typestate of c19PagerLayout follows the copies
	if pk := c.P.Pkg(pkgName); pk != nil {
		if _, st := c19StructOf(pk, "Model"); st != nil {
			if fv := c19FieldNamed(st, "lines"); fv != nil {
				if sl, ok := fv.Type().Underlying().(*types.Slice); ok {
					if pt, ok := sl.Elem().(*types.Pointer); ok {
						if _, named := pt.Elem().(*types.Named); named {
							c19BindByValue = func(t types.Type) bool { return types.Identical(t, pt) }
							defer func() { c19BindByValue = nil }()
						}
					}
				}
			}
		}
	}
	p := c19LoadPkg(c, pkgName)
	if p == nil {
		c.undecided("C19.b", pkgName, 0, "package not found")
		return
	}
	info := p.info
	_, st := c19StructOf(p.pk, "Model")
	pi := &c19PagerInfo{p: p, pk: p.pk, info: info, fLines: c19FieldNamed(st, "lines"), fOffset: c19FieldNamed(st, "Offset"), fWide: c19FieldNamed(st, "width"),
		chars: map[*types.Var]bool{}, appenders: map[*types.Func]bool{}, layouts: map[*types.Func]bool{}}
	if pi.fLines == nil || pi.fOffset == nil || pi.fWide == nil {
		c.undecided("C19.b", pkgName+".Model", 0, "type Model with fields lines, Offset, width not found")
		return
	}
	// the line type: element of Model.lines
	if sl, ok := pi.fLines.Type().Underlying().(*types.Slice); ok {
		el := sl.Elem()
		if pt, ok := el.(*types.Pointer); ok {
			el = pt.Elem()
		}
		pi.lineT, _ = el.(*types.Named)
	}
	if pi.lineT == nil {
		c.undecided("C19.b", pkgName+".Model.lines", pi.fLines.Pos(), "Model.lines is not a slice of (pointers to) a named line type")
		return
	}
	if ls, ok := pi.lineT.Underlying().(*types.Struct); ok {
		for i := 0; i < ls.NumFields(); i++ {
			if _, ok := ls.Field(i).Type().Underlying().(*types.Slice); ok {
				pi.chars[ls.Field(i)] = true
			}
		}
	}
	for _, fi := range p.funcs {
		if recv := c19RecvObj(fi); recv != nil {
			t := recv.Type()
			if pt, ok := t.(*types.Pointer); ok {
				t = pt.Elem()
			}
			if types.Identical(t, pi.lineT) && len(fi.Decl.Body.List) == 1 {
				if as, ok := fi.Decl.Body.List[0].(*ast.AssignStmt); ok && pi.isCharsAppend(as) != nil && rootObj(info, as.Lhs[0]) == recv {
					pi.appenders[fi.Obj] = true
				}
			}
		}
		if fl := c19NewFlow(c, fi, nil, p.allow); len(fl.stores(pi.fLines)) > 0 {
			pi.layouts[fi.Obj] = true
		}
	}
	nLayout, nDraw := 0, 0
	for _, fi := range p.roots() {
		if pi.layouts[fi.Obj] {
			// a root that only calls another layout root (not inlined) has no stores of its own
			fl := c19NewFlow(c, fi, c19WithLen(c19TypeBounds(c, p.pk)), p.allow)
			if len(fl.stores(pi.fLines)) > 0 {
				nLayout++
				c19PagerLayout(c, pi, fi, fl)
				c19PagerNewlines(c, pi, fi) // C19.n (c19n.go)
			}
		}
		fl := c19NewFlow(c, fi, c19WithLen(c19TypeBounds(c, p.pk)), p.allow)
		uses := fl.find(func(n ast.Node) bool {
			switch t := n.(type) {
			case *ast.IndexExpr:
				return c19SelField(info, t.X) == pi.fLines
			case *ast.SliceExpr:
				return c19SelField(info, t.X) == pi.fLines
			case ast.Expr:
				if rs, ok := p.parents[n].(*ast.RangeStmt); ok && rs.X == t {
					return c19SelField(info, t) == pi.fLines
				}
			}
			return false
		})
		if len(uses) > 0 {
			nDraw++
			c19PagerDraw(c, pi, fi, fl, uses)
		}
	}
	if nLayout == 0 {
		c.undecided("C19.b", pkgName+"/layout", 0, "no function stores to Model.lines")
	}
	if nDraw == 0 {
		c.undecided("C19.b", pkgName+"/draw", 0, "no function iterates over Model.lines")
	}
}

// isCharsAppend: x.chars = append(x.chars, v) ; returns x.
func (pi *c19PagerInfo) isCharsAppend(as *ast.AssignStmt) ast.Expr {
	if len(as.Lhs) != 1 || len(as.Rhs) != 1 || as.Tok != token.ASSIGN {
		return nil
	}
	fv := c19SelField(pi.info, as.Lhs[0])
	if fv == nil || !pi.chars[fv] {
		return nil
	}
	call, ok := unparen(as.Rhs[0]).(*ast.CallExpr)
	if !ok || c19IsBuiltin(pi.info, call, "append") == "" || len(call.Args) < 2 {
		return nil
	}
	if c19SelField(pi.info, call.Args[0]) != fv || c19TermID(pi.info, call.Args[0]) != c19TermID(pi.info, as.Lhs[0]) {
		return nil
	}
	return unparen(as.Lhs[0]).(*ast.SelectorExpr).X
}

func (pi *c19PagerInfo) isLinePtr(t types.Type) bool {
	if pt, ok := t.(*types.Pointer); ok {
		return types.Identical(pt.Elem(), pi.lineT)
	}
	return false
}

// canonVar: the variable an expression names, through the aliases of the current frame.
func c19CanonVar(info *types.Info, e ast.Expr) types.Object {
	if pth, ok := c19Chain(info, unparen(e)); ok && len(pth.path) == 0 {
		return pth.root
	}
	return nil
}

func (pi *c19PagerInfo) isFreshLine(rhs ast.Expr) bool {
	switch t := rhs.(type) {
	case *ast.UnaryExpr:
		if cl, ok := unparen(t.X).(*ast.CompositeLit); ok && t.Op == token.AND {
			return len(cl.Elts) == 0 && types.Identical(pi.info.TypeOf(cl), pi.lineT)
		}
	case *ast.CallExpr:
		if c19IsBuiltin(pi.info, t, "new") != "" && len(t.Args) == 1 {
			return types.Identical(pi.info.TypeOf(t.Args[0]), pi.lineT)
		}
	}
	return false
}

// linesContainer: the container of lines that e names: Model.lines (nil, true) or a builder variable (b, true).
func (pi *c19PagerInfo) linesContainer(e ast.Expr) (types.Object, bool) {
	if e == nil {
		return nil, false
	}
	if c19SelField(pi.info, e) == pi.fLines {
		return nil, true
	}
	if o := c19CanonVar(pi.info, e); o != nil && pi.builders[o] {
		return o, true
	}
	return nil, false
}

// linesStore: the event of a store lhs = rhs to a container of lines (Model.lines or a builder variable); rhs == nil
// with noValue: a declaration without initial value (the empty slice).
func (pi *c19PagerInfo) linesStore(lhs, rhs ast.Expr) c19LineEvent {
	info := pi.info
	cont, _ := pi.linesContainer(lhs)
	switch t := rhs.(type) {
	case *ast.CompositeLit:
		if len(t.Elts) == 0 {
			return c19LineEvent{kind: "reset", cont: cont}
		}
	case *ast.Ident:
		if isNilExpr(info, t) {
			return c19LineEvent{kind: "reset", cont: cont}
		}
		// Model.lines = b: the lines collected in the builder b become the lines of the model
		if b, ok := pi.linesContainer(t); ok && b != nil && cont == nil {
			return c19LineEvent{kind: "commit", cont: b}
		}
	case *ast.SliceExpr:
		if xc, ok := pi.linesContainer(t.X); ok && xc == cont && t.Low == nil && t.High != nil {
			if v, ok := constInt(info, t.High); ok && v == 0 {
				return c19LineEvent{kind: "reset", cont: cont}
			}
		}
	case *ast.CallExpr:
		if c19IsBuiltin(info, t, "make") != "" && len(t.Args) >= 2 {
			if v, ok := constInt(info, t.Args[1]); ok && v == 0 {
				return c19LineEvent{kind: "reset", cont: cont}
			}
		}
		if c19IsBuiltin(info, t, "append") != "" && len(t.Args) == 2 && t.Ellipsis == token.NoPos {
			if ac, ok := pi.linesContainer(t.Args[0]); ok && ac == cont && (cont != nil || c19TermID(info, t.Args[0]) == c19TermID(info, lhs)) {
				if o := c19CanonVar(info, t.Args[1]); o != nil {
					return c19LineEvent{kind: "flush", v: o, cont: cont}
				}
			}
		}
	}
	return c19LineEvent{kind: "otherLines", v: nil}
}

// findBuilders: the local variables b of the type of Model.lines with a store Model.lines = b in the supergraph.
func (pi *c19PagerInfo) findBuilders(fl *c19Flow) map[types.Object]bool {
	out := map[types.Object]bool{}
	for _, h := range fl.find(func(n ast.Node) bool { _, ok := n.(*ast.AssignStmt); return ok }) {
		as := h.node.(*ast.AssignStmt)
		if len(as.Lhs) != len(as.Rhs) || as.Tok != token.ASSIGN {
			continue
		}
		for i, l := range as.Lhs {
			if c19SelField(pi.info, l) != pi.fLines {
				continue
			}
			if _, isID := unparen(as.Rhs[i]).(*ast.Ident); !isID {
				continue
			}
			v, ok := c19CanonVar(pi.info, as.Rhs[i]).(*types.Var)
			if !ok || v.IsField() || v.Parent() == nil || v.Parent() == pi.pk.Types.Scope() || !types.Identical(v.Type(), pi.fLines.Type()) {
				continue
			}
			out[v] = true
		}
	}
	return out
}

func c19PagerDraw(c *Ctx, pi *c19PagerInfo, fi *FuncInfo, fl *c19Flow, sinks []c19Hit) {
	info := pi.info
	recv := c19RecvObj(fi)
	if recv == nil {
		c.undecided("C19.b", fi.Name+"/offset clamped", fi.Decl.Pos(), "the function reads Model.lines but has no named receiver")
		return
	}
	wVar, hVar := fl.sizeVars()
	off := c19PathLin(recv, []string{pi.fOffset.Name()}, false)
	lenLines := c19LenPathLin(recv, []string{pi.fLines.Name()})
	width := c19PathLin(recv, []string{pi.fWide.Name()}, false)
	alts := []*c19Form{fl.eq(off), fl.ge0(lenLines.plus(off, -1).addK(-1))} // Offset == 0 or len(lines)-Offset >= 1
	if hVar != nil {
		alts = append(alts, fl.ge0(lenLines.plus(off, -1).plus(hVar.lin(info), -1))) // len(lines)-Offset >= h
	}
	nonNeg, clamped := fl.ge0(off), c19Or(alts...)
	var sameWidth *c19Form
	if wVar != nil {
		sameWidth = fl.eq(wVar.lin(info).plus(width, -1))
	}
	for _, h := range sinks {
		fl.goalAt(nonNeg, h.c19Pos)
		fl.goalAt(clamped, h.c19Pos)
		if sameWidth != nil {
			fl.goalAt(sameWidth, h.c19Pos)
		}
	}
	// an indexed access lines[i] stays within the slice
	type idxGoal struct {
		h      c19Hit
		lo, hi *c19Form
	}
	var idxs []idxGoal
	for _, h := range sinks {
		if ie, ok := h.node.(*ast.IndexExpr); ok {
			c19With(h.sn.fr, func() {
				il := c19LinOf(info, ie.Index)
				idxs = append(idxs, idxGoal{h, fl.goalAt(fl.ge0(il), h.c19Pos), fl.goalAt(fl.le(il.plus(c19LenLin(info, ie.X), -1).addK(1)), h.c19Pos)})
			})
		}
	}
	widthStores := fl.stores(pi.fWide)
	// a (re)layout: a call of a layout function that is not inlined, or the reset of lines of an inlined one
	isLayout := func(sn *c19SNode) bool {
		if sn.n == nil {
			return false
		}
		r := false
		c19With(sn.fr, func() {
			inspectNoLit(sn.n, func(m ast.Node) bool {
				switch t := m.(type) {
				case *ast.CallExpr:
					if t == sn.skip {
						return sn.pseudo != "post"
					}
					if fn := calleeOf(info, t); fn != nil && pi.layouts[fn] {
						r = true
					}
				case *ast.AssignStmt:
					for i, l := range t.Lhs {
						if c19SelField(info, l) == pi.fLines && len(t.Lhs) == len(t.Rhs) && pi.linesStore(l, unparen(t.Rhs[i])).kind == "reset" {
							r = true
						}
					}
				}
				return true
			})
		})
		return r
	}
	rcs := fl.rowCalls(pi.fLines)
	fl.solve()
	for _, ig := range idxs {
		fl.prove("C19.b", fi.Name+"/lines[…] index >= 0", ig.h.node.Pos(), ig.h.c19Pos, ig.lo, "index >= 0", "a negative index into lines panics")
		fl.prove("C19.b", fi.Name+"/lines[…] index < len", ig.h.node.Pos(), ig.h.c19Pos, ig.hi, "index < len(lines)", "the index can reach len(lines) and Draw panics")
	}
	reported := false
	for _, h := range sinks {
		if reported {
			// one obligation per kind: every access must satisfy it, the first failing one is reported
			okAll := true
			for _, f := range []*c19Form{nonNeg, clamped} {
				if ok, _ := fl.holds(fl.statesAt(h.c19Pos), f); !ok {
					okAll = false
				}
			}
			if okAll {
				continue
			}
		}
		reported = true
		fl.prove("C19.b", fi.Name+"/Offset >= 0 where the lines are read", h.node.Pos(), h.c19Pos, nonNeg, "Offset >= 0",
			"rows are drawn at row-Offset with a negative Offset (ScrollUp decrements without bound): the text is shifted down instead of clamped")
		fl.prove("C19.b", fi.Name+"/Offset clamped to the content where the lines are read", h.node.Pos(), h.c19Pos, clamped, "Offset == 0, or Offset <= len(lines)-h, or Offset < len(lines)",
			"the scroll offset can point beyond the content (ScrollDown increments without bound)")
		if sameWidth != nil {
			fl.prove("C19.b", fi.Name+"/lines laid out for the window width where they are read", h.node.Pos(), h.c19Pos, sameWidth, "recorded width == window width",
				"the lines were wrapped for another width than the window's")
		}
	}
	// every line is drawn at (its index) - Offset
	nSet := 0
	for _, rc := range rcs {
		if rc.item == nil {
			continue
		}
		nSet++
		l := rc.item.plus(rc.row, -1).plus(off, -1)
		c.check(c19IsZeroLin(l), "C19.b", fi.Name+"/line drawn at row - Offset", rc.call.Pos(),
			"the row passed to "+rc.fn.Name()+" is the line number minus Offset", "the row passed to "+rc.fn.Name()+" is "+rc.row.String()+" for line "+rc.item.String()+", not the line number minus Offset: lines are not presented in order from the scroll offset")
	}
	if nSet == 0 {
		c.undecided("C19.b", fi.Name+"/line drawn at row - Offset", fi.Decl.Pos(), "no Window drawing call whose cell comes from an element of lines was recognised")
	}
	hasLayout := false
	for _, b := range fl.blks {
		for _, sn := range b.nodes {
			if isLayout(sn) {
				hasLayout = true
			}
		}
	}
	if !hasLayout || wVar == nil || len(widthStores) == 0 {
		c.bad("C19.b", fi.Name+"/relayout on width change", fi.Decl.Pos(), "the draw function does not record the window width and lay the text out: the text is never wrapped at the window width (width is unexported, only this package can set it)")
		return
	}
	var wID string
	for id := range wVar.lin(info).coef {
		wID = id
	}
	for _, ws := range widthStores {
		fromSize := false
		if l := ws.lin(info); l != nil && len(l.ids()) == 1 && l.coef[wID] == 1 && l.k == 0 {
			fromSize = true
		}
		reach := false
		for _, h := range sinks {
			if fl.reaches(ws.c19Pos, h.c19Pos, isLayout) {
				reach = true
			}
		}
		c.check(fromSize && !reach, "C19.b", fi.Name+"/width store followed by layout", ws.stmt.Pos(),
			"the width recorded is the window's and every path from the store to the lines lays the text out again",
			"the recorded width is not the first result of Window.Size, or the lines are read after the store without a new layout: the text is wrapped at a stale width")
	}
	isWidthStore := func(sn *c19SNode) bool {
		for _, ws := range widthStores {
			if sn.n == ast.Node(ws.stmt) {
				return true
			}
		}
		return false
	}
	done := false
	for _, b := range fl.blks {
		for i, sn := range b.nodes {
			if !isLayout(sn) {
				continue
			}
			okPre := fl.mustPrecede(isWidthStore, c19Pos{b, i})
			if done && okPre {
				continue
			}
			done = true
			c.check(okPre, "C19.b", fi.Name+"/layout uses the recorded width", sn.n.Pos(),
				"the width is stored before the layout reads it", "the text is laid out before the window width is recorded: it is wrapped at the previous width")
		}
	}
}

// ---------------------------------------------------------------------------------------------
// C19.c — vxfw/list
// ---------------------------------------------------------------------------------------------

type c19Sink struct {
	c19Pos
	pos  token.Pos
	desc string
	kind string // index | state | signed
}

type c19Sub struct {
	a, b   *c19Lin
	text   string
	pos    token.Pos
	def    c19Hit
	sinks  []c19Sink
	note   string // why it is not a sink / not understood
	ctx    string // enclosing boolean-field condition, for the key
	isStmt bool   // x -= e / x--
}

type c19Dyn struct {
	c                                     *Ctx
	p                                     *c19Pkg
	info                                  *types.Info
	fCursor, fTop, fOff, fPending, fWants *types.Var
	scrollName                            string
	bounds                                c19Bounds
	ensures                               map[*types.Func]bool
	r1OK, r3OK                            bool
	topStmts                              map[ast.Stmt]*FuncInfo // every store to scroll.top in the package
}

func c19VxfwList(c *Ctx) {
	const pkgName = "vxfw/list"
	p := c19LoadPkg(c, pkgName)
	if p == nil {
		c.undecided("C19.c", pkgName, 0, "package not found")
		return
	}
	info := p.info
	_, st := c19StructOf(p.pk, "Dynamic")
	fCursor, fScroll := c19FieldNamed(st, "cursor"), c19FieldNamed(st, "scroll")
	var sst *types.Struct
	if fScroll != nil {
		sst, _ = fScroll.Type().Underlying().(*types.Struct)
	}
	d := &c19Dyn{c: c, p: p, info: info, fCursor: fCursor, fTop: c19FieldNamed(sst, "top"), fOff: c19FieldNamed(sst, "offset"),
		fPending: c19FieldNamed(sst, "pending"), fWants: c19FieldNamed(sst, "wantsCursor"), bounds: c19WithLen(c19TypeBounds(c, p.pk)),
		ensures: map[*types.Func]bool{}, r1OK: true, r3OK: true, topStmts: map[ast.Stmt]*FuncInfo{}}
	if d.fCursor == nil || d.fTop == nil || d.fOff == nil || d.fPending == nil || d.fWants == nil {
		c.undecided("C19.c", pkgName+".Dynamic", 0, "type Dynamic with cursor and scroll{top,offset,pending,wantsCursor} not found")
		return
	}
	d.scrollName = fScroll.Name()
	roots := p.roots()
	// functions that re-anchor the scroll state for whatever cursor they find (called, not inlined)
	for _, fi := range roots {
		fl := c19NewFlow(c, fi, d.bounds, p.allow)
		if len(fl.stores(d.fCursor)) == 0 && (len(fl.stores(d.fWants)) > 0 || len(fl.stores(d.fTop)) > 0) && c19RecvObj(fi) != nil {
			if ok, _ := d.anchorFlow(fi, fl, true); ok {
				d.ensures[fi.Obj] = true
			}
		}
		for _, s := range fl.stores(d.fTop) {
			d.topStmts[s.stmt] = fi
		}
	}
	nAnchor, nRaise, nPending := 0, 0, 0
	for _, fi := range roots {
		a, r, pd := d.selection(fi)
		nAnchor += a
		nRaise += r
		nPending += pd
	}
	if nAnchor == 0 {
		c.undecided("C19.c", pkgName+"/selection change", 0, "no store to Dynamic.cursor found")
	}
	if nRaise == 0 {
		c.undecided("C19.c", pkgName+"/wantsCursor", 0, "no function raises scroll.wantsCursor: the mechanism that brings the cursor into view was not found")
	}
	if nPending == 0 {
		c.undecided("C19.c", pkgName+"/pending", 0, "no read of scroll.pending found")
	}
	nSub, nIdx := 0, 0
	for _, fi := range roots {
		a, b := d.arith(fi)
		nSub += a
		nIdx += b
	}
	if nSub == 0 {
		c.undecided("C19.c", pkgName+"/unsigned subtraction", 0, "no unsigned subtraction reaching an index or the scroll state found (cursor and top are unsigned)")
	}
	if nIdx == 0 {
		c.undecided("C19.c", pkgName+"/index", 0, "no index expression on a slice found")
	}
}

func (d *c19Dyn) lins(recv types.Object) (cursor, top *c19Lin) {
	return c19PathLin(recv, []string{d.fCursor.Name()}, true), c19PathLin(recv, []string{d.scrollName, d.fTop.Name()}, true)
}

func (d *c19Dyn) isTrueStore(s c19Store) bool {
	v, ok := c19BoolConst(d.info, s.rhs)
	return s.rhs != nil && ok && v && (s.tok == token.ASSIGN || s.tok == token.DEFINE)
}

// anchorFlow runs the "selection dirty" typestate: a store to cursor makes the selection dirty, raising
// wantsCursor handles it; at every return a dirty selection must have top == cursor. With assumeDirty the
// function is analysed as if the cursor had just been changed by its caller.
func (d *c19Dyn) anchorFlow(fi *FuncInfo, fl *c19Flow, assumeDirty bool) (bool, string) {
	info := d.info
	recv := c19RecvObj(fi)
	cursor, top := d.lins(recv)
	same := fl.goal(fl.eq(top.plus(cursor, -1)))
	fl.goal(fl.le(top.plus(cursor, -1)))
	if assumeDirty {
		fl.ghostInit = 1
	}
	fl.ghost = func(sn *c19SNode, st uint32) []uint32 {
		out := st
		changed := false
		if sn.n == nil {
			return nil
		}
		inspectNoLit(sn.n, func(m ast.Node) bool {
			switch s := m.(type) {
			case *ast.CallExpr:
				if s == sn.skip {
					return sn.pseudo != "post"
				}
				if fn := calleeOf(info, s); fn != nil && d.ensures[fn] {
					out &^= 1 << c19GhostShift
					changed = true
				}
			case *ast.AssignStmt:
				for i, l := range s.Lhs {
					switch c19SelField(info, l) {
					case d.fCursor:
						out |= 1 << c19GhostShift
						changed = true
					case d.fWants:
						if len(s.Lhs) == len(s.Rhs) {
							if v, ok := c19BoolConst(info, s.Rhs[i]); ok && v {
								out &^= 1 << c19GhostShift
								changed = true
							}
						}
					}
				}
			case *ast.IncDecStmt:
				if c19SelField(info, s.X) == d.fCursor {
					out |= 1 << c19GhostShift
					changed = true
				}
			}
			return true
		})
		if !changed {
			return nil
		}
		return []uint32{out}
	}
	fl.solve()
	if fl.err != "" {
		return false, fl.err
	}
	var sts []uint32
	for st := range fl.exitStates() {
		sts = append(sts, st)
	}
	if len(sts) == 0 {
		return false, "no abstract state reaches a return"
	}
	sort.Slice(sts, func(i, j int) bool { return sts[i] < sts[j] })
	for _, st := range sts {
		if st>>c19GhostShift&1 == 1 && fl.eval3(same, st) != 1 {
			return false, fl.describe(st)
		}
	}
	return true, ""
}

// selection: the obligations around a change of the cursor, per root.
func (d *c19Dyn) selection(fi *FuncInfo) (nAnchor, nRaise, nPending int) {
	c, info := d.c, d.info
	recv := c19RecvObj(fi)
	fl := c19NewFlow(c, fi, d.bounds, d.p.allow)
	curStores, wantStores, topStores := fl.stores(d.fCursor), fl.stores(d.fWants), fl.stores(d.fTop)
	if recv != nil && (len(curStores) > 0 || len(wantStores) > 0) {
		cursor, top := d.lins(recv)
		below := fl.le(top.plus(cursor, -1))
		for _, s := range wantStores {
			if d.isTrueStore(s) {
				fl.goalAt(below, s.c19Pos)
			}
		}
		ok, wit := d.anchorFlow(fi, fl, false)
		if len(curStores) > 0 {
			nAnchor++
			if fl.err != "" {
				c.undecided("C19.c", fi.Name+"/selection change re-anchors the scroll state", curStores[0].stmt.Pos(), "%s", fl.err)
				d.r3OK = false
			} else if !c.check(ok, "C19.c", fi.Name+"/selection change re-anchors the scroll state", curStores[0].stmt.Pos(),
				"after a store to cursor every return has raised wantsCursor or re-anchored scroll.top = cursor",
				"a return is reachable after a store to cursor with neither wantsCursor raised nor top = cursor ("+wit+"): the next draw does not bring the selected item into view (and cursor < top can reach the unsigned subtraction in Draw)") {
				d.r3OK = false
			}
		}
		for _, s := range wantStores {
			if !d.isTrueStore(s) {
				continue
			}
			nRaise++
			if !fl.prove("C19.c", fi.Name+"/wantsCursor raised only when cursor >= top", s.stmt.Pos(), s.c19Pos, below, "scroll.top <= cursor",
				"wantsCursor can be raised with the cursor above the top item; Draw then computes cursor - top on unsigned operands and indexes Children with the wrapped value") {
				d.r1OK = false
			}
		}
		isOffZero := c19Has(c19IsZeroStore(info, d.fOff))
		for _, s := range topStores {
			if s.tok != token.ASSIGN || c19SelField(info, s.rhs) != d.fCursor {
				continue
			}
			c.check(fl.mustFollow(s.c19Pos, isOffZero) || fl.mustPrecede(isOffZero, s.c19Pos), "C19.c", fi.Name+"/re-anchoring top resets the line offset", s.stmt.Pos(),
				"scroll.offset = 0 accompanies the store scroll.top = cursor", "scroll.top is re-anchored without scroll.offset = 0: the selected item is drawn scrolled by the stale line offset and can be cut off or invisible")
		}
	}
	// pending is reset after it is read
	fl2 := c19NewFlow(c, fi, d.bounds, d.p.allow)
	reads := fl2.find(func(n ast.Node) bool {
		e, ok := n.(ast.Expr)
		if !ok || c19SelField(info, e) != d.fPending {
			return false
		}
		switch par := d.p.parents[n].(type) {
		case *ast.AssignStmt:
			for _, l := range par.Lhs {
				if l == e {
					return false
				}
			}
		case *ast.IncDecStmt:
			return false
		}
		return true
	})
	isPendingZero := c19Has(c19IsZeroStore(info, d.fPending))
	for _, h := range reads {
		nPending++
		c.check(fl2.mustFollow(h.c19Pos, isPendingZero), "C19.c", fi.Name+"/pending scroll reset after use", h.node.Pos(),
			"scroll.pending = 0 follows the read on every path", "the pending scroll amount is applied but not reset on some path: the next draw scrolls again and moves a freshly selected item out of view")
	}
	return
}

// arith: unsigned subtractions and index expressions of one root (helpers inlined). Every construct gets a
// flow of its own, so that only the predicates relevant to it are tracked.
func (d *c19Dyn) arith(fi *FuncInfo) (nSub, nIdx int) {
	recv := c19RecvObj(fi)
	probe := c19NewFlow(d.c, fi, d.bounds, d.p.allow)
	ns := len(d.findSubs(fi, probe, recv))
	ni := len(probe.find(func(n ast.Node) bool { _, ok := n.(*ast.IndexExpr); return ok }))
	for k := 0; k < ns; k++ {
		a, _ := d.arithJob(fi, k, -1)
		nSub += a
	}
	for k := 0; k < ni; k++ {
		_, b := d.arithJob(fi, -1, k)
		nIdx += b
	}
	return
}

func (d *c19Dyn) arithJob(fi *FuncInfo, onlySub, onlyIdx int) (nSub, nIdx int) {
	c, info := d.c, d.info
	recv := c19RecvObj(fi)
	fl := c19NewFlow(c, fi, d.bounds, d.p.allow)
	subs := d.findSubs(fi, fl, recv)
	if onlySub >= 0 && onlySub < len(subs) {
		subs = subs[onlySub : onlySub+1]
	} else {
		subs = nil
	}
	type idxGoal struct {
		h        c19Hit
		lo, hi   *c19Form
		loByType bool
		name     string
	}
	var idxs []idxGoal
	for k, h := range fl.find(func(n ast.Node) bool { _, ok := n.(*ast.IndexExpr); return ok }) {
		if k != onlyIdx {
			continue
		}
		ie := h.node.(*ast.IndexExpr)
		t := info.TypeOf(ie.X)
		if t == nil {
			continue
		}
		if _, ok := t.Underlying().(*types.Slice); !ok {
			continue
		}
		name := types.ExprString(stripRecv(ie.X)) + "[…]"
		nIdx++
		if c19IsRangeKey(info, d.p.parents, ie) {
			c.okTrivial("C19.c", fi.Name+"/"+name+" within bounds", ie.Pos(), "the index is the key of the enclosing range over the same slice")
			continue
		}
		if rev := c19InReversal(info, d.p.parents, ie); rev != nil {
			// the loop is verified to be exactly an in-place reversal (c19o.go): its shape is the proof
			c.okTrivial("C19.c", fi.Name+"/"+name+" within bounds", ie.Pos(), "index of the swap of a %s reversal loop over the same slice: 0 <= low index < high index <= len-1 is the invariant of a loop of exactly this shape (counters start at the ends, move towards each other by one, the body only swaps)", rev.form)
			continue
		}
		ig := idxGoal{h: h, name: name}
		c19With(h.sn.fr, func() {
			il := c19LinOf(info, ie.Index)
			wrap := func(f *c19Form) *c19Form {
				if sc := fl.shortCircuit(d.p.parents, ie, h.sn.n); sc != nil {
					return c19Or(c19Not(sc), f)
				}
				return f
			}
			if il.lower(d.bounds) >= 0 || c19IsUnsigned(info.TypeOf(ie.Index)) {
				// an index expression of unsigned type has no negative values; that an unsigned difference in
				// it does not wrap around is the obligation of the subtraction it contains (findSubs)
				ig.loByType = true
			} else {
				ig.lo = fl.goalAt(wrap(fl.ge0(il)), h.c19Pos)
			}
			ig.hi = fl.goalAt(wrap(fl.le(il.plus(c19LenLin(info, ie.X), -1).addK(1))), h.c19Pos)
		})
		idxs = append(idxs, ig)
	}
	if len(subs) == 0 && len(idxs) == 0 {
		return
	}
	var goals []*c19Form
	scOf := map[*c19Sub]*c19Form{} // what the enclosing && / || operands guarantee where the difference is evaluated
	for _, sb := range subs {
		gf := fl.ge0(sb.a.plus(sb.b, -1))
		// a sink inside the expression itself is evaluated under the enclosing && / || operands
		if len(sb.sinks) > 0 && sb.sinks[0].c19Pos == sb.def.c19Pos && !sb.isStmt {
			c19With(sb.def.sn.fr, func() {
				if sc := fl.shortCircuit(d.p.parents, sb.def.node, sb.def.sn.n); sc != nil {
					gf = c19Or(c19Not(sc), gf)
					scOf[sb] = sc
				}
			})
		}
		fl.goal(gf)
		for _, sk := range sb.sinks {
			fl.goalAt(gf, sk.c19Pos)
		}
		goals = append(goals, gf)
	}
	var wantsAtom *c19Form
	if recv != nil {
		wl := c19PathLin(recv, []string{d.scrollName, d.fWants.Name()}, false)
		for _, t := range wl.tm {
			wantsAtom = fl.goal(&c19Form{op: 'a', p: fl.pred("bool", nil, 0, t)})
		}
	}
	fl.solve()
	for _, ig := range idxs {
		if !ig.loByType {
			fl.prove("C19.c", fi.Name+"/"+ig.name+" index >= 0", ig.h.node.Pos(), ig.h.c19Pos, ig.lo, "index >= 0",
				"the index can be negative (e.g. len-1 of a slice that can be empty here: a Builder that returns nil for the item above the top after the items were replaced by fewer) and Draw panics")
		}
		fl.prove("C19.c", fi.Name+"/"+ig.name+" index < len", ig.h.node.Pos(), ig.h.c19Pos, ig.hi, "index < len",
			"the index can reach len of the slice and Draw panics")
	}
	for i, sb := range subs {
		key := fi.Name + "/" + sb.text
		if sb.ctx != "" {
			key += " under " + sb.ctx
		}
		if len(sb.sinks) == 0 {
			c.okTrivial("C19.c", key+" not an index", sb.pos, "unsigned subtraction that reaches neither an index nor the scroll state (%s)", sb.note)
			continue
		}
		nSub++
		if sb.note != "" {
			c.undecided("C19.c", key, sb.pos, "%s", sb.note)
			continue
		}
		// several uses of the same shape (read and write of Children[idx]) are one obligation: report the first that fails
		seenDesc := map[string]bool{}
		var sinks []c19Sink
		for pass := 0; pass < 2; pass++ {
			for _, sk := range sb.sinks {
				if seenDesc[sk.desc] {
					continue
				}
				failing := false
				if fl.err == "" {
					okHere, _ := fl.holds(fl.statesAt(sk.c19Pos), goals[i])
					failing = !okHere
				}
				if pass == 0 && !failing {
					continue
				}
				seenDesc[sk.desc] = true
				sinks = append(sinks, sk)
			}
		}
		for _, sk := range sinks {
			skey := key + " reaches " + sk.desc
			if fl.err != "" {
				c.undecided("C19.c", skey, sk.pos, "the flow analysis does not understand %s: %s", fi.Name, fl.err)
				continue
			}
			if sk.c19Pos != sb.def.c19Pos && c19ChangedBetween(fl, sb, sk.c19Pos) {
				c.undecided("C19.c", skey, sk.pos, "an operand of %s is modified between the subtraction and its use", sb.text)
				continue
			}
			sts := fl.statesAt(sk.c19Pos)
			if len(sts) == 0 {
				c.undecided("C19.c", skey, sk.pos, "no abstract state reaches the use in %s", fi.Name)
				continue
			}
			ok, wit := fl.holds(sts, goals[i])
			if ok {
				c.ok("C19.c", skey, sk.pos, "%s holds in all %d abstract states reaching the use (predicates tracked: %d)", goals[i], len(sts), len(fl.tracked))
				continue
			}
			// exception: the wantsCursor site
			if wantsAtom != nil {
				underF := wantsAtom
				if sc := scOf[sb]; sc != nil && sk.c19Pos == sb.def.c19Pos {
					// `wantsCursor && ... cursor-top ...`: the difference is evaluated only when the left operands hold
					underF = c19Or(c19Not(sc), wantsAtom)
				}
				under, _ := fl.holds(sts, underF)
				if !under && sk.c19Pos != sb.def.c19Pos {
					// what the argument needs is that wantsCursor is raised where the difference is COMPUTED (the
					// invariant wantsCursor => cursor >= top orders the operands there); the operands are not
					// written between the subtraction and this use (checked above), so the value that is used is
					// that difference whether or not the flag is still raised at the use (it may be cleared first)
					if dsts := fl.statesAt(sb.def.c19Pos); len(dsts) > 0 {
						under, _ = fl.holds(dsts, wantsAtom)
					}
				}
				if under && c19IsCursorMinusTop(info, sb, d.fCursor, d.fTop) {
					why := ""
					local := map[ast.Stmt]c19Store{}
					for _, ts := range fl.stores(d.fTop) {
						local[ts.stmt] = ts
					}
					var stmts []ast.Stmt
					for st := range d.topStmts {
						stmts = append(stmts, st)
					}
					sort.Slice(stmts, func(i, j int) bool { return stmts[i].Pos() < stmts[j].Pos() })
					for _, st := range stmts {
						okStore := false
						switch s := st.(type) {
						case *ast.IncDecStmt:
							okStore = s.Tok == token.DEC
						case *ast.AssignStmt:
							if len(s.Lhs) == 1 && len(s.Rhs) == 1 {
								switch s.Tok {
								case token.ASSIGN:
									okStore = c19SelField(info, s.Rhs[0]) == d.fCursor
								case token.SUB_ASSIGN:
									v, isC := constInt(info, s.Rhs[0])
									okStore = isC && v >= 0
								}
							}
						}
						if ls, here := local[st]; !okStore && here && !fl.reaches(ls.c19Pos, sk.c19Pos, nil) {
							okStore = true
						}
						if !okStore {
							why = "the store " + c19Short(st) + " in " + d.topStmts[st].Name + " can raise scroll.top above the cursor before this use"
						}
					}
					if !d.r1OK {
						why = "wantsCursor is not raised only under cursor >= top"
					}
					if !d.r3OK {
						why = "a store to cursor is not followed by the re-anchoring of the scroll state"
					}
					if why == "" {
						c.ok("C19.c", skey, sk.pos, "listed exception: the use is dominated by scroll.wantsCursor, which is raised only under cursor >= top (obligation above); every store to cursor is followed by the re-anchoring; every store to scroll.top is top = cursor, a decrement, or lies after this use in the same draw (where top+i stays below the cursor while wantsCursor remains raised)")
						continue
					}
					c.bad("C19.c", skey, sk.pos, "cursor - top is unguarded and the exception argument for the wantsCursor site no longer holds: %s", why)
					continue
				}
			}
			c.bad("C19.c", skey, sk.pos, "%s is computed on unsigned operands and used (%s) without a guard ordering them: %s reachable with %s; when the left operand is smaller the value wraps to about 2^64 (e.g. cursor 0, wheel scroll past it, draw) and the index panics or the scroll state is corrupted", sb.text, sk.desc, goals[i], wit)
		}
	}
	return
}

// shortCircuit: what the enclosing && / || operators guarantee when the sub-expression n of the CFG node
// top is evaluated (x && n: x holds; x || n: x does not hold). Call in the node's alias context.
func (fl *c19Flow) shortCircuit(parents map[ast.Node]ast.Node, n ast.Node, top ast.Node) *c19Form {
	var conj []*c19Form
	for cur := n; cur != nil && cur != top; cur = parents[cur] {
		be, ok := parents[cur].(*ast.BinaryExpr)
		if !ok || be.Y != cur {
			continue
		}
		switch be.Op {
		case token.LAND:
			conj = append(conj, fl.form(be.X))
		case token.LOR:
			conj = append(conj, c19Not(fl.form(be.X)))
		}
	}
	if len(conj) == 0 {
		return nil
	}
	return c19And(conj...)
}

func c19IsCursorMinusTop(info *types.Info, sb *c19Sub, fCursor, fTop *types.Var) bool {
	ia, ib := sb.a.ids(), sb.b.ids()
	if len(ia) != 1 || len(ib) != 1 || sb.a.k != 0 || sb.b.k != 0 {
		return false
	}
	return c19SelField(info, sb.a.tm[ia[0]].ex) == fCursor && c19SelField(info, sb.b.tm[ib[0]].ex) == fTop
}

func c19IsRangeKey(info *types.Info, parents map[ast.Node]ast.Node, ie *ast.IndexExpr) bool {
	id, ok := unparen(ie.Index).(*ast.Ident)
	if !ok {
		return false
	}
	o := info.ObjectOf(id)
	for cur := parents[ie]; cur != nil; cur = parents[cur] {
		if rs, ok := cur.(*ast.RangeStmt); ok && rs.Key != nil {
			if kid, ok := rs.Key.(*ast.Ident); ok && info.ObjectOf(kid) == o && termOf(info, rs.X).ID == termOf(info, ie.X).ID {
				// the key must not be reassigned in the body
				reassigned := false
				ast.Inspect(rs.Body, func(n ast.Node) bool {
					if n != nil && assignsAny(info, n, map[types.Object]bool{o: true}) {
						if _, blk := n.(*ast.BlockStmt); !blk {
							reassigned = true
						}
					}
					return !reassigned
				})
				return !reassigned
			}
		}
	}
	return false
}

func (d *c19Dyn) findSubs(fi *FuncInfo, fl *c19Flow, recv types.Object) []*c19Sub {
	info, parents := d.info, d.p.parents
	var out []*c19Sub
	ctxOf := func(n ast.Node) string {
		for cur := parents[n]; cur != nil; cur = parents[cur] {
			if is, ok := cur.(*ast.IfStmt); ok {
				// the boolean field that guards the statement: the condition itself or a conjunct of it (to the
				// left of n when n is part of the condition)
				conj := []ast.Expr{is.Cond}
				for i := 0; i < len(conj); i++ {
					if be, ok := unparen(conj[i]).(*ast.BinaryExpr); ok && be.Op == token.LAND {
						conj = append(conj[:i], append([]ast.Expr{be.X, be.Y}, conj[i+1:]...)...)
						i--
					}
				}
				for _, e := range conj {
					if e.Pos() <= n.Pos() && n.End() <= e.End() {
						break
					}
					if fv := c19SelField(info, e); fv != nil && c19IsBoolType(fv.Type()) {
						return fv.Name()
					}
				}
			}
			if _, ok := cur.(*ast.FuncDecl); ok {
				break
			}
		}
		return ""
	}
	// in the alias context of the node
	isState := func(e ast.Expr) bool {
		p, ok := c19Chain(info, e)
		return ok && recv != nil && p.root == recv && len(p.path) > 0
	}
	for _, h := range fl.find(func(n ast.Node) bool {
		switch t := n.(type) {
		case *ast.BinaryExpr:
			if t.Op != token.SUB || !c19IsUnsigned(info.TypeOf(t)) {
				return false
			}
			_, isConst := constInt(info, t)
			return !isConst
		case *ast.AssignStmt:
			return t.Tok == token.SUB_ASSIGN && len(t.Lhs) == 1 && c19IsUnsigned(info.TypeOf(t.Lhs[0]))
		case *ast.IncDecStmt:
			return t.Tok == token.DEC && c19IsUnsigned(info.TypeOf(t.X))
		}
		return false
	}) {
		sb := &c19Sub{pos: h.node.Pos(), def: h, ctx: ctxOf(h.node)}
		c19With(h.sn.fr, func() {
			switch t := h.node.(type) {
			case *ast.AssignStmt:
				sb.isStmt = true
				sb.a, sb.b = c19LinOf(info, t.Lhs[0]), c19LinOf(info, t.Rhs[0])
				sb.text = types.ExprString(stripRecv(t.Lhs[0])) + " -= " + sb.b.String()
				if isState(t.Lhs[0]) {
					sb.sinks = []c19Sink{{h.c19Pos, t.Pos(), "the scroll state", "state"}}
				} else {
					sb.note = "decrement of a local"
				}
			case *ast.IncDecStmt:
				sb.isStmt = true
				sb.a, sb.b = c19LinOf(info, t.X), c19NewLin().addK(1)
				sb.text = types.ExprString(stripRecv(t.X)) + " -= 1"
				if isState(t.X) {
					sb.sinks = []c19Sink{{h.c19Pos, t.Pos(), "the scroll state", "state"}}
				} else {
					sb.note = "decrement of a local"
				}
			case *ast.BinaryExpr:
				sb.a, sb.b = c19LinOf(info, t.X), c19LinOf(info, t.Y)
				sb.text = types.ExprString(stripRecv(t.X)) + " - " + types.ExprString(stripRecv(t.Y))
				d.classify(fl, h, t, sb, isState)
			}
		})
		out = append(out, sb)
	}
	return out
}

// classify finds where the value of the unsigned difference t ends up.
func (d *c19Dyn) classify(fl *c19Flow, h c19Hit, t *ast.BinaryExpr, sb *c19Sub, isState func(ast.Expr) bool) {
	info, parents := d.info, d.p.parents
	var cur ast.Node = t
	par := parents[cur]
	for {
		if pe, ok := par.(*ast.ParenExpr); ok {
			cur, par = pe, parents[pe]
			continue
		}
		break
	}
	indexUse := func(uc ast.Node, up ast.Node, pos c19Pos) {
		switch ut := up.(type) {
		case *ast.IndexExpr:
			if ut.Index == uc {
				sb.sinks = append(sb.sinks, c19Sink{pos, ut.Pos(), types.ExprString(stripRecv(ut.X)) + "[…]", "index"})
			}
		case *ast.SliceExpr:
			if ut.X != uc {
				sb.sinks = append(sb.sinks, c19Sink{pos, ut.Pos(), types.ExprString(stripRecv(ut.X)) + "[…:…]", "index"})
			}
		}
	}
	switch pt := par.(type) {
	case *ast.IndexExpr, *ast.SliceExpr:
		indexUse(cur, pt, h.c19Pos)
		if len(sb.sinks) == 0 {
			sb.note = "indexed operand"
		}
	case *ast.CallExpr:
		if ty, ok := c19IsConversion(info, pt); ok && c19IsIntType(ty) && !c19IsUnsigned(ty) {
			sb.sinks = []c19Sink{{h.c19Pos, pt.Pos(), "a conversion to " + ty.String(), "signed"}}
		} else {
			sb.note = "argument of " + types.ExprString(pt.Fun)
		}
	case *ast.ValueSpec, *ast.AssignStmt:
		var lhs ast.Expr
		switch s := pt.(type) {
		case *ast.AssignStmt:
			for i, r := range s.Rhs {
				if r == cur && len(s.Lhs) == len(s.Rhs) {
					lhs = s.Lhs[i]
				}
			}
		case *ast.ValueSpec:
			for i, r := range s.Values {
				if r == cur && len(s.Names) == len(s.Values) {
					lhs = s.Names[i]
				}
			}
		}
		switch {
		case lhs == nil:
			sb.note = "assigned in a shape that is not understood"
		case isState(lhs):
			sb.sinks = []c19Sink{{h.c19Pos, pt.Pos(), "the scroll state (" + types.ExprString(stripRecv(lhs)) + ")", "state"}}
		default:
			id, ok := lhs.(*ast.Ident)
			if !ok {
				sb.note = "stored outside the scroll state"
				return
			}
			v := info.ObjectOf(id)
			sb.text = "local := " + sb.text
			nAssign := 0
			for _, b := range fl.blks {
				for _, sn := range b.nodes {
					if sn.fr == h.sn.fr && sn.n != nil && sn.pseudo != "bind" && assignsAny(info, sn.n, map[types.Object]bool{v: true}) {
						nAssign++
					}
				}
			}
			for _, u := range fl.find(func(n ast.Node) bool { uid, ok := n.(*ast.Ident); return ok && info.Uses[uid] == v }) {
				if u.sn.fr != h.sn.fr {
					continue
				}
				var uc ast.Node = u.node
				up := parents[uc]
				for {
					if pe, ok := up.(*ast.ParenExpr); ok {
						uc, up = pe, parents[pe]
						continue
					}
					if ce, ok := up.(*ast.CallExpr); ok {
						if ty, ok := c19IsConversion(info, ce); ok && c19IsIntType(ty) {
							switch parents[ce].(type) {
							case *ast.IndexExpr, *ast.SliceExpr:
								uc, up = ce, parents[ce]
								continue
							}
						}
					}
					break
				}
				indexUse(uc, up, u.c19Pos)
			}
			if nAssign != 1 && len(sb.sinks) > 0 {
				sb.note = "the local " + id.Name + " holding an unsigned difference is assigned more than once"
			}
			if len(sb.sinks) == 0 {
				sb.note = "local " + id.Name + " is not used as an index"
			}
		}
	case *ast.KeyValueExpr, *ast.CompositeLit:
		sb.note = "field of a literal (a size constraint: vxfw layout contract, property C14)"
	default:
		sb.note = fmt.Sprintf("operand of %T", par)
	}
}

func (sb *c19Sub) terms() []*c19Term {
	var out []*c19Term
	for _, l := range []*c19Lin{sb.a, sb.b} {
		for _, id := range l.ids() {
			out = append(out, l.tm[id])
		}
	}
	return out
}

// c19ChangedBetween: is an operand written on some path from the subtraction to the use?
func c19ChangedBetween(fl *c19Flow, sb *c19Sub, use c19Pos) bool {
	terms := sb.terms()
	changed := false
	fl.walk(c19Pos{sb.def.b, sb.def.i + 1}, func(p c19Pos, sn *c19SNode) bool {
		if p == use {
			return false
		}
		for _, ef := range fl.effectsOf(sn) {
			if ef.kind == 0 {
				continue
			}
			hit := ef.kind == 'x'
			for _, t := range terms {
				if t.affected(ef.lhs) {
					hit = true
				}
			}
			if hit && fl.reaches(p, use, nil) {
				changed = true
			}
		}
		return true
	}, nil)
	return changed
}

// ---------------------------------------------------------------------------------------------
// C19.d — divisors
// ---------------------------------------------------------------------------------------------

func c19Divisors(c *Ctx) {
	nDiv := 0
	for _, pkgName := range []string{"vxfw/list", "widgets/list", "widgets/pager", "widgets/scrollbar"} {
		p := c19LoadPkg(c, pkgName)
		if p == nil {
			c.undecided("C19.d", pkgName, 0, "package not found")
			continue
		}
		info := p.info
		bounds := c19WithLen(c19TypeBounds(c, p.pk))
		for _, fi := range p.roots() {
			type div struct {
				h c19Hit
				d ast.Expr
				f *c19Form
			}
			var divs []div
			fl := c19NewFlow(c, fi, bounds, p.allow)
			for _, h := range fl.find(func(n ast.Node) bool {
				switch t := n.(type) {
				case *ast.BinaryExpr:
					return (t.Op == token.QUO || t.Op == token.REM) && c19IsIntType(info.TypeOf(t))
				case *ast.AssignStmt:
					return (t.Tok == token.QUO_ASSIGN || t.Tok == token.REM_ASSIGN) && len(t.Lhs) == 1 && c19IsIntType(info.TypeOf(t.Lhs[0]))
				}
				return false
			}) {
				var dv ast.Expr
				switch t := h.node.(type) {
				case *ast.BinaryExpr:
					dv = t.Y
				case *ast.AssignStmt:
					dv = t.Rhs[0]
				}
				if v, ok := constInt(info, dv); ok {
					whole := false
					if e, isE := h.node.(ast.Expr); isE {
						_, whole = constInt(info, e)
					}
					if !whole {
						nDiv++
						c.check(v != 0, "C19.d", fi.Name+"/divisor "+types.ExprString(stripRecv(dv)), dv.Pos(), "constant non-zero divisor", "division by the constant 0")
					}
					continue
				}
				nDiv++
				var f *c19Form
				c19With(h.sn.fr, func() {
					l := c19LinOf(info, dv)
					f = fl.goalAt(c19Or(fl.ge0(l.addK(-1)), fl.le(l.addK(1))), h.c19Pos)
				})
				divs = append(divs, div{h, dv, f})
			}
			if len(divs) == 0 {
				continue
			}
			fl.solve()
			for _, dv := range divs {
				fl.prove("C19.d", fi.Name+"/divisor "+types.ExprString(stripRecv(dv.d)), dv.d.Pos(), dv.h.c19Pos, dv.f, "divisor != 0", "integer division by zero panics")
			}
		}
	}
	if nDiv == 0 {
		c.undecided("C19.d", "divisions", 0, "no integer division found in the anchored files (the scrollbar scales by TotalHeight)")
	}
}
