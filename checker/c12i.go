package main

// C12.i — after every frame the terminal's cursor is the application's cursor, over frame HISTORIES.
//
// C12 asks that the emulator's cursor reproduces the application's cursor (visibility, shape, position) after
// every frame. What the terminal holds after frame n is the result of ALL bytes written up to then, and what
// Vaxis writes in frame n depends on what it remembers of frame n-1 (Vaxis.cursorLast, which Render refreshes).
// An "optimisation" that compares with the remembered state is therefore only correct if the remembered state is
// what the terminal was really given — a condition that no single function shows. The rule decides it by
// executing the frame protocol symbolically over histories:
//
//	application   ShowCursor(col, row, style) [; HideCursor()]          (col, row ∈ {0,1}, styles 0, 2, 6)
//	frame         nothing else to draw | cell output (one run per buffering method of the writer that the
//	              diff renderer can reach, standing for the renderer's cell loop)  ;  Render()
//	terminal      a model of DECTCEM (CSI ?25h/l), DECSCUSR (CSI Ps SP q) and CUP; any other output makes the
//	              position unknown
//
// The functions are executed by the C12 mini-executor on concrete cursor records (deferred calls included, the
// writer's buffer as a string), all in ONE run per step sequence so that unknowns (capabilities, resize) are
// answered consistently. The reachable set of (cursorNext, cursorLast, buffer, terminal) is explored breadth-first
// to its fixpoint; every path on which the writer is flushed is a frame, and after it the terminal must be
// visible iff the application asked for it and, when visible, have the requested shape and position. Nothing
// depends on where the decisions stand (Flush, render, the writer's first-write prelude, helpers, guards, tables).

import (
	"fmt"
	"go/ast"
	"go/constant"
	"go/token"
	"go/types"
	"sort"
	"strconv"
	"strings"

	"golang.org/x/tools/go/packages"
)

func init() { registerExtra("C12", c12CursorHistories) }

type c12iCur struct {
	vis             bool
	style, row, col int64
}

type c12iTerm struct {
	vis      bool
	style    int64 // 0 at the start (the emulator's initial shape, DECSCUSR 0); -1: a DECSCUSR with unreadable parameters
	row, col int64 // 1-based; 0: unknown (something was printed or moved since the last CUP)
}

type c12iState struct {
	mem  string // the library's memory between frames (c12iEncode)
	term c12iTerm
}

type c12iAction struct {
	want c12iCur // ShowCursor(want.col, want.row, want.style); !want.vis: then HideCursor()
	kind int     // 0: nothing else changed on the screen; k: cell output through cellWriters[k-1]
}

type c12iStep struct {
	fi   *FuncInfo
	args []c12Val
}

type c12iOutcome struct {
	frame    bool
	writes   []string
	mem      string
	problems []string
}

type c12iExecKey struct {
	mem string
	act c12iAction
}

type c12iRun struct {
	c           *Ctx
	show, hide  *FuncInfo
	render      *FuncInfo
	cellWriters []*FuncInfo
	cache       map[c12iExecKey][]c12iOutcome
	written     map[string]*types.Var // basic-typed state fields some frame stored into
	guessed     map[string]bool       // conditions the executor could not evaluate
	frameFns    map[string]bool       // functions a frame can execute
	touch       map[*FuncInfo]bool    // functions that read or write a cursor record, not counting the writer's methods
	curT        types.Type
	nexec       int
}

// c12iSink: bytes that really leave for the terminal. The writer's buffer is modelled as a string, so its
// buffering methods are executed, not treated as sinks.
func c12iSink(pk *packages.Package, call *ast.CallExpr, fn *types.Func) (int, bool, string, bool) {
	ai, isFmt, kind, ok := vaxisTerminalSink(pk, call, fn)
	if !ok {
		return 0, false, "", false
	}
	if strings.HasPrefix(kind, "writer.") {
		return 0, false, "", false
	}
	switch kind {
	case "fmt.Fprintf", "fmt.Fprint", "io.WriteString":
		if len(call.Args) > 0 && typeName(pk.TypesInfo.TypeOf(call.Args[0])) == modPath+".writer" {
			return 0, false, "", false // reaches the buffer through the writer's own Write (executor option writerNative)
		}
	}
	return ai, isFmt, kind, true
}

// c12iRunSeq executes the steps one after the other on one state, enumerating the paths of the whole sequence.
func c12iRunSeq(p *Program, steps []c12iStep, init map[string]c12Val) (paths []*c12Path, complete bool) {
	ex := &c12Exec{p: p, sink: c12iSink, entryPkg: steps[0].fi.Pkg, init: init, defers: true, writerNative: true}
	prefix := []int{}
	for n := 0; n < c12MaxPaths; n++ {
		ex.prefix, ex.arity, ex.nchoice = prefix, nil, 0
		ex.path = &c12Path{}
		ex.store = map[string]c12Val{}
		for k, v := range init {
			if b, isBuilder := v.(c12Builder); isBuilder {
				v = c12Builder{S: &c12Str{Parts: append([]c12Part{}, b.S.Parts...)}}
			}
			ex.store[k] = v
		}
		ex.depth, ex.steps, ex.nloop = 0, 0, 0
		ex.memo = map[string]bool{}
		for _, st := range steps {
			ex.recvType = ""
			var recv c12Val
			if st.fi.Decl.Recv != nil && len(st.fi.Decl.Recv.List) == 1 {
				ex.recvType = anchorType(st.fi.Pkg.TypesInfo.TypeOf(st.fi.Decl.Recv.List[0].Type))
				recv = c12Ref{Path: ex.recvType}
			}
			ex.path.Ret = ex.callDecl(st.fi, recv, st.args)
		}
		ex.path.Final = ex.store
		paths = append(paths, ex.path)
		taken := make([]int, len(ex.arity))
		copy(taken, prefix)
		i := len(ex.arity) - 1
		for i >= 0 && taken[i]+1 >= ex.arity[i] {
			i--
		}
		if i < 0 {
			return paths, true
		}
		prefix = append(append([]int{}, taken[:i]...), taken[i]+1)
	}
	return paths, false
}

func c12iPut(m map[string]c12Val, path string, v c12iCur) {
	m[path+".visible"] = c12Bool{v.vis}
	m[path+".style"] = c12Int{v.style}
	m[path+".row"] = c12Int{v.row}
	m[path+".col"] = c12Int{v.col}
}

// c12iGet reads a cursor record out of a final state: the record assigned as a whole wins over its fields.
func c12iGet(m map[string]c12Val, path string) (c12iCur, bool) {
	field := func(n string) c12Val {
		if s, ok := m[path].(*c12Struct); ok {
			if v, ok := s.Fields[n]; ok {
				return v
			}
		}
		return m[path+"."+n]
	}
	var out c12iCur
	b, ok := field("visible").(c12Bool)
	if !ok {
		return out, false
	}
	out.vis = b.V
	for _, f := range []struct {
		n string
		p *int64
	}{{"style", &out.style}, {"row", &out.row}, {"col", &out.col}} {
		v := field(f.n)
		if cv, isConv := v.(c12Conv); isConv {
			v = cv.X
		}
		i, ok := v.(c12Int)
		if !ok {
			return out, false
		}
		*f.p = i.V
	}
	return out, true
}

// env: what every frame of the exploration starts from besides the library's memory: an empty grid and no
// images (the renderer's loops do nothing; cell output is a step of its own), no forced repaint, no resize pending.
func (r *c12iRun) env() map[string]c12Val {
	return map[string]c12Val{
		"screen.buf": c12Slice{}, "screen.rows": c12Int{0}, "screen.cols": c12Int{0},
		"Vaxis.graphicsLast": c12Nil{}, "Vaxis.graphicsNext": c12Nil{},
		"Vaxis.mouseShapeLast": c12Lit(""), "Vaxis.mouseShapeNext": c12Lit(""),
		"Vaxis.refresh": c12Bool{false},
		"Vaxis.resize":  c12Int{0},
	}
}

// c12iEncode: the library's memory after a path — every piece of state with a concrete value (the cursor
// records, the writer's buffer, and whatever else the code keeps between frames, e.g. a field recording the shape
// last sent), as a canonical string. Pieces whose value is unknown are forgotten (unknown again in the next frame).
func c12iEncode(final map[string]c12Val, env map[string]c12Val) string {
	ent := map[string]string{}
	var put func(k string, v c12Val, structs bool)
	put = func(k string, v c12Val, structs bool) {
		if cv, ok := v.(c12Conv); ok {
			v = cv.X
		}
		switch t := v.(type) {
		case *c12Struct:
			if structs {
				for f, fv := range t.Fields {
					put(k+"."+f, fv, true)
				}
			}
			return
		}
		if structs {
			// a field of a record assigned as a whole overrides what was stored field by field before
			delete(ent, k)
		} else if _, done := ent[k]; done {
			return
		}
		switch t := v.(type) {
		case c12Int:
			ent[k] = "i" + strconv.FormatInt(t.V, 10)
		case c12Bool:
			ent[k] = "b" + strconv.FormatBool(t.V)
		case c12Nil:
			ent[k] = "n"
		case c12Str:
			if l, ok := t.literal(); ok {
				ent[k] = "s" + l
			}
		case c12Builder:
			if l, ok := t.S.literal(); ok {
				ent[k] = "B" + l
			}
		}
	}
	for k, v := range final {
		if _, isEnv := env[k]; !isEnv {
			put(k, v, false)
		}
	}
	for k, v := range final {
		if _, isStruct := v.(*c12Struct); isStruct {
			if _, isEnv := env[k]; !isEnv {
				put(k, v, true)
			}
		}
	}
	keys := make([]string, 0, len(ent))
	for k := range ent {
		keys = append(keys, k)
	}
	sort.Strings(keys)
	var sb strings.Builder
	for _, k := range keys {
		sb.WriteString(k)
		sb.WriteByte(0)
		sb.WriteString(ent[k])
		sb.WriteByte(1)
	}
	return sb.String()
}

func c12iDecode(mem string, into map[string]c12Val) {
	for _, e := range strings.Split(mem, "\x01") {
		k, v, ok := strings.Cut(e, "\x00")
		if !ok || v == "" {
			continue
		}
		switch v[0] {
		case 'i':
			n, _ := strconv.ParseInt(v[1:], 10, 64)
			into[k] = c12Int{n}
		case 'b':
			into[k] = c12Bool{v[1:] == "true"}
		case 'n':
			into[k] = c12Nil{}
		case 's':
			into[k] = c12Lit(v[1:])
		case 'B':
			b := c12Builder{S: &c12Str{}}
			if v[1:] != "" {
				b.S.Parts = []c12Part{{Lit: v[1:]}}
			}
			into[k] = b
		}
	}
}

func (r *c12iRun) exec(mem string, a c12iAction) []c12iOutcome {
	key := c12iExecKey{mem, a}
	if out, ok := r.cache[key]; ok {
		return out
	}
	r.nexec++
	env := r.env()
	init := r.env()
	c12iDecode(mem, init)
	steps := []c12iStep{{r.show, []c12Val{c12Int{a.want.col}, c12Int{a.want.row}, c12Int{a.want.style}}}}
	if !a.want.vis {
		steps = append(steps, c12iStep{r.hide, nil})
	}
	if a.kind > 0 {
		steps = append(steps, c12iStep{r.cellWriters[a.kind-1], []c12Val{c12Lit("X")}})
	}
	steps = append(steps, c12iStep{r.render, nil})
	paths, complete := c12iRunSeq(r.c.P, steps, init)
	var outs []c12iOutcome
	for _, p := range paths {
		var o c12iOutcome
		if !complete {
			o.problems = append(o.problems, "path budget exceeded")
		}
		o.problems = append(o.problems, p.Unsupp...)
		for _, ef := range p.Effects {
			if ef.Field == nil || len(ef.Idx) > 0 {
				continue
			}
			if _, isEnv := env[ef.Path]; isEnv {
				continue
			}
			if _, basic := ef.Field.Type().Underlying().(*types.Basic); basic {
				r.written[ef.Path] = ef.Field
			}
		}
		for _, cd := range p.Conds {
			r.guessed[cd.Expr] = true
		}
		for i, sk := range p.SkippedAt {
			if !r.loopHarmless(sk) {
				o.problems = append(o.problems, p.Skipped[i]+" (the loop touches the cursor records)")
			}
		}
		for _, cl := range p.Calls {
			if cl.Fn != nil && (repoName(cl.Fn) == "vaxis.writer.Flush" || repoName(cl.Fn) == "vaxis.Vaxis.render") {
				o.frame = true
			}
		}
		for _, w := range p.Writes {
			s, lit := w.S.literal()
			if !lit {
				o.problems = append(o.problems, "terminal write of unknown bytes "+c12Show(w.S)+" in "+w.In)
				continue
			}
			o.writes = append(o.writes, s)
		}
		_, ok1 := c12iGet(p.Final, "Vaxis.cursorNext")
		_, ok2 := c12iGet(p.Final, "Vaxis.cursorLast")
		if !ok1 || !ok2 {
			o.problems = append(o.problems, "the cursor records are not concrete after the frame")
		}
		switch b := p.Final["writer.buf"].(type) {
		case c12Builder:
			if _, lit := b.S.literal(); !lit {
				o.problems = append(o.problems, "the writer's buffer holds unknown bytes after the frame")
			}
		case c12Str:
			if _, lit := b.literal(); !lit {
				o.problems = append(o.problems, "the writer's buffer holds unknown bytes after the frame")
			}
		default:
			o.problems = append(o.problems, "the writer's buffer is no longer a byte buffer the executor can follow")
		}
		if !o.frame && len(o.problems) == 0 {
			continue // Render gave up before drawing (resize): not a frame, the history continues from the state before
		}
		o.mem = c12iEncode(p.Final, env)
		dup := false
		for _, x := range outs {
			if x.frame == o.frame && x.mem == o.mem &&
				strings.Join(x.writes, "\x00") == strings.Join(o.writes, "\x00") && strings.Join(x.problems, "\x00") == strings.Join(o.problems, "\x00") {
				dup = true
			}
		}
		if !dup {
			outs = append(outs, o)
		}
	}
	r.cache[key] = outs
	return outs
}

// touchesCursor: n mentions a cursor record (a value of the type of Vaxis.cursorNext) or one of its fields.
func (r *c12iRun) touchesCursor(info *types.Info, n ast.Node) bool {
	found := false
	ast.Inspect(n, func(x ast.Node) bool {
		if found {
			return false
		}
		e, ok := x.(ast.Expr)
		if !ok {
			return true
		}
		t := info.TypeOf(e)
		if t == nil {
			return true
		}
		if p, ok := t.Underlying().(*types.Pointer); ok {
			t = p.Elem()
		}
		if types.Identical(t, r.curT) {
			found = true
		}
		return !found
	})
	return found
}

func c12iIsWriterMethod(fi *FuncInfo) bool {
	if fi.Decl.Recv == nil || len(fi.Decl.Recv.List) != 1 {
		return false
	}
	return typeName(fi.Pkg.TypesInfo.TypeOf(fi.Decl.Recv.List[0].Type)) == modPath+".writer"
}

// cursorTouchers: the functions of package vaxis that read or write a cursor record themselves or through a
// callee; the writer's methods do not count (their effect on a frame is what the cell-output step executes).
func (r *c12iRun) cursorTouchers() {
	r.touch = map[*FuncInfo]bool{}
	fns := r.c.P.FuncsIn("vaxis")
	for _, fi := range fns {
		if fi.Decl.Body != nil && !c12iIsWriterMethod(fi) && r.touchesCursor(fi.Pkg.TypesInfo, fi.Decl.Body) {
			r.touch[fi] = true
		}
	}
	for changed := true; changed; {
		changed = false
		for _, fi := range fns {
			if fi.Decl.Body == nil || r.touch[fi] || c12iIsWriterMethod(fi) {
				continue
			}
			ast.Inspect(fi.Decl.Body, func(n ast.Node) bool {
				if call, ok := n.(*ast.CallExpr); ok && !r.touch[fi] {
					if g := r.c.P.FuncOfObj(calleeOf(fi.Pkg.TypesInfo, call)); g != nil && r.touch[g] {
						r.touch[fi] = true
						changed = true
					}
				}
				return !r.touch[fi]
			})
		}
	}
}

// loopHarmless: a loop the executor skipped (unknown bound) takes no part in the cursor protocol except through
// the writer: it mentions no cursor record and calls nothing that does.
func (r *c12iRun) loopHarmless(sk c12SkippedLoop) bool {
	if r.touchesCursor(sk.Pkg.TypesInfo, sk.Node) {
		return false
	}
	ok := true
	ast.Inspect(sk.Node, func(n ast.Node) bool {
		if call, isCall := n.(*ast.CallExpr); isCall && ok {
			if g := r.c.P.FuncOfObj(calleeOf(sk.Pkg.TypesInfo, call)); g != nil && r.touch[g] {
				ok = false
			}
		}
		return ok
	})
	return ok
}

// c12iFeed: the terminal's cursor after the bytes (ECMA-48 / DEC semantics of the three cursor controls; the
// emulator's agreement with them is C12.a/C12.b/C12.e).
func c12iFeed(t c12iTerm, bytes string) c12iTerm {
	for _, s := range parseSeqs(bytes) {
		switch s.Kind {
		case "CSI":
			switch {
			case s.Private == "?" && s.Inter == "" && (s.Final == "h" || s.Final == "l"):
				for _, p := range strings.Split(s.Params, ";") {
					if p == "25" {
						t.vis = s.Final == "h"
					}
				}
			case s.Private != "":
				// other private sequences do not move, show or reshape the cursor
			case s.Inter == " " && s.Final == "q":
				t.style = -1
				if s.Params == "" {
					t.style = 0
				} else if v, err := strconv.Atoi(s.Params); err == nil {
					t.style = int64(v)
				}
			case s.Inter == "" && s.Final == "m":
			case s.Inter == "" && (s.Final == "H" || s.Final == "f"):
				ps := strings.Split(s.Params, ";")
				rc := [2]int64{1, 1}
				ok := len(ps) <= 2
				for i := 0; i < len(ps) && i < 2; i++ {
					if ps[i] == "" {
						continue
					}
					v, err := strconv.Atoi(ps[i])
					if err != nil {
						ok = false
						break
					}
					if v > 0 {
						rc[i] = int64(v)
					}
				}
				t.row, t.col = 0, 0
				if ok {
					t.row, t.col = rc[0], rc[1]
				}
			case s.Inter == "" && strings.Contains("ABCDEFG`adeIZur", s.Final):
				// relative and single-axis movement, tabulation, restore, DECSTBM (homes the cursor)
				t.row, t.col = 0, 0
			}
		case "OSC", "APC":
		default: // text, C0 controls, ESC sequences, DCS payloads (sixel): the cursor is somewhere else afterwards
			t.row, t.col = 0, 0
		}
	}
	return t
}

func (r *c12iRun) styleName(v int64) string {
	if pk := r.c.P.Pkg("vaxis"); pk != nil {
		var names []string
		for _, n := range pk.Types.Scope().Names() {
			if cn, ok := pk.Types.Scope().Lookup(n).(*types.Const); ok && strings.HasPrefix(n, "Cursor") && cn.Val().ExactString() == fmt.Sprint(v) {
				names = append(names, n)
			}
		}
		sort.Strings(names)
		if len(names) > 0 {
			return names[0]
		}
	}
	return fmt.Sprintf("CursorStyle(%d)", v)
}

func (r *c12iRun) showAction(a c12iAction) string {
	s := fmt.Sprintf("ShowCursor(%d, %d, %s)", a.want.col, a.want.row, r.styleName(a.want.style))
	if !a.want.vis {
		s += "; HideCursor()"
	}
	if a.kind == 0 {
		s += "; Render() with nothing else changed"
	} else {
		s += "; Render() with cell changes"
	}
	return s
}

func (r *c12iRun) showTerm(t c12iTerm) string {
	if !t.vis {
		return "cursor hidden"
	}
	shape := "an unknown shape"
	if t.style >= 0 {
		shape = "shape " + r.styleName(t.style)
	}
	pos := "wherever the last output left it"
	if t.row > 0 {
		pos = fmt.Sprintf("at column %d, row %d", t.col-1, t.row-1)
	}
	return "cursor visible, " + shape + ", " + pos
}

type c12iNode struct {
	st     c12iState
	parent *c12iNode
	act    c12iAction
	depth  int
}

type c12iViolation struct {
	node    *c12iNode // state before the offending frame
	act     c12iAction
	after   c12iTerm
	unknown bool
	what    string
}

func c12CursorHistories(c *Ctx) {
	const rule = "C12.i"
	c.Clauses = append(c.Clauses, rule+" over frame histories (ShowCursor/HideCursor, frames with and without cell changes, Render refreshing its memory of the last frame) the bytes written leave the terminal's cursor visible iff the application shows it and, when visible, with the requested shape and at the requested position after every frame")
	c.expect(rule, 3)
	c.Assume = append(c.Assume, "C12.i: the first frame starts with the terminal's cursor hidden (enterAltScreen), in the emulator's initial shape (0, what DECSCUSR 0 selects) and with an empty cursorLast; Suspend/Resume inside a history are not explored")
	r := &c12iRun{c: c, cache: map[c12iExecKey][]c12iOutcome{}, written: map[string]*types.Var{}, guessed: map[string]bool{}}
	r.show = c.P.Func("vaxis.(*Vaxis).ShowCursor")
	r.hide = c.P.Func("vaxis.(*Vaxis).HideCursor")
	r.render = c.P.Func("vaxis.(*Vaxis).Render")
	inner := c.P.Func("vaxis.(*Vaxis).render")
	keyBase := "vaxis.(*Vaxis).Render/cursor after every frame of a history: "
	aspects := []string{"visibility", "shape", "position"}
	fail := func(format string, args ...interface{}) {
		for _, a := range aspects {
			c.undecided(rule, keyBase+a, 0, format, args...)
		}
	}
	if r.show == nil || r.hide == nil || r.render == nil || inner == nil {
		fail("Vaxis.ShowCursor, HideCursor, Render or render not found")
		return
	}
	if pk := c.P.Pkg("vaxis"); pk != nil {
		if o, _, _ := types.LookupFieldOrMethod(pk.Types.Scope().Lookup("Vaxis").Type(), true, pk.Types, "cursorNext"); o != nil {
			r.curT = o.Type()
		}
	}
	if r.curT == nil {
		fail("Vaxis.cursorNext not found")
		return
	}
	r.cursorTouchers()
	// the buffering methods of the writer the diff renderer can reach: one data parameter, not a direct terminal write
	reach := staticReach(c.P, inner)
	viaFmt := false
	for _, fi := range c.P.FuncsIn("vaxis") {
		if !c12iIsWriterMethod(fi) || !reach[fi.Name] || fi.Decl.Body == nil {
			continue
		}
		sig := fi.Obj.Type().(*types.Signature)
		if sig.Variadic() {
			viaFmt = true // Printf: fmt.Fprintf hands the bytes to Write
			continue
		}
		if sig.Params().Len() != 1 {
			continue
		}
		switch t := sig.Params().At(0).Type().Underlying().(type) {
		case *types.Basic:
			if t.Info()&types.IsString == 0 {
				continue
			}
		case *types.Slice:
		default:
			continue
		}
		r.cellWriters = append(r.cellWriters, fi)
	}
	if viaFmt {
		if w := c.P.Func("vaxis.(*writer).Write"); w != nil {
			dup := false
			for _, x := range r.cellWriters {
				dup = dup || x == w
			}
			if !dup {
				r.cellWriters = append(r.cellWriters, w)
			}
		}
	}
	sort.Slice(r.cellWriters, func(i, j int) bool { return r.cellWriters[i].Name < r.cellWriters[j].Name })
	if len(r.cellWriters) == 0 {
		fail("the diff renderer reaches no buffering method of the writer: the extractor no longer understands how cells are written")
		return
	}
	r.frameFns = map[string]bool{}
	for _, root := range append([]*FuncInfo{r.show, r.hide, r.render}, r.cellWriters...) {
		for n := range staticReach(c.P, root) {
			r.frameFns[n] = true
		}
	}
	var actions []c12iAction
	for kind := 0; kind <= len(r.cellWriters); kind++ {
		for _, vis := range []bool{true, false} {
			for _, style := range []int64{2, 6, 0} {
				for _, row := range []int64{0, 1} {
					for _, col := range []int64{0, 1} {
						actions = append(actions, c12iAction{want: c12iCur{vis, style, row, col}, kind: kind})
					}
				}
			}
		}
	}
	// before the first frame: nothing remembered, nothing buffered, the terminal's cursor hidden with its own shape
	first := map[string]c12Val{"writer.buf": c12Builder{S: &c12Str{}}}
	if pk := c.P.Pkg("vaxis"); pk != nil {
		if w := pk.Types.Scope().Lookup("writer"); w != nil {
			if o, _, _ := types.LookupFieldOrMethod(w.Type(), true, pk.Types, "buf"); o != nil {
				if c12IsByteSlice(o.Type()) {
					first["writer.buf"] = c12Lit("") // a []byte buffer is a string to the executor
				}
			}
		}
	}
	c12iPut(first, "Vaxis.cursorNext", c12iCur{})
	c12iPut(first, "Vaxis.cursorLast", c12iCur{})
	// Memory the code keeps between frames besides the cursor records (a field recording what was last sent, …)
	// shows up as a state field that a frame writes and a later frame tests while the exploration does not know its
	// value. Such a field starts with its zero value (the Vaxis object is freshly allocated) unless the package
	// assigns it something else outside the frame functions; the exploration is repeated with it.
	var (
		seen     map[c12iState]bool
		queue    []*c12iNode
		viol     map[string]*c12iViolation
		problems map[string]bool
		frames   int
	)
	tried := map[string]bool{}
	var unknownMem []string
	for round := 0; round < 5; round++ {
		start := &c12iNode{st: c12iState{mem: c12iEncode(first, r.env()), term: c12iTerm{}}}
		seen = map[c12iState]bool{start.st: true}
		queue = []*c12iNode{start}
		viol = map[string]*c12iViolation{}
		problems = map[string]bool{}
		frames = 0
		note := func(aspect string, v *c12iViolation) {
			old := viol[aspect]
			if old == nil || (old.unknown && !v.unknown) {
				viol[aspect] = v
			}
		}
		const maxStates = 20000
		for len(queue) > 0 && len(seen) < maxStates {
			n := queue[0]
			queue = queue[1:]
			for _, a := range actions {
				for _, o := range r.exec(n.st.mem, a) {
					if len(o.problems) > 0 {
						for _, p := range o.problems {
							problems[p] = true
						}
						continue
					}
					t := n.st.term
					for _, w := range o.writes {
						t = c12iFeed(t, w)
					}
					if o.frame {
						frames++
						bad := false
						if t.vis != a.want.vis {
							bad = true
							what := "the terminal still shows the cursor the application has hidden"
							if a.want.vis {
								what = "the terminal's cursor stays hidden although the application shows it"
							}
							note("visibility", &c12iViolation{node: n, act: a, after: t, what: what})
						} else if t.vis {
							if t.style != a.want.style {
								bad = true
								note("shape", &c12iViolation{node: n, act: a, after: t, unknown: t.style < 0,
									what: fmt.Sprintf("the application's cursor has shape %s, the terminal's keeps %s: no DECSCUSR was written for the change", r.styleName(a.want.style), map[bool]string{true: "an unknown shape", false: r.styleName(t.style)}[t.style < 0])})
							}
							if t.row != a.want.row+1 || t.col != a.want.col+1 {
								bad = true
								note("position", &c12iViolation{node: n, act: a, after: t, unknown: t.row == 0,
									what: fmt.Sprintf("the application's cursor is at column %d, row %d, the terminal's is %s", a.want.col, a.want.row, r.showTerm(t))})
							}
						}
						if bad {
							continue
						}
					}
					succ := c12iState{mem: o.mem, term: t}
					if !seen[succ] {
						seen[succ] = true
						queue = append(queue, &c12iNode{st: succ, parent: n, act: a, depth: n.depth + 1})
					}
				}
			}
		}
		added := false
		for path, fld := range r.written {
			if _, have := first[path]; have || tried[path] || !r.guessedOn(path) {
				continue
			}
			tried[path] = true
			z, ok := r.initialValue(path, fld)
			if !ok {
				unknownMem = append(unknownMem, path)
			}
			if ok {
				first[path] = z
				added = true
				c.info("C12.i memory field %s starts as %s", path, c12Show(z))
			}
		}
		if !added {
			break
		}
	}
	if len(queue) > 0 {
		problems["state budget exceeded"] = true
	}
	if frames == 0 && len(problems) == 0 {
		problems["no path of Render flushes the writer"] = true
	}
	c.info("C12.i explored %d state(s), %d frame(s), %d symbolic execution(s); cell output through %d writer method(s)", len(seen), frames, r.nexec, len(r.cellWriters))
	var plist []string
	for p := range problems {
		plist = append(plist, p)
	}
	sort.Strings(plist)
	if len(plist) > 6 {
		plist = append(plist[:6], fmt.Sprintf("… (%d more)", len(plist)-6))
	}
	for _, a := range aspects {
		key := keyBase + a
		if v := viol[a]; v != nil && len(unknownMem) > 0 {
			sort.Strings(unknownMem)
			c.undecided(rule, key, r.render.Decl.Pos(), "a frame history leaves the terminal's cursor %s wrong (%s), but it depends on %s, which the frames test and whose value before the first frame is assigned outside the frame functions", a, v.what, strings.Join(unknownMem, ", "))
			continue
		}
		if v := viol[a]; v != nil {
			var hist []string
			var chain []*c12iNode
			for x := v.node; x != nil && x.parent != nil; x = x.parent {
				chain = append(chain, x)
			}
			for i := len(chain) - 1; i >= 0; i-- {
				hist = append(hist, fmt.Sprintf("frame %d: %s → %s", len(chain)-i, r.showAction(chain[i].act), r.showTerm(chain[i].st.term)))
			}
			hist = append(hist, fmt.Sprintf("frame %d: %s → %s", len(chain)+1, r.showAction(v.act), r.showTerm(v.after)))
			c.bad(rule, key, r.render.Decl.Pos(), "%s. History: %s. (Before the last frame Vaxis remembered cursorLast = %s; what it writes is decided against that record, not against what the terminal was actually given.)", v.what, strings.Join(hist, "; "), r.showLast(v.node.st.mem))
			continue
		}
		if len(plist) > 0 {
			c.undecided(rule, key, r.render.Decl.Pos(), "the frame protocol was not understood: %s", strings.Join(plist, "; "))
			continue
		}
		c.ok(rule, key, r.render.Decl.Pos(), "holds after each of %d frame(s) over %d reachable state(s) of (cursorNext, cursorLast, buffer, terminal cursor)", frames, len(seen))
	}
}

// guessedOn: some condition the executor had to guess mentions the state field.
func (r *c12iRun) guessedOn(path string) bool {
	for e := range r.guessed {
		if i := strings.Index(e, path); i >= 0 {
			rest := e[i+len(path):]
			if rest == "" || !(rest[0] == '.' || rest[0] == '_' || (rest[0] >= 'a' && rest[0] <= 'z') || (rest[0] >= 'A' && rest[0] <= 'Z') || (rest[0] >= '0' && rest[0] <= '9')) {
				return true
			}
		}
	}
	return false
}

// initialValue: the zero value of a memory field, unless package vaxis assigns it anything but that zero value
// outside the functions a frame executes (then its value before the first frame is not known here).
func (r *c12iRun) initialValue(path string, fld *types.Var) (c12Val, bool) {
	bt, ok := fld.Type().Underlying().(*types.Basic)
	if !ok {
		return nil, false
	}
	var zero c12Val
	switch {
	case bt.Info()&types.IsBoolean != 0:
		zero = c12Bool{false}
	case bt.Info()&types.IsInteger != 0:
		zero = c12Int{0}
	case bt.Info()&types.IsString != 0:
		zero = c12Lit("")
	default:
		return nil, false
	}
	isZero := func(info *types.Info, e ast.Expr) bool {
		tv, ok := info.Types[e]
		if !ok || tv.Value == nil {
			return false
		}
		switch tv.Value.Kind() {
		case constant.Bool:
			return !constant.BoolVal(tv.Value)
		case constant.Int:
			v, ok := constant.Int64Val(tv.Value)
			return ok && v == 0
		case constant.String:
			return constant.StringVal(tv.Value) == ""
		}
		return false
	}
	clean := true
	for _, fi := range r.c.P.FuncsIn("vaxis") {
		if fi.Decl.Body == nil || r.frameFns[fi.Name] {
			continue
		}
		info := fi.Pkg.TypesInfo
		ast.Inspect(fi.Decl.Body, func(n ast.Node) bool {
			switch t := n.(type) {
			case *ast.AssignStmt:
				for i, l := range t.Lhs {
					if canonPath(info, l) != path {
						continue
					}
					if len(t.Lhs) != len(t.Rhs) || t.Tok != token.ASSIGN || !isZero(info, t.Rhs[i]) {
						clean = false
					}
				}
			case *ast.IncDecStmt:
				if canonPath(info, t.X) == path {
					clean = false
				}
			case *ast.UnaryExpr:
				if t.Op == token.AND && canonPath(info, t.X) == path {
					clean = false
				}
			case *ast.KeyValueExpr:
				if id, ok := t.Key.(*ast.Ident); ok && info.Uses[id] == fld && !isZero(info, t.Value) {
					clean = false
				}
			}
			return clean
		})
	}
	return zero, clean
}

func (r *c12iRun) showLast(mem string) string {
	m := map[string]c12Val{}
	c12iDecode(mem, m)
	v, ok := c12iGet(m, "Vaxis.cursorLast")
	if !ok {
		return "{nothing yet}"
	}
	return fmt.Sprintf("{visible %v, style %s, col %d, row %d}", v.vis, r.styleName(v.style), v.col, v.row)
}
