package main

// C12.j — the emulator answers a query before it looks at the next one.
//
// "The replies the emulator gives to Vaxis's start-up queries are understood by Vaxis as exactly the
// features the emulator implements." Vaxis's start-up dialogue is positional: the queries are written in
// one burst, the primary device attributes query last, and the DA1 reply ends capability collection in
// vaxis.New — whatever arrives after it is not counted. A terminal answers queries in the order it
// receives them; the emulator does so because every reply is written to the pty inside the call of
// Model.update that interprets the query, and update is called for one sequence after the other by the
// single PTY goroutine. A reply whose write is handed to a goroutine or a timer leaves that order: the
// DA1 reply (still written at once) overtakes it, and the application concludes the feature is missing
// although the emulator implements and answers it (seed C12_b_r10: the OSC 11 round trip to the host and
// the reply write moved into `go func(){…}()`; CanReportBackgroundColor() is false inside the widget).
//
// Necessary condition, decided on the static call graph of package widgets/term:
//
//   units     every function declaration and every function literal of the package
//   edges     synchronous: static call, deferred call, literal called or deferred in place, literal
//             handed to a callee that calls it before returning (or whose use the rule does not know);
//             asynchronous: the callee of a go statement, the callback of time.AfterFunc, a function
//             value handed to a package function that launches its parameter with go / AfterFunc
//   writes    a call that writes to a value of the type of Model.pty (method Write*/ReadFrom, fmt.Fprint*,
//             io.WriteString, io.Copy) — by type, so a local copy of the field (tty := vt.pty) counts
//
//   for every asynchronous edge reachable from Model.update, no pty write is reachable from its target.
//
// Everything the emulator writes to the child because of a sequence of the child is a reply, so the
// condition needs no list of queries (DA1, DA2, DSR 5/6, DECRQM, OSC 10/11 … are all covered, and so is
// a reply added later). It does not depend on where the reply is built (inline, helper, table of
// answers, deferred write): those keep the write inside update's call tree. A design that funnels all
// replies through one ordered queue drained by one writer goroutine keeps the order too; it has no pty
// write under update at all and is reported as "not understood" (undecided), not as a violation.

import (
	"fmt"
	"go/ast"
	"go/token"
	"go/types"
	"sort"
	"strings"
)

func init() { registerExtra("C12", c12RepliesSynchronous) }

type c12jUnit struct {
	node   ast.Node // *ast.FuncDecl or *ast.FuncLit
	fi     *FuncInfo
	writes []token.Pos
	sync   []*c12jUnit
	async  []c12jLaunch
}

type c12jLaunch struct {
	to   *c12jUnit // nil: the launched call is itself a pty write
	pos  token.Pos
	how  string
	self bool
}

func c12RepliesSynchronous(c *Ctx) {
	c.Clauses = append(c.Clauses, "C12.j replies are written in query order: every write to the pty that Model.update can cause is made before update returns — no go statement, time.AfterFunc callback or launched function value reachable from update reaches a pty write (DA1 ends Vaxis's capability collection, so a reply written later is not counted)")
	c.expect("C12.j", 1)
	tp := c.P.Pkg("widgets/term")
	upd := c.P.Func("widgets/term.(*Model).update")
	if tp == nil || upd == nil {
		return // runC12 said so
	}
	info := tp.TypesInfo
	var ptyT types.Type
	if tn, ok := tp.Types.Scope().Lookup("Model").(*types.TypeName); ok {
		if st, ok := tn.Type().Underlying().(*types.Struct); ok {
			for i := 0; i < st.NumFields(); i++ {
				if st.Field(i).Name() == "pty" {
					ptyT = st.Field(i).Type()
				}
			}
		}
	}
	if ptyT == nil {
		c.undecided("C12.j", "setup/Model.pty", upd.Decl.Pos(), "field Model.pty not found: the emulator's connection to the child has changed shape")
		return
	}
	isPty := func(e ast.Expr) bool {
		t := info.TypeOf(e)
		return t != nil && types.Identical(t, ptyT)
	}
	// isWrite: the call writes to a pty-typed value
	isWrite := func(call *ast.CallExpr) bool {
		fn := calleeOf(info, call)
		if fn == nil {
			return false
		}
		switch fullName(fn) {
		case "fmt.Fprintf", "fmt.Fprint", "fmt.Fprintln", "io.WriteString", "io.Copy", "io.CopyN", "io.CopyBuffer":
			return len(call.Args) >= 1 && isPty(call.Args[0])
		}
		if sel, ok := unparen(call.Fun).(*ast.SelectorExpr); ok && isPty(sel.X) {
			n := fn.Name()
			return strings.HasPrefix(n, "Write") || n == "ReadFrom"
		}
		return false
	}
	// handsOver: the pty goes to a callee (function, method or function value) as a writer (a parameter of an
	// interface type with a Write method): the callee writes to it
	handsOver := func(call *ast.CallExpr) bool {
		sig, _ := info.TypeOf(call.Fun).(*types.Signature)
		if sig == nil {
			if t := info.TypeOf(call.Fun); t != nil {
				sig, _ = t.Underlying().(*types.Signature)
			}
		}
		if sig == nil {
			return false
		}
		for i, a := range call.Args {
			if !isPty(a) {
				continue
			}
			var pt types.Type
			switch {
			case sig.Variadic() && i >= sig.Params().Len()-1:
				if sl, ok := sig.Params().At(sig.Params().Len() - 1).Type().(*types.Slice); ok {
					pt = sl.Elem()
				}
			case i < sig.Params().Len():
				pt = sig.Params().At(i).Type()
			}
			if pt == nil {
				continue
			}
			if it, ok := pt.Underlying().(*types.Interface); ok {
				for k := 0; k < it.NumMethods(); k++ {
					if it.Method(k).Name() == "Write" {
						return true
					}
				}
			}
		}
		return false
	}
	{
		direct := isWrite
		isWrite = func(call *ast.CallExpr) bool { return direct(call) || handsOver(call) }
	}

	funcs := c.P.FuncsIn("widgets/term")
	units := map[ast.Node]*c12jUnit{}
	byObj := map[*types.Func]*c12jUnit{}
	for _, fi := range funcs {
		if fi.Decl == nil || fi.Decl.Body == nil {
			continue
		}
		u := &c12jUnit{node: fi.Decl, fi: fi}
		units[fi.Decl] = u
		byObj[fi.Obj] = u
		ast.Inspect(fi.Decl.Body, func(n ast.Node) bool {
			if l, ok := n.(*ast.FuncLit); ok {
				units[l] = &c12jUnit{node: l, fi: fi}
			}
			return true
		})
	}
	// local variables that hold one function literal
	varLit := map[types.Object]*ast.FuncLit{}
	varDefs := map[types.Object]int{}
	for _, fi := range funcs {
		if fi.Decl == nil || fi.Decl.Body == nil {
			continue
		}
		ast.Inspect(fi.Decl.Body, func(n ast.Node) bool {
			switch s := n.(type) {
			case *ast.AssignStmt:
				if len(s.Lhs) == len(s.Rhs) {
					for i, l := range s.Lhs {
						id, ok := l.(*ast.Ident)
						if !ok {
							continue
						}
						obj := info.ObjectOf(id)
						if obj == nil {
							continue
						}
						if _, isF := obj.Type().Underlying().(*types.Signature); !isF {
							continue
						}
						varDefs[obj]++
						if lit, ok := unparen(s.Rhs[i]).(*ast.FuncLit); ok {
							varLit[obj] = lit
						}
					}
				}
			case *ast.ValueSpec:
				for i, id := range s.Names {
					obj := info.ObjectOf(id)
					if obj == nil || i >= len(s.Values) {
						continue
					}
					if _, isF := obj.Type().Underlying().(*types.Signature); !isF {
						continue
					}
					varDefs[obj]++
					if lit, ok := unparen(s.Values[i]).(*ast.FuncLit); ok {
						varLit[obj] = lit
					}
				}
			}
			return true
		})
	}
	// target resolves a function-valued expression to the unit it runs (nil: not a function of this package)
	var target func(e ast.Expr) *c12jUnit
	target = func(e ast.Expr) *c12jUnit {
		switch x := unparen(e).(type) {
		case *ast.FuncLit:
			return units[x]
		case *ast.Ident:
			switch o := info.ObjectOf(x).(type) {
			case *types.Func:
				return byObj[o.Origin()]
			case *types.Var:
				if lit := varLit[o]; lit != nil && varDefs[o] == 1 {
					return units[lit]
				}
			}
		case *ast.SelectorExpr:
			if o, ok := info.ObjectOf(x.Sel).(*types.Func); ok {
				return byObj[o.Origin()]
			}
		case *ast.CallExpr:
			// conversion to a named function type: T(f)
			if tv, ok := info.Types[x.Fun]; ok && tv.IsType() && len(x.Args) == 1 {
				return target(x.Args[0])
			}
		}
		return nil
	}
	// launches: which function-typed parameters a package function starts with go / AfterFunc (one level)
	launchMemo := map[*types.Func]map[int]bool{}
	launchesParam := func(fn *types.Func) map[int]bool {
		if m, ok := launchMemo[fn]; ok {
			return m
		}
		m := map[int]bool{}
		launchMemo[fn] = m
		u := byObj[fn]
		if u == nil {
			return m
		}
		sig, _ := fn.Type().(*types.Signature)
		idx := map[types.Object]int{}
		for i := 0; sig != nil && i < sig.Params().Len(); i++ {
			idx[sig.Params().At(i)] = i
		}
		paramOf := func(e ast.Expr) (int, bool) {
			if id, ok := unparen(e).(*ast.Ident); ok {
				i, ok := idx[info.ObjectOf(id)]
				return i, ok
			}
			return 0, false
		}
		ast.Inspect(u.fi.Decl.Body, func(n ast.Node) bool {
			switch s := n.(type) {
			case *ast.GoStmt:
				if i, ok := paramOf(s.Call.Fun); ok {
					m[i] = true
				}
				// go func() { p() }()
				if lit, ok := unparen(s.Call.Fun).(*ast.FuncLit); ok {
					ast.Inspect(lit.Body, func(k ast.Node) bool {
						if call, ok := k.(*ast.CallExpr); ok {
							if i, ok := paramOf(call.Fun); ok {
								m[i] = true
							}
						}
						return true
					})
				}
			case *ast.CallExpr:
				if fn := calleeOf(info, s); fn != nil && fullName(fn) == "time.AfterFunc" && len(s.Args) == 2 {
					if i, ok := paramOf(s.Args[1]); ok {
						m[i] = true
					}
				}
			}
			return true
		})
		return m
	}

	// edges
	for _, fi := range funcs {
		if fi.Decl == nil || fi.Decl.Body == nil {
			continue
		}
		consumed := map[*ast.FuncLit]bool{}
		var walk func(n ast.Node, cur *c12jUnit)
		handleCall := func(call *ast.CallExpr, cur *c12jUnit, async bool, how string) {
			if async {
				if isWrite(call) {
					cur.async = append(cur.async, c12jLaunch{pos: call.Pos(), how: how, self: true})
				} else if t := target(call.Fun); t != nil {
					cur.async = append(cur.async, c12jLaunch{to: t, pos: call.Pos(), how: how})
				}
				if l, ok := unparen(call.Fun).(*ast.FuncLit); ok {
					consumed[l] = true
				}
			} else {
				if isWrite(call) {
					cur.writes = append(cur.writes, call.Pos())
				}
				if t := target(call.Fun); t != nil {
					cur.sync = append(cur.sync, t)
				}
				if l, ok := unparen(call.Fun).(*ast.FuncLit); ok {
					consumed[l] = true
				}
			}
			// function values handed over
			fn := calleeOf(info, call)
			for i, a := range call.Args {
				t := target(a)
				if t == nil {
					continue
				}
				if _, isF := info.TypeOf(a).Underlying().(*types.Signature); !isF {
					continue
				}
				if l, ok := unparen(a).(*ast.FuncLit); ok {
					consumed[l] = true
				}
				switch {
				case fn != nil && fullName(fn) == "time.AfterFunc" && i == 1:
					cur.async = append(cur.async, c12jLaunch{to: t, pos: call.Pos(), how: "the callback of time.AfterFunc"})
				case fn != nil && byObj[fn.Origin()] != nil && launchesParam(fn.Origin())[i]:
					cur.async = append(cur.async, c12jLaunch{to: t, pos: call.Pos(), how: "a function value that " + fn.Name() + " starts with go / AfterFunc"})
				default:
					cur.sync = append(cur.sync, t)
				}
			}
		}
		walk = func(n ast.Node, cur *c12jUnit) {
			ast.Inspect(n, func(k ast.Node) bool {
				switch s := k.(type) {
				case *ast.FuncLit:
					u := units[s]
					if u == nil {
						return false
					}
					if !consumed[s] {
						// a literal whose use is not one of the recognised launches runs, as far as this rule
						// knows, before the enclosing call returns (or not at all)
						if _, isVar := func() (types.Object, bool) {
							for o, l := range varLit {
								if l == s && varDefs[o] == 1 {
									return o, true
								}
							}
							return nil, false
						}(); !isVar {
							cur.sync = append(cur.sync, u)
						}
					}
					walk(s.Body, u)
					return false
				case *ast.GoStmt:
					handleCall(s.Call, cur, true, "a go statement")
					if l, ok := unparen(s.Call.Fun).(*ast.FuncLit); ok {
						walk(l.Body, units[l])
					} else {
						walk(s.Call.Fun, cur)
					}
					for _, a := range s.Call.Args {
						walk(a, cur)
					}
					return false
				case *ast.CallExpr:
					handleCall(s, cur, false, "")
				}
				return true
			})
		}
		walk(fi.Decl.Body, units[fi.Decl])
	}

	reach := func(from *c12jUnit, withAsync bool) map[*c12jUnit]bool {
		seen := map[*c12jUnit]bool{from: true}
		work := []*c12jUnit{from}
		for len(work) > 0 {
			u := work[len(work)-1]
			work = work[:len(work)-1]
			next := append([]*c12jUnit{}, u.sync...)
			if withAsync {
				for _, l := range u.async {
					if l.to != nil {
						next = append(next, l.to)
					}
				}
			}
			for _, t := range next {
				if t != nil && !seen[t] {
					seen[t] = true
					work = append(work, t)
				}
			}
		}
		return seen
	}
	root := units[upd.Decl]
	if root == nil {
		c.undecided("C12.j", "setup/update", upd.Decl.Pos(), "widgets/term.(*Model).update has no body")
		return
	}
	all := reach(root, true)
	syncSet := reach(root, false)
	fname := func(u *c12jUnit) string { return strings.TrimPrefix(u.fi.Name, "widgets/") }

	// violations: an asynchronous launch under update from which a pty write is reachable
	type viol struct {
		key, msg string
		pos      token.Pos
	}
	var viols []viol
	for u := range all {
		for _, l := range u.async {
			var w token.Pos
			var wu *c12jUnit
			if l.self {
				w, wu = l.pos, u
			} else {
				tr := reach(l.to, true)
				var cands []*c12jUnit
				for t := range tr {
					if len(t.writes) > 0 {
						cands = append(cands, t)
					}
				}
				if len(cands) == 0 {
					continue
				}
				sort.Slice(cands, func(i, j int) bool { return cands[i].writes[0] < cands[j].writes[0] })
				wu, w = cands[0], cands[0].writes[0]
			}
			viols = append(viols, viol{
				key: fname(u) + "/reply written from a goroutine or timer",
				pos: l.pos,
				msg: fmt.Sprintf("%s started here (reachable from Model.update) leads to the pty write at %s in %s: the reply is written after update has gone on to the next sequence, so it is no longer ordered with the replies written at once — the DA1 reply, which ends capability collection in vaxis.New, overtakes it and the application believes the emulator lacks a feature it implements and answers",
					l.how, c.P.Pos(w), fname(wu)),
			})
		}
	}
	sort.Slice(viols, func(i, j int) bool { return viols[i].pos < viols[j].pos })
	seenKey := map[string]bool{}
	for _, v := range viols {
		if seenKey[v.key] {
			continue
		}
		seenKey[v.key] = true
		c.bad("C12.j", v.key, v.pos, "%s", v.msg)
	}

	// instances: functions whose pty writes happen inside update's synchronous call tree
	per := map[string]int{}
	pos := map[string]token.Pos{}
	for u := range syncSet {
		if len(u.writes) == 0 {
			continue
		}
		n := fname(u)
		per[n] += len(u.writes)
		if p, ok := pos[n]; !ok || u.writes[0] < p {
			pos[n] = u.writes[0]
		}
	}
	var names []string
	for n := range per {
		names = append(names, n)
	}
	sort.Strings(names)
	for _, n := range names {
		c.ok("C12.j", n+"/replies are written before update returns", pos[n], "%d pty write(s), each inside the synchronous call tree of Model.update", per[n])
	}
	if len(names) == 0 && len(viols) == 0 {
		c.undecided("C12.j", "term.(*Model).update/reply writes", upd.Decl.Pos(), "no write to Model.pty is reachable from Model.update by static calls: how the emulator answers queries (DA1, DSR, DECRQM, OSC colour queries) is not understood, so the order of its replies cannot be judged")
	}
}
