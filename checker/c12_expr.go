package main

// C12 — symbolic mini-executor: expressions and calls.

import (
	"fmt"
	"go/ast"
	"go/constant"
	"go/token"
	"go/types"
	"strings"
)

// rv turns a reference into the receiver state into its current value.
func (ex *c12Exec) rv(v c12Val) c12Val {
	r, ok := v.(c12Ref)
	if !ok {
		if v == nil {
			return c12Sym{Hole: -1, Desc: "?"}
		}
		return v
	}
	key := r.Path
	for _, ix := range r.Idx {
		key += "[" + c12Show(ix) + "]"
	}
	if s, ok := ex.store[key]; ok {
		return s
	}
	if !strings.Contains(r.Path, ".") && len(r.Idx) == 0 {
		return r // the object itself (receiver passed on to a helper)
	}
	if len(r.Idx) == 0 && r.Field != nil && !r.Addr {
		// a struct-valued piece of the state some of whose fields are known (`next := w.vx.cursorNext`): the value
		// is a copy whose fields are the current values of those fields, so that next.row is what w.vx.cursorNext.row was
		if stt, ok := r.Field.Type().Underlying().(*types.Struct); ok && ex.storedUnder(key) {
			if tn := typeName(r.Field.Type()); tn != "strings.Builder" && tn != "bytes.Buffer" {
				return ex.snapshot(key, r.Field.Type(), stt, 0)
			}
		} else if ok {
			// an embedded struct: its fields are kept under the path of the struct that embeds it
			if base := c12PromotedBase(r); base != key && ex.fieldStoredUnder(base, stt, 0) {
				return ex.snapshot(base, r.Field.Type(), stt, 0)
			}
		}
	}
	if len(r.Idx) > 0 {
		// field selections after the last index are selections on the loaded element: the same value whether the
		// element was copied into a local first (cell := grid[r][c]; cell.Cell) or selected in place (grid[r][c].Cell)
		if i := strings.LastIndex(r.Path, "[]"); i >= 0 && i+2 < len(r.Path) {
			var sel []string
			for _, f := range strings.Split(strings.TrimPrefix(r.Path[i+2:], "."), ".") {
				sel = append(sel, "."+f)
			}
			return c12Load{Path: r.Path[:i+2], Idx: r.Idx, Sel: sel}
		}
		return c12Load{Path: r.Path, Idx: r.Idx}
	}
	return c12Sym{Hole: -1, Desc: key, From: r.Field}
}

// storedUnder: some field below the state path key has a known value.
func (ex *c12Exec) storedUnder(key string) bool {
	for k := range ex.store {
		if strings.HasPrefix(k, key+".") {
			return true
		}
	}
	return false
}

// fieldStoredUnder: some field of the struct type (fields of embedded structs included) has a known value below
// the state path base.
func (ex *c12Exec) fieldStoredUnder(base string, stt *types.Struct, depth int) bool {
	for i := 0; i < stt.NumFields(); i++ {
		f := stt.Field(i)
		if f.Embedded() && depth < 4 {
			if est, ok := f.Type().Underlying().(*types.Struct); ok {
				if ex.fieldStoredUnder(base, est, depth+1) {
					return true
				}
				continue
			}
		}
		k := base + "." + f.Name()
		if _, ok := ex.store[k]; ok || ex.storedUnder(k) {
			return true
		}
	}
	return false
}

// snapshot: the value of the struct-typed state at path key as a struct value: every field holds what a read of
// that field would yield now (known value or the field's symbol). Promoted fields of embedded structs live under
// the same path as in selector().
func (ex *c12Exec) snapshot(key string, typ types.Type, stt *types.Struct, depth int) c12Val {
	s := &c12Struct{Typ: typ, Fields: map[string]c12Val{}}
	for i := 0; i < stt.NumFields(); i++ {
		f := stt.Field(i)
		if f.Embedded() && depth < 4 {
			if est, ok := f.Type().Underlying().(*types.Struct); ok {
				s.Fields[f.Name()] = ex.snapshot(key, f.Type(), est, depth+1)
				continue
			}
		}
		s.Fields[f.Name()] = ex.rv(c12Ref{Path: key + "." + f.Name(), Field: f})
	}
	return s
}

// structEq compares two struct values field by field; known=false when no field is known to differ and some
// field's comparison is unknown.
func c12StructEq(a, b *c12Struct) (eq, known bool) {
	if a == b {
		return true, true
	}
	allKnown := true
	names := map[string]bool{}
	for n := range a.Fields {
		names[n] = true
	}
	for n := range b.Fields {
		names[n] = true
	}
	for n := range names {
		x, okx := a.Fields[n]
		y, oky := b.Fields[n]
		if !okx || !oky {
			allKnown = false
			continue
		}
		var e, k bool
		sx, isSx := x.(*c12Struct)
		sy, isSy := y.(*c12Struct)
		if isSx && isSy {
			e, k = c12StructEq(sx, sy)
		} else {
			e, k = c12Eq(x, y)
			if !k {
				e, k = c12Eq(y, x)
			}
		}
		if k && !e {
			return false, true
		}
		if !k {
			allKnown = false
		}
	}
	return allKnown, allKnown
}

// argVal evaluates a call argument: pointers into the receiver state stay references.
func (ex *c12Exec) argVal(fr *c12Frame, a ast.Expr) c12Val {
	v := ex.expr(fr, a)
	if r, ok := v.(c12Ref); ok {
		if _, isPtr := fr.info.TypeOf(a).Underlying().(*types.Pointer); isPtr {
			key := r.Path
			for _, ix := range r.Idx {
				key += "[" + c12Show(ix) + "]"
			}
			if _, stored := ex.store[key]; !stored {
				return r
			}
		}
	}
	return ex.rv(v)
}

func (ex *c12Exec) constVal(fr *c12Frame, e ast.Expr) (c12Val, bool) {
	tv, ok := fr.info.Types[e]
	if !ok || tv.Value == nil {
		return nil, false
	}
	switch tv.Value.Kind() {
	case constant.Int:
		if v, ok := constant.Int64Val(tv.Value); ok {
			return c12Int{v}, true
		}
	case constant.Bool:
		return c12Bool{constant.BoolVal(tv.Value)}, true
	case constant.String:
		return c12Lit(constant.StringVal(tv.Value)), true
	}
	return nil, false
}

func (ex *c12Exec) expr(fr *c12Frame, e ast.Expr) c12Val {
	e = unparen(e)
	if v, ok := ex.constVal(fr, e); ok {
		return v
	}
	switch t := e.(type) {
	case *ast.Ident:
		o := fr.info.ObjectOf(t)
		if _, isNil := o.(*types.Nil); isNil {
			return c12Nil{}
		}
		if v, ok := fr.env[o]; ok {
			return v
		}
		if ex.globals != nil {
			if v, ok := ex.initGlobal(o); ok {
				return v
			}
		}
		if v, ok := ex.pkgTable(o); ok {
			return v
		}
		return c12Sym{Hole: -1, Desc: t.Name}
	case *ast.BasicLit:
		return c12Sym{Hole: -1, Desc: t.Value}
	case *ast.StarExpr:
		return ex.expr(fr, t.X)
	case *ast.UnaryExpr:
		switch t.Op {
		case token.AND:
			v := ex.expr(fr, t.X)
			if r, ok := v.(c12Ref); ok {
				r.Addr = true
				return r
			}
			return v
		case token.NOT:
			v := ex.rv(ex.expr(fr, t.X))
			if b, ok := v.(c12Bool); ok {
				return c12Bool{!b.V}
			}
			return c12Sym{Hole: -1, Desc: canonExpr(fr.info, e)}
		case token.SUB:
			v := ex.rv(ex.expr(fr, t.X))
			if i, ok := v.(c12Int); ok {
				return c12Int{-i.V}
			}
		case token.ARROW:
			// a receive: an unknown value; fixed-size arrays keep their shape so that element order is visible
			ch := ex.expr(fr, t.X)
			name := canonExpr(fr.info, t.X)
			if r, ok := ch.(c12Ref); ok {
				name = r.Path
			}
			if ct, ok := fr.info.TypeOf(t.X).Underlying().(*types.Chan); ok {
				if at, ok := ct.Elem().Underlying().(*types.Array); ok && at.Len() <= 8 {
					var el []c12Val
					for i := int64(0); i < at.Len(); i++ {
						el = append(el, c12Sym{Hole: -1, Desc: fmt.Sprintf("received %s[%d]", name, i)})
					}
					return c12Slice{Elems: el}
				}
			}
			return c12Sym{Hole: -1, Desc: "received " + name}
		}
		return c12Sym{Hole: -1, Desc: canonExpr(fr.info, e)}
	case *ast.BinaryExpr:
		return ex.binary(fr, t)
	case *ast.SelectorExpr:
		return ex.selector(fr, t)
	case *ast.IndexExpr:
		base := ex.expr(fr, t.X)
		idx := ex.rv(ex.expr(fr, t.Index))
		if r, ok := base.(c12Ref); ok {
			if _, stored := ex.store[r.Path]; !stored || len(r.Idx) > 0 {
				return c12Ref{Path: r.Path + "[]", Field: r.Field, Idx: append(append([]c12Val{}, r.Idx...), idx)}
			}
			base = ex.rv(base)
		}
		switch b := base.(type) {
		case *c12MutMap:
			if !b.Poisoned {
				if v, _, known := ex.mapLookup(fr, b.frozen(), idx, fr.info.TypeOf(t)); known {
					return v
				}
			}
		case c12Map:
			if v, _, known := ex.mapLookup(fr, b, idx, fr.info.TypeOf(t)); known {
				return v
			}
		case c12Slice:
			if i, ok := idx.(c12Int); ok {
				if i.V < 0 || int(i.V) >= len(b.Elems) {
					ex.path.Panics = append(ex.path.Panics, fmt.Sprintf("%s: index %d out of range [0,%d) in %s", fr.fn, i.V, len(b.Elems), canonExpr(fr.info, e)))
					return c12Sym{Hole: -1, Desc: "out-of-range"}
				}
				return b.Elems[i.V]
			}
		case c12Nil:
			if _, isMap := fr.info.TypeOf(t.X).Underlying().(*types.Map); !isMap {
				ex.path.Panics = append(ex.path.Panics, fmt.Sprintf("%s: index into empty %s", fr.fn, canonExpr(fr.info, t.X)))
			}
		case c12Str:
			if s, ok := b.literal(); ok {
				if i, ok := idx.(c12Int); ok && i.V >= 0 && int(i.V) < len(s) {
					return c12Int{int64(s[i.V])}
				}
			}
		case c12Load:
			if len(b.Sel) == 0 {
				return c12Load{Path: b.Path + "[]", Idx: append(append([]c12Val{}, b.Idx...), idx)}
			}
		}
		return c12Sym{Hole: -1, Desc: canonExpr(fr.info, e)}
	case *ast.SliceExpr:
		return ex.sliceExpr(fr, t)
	case *ast.CallExpr:
		return ex.call(fr, t)
	case *ast.CompositeLit:
		return ex.composite(fr, t)
	case *ast.TypeAssertExpr:
		return ex.rv(ex.expr(fr, t.X))
	case *ast.FuncLit:
		return c12Sym{Hole: -1, Desc: "func literal"}
	case *ast.KeyValueExpr:
		return ex.expr(fr, t.Value)
	}
	return c12Sym{Hole: -1, Desc: types.ExprString(e)}
}

func (ex *c12Exec) selector(fr *c12Frame, t *ast.SelectorExpr) c12Val {
	sel, ok := fr.info.Selections[t]
	if !ok {
		// package-qualified identifier (variables; constants were folded)
		return c12Sym{Hole: -1, Desc: types.ExprString(t)}
	}
	base := ex.expr(fr, t.X)
	if sel.Kind() != types.FieldVal {
		return c12Sym{Hole: -1, Desc: canonExpr(fr.info, t)}
	}
	fld, _ := sel.Obj().(*types.Var)
	switch b := base.(type) {
	case c12Ref:
		if len(b.Idx) == 0 {
			if s, stored := ex.store[b.Path]; stored {
				if st, ok := s.(*c12Struct); ok {
					return ex.fieldOf(fr, st, t)
				}
			}
		}
		// promoted fields live under the path of the outer struct (vt.cursor.Attribute is "Model.cursor.Attribute"):
		// a selection written through the embedded struct (vt.cursor.Style.Attribute, or style.Attribute where
		// style = &vt.cursor.Style) names the same piece of state and gets the same path
		path := c12PromotedBase(b) + "." + t.Sel.Name
		// re-anchor at a pointer to a named repository struct, as canonPath does
		if name := anchorType(fr.info.TypeOf(t)); name != "" {
			if _, isPtr := fr.info.TypeOf(t).(*types.Pointer); isPtr {
				path = name
			}
		}
		return c12Ref{Path: path, Field: fld, Idx: b.Idx}
	case *c12Struct:
		return ex.fieldOf(fr, b, t)
	case c12Conv:
		if s, ok := b.X.(*c12Struct); ok {
			return ex.fieldOf(fr, s, t)
		}
	case c12Load:
		return c12Load{Path: b.Path, Idx: b.Idx, Sel: append(append([]string{}, b.Sel...), "."+t.Sel.Name)}
	}
	return c12Sym{Hole: -1, Desc: canonExpr(fr.info, t)}
}

// c12PromotedBase: the path under which the fields of the struct that r names are kept: r's own path, or, when r
// names an embedded struct value (not an embedded pointer, which re-anchors the path), the path of the struct
// that embeds it.
func c12PromotedBase(r c12Ref) string {
	if r.Field == nil || !r.Field.Embedded() {
		return r.Path
	}
	if _, isStruct := r.Field.Type().Underlying().(*types.Struct); !isStruct {
		return r.Path
	}
	suffix := "." + r.Field.Name()
	if base := strings.TrimSuffix(r.Path, suffix); base != r.Path && base != "" {
		return base
	}
	return r.Path
}

func (ex *c12Exec) fieldOf(fr *c12Frame, s *c12Struct, sel *ast.SelectorExpr) c12Val {
	selInfo := fr.info.Selections[sel]
	var cur c12Val = s
	t := selInfo.Recv()
	for _, i := range selInfo.Index() {
		if p, ok := t.(*types.Pointer); ok {
			t = p.Elem()
		}
		stt, ok := t.Underlying().(*types.Struct)
		if !ok {
			return c12Sym{Hole: -1, Desc: canonExpr(fr.info, sel)}
		}
		f := stt.Field(i)
		cs, ok := cur.(*c12Struct)
		if !ok {
			return c12Sym{Hole: -1, Desc: canonExpr(fr.info, sel)}
		}
		v, present := cs.Fields[f.Name()]
		if !present {
			v = ex.zero(f.Type())
			cs.Fields[f.Name()] = v
		}
		cur = v
		t = f.Type()
	}
	return cur
}

func (ex *c12Exec) composite(fr *c12Frame, t *ast.CompositeLit) c12Val {
	typ := fr.info.TypeOf(t)
	if typ == nil {
		return c12Sym{Hole: -1, Desc: "composite"}
	}
	switch u := typ.Underlying().(type) {
	case *types.Struct:
		if tn := typeName(typ); tn == "strings.Builder" || tn == "bytes.Buffer" {
			return c12Builder{S: &c12Str{}}
		}
		s := &c12Struct{Typ: typ, Fields: map[string]c12Val{}}
		for i, el := range t.Elts {
			if kv, ok := el.(*ast.KeyValueExpr); ok {
				if id, ok := kv.Key.(*ast.Ident); ok {
					s.Fields[id.Name] = ex.rv(ex.expr(fr, kv.Value))
				}
			} else if i < u.NumFields() {
				s.Fields[u.Field(i).Name()] = ex.rv(ex.expr(fr, el))
			}
		}
		return s
	case *types.Slice, *types.Array:
		if v, ok := ex.keyedList(fr, t, typ); ok {
			return v
		}
		var out []c12Val
		for _, el := range t.Elts {
			if kv, ok := el.(*ast.KeyValueExpr); ok {
				el = kv.Value
			}
			if cl, ok := el.(*ast.CompositeLit); ok && cl.Type == nil {
				// elided inner type
				if it := fr.info.TypeOf(cl); it != nil {
					if _, isStruct := it.Underlying().(*types.Struct); isStruct {
						out = append(out, ex.composite(fr, cl))
						continue
					}
				}
				var in []c12Val
				for _, e2 := range cl.Elts {
					in = append(in, ex.rv(ex.expr(fr, e2)))
				}
				out = append(out, c12Slice{Elems: in})
				continue
			}
			out = append(out, ex.rv(ex.expr(fr, el)))
		}
		return c12Slice{Elems: out}
	case *types.Map:
		m := c12Map{Typ: typ}
		for _, el := range t.Elts {
			kv, ok := el.(*ast.KeyValueExpr)
			if !ok {
				return c12Sym{Hole: -1, Desc: "composite " + typeName(typ)}
			}
			m.Keys = append(m.Keys, ex.rv(ex.expr(fr, kv.Key)))
			if cl, ok := kv.Value.(*ast.CompositeLit); ok && cl.Type == nil {
				m.Vals = append(m.Vals, ex.composite(fr, cl))
			} else {
				m.Vals = append(m.Vals, ex.rv(ex.expr(fr, kv.Value)))
			}
		}
		if ex.globals != nil {
			return c12Thaw(m) // inside a start-up table construction maps can be stored into
		}
		return m
	}
	return c12Sym{Hole: -1, Desc: "composite " + typeName(typ)}
}

// pkgTable: the value of a package-level table of the repository that is initialised with a composite literal and
// only ever read (Program.ReadOnlyTable): the literal, evaluated in its own package. A lookup table that replaced
// a switch or a run of duplicated blocks is thereby executed row by row.
func (ex *c12Exec) pkgTable(o types.Object) (c12Val, bool) {
	v, ok := o.(*types.Var)
	if !ok || v.IsField() || v.Pkg() == nil || v.Parent() != v.Pkg().Scope() || v.Exported() || ex.p == nil {
		return nil, false
	}
	lit := ex.p.ReadOnlyTable(v)
	if lit == nil {
		// a table built by init() and only read afterwards
		return ex.initBuiltTable(v)
	}
	for _, pk := range ex.p.Pkgs {
		if pk.Types == v.Pkg() {
			val := ex.composite(&c12Frame{pk: pk, info: pk.TypesInfo, env: map[types.Object]c12Val{}, fn: "table " + v.Name()}, lit)
			if _, unknown := val.(c12Sym); unknown {
				return nil, false
			}
			return val, true
		}
	}
	return nil, false
}

// mapLookup: m[k] for a table with known keys. known=false when the key cannot be compared with every entry.
func (ex *c12Exec) mapLookup(fr *c12Frame, m c12Map, k c12Val, elemT types.Type) (val c12Val, found, known bool) {
	for i, mk := range m.Keys {
		eq, kn := c12Eq(mk, k)
		if !kn {
			eq, kn = c12Eq(k, mk)
		}
		if !kn {
			return nil, false, false
		}
		if eq {
			return c12Clone(m.Vals[i]), true, true // a map load copies the element
		}
	}
	if mt, ok := m.Typ.Underlying().(*types.Map); ok {
		return ex.zero(mt.Elem()), false, true
	}
	if elemT != nil {
		return ex.zero(elemT), false, true
	}
	return nil, false, false
}

func (ex *c12Exec) sliceExpr(fr *c12Frame, t *ast.SliceExpr) c12Val {
	base := ex.rv(ex.expr(fr, t.X))
	var lo, hi c12Val
	if t.Low != nil {
		lo = ex.rv(ex.expr(fr, t.Low))
	}
	if t.High != nil {
		hi = ex.rv(ex.expr(fr, t.High))
	}
	switch b := base.(type) {
	case c12Slice:
		l, h := 0, len(b.Elems)
		if lo != nil {
			i, ok := lo.(c12Int)
			if !ok {
				break
			}
			l = int(i.V)
		}
		if hi != nil {
			i, ok := hi.(c12Int)
			if !ok {
				break
			}
			h = int(i.V)
		}
		if l < 0 || h > len(b.Elems) || l > h {
			if h > len(b.Elems) && h <= 64 && l <= len(b.Elems) { // within capacity is legal for pooled slices; treat as unknown
				return c12Sym{Hole: -1, Desc: canonExpr(fr.info, t)}
			}
			ex.path.Panics = append(ex.path.Panics, fmt.Sprintf("%s: slice bounds [%d:%d] of length %d", fr.fn, l, h, len(b.Elems)))
			return c12Sym{Hole: -1, Desc: "out-of-range"}
		}
		return c12Slice{Elems: b.Elems[l:h]}
	case c12Nil:
		return c12Nil{}
	case c12Str:
		s := b.norm()
		cut := func(v c12Val) (part, off int, ok bool) {
			switch x := v.(type) {
			case c12Pos:
				return x.Part, x.Off, true
			case c12Int:
				// only inside a leading literal
				if len(s.Parts) == 0 {
					return 0, 0, x.V == 0
				}
				if s.Parts[0].Sym == nil && int(x.V) <= len(s.Parts[0].Lit) && x.V >= 0 {
					return 0, int(x.V), true
				}
			}
			return 0, 0, false
		}
		lp, lo2, hp, ho := 0, 0, len(s.Parts), 0
		okL, okH := true, true
		if lo != nil {
			lp, lo2, okL = cut(lo)
		}
		if hi != nil {
			hp, ho, okH = cut(hi)
		}
		if !okL || !okH {
			break
		}
		var out []c12Part
		for i, p := range s.Parts {
			if i < lp || i > hp {
				continue
			}
			if p.Sym != nil {
				if i == hp || (i == lp && lo2 > 0) {
					continue // the boundary lies before (after) the symbolic part
				}
				out = append(out, p)
				continue
			}
			a, z := 0, len(p.Lit)
			if i == lp {
				a = lo2
			}
			if i == hp && hi != nil {
				z = ho
			}
			if a > z || z > len(p.Lit) {
				return c12Sym{Hole: -1, Desc: canonExpr(fr.info, t)}
			}
			out = append(out, c12Part{Lit: p.Lit[a:z]})
		}
		return c12Str{Parts: out}.norm()
	}
	return c12Sym{Hole: -1, Desc: canonExpr(fr.info, t)}
}

func (ex *c12Exec) binary(fr *c12Frame, t *ast.BinaryExpr) c12Val {
	unknown := c12Sym{Hole: -1, Desc: canonExpr(fr.info, t)}
	switch t.Op {
	case token.LAND, token.LOR:
		l := ex.rv(ex.expr(fr, t.X))
		if b, ok := l.(c12Bool); ok {
			if b.V == (t.Op == token.LOR) {
				return b
			}
			return ex.rv(ex.expr(fr, t.Y))
		}
		// left unknown: the right operand is evaluated under a choice of the left one
		k := ex.choose(2)
		lv := k == 0
		ex.path.Conds = append(ex.path.Conds, c12Cond{Expr: canonExpr(fr.info, t.X), Val: fmt.Sprint(lv), Node: t.X})
		if lv == (t.Op == token.LOR) {
			return c12Bool{lv}
		}
		return ex.rv(ex.expr(fr, t.Y))
	}
	if t.Op == token.EQL || t.Op == token.NEQ {
		// the address of a piece of the receiver state compared with nil
		if res, known := ex.addrNilCmp(fr, t.X, t.Y); known {
			return c12Bool{res == (t.Op == token.EQL)}
		}
	}
	l := ex.rv(ex.expr(fr, t.X))
	r := ex.rv(ex.expr(fr, t.Y))
	// an unknown comparison is described by the values compared, so that the same question asked twice
	// on a path gets the same answer (see truth)
	unknown = c12Sym{Hole: -1, Desc: "(" + c12Show(l) + t.Op.String() + c12Show(r) + ")"}
	switch t.Op {
	case token.EQL, token.NEQ:
		eq, known := c12Eq(l, r)
		if !known {
			eq, known = c12Eq(r, l)
		}
		if ls, ok := l.(*c12Struct); ok && !known {
			if rs, ok := r.(*c12Struct); ok {
				if eq, known = c12StructEq(ls, rs); !known {
					// struct values print without their fields: name the question by the expressions compared
					return c12Sym{Hole: -1, Desc: "(" + canonExpr(fr.info, t.X) + t.Op.String() + canonExpr(fr.info, t.Y) + ")"}
				}
			}
		}
		if !known {
			return unknown
		}
		return c12Bool{eq == (t.Op == token.EQL)}
	case token.LSS, token.LEQ, token.GTR, token.GEQ:
		res, known := c12Cmp(t.Op, l, r)
		if !known {
			return unknown
		}
		return c12Bool{res}
	}
	v := ex.arith(t.Op, l, r)
	if s, ok := v.(c12Sym); ok && s.Hole < 0 && s.Desc == "" {
		return unknown
	}
	return v
}

// addrNilCmp decides `p == nil` for pointer-typed operands: an address taken with & is not nil.
func (ex *c12Exec) addrNilCmp(fr *c12Frame, x, y ast.Expr) (eq, known bool) {
	isPtr := func(e ast.Expr) bool {
		t := fr.info.TypeOf(e)
		if t == nil {
			return false
		}
		_, ok := t.Underlying().(*types.Pointer)
		return ok
	}
	if !isPtr(x) && !isPtr(y) {
		return false, false
	}
	a, b := ex.expr(fr, x), ex.expr(fr, y)
	if _, isNil := a.(c12Nil); isNil {
		a, b = b, a
	}
	if _, isNil := b.(c12Nil); !isNil {
		return false, false
	}
	if r, ok := a.(c12Ref); ok && r.Addr {
		return false, true
	}
	return false, false
}

func (ex *c12Exec) arith(op token.Token, l, r c12Val) c12Val {
	if ls, ok := l.(c12Str); ok && op == token.ADD {
		if rs, ok := r.(c12Str); ok {
			return ls.concat(rs)
		}
		return ls.concat(c12Str{Parts: []c12Part{{Sym: r}}})
	}
	if p, ok := l.(c12Pos); ok && op == token.ADD {
		if i, ok := r.(c12Int); ok {
			return c12Pos{Part: p.Part, Off: p.Off + int(i.V)}
		}
	}
	li, okL := l.(c12Int)
	ri, okR := r.(c12Int)
	if okL && okR {
		switch op {
		case token.ADD:
			return c12Int{li.V + ri.V}
		case token.SUB:
			return c12Int{li.V - ri.V}
		case token.MUL:
			return c12Int{li.V * ri.V}
		case token.QUO:
			if ri.V != 0 {
				return c12Int{li.V / ri.V}
			}
		case token.REM:
			if ri.V != 0 {
				return c12Int{li.V % ri.V}
			}
		case token.AND:
			return c12Int{li.V & ri.V}
		case token.OR:
			return c12Int{li.V | ri.V}
		case token.XOR:
			return c12Int{li.V ^ ri.V}
		case token.AND_NOT:
			return c12Int{li.V &^ ri.V}
		case token.SHL:
			return c12Int{li.V << uint(ri.V)}
		case token.SHR:
			return c12Int{li.V >> uint(ri.V)}
		}
	}
	if ls, ok := l.(c12Sym); ok && okR && (op == token.ADD || op == token.SUB) {
		if op == token.ADD {
			ls.K += ri.V
		} else {
			ls.K -= ri.V
		}
		return ls
	}
	if rs, ok := r.(c12Sym); ok && okL && op == token.ADD {
		rs.K += li.V
		return rs
	}
	// hole + unknown offset: keep the identity of the hole (window offsets added to coordinates)
	if op == token.ADD {
		ls, okl := l.(c12Sym)
		rs, okr := r.(c12Sym)
		if okl && okr && (ls.Hole >= 0) != (rs.Hole >= 0) {
			if rs.Hole >= 0 {
				ls, rs = rs, ls
			}
			ls.Desc += "+" + c12Show(rs)
			return ls
		}
	}
	return c12Sym{Hole: -1, Desc: "(" + c12Show(l) + " " + op.String() + " " + c12Show(r) + ")"}
}

// ---- calls

func (ex *c12Exec) call(fr *c12Frame, call *ast.CallExpr) c12Val {
	// conversions
	if tv, ok := fr.info.Types[call.Fun]; ok && tv.IsType() && len(call.Args) == 1 {
		x := ex.rv(ex.expr(fr, call.Args[0]))
		return ex.convert(tv.Type, x)
	}
	// builtins
	if id, ok := unparen(call.Fun).(*ast.Ident); ok {
		if _, isB := fr.info.Uses[id].(*types.Builtin); isB {
			return ex.builtin(fr, id.Name, call)
		}
	}
	fn := calleeOf(fr.info, call)
	var args []c12Val
	var argTypes []types.Type
	for _, a := range call.Args {
		args = append(args, ex.argVal(fr, a))
		argTypes = append(argTypes, fr.info.TypeOf(a))
	}
	if call.Ellipsis.IsValid() && len(args) > 0 {
		if s, ok := args[len(args)-1].(c12Slice); ok {
			args = append(args[:len(args)-1], s.Elems...)
		}
	}
	var recv c12Val
	if sel, ok := unparen(call.Fun).(*ast.SelectorExpr); ok {
		if _, isSel := fr.info.Selections[sel]; isSel {
			recv = ex.expr(fr, sel.X)
		}
	}
	if fn == nil {
		ex.path.Calls = append(ex.path.Calls, c12CallRec{Name: "dynamic " + types.ExprString(call.Fun), Args: args, ArgTypes: argTypes, Call: call, In: fr.fn})
		return ex.unknownResult(fr, call)
	}
	name := fullName(fn)
	rec := c12CallRec{Fn: fn, Name: name, Args: args, ArgTypes: argTypes, Recv: recv, Call: call, In: fr.fn, NCond: len(ex.path.Conds)}
	if ex.snap {
		rec.Store = map[string]c12Val{}
		for k, v := range ex.store {
			rec.Store[k] = v
		}
	}
	// sink: a write to the terminal / pty
	if ex.sink != nil {
		if ai, isFmt, _, ok := ex.sink(fr.pk, call, fn); ok && ai < len(args) {
			var s c12Str
			if isFmt {
				s = ex.sprintf(args[ai], args[ai+1:])
			} else {
				s = c12ToStr(args[ai])
			}
			ex.path.Writes = append(ex.path.Writes, c12Write{S: s, Call: call, In: fr.fn})
			ex.path.Calls = append(ex.path.Calls, rec)
			return ex.unknownResult(fr, call)
		}
	}
	if ex.writerNative && len(args) >= 2 && (name == "fmt.Fprintf" || name == "fmt.Fprint" || name == "io.WriteString") {
		// formatted output into a repository writer: its own Write (WriteString) method receives the bytes
		if m := ex.repoWriteMethod(fr.info.TypeOf(call.Args[0]), name == "io.WriteString"); m != nil && ex.depth < c12MaxDepth {
			var s c12Str
			switch name {
			case "fmt.Fprintf":
				s = ex.sprintf(args[1], args[2:])
			default:
				for _, a := range args[1:] {
					s = s.concat(c12ToStr(a))
				}
			}
			rec.Inlined = true
			ex.path.Calls = append(ex.path.Calls, rec)
			ex.callDecl(m, args[0], []c12Val{s})
			return c12Tuple{Vals: []c12Val{c12Sym{Hole: -1, Desc: "n"}, c12Nil{}}}
		}
	}
	// natives
	if b, ok := ex.rv(recv).(c12Builder); ok {
		switch fn.Name() {
		case "WriteString", "Write":
			if len(args) == 1 {
				*b.S = b.S.concat(c12ToStr(args[0]))
			}
			return c12Tuple{Vals: []c12Val{c12Sym{Hole: -1, Desc: "n"}, c12Nil{}}}
		case "WriteByte", "WriteRune":
			if len(args) == 1 {
				if i, ok := args[0].(c12Int); ok {
					*b.S = b.S.concat(c12Lit(string(rune(i.V))))
				} else {
					*b.S = b.S.concat(c12Str{Parts: []c12Part{{Sym: args[0]}}})
				}
			}
			return c12Nil{}
		case "String", "Bytes":
			return *b.S
		case "Len":
			if s, ok := b.S.literal(); ok {
				return c12Int{int64(len(s))}
			}
			return c12Sym{Hole: -1, Desc: "builder.Len()"}
		case "Reset":
			*b.S = c12Str{}
			return c12Nil{}
		}
	}
	switch name {
	case "fmt.Sprintf":
		if len(args) >= 1 {
			return ex.sprintf(args[0], args[1:])
		}
	case "strconv.Itoa":
		if len(args) == 1 {
			if i, ok := args[0].(c12Int); ok {
				return c12Lit(fmt.Sprint(i.V))
			}
		}
	case "strconv.AppendInt", "strconv.AppendUint", "strconv.FormatInt", "strconv.FormatUint", "fmt.Appendf", "fmt.Append", "fmt.Sprint":
		if v, ok := ex.strNative(name, args); ok {
			return v
		}
	case "sync/atomic.LoadInt32", "sync/atomic.LoadInt64", "sync/atomic.LoadUint32", "sync/atomic.LoadUint64":
		// the current value of the piece of state the pointer names, when it is known
		if len(args) == 1 {
			switch v := ex.rv(args[0]).(type) {
			case c12Int:
				return v
			}
		}
	case "fmt.Errorf":
		return c12Sym{Hole: -1, Desc: "error"}
	case "bytes.NewBuffer", "bytes.NewBufferString":
		b := c12Builder{S: &c12Str{}}
		if len(args) == 1 {
			if _, isNil := args[0].(c12Nil); !isNil {
				*b.S = c12ToStr(args[0])
			}
		}
		return b
	case "strings.HasPrefix", "strings.HasSuffix":
		if len(args) == 2 {
			s, ok1 := args[0].(c12Str)
			p, ok2 := args[1].(c12Str)
			if ok1 && ok2 {
				if lit, ok := p.literal(); ok {
					if r, known := c12HasAffix(s, lit, name == "strings.HasPrefix"); known {
						return c12Bool{r}
					}
				}
			}
		}
		return c12Sym{Hole: -1, Desc: canonExpr(fr.info, call)}
	case "strings.Index":
		if len(args) == 2 {
			s, ok1 := args[0].(c12Str)
			p, ok2 := args[1].(c12Str)
			if ok1 && ok2 {
				if sep, ok := p.literal(); ok && sep != "" {
					return c12Index(s, sep)
				}
			}
		}
		return c12Sym{Hole: -1, Desc: canonExpr(fr.info, call)}
	case "strings.Split":
		if len(args) == 2 {
			s, ok1 := args[0].(c12Str)
			p, ok2 := args[1].(c12Str)
			if ok1 && ok2 {
				ls, okA := s.literal()
				lp, okB := p.literal()
				if okA && okB {
					var out []c12Val
					for _, x := range strings.Split(ls, lp) {
						out = append(out, c12Lit(x))
					}
					return c12Slice{Elems: out}
				}
			}
		}
		return c12Sym{Hole: -1, Desc: canonExpr(fr.info, call)}
	}
	// repository callee
	if fi := ex.p.FuncOfObj(fn); fi != nil && ex.shouldInline(fi, args) {
		rec.Inlined = true
		ex.path.Calls = append(ex.path.Calls, rec)
		res := ex.callDecl(fi, recv, args)
		switch len(res) {
		case 0:
			return c12Nil{}
		case 1:
			return res[0]
		}
		return c12Tuple{Vals: res}
	}
	ex.path.Calls = append(ex.path.Calls, rec)
	if fi := ex.p.FuncOfObj(fn); fi != nil && fi.Pkg == ex.entryPkg && fi.Decl.Body != nil && ex.inlineIf == nil {
		for _, a := range args {
			if r, isRef := a.(c12Ref); isRef {
				ex.path.Unsupp = append(ex.path.Unsupp, fmt.Sprintf("%s receives a reference to %s but is too large to follow", fi.Name, r.Path))
			}
		}
	}
	sig := fn.Type().(*types.Signature)
	switch sig.Results().Len() {
	case 0:
		return c12Nil{}
	case 1:
		return c12App{Fn: fn, Name: name, Args: args}
	}
	vals := make([]c12Val, sig.Results().Len())
	for i := range vals {
		vals[i] = c12Sym{Hole: -1, Desc: fmt.Sprintf("%s#%d", name, i)}
	}
	return c12Tuple{Vals: vals}
}

// repoWriteMethod: the Write method (for io.WriteString: the WriteString method when there is one) that a value of
// static type t brings along, if it is declared in the repository.
func (ex *c12Exec) repoWriteMethod(t types.Type, preferString bool) *FuncInfo {
	if t == nil {
		return nil
	}
	names := []string{"Write"}
	if preferString {
		names = []string{"WriteString", "Write"}
	}
	for _, n := range names {
		obj, _, _ := types.LookupFieldOrMethod(t, true, nil, n)
		if fn, ok := obj.(*types.Func); ok {
			if fi := ex.p.FuncOfObj(fn); fi != nil && fi.Decl.Body != nil {
				return fi
			}
		}
	}
	return nil
}

func (ex *c12Exec) unknownResult(fr *c12Frame, call *ast.CallExpr) c12Val {
	if t, ok := fr.info.TypeOf(call).(*types.Tuple); ok && t.Len() > 1 {
		vals := make([]c12Val, t.Len())
		for i := range vals {
			vals[i] = c12Sym{Hole: -1, Desc: fmt.Sprintf("%s#%d", types.ExprString(call.Fun), i)}
		}
		return c12Tuple{Vals: vals}
	}
	return c12Sym{Hole: -1, Desc: canonExpr(fr.info, call)}
}

func (ex *c12Exec) convert(t types.Type, x c12Val) c12Val {
	switch u := t.Underlying().(type) {
	case *types.Basic:
		switch {
		case u.Info()&types.IsInteger != 0:
			if i, ok := x.(c12Int); ok {
				switch u.Kind() {
				case types.Uint8:
					return c12Int{i.V & 0xff}
				case types.Uint16:
					return c12Int{i.V & 0xffff}
				}
				return i
			}
			return x
		case u.Info()&types.IsString != 0:
			var s c12Str
			switch v := x.(type) {
			case c12Str:
				s = v
			case c12Slice:
				ok := true
				var sb strings.Builder
				for _, el := range v.Elems {
					i, isInt := el.(c12Int)
					if !isInt {
						ok = false
						break
					}
					sb.WriteRune(rune(i.V))
				}
				if !ok {
					return c12Sym{Hole: -1, Desc: "string(" + c12Show(x) + ")"}
				}
				s = c12Lit(sb.String())
			case c12Nil:
				s = c12Lit("")
			case c12Int:
				s = c12Lit(string(rune(v.V)))
			case c12Conv:
				return ex.convert(t, v.X)
			default:
				s = c12Str{Parts: []c12Part{{Sym: x}}}
			}
			if _, named := t.(*types.Named); named {
				return c12Conv{Typ: t, X: s}
			}
			return s
		}
		return x
	case *types.Slice:
		// []byte(s), []rune(s)
		if c, ok := x.(c12Conv); ok {
			x = c.X
		}
		if s, ok := x.(c12Str); ok {
			if _, named := t.(*types.Named); !named {
				return s
			}
		}
		if _, named := t.(*types.Named); named {
			return c12Conv{Typ: t, X: x}
		}
		return x
	}
	if _, named := t.(*types.Named); named {
		if s, ok := x.(*c12Struct); ok {
			return &c12Struct{Typ: t, Fields: s.Fields}
		}
		return c12Conv{Typ: t, X: x}
	}
	return x
}

func (ex *c12Exec) builtin(fr *c12Frame, name string, call *ast.CallExpr) c12Val {
	var args []c12Val
	for _, a := range call.Args {
		if name == "make" || name == "new" {
			break
		}
		args = append(args, ex.rv(ex.expr(fr, a)))
	}
	switch name {
	case "len", "cap":
		if len(args) == 1 {
			switch v := args[0].(type) {
			case c12Slice:
				if name == "len" {
					return c12Int{int64(len(v.Elems))}
				}
			case c12Nil:
				return c12Int{0}
			case c12Map:
				if name == "len" {
					return c12Int{int64(len(v.Keys))}
				}
			case *c12MutMap:
				if name == "len" && !v.Poisoned {
					return c12Int{int64(len(v.Keys))}
				}
			case c12Str:
				if s, ok := v.literal(); ok {
					return c12Int{int64(len(s))}
				}
			case c12Conv:
				if s, ok := v.X.(c12Str); ok {
					if l, ok := s.literal(); ok {
						return c12Int{int64(len(l))}
					}
				}
			case c12Load:
				return c12Sym{Hole: -1, Desc: name + "(" + v.Path + strings.Join(v.Sel, "") + ")"}
			case c12Sym:
				if r, isRef := ex.expr(fr, call.Args[0]).(c12Ref); isRef && v.Hole < 0 {
					return c12Sym{Hole: -1, Desc: name + "(" + r.Path + ")"}
				}
			}
		}
		return c12Sym{Hole: -1, Desc: canonExpr(fr.info, call)}
	case "append":
		if len(args) >= 1 && c12IsByteSlice(fr.info.TypeOf(call)) {
			// byte slices are modelled as strings: append(b, s...), append(b, 'x', ';')
			if v, ok := ex.appendBytes(args[0], args[1:], call.Ellipsis.IsValid()); ok {
				return v
			}
		}
		if len(args) >= 1 {
			var base []c12Val
			switch v := args[0].(type) {
			case c12Slice:
				base = append(base, v.Elems...)
			case c12Nil:
			default:
				return c12Sym{Hole: -1, Desc: canonExpr(fr.info, call)}
			}
			rest := args[1:]
			if call.Ellipsis.IsValid() && len(rest) == 1 {
				switch v := rest[0].(type) {
				case c12Slice:
					rest = v.Elems
				case c12Nil:
					rest = nil
				default:
					return c12Sym{Hole: -1, Desc: canonExpr(fr.info, call)}
				}
			}
			return c12Slice{Elems: append(base, rest...)}
		}
	case "make":
		if v, ok := ex.makeVal(fr, call); ok {
			return v
		}
		return c12Sym{Hole: -1, Desc: canonExpr(fr.info, call)}
	case "new":
		if t := fr.info.TypeOf(call.Args[0]); t != nil {
			return ex.zero(t)
		}
	case "delete":
		if len(args) == 2 {
			if m, ok := args[0].(*c12MutMap); ok {
				m.remove(args[1])
			}
		}
		return c12Nil{}
	case "copy", "close", "print", "println", "panic", "recover":
		return c12Nil{}
	}
	return c12Sym{Hole: -1, Desc: canonExpr(fr.info, call)}
}

func c12ToStr(v c12Val) c12Str {
	switch t := v.(type) {
	case c12Str:
		return t
	case c12Conv:
		return c12ToStr(t.X)
	case c12Slice:
		var sb strings.Builder
		for _, el := range t.Elems {
			i, ok := el.(c12Int)
			if !ok {
				return c12Str{Parts: []c12Part{{Sym: v}}}
			}
			sb.WriteByte(byte(i.V))
		}
		return c12Lit(sb.String())
	case c12Nil:
		return c12Lit("")
	}
	return c12Str{Parts: []c12Part{{Sym: v}}}
}

// sprintf substitutes evaluated arguments into a format; unknown arguments stay symbolic parts.
func (ex *c12Exec) sprintf(format c12Val, args []c12Val) c12Str {
	fs, ok := format.(c12Str)
	if !ok {
		return c12Str{Parts: []c12Part{{Sym: format}}}
	}
	f, ok := fs.literal()
	if !ok {
		return fs
	}
	var out c12Str
	lit := func(s string) { out = out.concat(c12Lit(s)) }
	ai := 0
	for i := 0; i < len(f); i++ {
		ch := f[i]
		if ch != '%' {
			lit(string(ch))
			continue
		}
		if i+1 < len(f) && f[i+1] == '%' {
			lit("%")
			i++
			continue
		}
		j := i + 1
		for j < len(f) && strings.ContainsRune("+-# 0123456789.", rune(f[j])) {
			j++
		}
		if j >= len(f) {
			lit(f[i:])
			break
		}
		verb := f[j]
		spec := f[i : j+1]
		var a c12Val = c12Sym{Hole: -1, Desc: "missing arg"}
		if ai < len(args) {
			a = args[ai]
		}
		ai++
		done := false
		switch x := a.(type) {
		case c12Int:
			if verb == 'd' || verb == 'v' || verb == 'x' || verb == 'X' || verb == 'c' {
				lit(fmt.Sprintf(spec, x.V))
				done = true
			}
		case c12Str:
			if s, ok := x.literal(); ok && (verb == 's' || verb == 'v' || verb == 'X' || verb == 'x' || verb == 'q') {
				lit(fmt.Sprintf(spec, s))
				done = true
			} else if verb == 's' || verb == 'v' {
				out = out.concat(x)
				done = true
			}
		case c12Conv:
			if s, ok := x.X.(c12Str); ok && (verb == 's' || verb == 'v') {
				out = out.concat(s)
				done = true
			}
		}
		if !done {
			out = out.concat(c12Str{Parts: []c12Part{{Sym: a}}})
		}
		i = j
	}
	return out.norm()
}

func c12HasAffix(s c12Str, lit string, prefix bool) (res, known bool) {
	n := s.norm()
	if len(n.Parts) == 0 {
		return lit == "", true
	}
	if prefix {
		p := n.Parts[0]
		if p.Sym != nil {
			return false, false
		}
		if len(p.Lit) >= len(lit) {
			return strings.HasPrefix(p.Lit, lit), true
		}
		if !strings.HasPrefix(lit, p.Lit) {
			return false, true
		}
		return false, len(n.Parts) == 1
	}
	p := n.Parts[len(n.Parts)-1]
	if p.Sym != nil {
		return false, false
	}
	if len(p.Lit) >= len(lit) {
		return strings.HasSuffix(p.Lit, lit), true
	}
	if !strings.HasSuffix(lit, p.Lit) {
		return false, true
	}
	return false, len(n.Parts) == 1
}

// c12Index finds the first occurrence of sep in a literal part, assuming symbolic parts do not contain sep.
func c12Index(s c12Str, sep string) c12Val {
	n := s.norm()
	off := 0
	allLit := true
	for i, p := range n.Parts {
		if p.Sym != nil {
			allLit = false
			continue
		}
		if k := strings.Index(p.Lit, sep); k >= 0 {
			if allLit {
				return c12Int{int64(off + k)}
			}
			return c12Pos{Part: i, Off: k}
		}
		off += len(p.Lit)
	}
	if allLit {
		return c12Int{-1}
	}
	return c12Sym{Hole: -1, Desc: "strings.Index(" + c12Show(s) + ")"}
}
