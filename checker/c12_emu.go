package main

// C12.c — the start-up dialogue: every query Vaxis sends is fed (symbolically)
// to the emulator's update(); every reply the emulator writes is fed to
// Vaxis's handleSequence(); the capability events posted establish EMU, the
// capability set the emulator advertises.

import (
	"fmt"
	"go/ast"
	"go/token"
	"go/types"
	"sort"
	"strings"
)

type c12Cap struct {
	status string // "true" | "maybe"
	why    string
}

// template renders a symbolic string as a template with %d/%s holes and returns the symbolic parts.
func c12Template(s c12Str) (string, []c12Val) {
	var sb strings.Builder
	var syms []c12Val
	for _, p := range s.norm().Parts {
		if p.Sym != nil {
			sb.WriteString("%d")
			syms = append(syms, p.Sym)
			continue
		}
		sb.WriteString(strings.ReplaceAll(p.Lit, "%", "%%"))
	}
	return sb.String(), syms
}

// eventCaps: New's type switch over the start-up events: event type -> capability flags set to true.
func (st *c12State) eventCaps() map[string][]string {
	out := map[string][]string{}
	nw := st.c.P.Func("vaxis.New")
	if nw == nil {
		return out
	}
	// the switch may stand in New itself or in a helper of the package that New hands the received event to
	// (the switch operand is then a parameter of the helper); helpers are followed two levels deep
	visited := map[*FuncInfo]bool{}
	var scan func(fi *FuncInfo, depth int)
	scan = func(fi *FuncInfo, depth int) {
		if fi == nil || fi.Decl.Body == nil || visited[fi] {
			return
		}
		visited[fi] = true
		info := fi.Pkg.TypesInfo
		params := map[types.Object]bool{}
		for _, f := range fi.Decl.Type.Params.List {
			for _, n := range f.Names {
				params[info.Defs[n]] = true
			}
		}
		ast.Inspect(fi.Decl.Body, func(n ast.Node) bool {
			if call, ok := n.(*ast.CallExpr); ok && depth < 2 {
				if fn := calleeOf(info, call); fn != nil {
					if cf := st.c.P.FuncOfObj(fn); cf != nil && cf.Pkg == nw.Pkg {
						scan(cf, depth+1)
					}
				}
				return true
			}
			ts, ok := n.(*ast.TypeSwitchStmt)
			if !ok {
				return true
			}
			if depth > 0 {
				var operand ast.Expr
				switch a := ts.Assign.(type) {
				case *ast.AssignStmt:
					if ta, ok := unparen(a.Rhs[0]).(*ast.TypeAssertExpr); ok {
						operand = ta.X
					}
				case *ast.ExprStmt:
					if ta, ok := unparen(a.X).(*ast.TypeAssertExpr); ok {
						operand = ta.X
					}
				}
				id, isId := unparen(operand).(*ast.Ident)
				if !isId || !params[info.ObjectOf(id)] {
					return true
				}
			}
			for _, cl := range ts.Body.List {
				cc := cl.(*ast.CaseClause)
				var flags []string
				for _, s := range cc.Body {
					flags = append(flags, st.capFlagsSet(fi, s, 0)...)
				}
				for _, e := range cc.List {
					if t := info.TypeOf(e); t != nil {
						out[typeName(t)] = append(out[typeName(t)], flags...)
					}
				}
			}
			return true
		})
	}
	scan(nw, 0)
	return out
}

// capFlagsSet: the capability flags (Vaxis.caps.F) that a statement sets to the constant true: by a direct
// assignment, or through a call of a local closure or a package function that does so — either on the flag
// itself or through a pointer parameter that the call binds to &vx.caps.F (`setCap(&vx.caps.rgb)`).
func (st *c12State) capFlagsSet(fi *FuncInfo, n ast.Node, depth int) []string {
	info := fi.Pkg.TypesInfo
	var flags []string
	isTrue := func(e ast.Expr) bool {
		tv := info.Types[e]
		return tv.Value != nil && tv.Value.String() == "true"
	}
	ast.Inspect(n, func(m ast.Node) bool {
		switch t := m.(type) {
		case *ast.FuncLit:
			return false // only executed if called: handled at the call
		case *ast.AssignStmt:
			if len(t.Lhs) == 1 && len(t.Rhs) == 1 && isTrue(t.Rhs[0]) {
				if p := canonPath(info, t.Lhs[0]); strings.HasPrefix(p, "Vaxis.caps.") {
					flags = append(flags, strings.TrimPrefix(p, "Vaxis.caps."))
				}
			}
		case *ast.CallExpr:
			if depth >= 2 {
				return true
			}
			// the callee: a single-definition local closure, or a function of the package
			var body *ast.BlockStmt
			var ftype *ast.FuncType
			cfi := fi
			if id, ok := unparen(t.Fun).(*ast.Ident); ok {
				if obj, isVar := info.ObjectOf(id).(*types.Var); isVar && !c12AssignedElsewhere(fi, obj) {
					if lit, ok := unparen(c12LocalInit(fi, obj)).(*ast.FuncLit); ok {
						body, ftype = lit.Body, lit.Type
					}
				}
			}
			if body == nil {
				if fn := calleeOf(info, t); fn != nil {
					if cf := st.c.P.FuncOfObj(fn); cf != nil && cf.Pkg == fi.Pkg && cf.Decl.Body != nil {
						body, ftype, cfi = cf.Decl.Body, cf.Decl.Type, cf
					}
				}
			}
			if body == nil {
				return true
			}
			// flags the callee sets itself (closure over vx, method of Vaxis)
			flags = append(flags, st.capFlagsSet(cfi, body, depth+1)...)
			// flags set through a pointer parameter
			i := 0
			for _, f := range ftype.Params.List {
				for _, nm := range f.Names {
					po := info.Defs[nm]
					if i < len(t.Args) && po != nil && c12StoresTrueThrough(info, body, po) {
						if u, ok := unparen(t.Args[i]).(*ast.UnaryExpr); ok && u.Op == token.AND {
							if p := canonPath(info, u.X); strings.HasPrefix(p, "Vaxis.caps.") {
								flags = append(flags, strings.TrimPrefix(p, "Vaxis.caps."))
							}
						}
					}
					i++
				}
			}
		}
		return true
	})
	return flags
}

// c12StoresTrueThrough: the body assigns the constant true through the pointer parameter p (`*p = true`), and p is
// not re-pointed before.
func c12StoresTrueThrough(info *types.Info, body *ast.BlockStmt, p types.Object) bool {
	stores, repointed := false, false
	ast.Inspect(body, func(n ast.Node) bool {
		as, ok := n.(*ast.AssignStmt)
		if !ok {
			return true
		}
		for i, l := range as.Lhs {
			if id, ok := unparen(l).(*ast.Ident); ok && info.ObjectOf(id) == p {
				repointed = true
			}
			if star, ok := unparen(l).(*ast.StarExpr); ok && len(as.Lhs) == len(as.Rhs) && as.Tok == token.ASSIGN {
				if id, ok := unparen(star.X).(*ast.Ident); ok && info.ObjectOf(id) == p {
					if tv := info.Types[as.Rhs[i]]; tv.Value != nil && tv.Value.String() == "true" {
						stores = true
					}
				}
			}
		}
		return true
	})
	return stores && !repointed
}

// c12LocalInit: the initialiser of a local variable that is defined exactly once (`x := e`, `var x = e`) and never
// assigned again; nil otherwise.
func c12LocalInit(fi *FuncInfo, obj types.Object) ast.Expr {
	info := fi.Pkg.TypesInfo
	var inits []ast.Expr
	writes := 0
	ast.Inspect(fi.Decl.Body, func(n ast.Node) bool {
		switch t := n.(type) {
		case *ast.AssignStmt:
			for i, l := range t.Lhs {
				if id, ok := l.(*ast.Ident); ok && info.ObjectOf(id) == obj {
					writes++
					if len(t.Lhs) == len(t.Rhs) && (t.Tok == token.DEFINE || t.Tok == token.ASSIGN) {
						inits = append(inits, t.Rhs[i])
					}
				}
			}
		case *ast.ValueSpec:
			for i, nm := range t.Names {
				if info.Defs[nm] == obj {
					writes++
					if i < len(t.Values) && len(t.Values) == len(t.Names) {
						inits = append(inits, t.Values[i])
					}
				}
			}
		case *ast.IncDecStmt:
			if id, ok := unparen(t.X).(*ast.Ident); ok && info.ObjectOf(id) == obj {
				writes++
			}
		}
		return true
	})
	if writes == 1 && len(inits) == 1 {
		return inits[0]
	}
	return nil
}

// postFuncs: functions of package vaxis that send one of their parameters on Vaxis.queue.
func (st *c12State) postFuncs() map[*types.Func]bool {
	out := map[*types.Func]bool{}
	for _, fi := range st.c.P.FuncsIn("vaxis") {
		if fi.Decl.Body == nil {
			continue
		}
		info := fi.Pkg.TypesInfo
		ast.Inspect(fi.Decl.Body, func(n ast.Node) bool {
			if s, ok := n.(*ast.SendStmt); ok && canonPath(info, s.Chan) == "Vaxis.queue" {
				if id, ok := unparen(s.Value).(*ast.Ident); ok {
					sig := fi.Obj.Type().(*types.Signature)
					for i := 0; i < sig.Params().Len(); i++ {
						if sig.Params().At(i) == info.ObjectOf(id) {
							out[fi.Obj] = true
						}
					}
				}
			}
			return true
		})
	}
	return out
}

type c12Reply struct {
	tmpl  string
	syms  []c12Val
	conds string
	call  *ast.CallExpr
}

// feedEmulator runs update() on one sequence and returns the paths.
func (st *c12State) feedEmulator(s Seq, firstHole int, subst map[int]int64) ([]*c12Path, bool, error) {
	v, err := st.lang.value(s, firstHole, subst)
	if err != nil {
		return nil, false, err
	}
	paths, complete := c12Run(st.c.P, st.update, termPtySink, nil, v)
	return paths, complete, nil
}

func c12Complaints(p *c12Path) []string {
	var out []string
	for _, cl := range p.Calls {
		if cl.Name == modPath+"/log.Error" {
			msg := ""
			if len(cl.Args) > 0 {
				msg = c12Show(cl.Args[0])
			}
			out = append(out, "logs error "+msg)
		}
	}
	out = append(out, p.Panics...)
	return out
}

// events posted along a handleSequence path: event type name list.
func (st *c12State) postedEvents(p *c12Path, posts map[*types.Func]bool) []string {
	var out []string
	for _, cl := range p.Calls {
		if cl.Fn != nil && posts[cl.Fn] && len(cl.ArgTypes) == 1 {
			// the dynamic type of the value posted (an event may travel through an interface-typed local)
			t := cl.ArgTypes[0]
			if len(cl.Args) == 1 {
				switch v := cl.Args[0].(type) {
				case *c12Struct:
					t = v.Typ
				case c12Conv:
					t = v.Typ
				}
			}
			out = append(out, typeName(t))
		}
	}
	return out
}

func (st *c12State) computeEMU() map[string]c12Cap {
	c := st.c
	if st.seen == nil {
		st.seen = map[string]bool{}
	}
	caps := map[string]c12Cap{}
	evCaps := st.eventCaps()
	posts := st.postFuncs()
	if len(evCaps) < 10 || len(posts) == 0 {
		c.undecided("C12.c", "vaxis.New/start-up event table", 0, "could not extract the event→capability table of New (%d entries) or the event-posting functions (%d)", len(evCaps), len(posts))
		return caps
	}
	sq := c.P.Func("vaxis.(*Vaxis).sendQueries")
	if sq == nil {
		c.undecided("C12.c", "vaxis.(*Vaxis).sendQueries", 0, "not found")
		return caps
	}
	// functions whose writes belong to the probe phase: sendQueries and the query helpers it calls directly
	probeFns := map[string]bool{sq.Name: true}
	ast.Inspect(sq.Decl.Body, func(n ast.Node) bool {
		if call, ok := n.(*ast.CallExpr); ok {
			if fn := calleeOf(sq.Pkg.TypesInfo, call); fn != nil {
				if fi := c.P.FuncOfObj(fn); fi != nil && fi.Pkg == sq.Pkg && fi.Decl.Recv != nil && anchorType(fi.Pkg.TypesInfo.TypeOf(fi.Decl.Recv.List[0].Type)) == "Vaxis" {
					probeFns[fi.Name] = true
				}
			}
		}
		return true
	})
	st.probeFns = probeFns
	raise := func(flag, status, why string) {
		cur, ok := caps[flag]
		if !ok || (cur.status == "maybe" && status == "true") {
			caps[flag] = c12Cap{status, why}
		}
	}
	nq := 0
	seenQ := map[string]bool{}
	for _, e := range st.ems {
		if !probeFns[e.FnName] || !e.Resolved {
			continue
		}
		for _, t := range e.Templates {
			hole := 0
			for _, s := range parseSeqs(t) {
				h0 := hole
				hole += c12CountHoles(s.Raw)
				if s.Kind == "TEXT" || s.Kind == "C0" || seenQ[s.Raw] {
					continue
				}
				seenQ[s.Raw] = true
				nq++
				key := fmt.Sprintf("%s/start-up sequence %q", e.FnName, s.Raw)
				paths, complete, err := st.feedEmulator(s, h0, nil)
				if err != nil {
					c.undecided("C12.c", key, e.Call.Pos(), "query cannot be modelled: %v", err)
					continue
				}
				if !complete {
					c.undecided("C12.c", key, e.Call.Pos(), "path budget exceeded while feeding the query to the emulator")
					continue
				}
				var notes, bads, unsup []string
				replyPaths := 0
				evAll := map[string]int{} // event -> number of emulator paths on which it is certainly posted
				evSome := map[string]bool{}
				for _, p := range paths {
					unsup = append(unsup, p.Unsupp...)
					for _, x := range c12Complaints(p) {
						bads = append(bads, "emulator "+x)
					}
					if len(p.Writes) == 0 {
						continue
					}
					replyPaths++
					if s.Kind == "CSI" && s.Final == "c" && s.Private == "" && s.Params == "" {
						st.seen["reply to the primary device attributes query"] = true
					}
					certain := map[string]bool{}
					for _, w := range p.Writes {
						tmpl, syms := c12Template(w.S)
						st.replies = append(st.replies, c12Reply{tmpl, syms, p.condString(), w.Call})
						notes = append(notes, fmt.Sprintf("reply %q", tmpl))
						rh := 0
						for _, rs := range parseSeqs(tmpl) {
							r0 := rh
							rh += c12CountHoles(rs.Raw)
							if rs.Kind == "TEXT" || rs.Kind == "C0" {
								continue
							}
							if rs.Inter == "UNTERMINATED" {
								bads = append(bads, fmt.Sprintf("reply %q is not terminated", rs.Raw))
								continue
							}
							rv, err := st.lang.value(rs, r0, nil)
							if err != nil {
								unsup = append(unsup, fmt.Sprintf("reply %q: %v", rs.Raw, err))
								continue
							}
							hp, hcomplete := c12Run(c.P, st.handle, nil, nil, rv)
							if !hcomplete {
								unsup = append(unsup, fmt.Sprintf("path budget exceeded in handleSequence on %q", rs.Raw))
							}
							cnt := map[string]int{}
							for _, q := range hp {
								unsup = append(unsup, q.Unsupp...)
								for _, x := range c12Complaints(q) {
									bads = append(bads, fmt.Sprintf("Vaxis rejects the emulator's reply %q: %s", rs.Raw, x))
								}
								seen := map[string]bool{}
								for _, ev := range st.postedEvents(q, posts) {
									if _, isCap := evCaps[ev]; isCap && !seen[ev] {
										seen[ev] = true
										cnt[ev]++
									}
								}
							}
							for ev, n := range cnt {
								evSome[ev] = true
								if n == len(hp) {
									certain[ev] = true
								}
							}
						}
					}
					for ev := range certain {
						evAll[ev]++
					}
				}
				var evs []string
				for ev := range evSome {
					evs = append(evs, ev)
				}
				sort.Strings(evs)
				for _, ev := range evs {
					status := "maybe"
					if evAll[ev] == len(paths) {
						status = "true"
					}
					for _, f := range evCaps[ev] {
						raise(f, status, fmt.Sprintf("query %q → %s → event %s", s.Raw, strings.Join(c12Dedup(notes), ", "), ev))
					}
					notes = append(notes, fmt.Sprintf("event %s (%s)", ev, status))
				}
				switch {
				case len(bads) > 0:
					c.bad("C12.c", key, e.Call.Pos(), "%s", strings.Join(c12Dedup(bads), "; "))
				case len(unsup) > 0:
					c.undecided("C12.c", key, e.Call.Pos(), "dialogue not understood: %s", strings.Join(c12Dedup(unsup), "; "))
				case replyPaths == 0:
					c.okTrivial("C12.c", key, e.Call.Pos(), "the emulator does not answer; no capability follows")
				default:
					c.ok("C12.c", key, e.Call.Pos(), "%s", strings.Join(c12Dedup(notes), "; "))
				}
			}
		}
	}
	if nq == 0 {
		c.undecided("C12.c", "vaxis.(*Vaxis).sendQueries/queries", sq.Decl.Pos(), "no start-up query found")
	}
	// capability events posted by sendQueries itself (environment: COLORTERM)
	g := c.P.Graph(sq)
	for _, h := range g.Calls(func(fn *types.Func, _ *ast.CallExpr) bool { return fn != nil && posts[fn] }) {
		call := h.Node.(*ast.CallExpr)
		if len(call.Args) != 1 {
			continue
		}
		ev := typeName(sq.Pkg.TypesInfo.TypeOf(call.Args[0]))
		gk := guardKeys(g, h.Loc)
		status := "maybe"
		if len(gk) == 0 {
			status = "true"
		}
		for _, f := range evCaps[ev] {
			raise(f, status, fmt.Sprintf("posted by sendQueries under %v (environment of the child process)", gk))
		}
	}
	// capability flags assigned directly in sendQueries (explicit-width probe)
	st.directProbeFlags(sq, raise)
	return caps
}

func c12Dedup(a []string) []string {
	seen := map[string]bool{}
	var out []string
	for _, x := range a {
		if !seen[x] {
			seen[x] = true
			out = append(out, x)
		}
	}
	return out
}

// directProbeFlags: `vx.caps.F = true` inside sendQueries under a test of the reported cursor column.
// The probe prints a sequence and asks where the cursor is; the flag can only be established if the
// emulator moves the cursor for that sequence.
func (st *c12State) directProbeFlags(sq *FuncInfo, raise func(flag, status, why string)) {
	c := st.c
	info := sq.Pkg.TypesInfo
	g := c.P.Graph(sq)
	for _, h := range g.Find(func(n ast.Node) bool {
		as, ok := n.(*ast.AssignStmt)
		return ok && len(as.Lhs) == 1 && strings.HasPrefix(canonPath(info, as.Lhs[0]), "Vaxis.caps.")
	}) {
		as := h.Node.(*ast.AssignStmt)
		flag := strings.TrimPrefix(canonPath(info, as.Lhs[0]), "Vaxis.caps.")
		key := fmt.Sprintf("%s/caps.%s set by a cursor-position probe", sq.Name, flag)
		// probe sequences: OSC/APC/DCS emissions of sendQueries that are neither answered nor queries ending in '?'
		moved, found := false, false
		var probeRaw string
		for _, e := range st.ems {
			if e.FnName != sq.Name || !e.Resolved || e.Call.Pos() > as.Pos() {
				continue
			}
			for _, t := range e.Templates {
				hole := 0
				for _, s := range parseSeqs(t) {
					h0 := hole
					hole += c12CountHoles(s.Raw)
					if s.Kind != "OSC" || strings.Contains(s.Data, "?") {
						continue
					}
					paths, _, err := st.feedEmulator(s, h0, nil)
					if err != nil {
						continue
					}
					found = true
					probeRaw = s.Raw
					for _, p := range paths {
						for _, ef := range p.Effects {
							if strings.HasPrefix(ef.Path, "Model.cursor.") {
								moved = true
							}
						}
					}
				}
			}
		}
		switch {
		case !found:
			raise(flag, "maybe", "set directly by sendQueries; probe not recognised")
			c.undecided("C12.c", key, as.Pos(), "the probe sequence preceding the assignment was not recognised")
		case moved:
			raise(flag, "maybe", fmt.Sprintf("probe %q moves the emulator's cursor", probeRaw))
			c.ok("C12.c", key, as.Pos(), "probe %q has an effect on the emulator's cursor: the flag may be established", probeRaw)
		default:
			c.ok("C12.c", key, as.Pos(), "probe %q is ignored by the emulator (cursor does not move), so the reported column cannot satisfy %v: caps.%s stays false", probeRaw, guardKeys(g, h.Loc), flag)
		}
	}
}
