package main

// C10.n — a wait under a mutex whose every sender needs that mutex.
//
// The property: "goroutines may ... request resizes and issue terminal queries while the main goroutine draws and
// renders, without ... lost events or deadlock". C10.b forbids UNBOUNDED blocking while a mutex is held and accepts
// a wait that a timer bounds. A bounded wait is still a defect when it can only end by its deadline: the waiter
// holds mutex M while it waits for a signal on channel C, and every goroutine that could give the signal must
// acquire M before it does. Waiter and signaller wait for each other until the timer fires; the answer (a
// terminal's size report) is then dropped as late, i.e. the request is lost on every attempt.
//
// Structural necessary condition (on the lockset engine of C10.a-g):
//
//   * a WAIT is a receive on a channel field of a repository struct that is not made non-blocking by a default
//     arm (a timer or context arm next to it does not matter), also `range` over the channel;
//   * all operations on the channel are known: the field is unexported and is only used as the operand of
//     send / receive / close / len / cap / range, assigned (make), compared, or copied into a single-definition
//     local alias (which the engine resolves back to the field). Otherwise the rule says nothing for it;
//   * a SIGNAL is a send on the channel or a close of it. A signal NEEDS M when M is held at it (must-held locally
//     or in every calling configuration), or when on every path that leads to it — within its function from the
//     entry, and if the entry is reachable without, on every path to every call of the function, up the static
//     call graph — M is acquired (a Lock of M, or a call of a function that acquires M on every path to its
//     return), and there is no cycle through the signal that avoids the acquisition (a loop that can signal twice
//     with one acquisition before the loop);
//   * violated: M is held at the wait (may-held locally, or held in a calling configuration; same lockset as
//     C10.b) and the channel has at least one signal and EVERY signal needs M.
//
// Helper extraction on either side (the wait in a helper called under the mutex; the Lock or the send in a helper
// of the handler) is followed through the call graph; the key names channel and mutex only.

import (
	"fmt"
	"go/ast"
	"go/token"
	"go/types"
	"sort"
	"strings"

	"golang.org/x/tools/go/cfg"
)

func init() { registerExtra("C10", c10WaitUnderSendersMutex) }

type c10nRule struct {
	e       *c10Eng
	always  map[string]map[*c10Fn]int // mutex -> function -> 0 unknown 1 in progress 2 yes 3 no
	callers map[*c10Fn][]*c10Site
	roots   map[*c10Fn]bool // goroutine / timer targets: reachable without any caller's locks
}

func c10WaitUnderSendersMutex(c *Ctx) {
	c.Clauses = append(c.Clauses, "C10.n wait-for under a mutex: no receive that waits (even bounded by a timer) on a channel field is performed while a mutex is held that every sender/closer of that channel must acquire before it signals (the wait could only end by its deadline: lost reply)")
	c.expect("C10.n", 5)
	e := c10EngCache
	if e == nil || e.p != c.P {
		e = c10Build(c)
	}
	r := &c10nRule{e: e, always: map[string]map[*c10Fn]int{}, callers: map[*c10Fn][]*c10Site{}, roots: map[*c10Fn]bool{}}
	for _, f := range e.fns {
		for _, s := range f.sites {
			if s.kind == "call" && !s.deferred {
				for _, t := range s.targets {
					r.callers[t] = append(r.callers[t], s)
				}
			}
			if s.kind == "call" && s.deferred {
				for _, t := range s.targets {
					r.roots[t] = true // runs at the caller's return: no ordering with the caller's Lock sites is derived
				}
			}
			if s.kind == "spawn" && s.spawnFn != nil {
				r.roots[s.spawnFn] = true
			}
		}
	}
	closedWorld := map[string]bool{}
	known := func(ch string) bool {
		v, ok := closedWorld[ch]
		if !ok {
			v = r.allUsesKnown(ch)
			closedWorld[ch] = v
		}
		return v
	}
	signals := map[string][]*c10Site{}
	for _, f := range e.fns {
		for _, s := range f.sites {
			if (s.kind == "send" || s.kind == "close") && s.chKind == "field" {
				signals[s.ch] = append(signals[s.ch], s)
			}
		}
	}
	agg := newC10Agg("C10.n")
	for _, f := range e.fns {
		for _, s := range f.sites {
			if s.kind != "recv" || s.block == "nonblocking" || s.chKind != "field" {
				continue
			}
			sigs := signals[s.ch]
			if len(sigs) == 0 || !known(s.ch) {
				continue
			}
			held := s.st.may
			for _, cfg := range f.cfgList[1] {
				held |= e.heldAt(s, cfg, 1)
			}
			held = e.realMutexes(held)
			key := "wait on " + s.ch
			agg.add(key, s.node.Pos(), false, fmt.Sprintf("no mutex held at the wait that every one of the %d signal(s) on the channel needs", len(sigs)))
			for _, m := range e.mux.list(held) {
				all := true
				var where []string
				for _, sg := range sigs {
					if !r.signalNeeds(sg, m) {
						all = false
						break
					}
					where = append(where, sg.fn.key)
				}
				if all {
					sort.Strings(where)
					agg.add(key+" under "+m+", which every signaller needs", s.node.Pos(), true,
						fmt.Sprintf("%s (in %s, %s) while %s is held, and every send/close on that channel (%s) is preceded on every path by an acquisition of %s: the signaller waits for the mutex, the waiter for the signal; the wait can only end by its deadline and the reply is lost", s.desc, f.key, s.block, m, strings.Join(c10nUniq(where), ", "), m))
				}
			}
		}
	}
	agg.flush(c)
}

func c10nUniq(in []string) []string {
	var out []string
	for i, s := range in {
		if i == 0 || s != in[i-1] {
			out = append(out, s)
		}
	}
	return out
}

// allUsesKnown: the channel field is unexported and every mention of it is an operation the engine classifies.
func (r *c10nRule) allUsesKnown(ch string) bool {
	e := r.e
	last := ch
	if i := strings.LastIndex(ch, "."); i >= 0 {
		last = ch[i+1:]
	}
	if last == "" || ast.IsExported(last) {
		return false
	}
	ok := true
	for _, f := range e.fns {
		if f.lit != nil || f.body == nil || !ok {
			continue
		}
		par := e.p.Parents(f.pkg)
		info := f.info
		ast.Inspect(f.body, func(n ast.Node) bool {
			sel, isSel := n.(*ast.SelectorExpr)
			if !isSel || !ok || sel.Sel.Name != last {
				return ok
			}
			if !c10IsChan(info.TypeOf(sel)) {
				return true
			}
			root, names, _, is := c10SelPath(info, sel)
			if !is || c10PathString(root, names) != ch {
				return true
			}
			var cur ast.Node = sel
			p := par[cur]
			for {
				if pe, isP := p.(*ast.ParenExpr); isP {
					cur, p = pe, par[pe]
					continue
				}
				break
			}
			switch t := p.(type) {
			case *ast.SendStmt:
				if t.Chan != cur {
					ok = false
				}
			case *ast.UnaryExpr:
				if t.Op != token.ARROW {
					ok = false
				}
			case *ast.RangeStmt:
				if t.X != cur {
					ok = false
				}
			case *ast.BinaryExpr:
				if t.Op != token.EQL && t.Op != token.NEQ {
					ok = false
				}
			case *ast.CallExpr:
				id, isID := unparen(t.Fun).(*ast.Ident)
				if !isID {
					ok = false
					break
				}
				if b, isB := info.Uses[id].(*types.Builtin); !isB || (b.Name() != "close" && b.Name() != "len" && b.Name() != "cap") {
					ok = false
				}
			case *ast.AssignStmt:
				isLhs := false
				for _, l := range t.Lhs {
					if l == cur {
						isLhs = true
					}
				}
				if isLhs {
					break
				}
				// copy into a single-definition local alias
				okAlias := false
				if len(t.Lhs) == len(t.Rhs) {
					for i, rh := range t.Rhs {
						if rh != cur {
							continue
						}
						if id, isID := t.Lhs[i].(*ast.Ident); isID && localAliasOf(info, id) != nil {
							okAlias = true
						}
					}
				}
				if !okAlias {
					ok = false
				}
			case *ast.ValueSpec:
				okAlias := false
				if len(t.Names) == len(t.Values) {
					for i, v := range t.Values {
						if v == cur && localAliasOf(info, t.Names[i]) != nil {
							okAlias = true
						}
					}
				}
				if !okAlias {
					ok = false
				}
			default:
				ok = false
			}
			return ok
		})
	}
	return ok
}

// lockNodes: the AST nodes of f that acquire m: Lock sites of m and calls whose every static target acquires m on
// every path to its return.
func (r *c10nRule) lockNodes(f *c10Fn, m string) map[ast.Node]bool {
	out := map[ast.Node]bool{}
	for _, s := range f.sites {
		if s.deferred {
			continue
		}
		switch s.kind {
		case "lock":
			if s.mutex == m {
				out[s.node] = true
			}
		case "call":
			if len(s.targets) == 0 || s.ext != "" {
				continue
			}
			all := true
			for _, t := range s.targets {
				if !r.alwaysAcquires(t, m) {
					all = false
					break
				}
			}
			if all {
				out[s.node] = true
			}
		}
	}
	return out
}

func (r *c10nRule) alwaysAcquires(f *c10Fn, m string) bool {
	if f == nil || f.g == nil || len(f.g.Blocks) == 0 {
		return false
	}
	tab := r.always[m]
	if tab == nil {
		tab = map[*c10Fn]int{}
		r.always[m] = tab
	}
	switch tab[f] {
	case 1, 3:
		return false
	case 2:
		return true
	}
	tab[f] = 1
	locks := r.lockNodes(f, m)
	res := false
	if len(locks) > 0 {
		isLock := func(n ast.Node) bool { return locks[n] }
		exitReached := false
		f.g.walk(f.g.Entry(), func(l Loc, n ast.Node) bool {
			return !containsNode(n, isLock)
		}, func(_ *cfg.Block) { exitReached = true })
		res = !exitReached
	}
	if res {
		tab[f] = 2
	} else {
		tab[f] = 3
	}
	return res
}

// signalNeeds: must the goroutine acquire m before it can perform the signal sg (each time)?
func (r *c10nRule) signalNeeds(sg *c10Site, m string) bool {
	e := r.e
	f := sg.fn
	b := e.mux.bit(m)
	if sg.st.must&b != 0 {
		return true
	}
	if len(f.cfgList[0]) > 0 {
		all := true
		for _, cfg := range f.cfgList[0] {
			if e.heldAt(sg, cfg, 0)&b == 0 {
				all = false
				break
			}
		}
		if all {
			return true
		}
	}
	return r.acquiredBefore(f, sg.loc, m, 0, map[*c10Fn]bool{})
}

func (r *c10nRule) acquiredBefore(f *c10Fn, at Loc, m string, depth int, onStack map[*c10Fn]bool) bool {
	if f == nil || f.g == nil || depth > 5 || onStack[f] {
		return false
	}
	locks := r.lockNodes(f, m)
	isLock := func(n ast.Node) bool { return locks[n] }
	// a cycle through the operation that avoids the acquisition: the second signal needs no new acquisition
	if f.g.ReachesAvoiding(at, at, isLock) {
		return false
	}
	if len(locks) > 0 && f.g.MustPrecede(isLock, at) {
		return true
	}
	// the entry reaches the operation without: every call of f must be preceded by an acquisition
	cs := r.callers[f]
	if len(cs) == 0 || r.roots[f] {
		return false
	}
	if f.lit == nil && f.fi != nil && ast.IsExported(f.fi.Decl.Name.Name) && !strings.Contains(f.name, "internal/") {
		return false // callable by the application
	}
	onStack[f] = true
	defer delete(onStack, f)
	for _, c := range cs {
		if !r.acquiredBefore(c.fn, c.loc, m, depth+1, onStack) {
			return false
		}
	}
	return true
}
