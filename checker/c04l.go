package main

// C04.l — a mode that is set WITHOUT the guard of its reset stays paired only through the record of the reply.
//
// C04.a pairs a setter with a restoring sequence when the restorer's guards are implied by the setter's guards.
// Two setters are not paired that way: the probe enables in-band resize (mode 2048) blindly, and SetAppID writes
// the application ID unguarded; their restorers in disableModes run only under a capability flag
// (caps.inBandResize, caps.osc176). C04.a excuses the excess guard because a terminal that honours the setter also
// answers the feature's report, and the handler of that report records the flag. That argument needs the flag to
// be a faithful record of "the terminal took the setter" from the blind set until the exit path:
//
//   for every setter S whose class has no restorer under guards that S's own guards imply, and for the restorer R
//   with the excess guard atoms ±F1 … ±Fn (boolean fields),
//   (1) no write that can give Fi the value that falsifies R's guard may execute after S. Writes of the satisfying
//       constant are harmless (a reset of a mode that is not set is ignored). "After S" is decided structurally:
//       S in the start-up phase (New and the unexported functions that run only as plain calls under New): the rest
//       of S's function after S, its deferred calls, the rest of each caller after the call, up to New — direct
//       writes and calls that statically reach a writer; plus every writer that is not a start-up part (it runs
//       during the session) and every write inside a function literal. S outside the start-up phase (an API call):
//       every falsifying write of the package.
//   (2) some write records Fi (gives it the satisfying value): otherwise the restorer never runs.
//   (3) some recording write is not conditional on configuration that S itself is not conditional on (an option,
//       another flag, the environment, a package-level variable): otherwise there is a configuration where the
//       terminal took the blind set and nothing remembers it.
// Writes are recognised by the canonical path of the target and by the field object (pointer aliases of the
// capability struct); `&F` passed to a function or local closure is judged by what the callee stores through the
// parameter; an assignment of the whole enclosing struct is judged by the literal's element for F.
//
// Otherwise there is a capability set / configuration (the terminal implements the mode AND the clearing writer's
// condition holds) for which the mode stays set after Suspend and Close.

import (
	"fmt"
	"go/ast"
	"go/constant"
	"go/token"
	"go/types"
	"regexp"
	"sort"
	"strings"
)

func init() { registerExtra("C04", c04BlindSetRecorded) }

type c04lFlag struct {
	key   string       // guard atom as printed: +Vaxis.caps.inBandResize
	path  string       // Vaxis.caps.inBandResize
	want  bool         // the value under which the restorer runs
	chain []*types.Var // field objects along the path (nil: path not resolvable through types)
	root  types.Type   // the named struct the path is anchored at
	// `&F` expressions whose value is kept somewhere instead of being handed to a callee the rule can read
	escapes []ast.Node
}

type c04lWrite struct {
	fn    *FuncInfo
	node  ast.Node // AssignStmt or the `&F` expression
	inLit bool
	sat   bool // gives the flag the satisfying value (or keeps it)
	how   string
}

var c04lAtomRe = regexp.MustCompile(`^[+-][A-Za-z_]\w*(\.[A-Za-z_]\w*)+$`)

// c04lFieldChain resolves "Vaxis.caps.inBandResize" to the field objects caps, inBandResize.
func c04lFieldChain(pkg *types.Package, path string) (types.Type, []*types.Var) {
	parts := strings.Split(path, ".")
	if len(parts) < 2 || pkg == nil {
		return nil, nil
	}
	tn, ok := pkg.Scope().Lookup(parts[0]).(*types.TypeName)
	if !ok {
		return nil, nil
	}
	root := tn.Type()
	t := root
	var chain []*types.Var
	for _, name := range parts[1:] {
		if p, ok := t.Underlying().(*types.Pointer); ok {
			t = p.Elem()
		}
		st, ok := t.Underlying().(*types.Struct)
		if !ok {
			return nil, nil
		}
		var f *types.Var
		for i := 0; i < st.NumFields(); i++ {
			if st.Field(i).Name() == name {
				f = st.Field(i)
			}
		}
		if f == nil {
			return nil, nil
		}
		chain = append(chain, f)
		t = f.Type()
	}
	return root, chain
}

// c04lLocalValueRoot: the access path e is rooted at a local variable that holds a struct VALUE and is reached
// without passing through a pointer: a write to it changes a copy.
func c04lLocalValueRoot(info *types.Info, e ast.Expr) bool {
	for {
		switch t := unparen(e).(type) {
		case *ast.SelectorExpr:
			if sel, ok := info.Selections[t]; ok && sel.Indirect() {
				return false
			}
			xt := info.TypeOf(t.X)
			if xt == nil {
				return false
			}
			if _, isPtr := xt.Underlying().(*types.Pointer); isPtr {
				return false
			}
			e = t.X
		case *ast.IndexExpr:
			xt := info.TypeOf(t.X)
			if xt == nil {
				return false
			}
			if _, isArr := xt.Underlying().(*types.Array); !isArr {
				return false
			}
			e = t.X
		case *ast.Ident:
			v, ok := info.ObjectOf(t).(*types.Var)
			if !ok || v.IsField() || v.Pkg() == nil || v.Parent() == v.Pkg().Scope() {
				return false
			}
			_, isPtr := v.Type().Underlying().(*types.Pointer)
			return !isPtr
		default:
			return false
		}
	}
}

// touches: the assignment target (or operand of &) e denotes the flag (exact) or a struct value that contains it
// (whole, with the number of chain elements below the target).
func (f *c04lFlag) touches(info *types.Info, e ast.Expr) (exact bool, whole bool, below int) {
	e = unparen(e)
	if _, isIdent := e.(*ast.Ident); isIdent {
		return false, false, 0 // locals; package-level variables are never an enclosing struct of a field path here
	}
	if c04lLocalValueRoot(info, e) {
		return false, false, 0
	}
	if p := c04TargetPath(info, e); p != "" {
		if p == f.path {
			return true, false, 0
		}
		if c04PathsOverlap(p, f.path) && len(p) < len(f.path) {
			return false, true, strings.Count(f.path[len(p):], ".")
		}
	}
	if len(f.chain) == 0 {
		return false, false, 0
	}
	last := f.chain[len(f.chain)-1]
	if sel, ok := e.(*ast.SelectorExpr); ok {
		if s, ok := info.Selections[sel]; ok && s.Kind() == types.FieldVal && s.Obj() == types.Object(last) {
			return true, false, 0
		}
	}
	// a struct value that contains the flag, written as a whole: *p = capabilities{…}, *vx = Vaxis{…}
	tt := info.TypeOf(e)
	if tt == nil {
		return false, false, 0
	}
	if types.Identical(tt, f.root) {
		return false, true, len(f.chain)
	}
	for i := 0; i < len(f.chain)-1; i++ {
		if _, isStruct := f.chain[i].Type().Underlying().(*types.Struct); isStruct && types.Identical(tt, f.chain[i].Type()) {
			return false, true, len(f.chain) - 1 - i
		}
	}
	return false, false, 0
}

// c04lValue classifies the value stored into the flag: sat = the satisfying constant, or an expression that can
// only keep or satisfy it (`F || x` for +F, `F && x` for -F; isSelf recognises F).
func c04lValue(info *types.Info, rhs ast.Expr, want bool, isSelf func(ast.Expr) bool) (sat bool, how string) {
	if rhs == nil {
		return false, "a value the rule cannot follow"
	}
	rhs = unparen(rhs)
	if tv, ok := info.Types[rhs]; ok && tv.Value != nil && tv.Value.Kind() == constant.Bool {
		if constant.BoolVal(tv.Value) == want {
			return true, fmt.Sprintf("the constant %v", want)
		}
		return false, fmt.Sprintf("the constant %v", !want)
	}
	if b, ok := rhs.(*ast.BinaryExpr); ok && isSelf != nil {
		if (want && b.Op == token.LOR) || (!want && b.Op == token.LAND) {
			if isSelf(b.X) || isSelf(b.Y) {
				return true, "its old value " + b.Op.String() + " a condition"
			}
		}
	}
	return false, "the value of " + types.ExprString(rhs)
}

// c04lPtrParam summarises what a callee stores through its pointer parameter: every store is classified;
// any other use of the parameter than `*p` (read or store) makes the result unknown.
func c04lPtrParam(p *Program, info *types.Info, ft *ast.FuncType, body *ast.BlockStmt, argIdx int, want bool, depth int) (sat bool, how string) {
	if ft == nil || body == nil || ft.Params == nil || depth > 3 {
		return false, "stores the rule cannot follow"
	}
	var param types.Object
	i := 0
	for _, fld := range ft.Params.List {
		if len(fld.Names) == 0 {
			i++
			continue
		}
		for _, nm := range fld.Names {
			if i == argIdx {
				param = info.ObjectOf(nm)
			}
			i++
		}
	}
	if param == nil {
		return false, "stores the rule cannot follow"
	}
	sat, how = true, "no store"
	stores := 0
	fail := func(h string) {
		if sat {
			sat, how = false, h
		}
	}
	var stack []ast.Node
	ast.Inspect(body, func(n ast.Node) bool {
		if n == nil {
			stack = stack[:len(stack)-1]
			return true
		}
		stack = append(stack, n)
		id, ok := n.(*ast.Ident)
		if !ok || info.Uses[id] != param {
			return true
		}
		// climb over parentheses
		k := len(stack) - 2
		var cur ast.Node = id
		for k >= 0 {
			if pe, ok := stack[k].(*ast.ParenExpr); ok {
				cur = pe
				k--
				continue
			}
			break
		}
		if k < 0 {
			fail("a use of the pointer the rule cannot follow")
			return true
		}
		switch par := stack[k].(type) {
		case *ast.StarExpr:
			// *p … as an assignment target?
			var star ast.Node = par
			j := k - 1
			for j >= 0 {
				if pe, ok := stack[j].(*ast.ParenExpr); ok {
					star = pe
					j--
					continue
				}
				break
			}
			if j >= 0 {
				switch as := stack[j].(type) {
				case *ast.AssignStmt:
					for li, l := range as.Lhs {
						if l != star {
							continue
						}
						stores++
						var rhs ast.Expr
						if len(as.Rhs) == len(as.Lhs) && as.Tok == token.ASSIGN {
							rhs = as.Rhs[li]
						}
						isSelf := func(e ast.Expr) bool {
							if se, ok := unparen(e).(*ast.StarExpr); ok {
								if sid, ok := unparen(se.X).(*ast.Ident); ok {
									return info.Uses[sid] == param
								}
							}
							return false
						}
						if s, h := c04lValue(info, rhs, want, isSelf); !s {
							fail("a store of " + h + " through the pointer")
						} else if how == "no store" {
							how = "a store of " + h + " through the pointer"
						}
					}
				case *ast.IncDecStmt:
					fail("a store through the pointer")
				case *ast.UnaryExpr:
					if as.Op == token.AND {
						fail("a use of the pointer the rule cannot follow")
					}
				}
			}
		case *ast.CallExpr:
			// handed on as an argument: follow the callee
			for ai, a := range par.Args {
				if a != cur {
					continue
				}
				cft, cbody, cinfo := c04lCallee(p, info, par)
				if cbody == nil {
					fail("a callee the rule cannot follow")
					continue
				}
				if s, h := c04lPtrParam(p, cinfo, cft, cbody, ai, want, depth+1); !s {
					fail(h)
				} else if h != "no store" {
					stores++
					if how == "no store" {
						how = h
					}
				}
			}
			if par.Fun == cur {
				fail("a use of the pointer the rule cannot follow")
			}
		case *ast.BinaryExpr:
			// p == nil / p != nil
			if par.Op != token.EQL && par.Op != token.NEQ {
				fail("a use of the pointer the rule cannot follow")
			}
		default:
			fail("a use of the pointer the rule cannot follow (it is copied or stored)")
		}
		return true
	})
	if sat && stores == 0 {
		how = "no store"
	}
	return sat, how
}

// c04lCallee resolves the body a call runs: a declared function of the repository, or a function literal bound
// once to a local variable.
func c04lCallee(p *Program, info *types.Info, call *ast.CallExpr) (*ast.FuncType, *ast.BlockStmt, *types.Info) {
	if fn := calleeOf(info, call); fn != nil {
		if fi := p.FuncOfObj(fn); fi != nil && fi.Decl.Body != nil {
			return fi.Decl.Type, fi.Decl.Body, fi.Pkg.TypesInfo
		}
		return nil, nil, nil
	}
	switch f := unparen(call.Fun).(type) {
	case *ast.FuncLit:
		return f.Type, f.Body, info
	case *ast.Ident:
		if v, ok := info.ObjectOf(f).(*types.Var); ok {
			if lit, ok := unparenOrSelf(singleDefOf(info, v)).(*ast.FuncLit); ok {
				return lit.Type, lit.Body, info
			}
		}
	}
	return nil, nil, nil
}

func unparenOrSelf(e ast.Expr) ast.Expr {
	if e == nil {
		return nil
	}
	return unparen(e)
}

// c04lWritesOf collects the writes of the flag in one function (function literals included).
func c04lWritesOf(p *Program, fi *FuncInfo, f *c04lFlag) []*c04lWrite {
	info := fi.Pkg.TypesInfo
	var out []*c04lWrite
	var stack []ast.Node
	lits := 0
	isSelf := func(e ast.Expr) bool {
		ex, _, _ := f.touches(info, e)
		return ex
	}
	ast.Inspect(fi.Decl.Body, func(n ast.Node) bool {
		if n == nil {
			if _, ok := stack[len(stack)-1].(*ast.FuncLit); ok {
				lits--
			}
			stack = stack[:len(stack)-1]
			return true
		}
		stack = append(stack, n)
		switch t := n.(type) {
		case *ast.FuncLit:
			lits++
		case *ast.AssignStmt:
			if t.Tok == token.DEFINE {
				return true
			}
			for i, l := range t.Lhs {
				exact, whole, below := f.touches(info, l)
				if !exact && !whole {
					continue
				}
				var rhs ast.Expr
				if len(t.Rhs) == len(t.Lhs) && t.Tok == token.ASSIGN {
					rhs = t.Rhs[i]
				}
				w := &c04lWrite{fn: fi, node: t, inLit: lits > 0}
				if exact {
					w.sat, w.how = c04lValue(info, rhs, f.want, isSelf)
				} else {
					w.sat, w.how = c04lWholeValue(info, rhs, f, below)
				}
				out = append(out, w)
			}
		case *ast.RangeStmt:
			if t.Tok == token.ASSIGN {
				for _, l := range []ast.Expr{t.Key, t.Value} {
					if l == nil {
						continue
					}
					if exact, whole, _ := f.touches(info, l); exact || whole {
						out = append(out, &c04lWrite{fn: fi, node: t, inLit: lits > 0, how: "a value of the range"})
					}
				}
			}
		case *ast.UnaryExpr:
			if t.Op != token.AND {
				return true
			}
			// the address of an enclosing struct needs no judgement: a store through that pointer names the field
			// (or is a whole-struct store through `*p`) and is recognised where it is written
			exact, _, _ := f.touches(info, t.X)
			if !exact {
				return true
			}
			w := &c04lWrite{fn: fi, node: t, inLit: lits > 0, how: "its address is handed to a function outside the repository"}
			// the direct argument of a call?
			k := len(stack) - 2
			var cur ast.Node = t
			for k >= 0 {
				if pe, ok := stack[k].(*ast.ParenExpr); ok {
					cur = pe
					k--
					continue
				}
				break
			}
			resolved, foreign := false, false
			if k >= 0 {
				if call, ok := stack[k].(*ast.CallExpr); ok {
					for ai, a := range call.Args {
						if a != cur {
							continue
						}
						if ft, body, cinfo := c04lCallee(p, info, call); body != nil {
							resolved = true
							w.sat, w.how = c04lPtrParam(p, cinfo, ft, body, ai, f.want, 0)
							if w.sat && w.how == "no store" {
								return true // the callee only reads through the pointer
							}
							w.how = types.ExprString(call.Fun) + " performs " + w.how
						} else if calleeOf(info, call) != nil {
							foreign = true
						}
					}
				}
			}
			if !resolved && !foreign && len(f.chain) > 0 {
				// kept in a table, a local, a field, or handed to a function value: every store through a pointer
				// of this type anywhere in the package may be a store to the flag (c04lDerefStores)
				f.escapes = append(f.escapes, t)
				return true
			}
			out = append(out, w)
		}
		return true
	})
	return out
}

// c04lDerefStores: the stores `*p = v` of fi through any pointer to the flag's type. They count as writes of the
// flag once its address has escaped into the package's data (type-based aliasing).
func c04lDerefStores(fi *FuncInfo, f *c04lFlag) []*c04lWrite {
	if len(f.chain) == 0 {
		return nil
	}
	ft := f.chain[len(f.chain)-1].Type()
	info := fi.Pkg.TypesInfo
	var out []*c04lWrite
	lits := 0
	var stack []ast.Node
	ast.Inspect(fi.Decl.Body, func(n ast.Node) bool {
		if n == nil {
			if _, ok := stack[len(stack)-1].(*ast.FuncLit); ok {
				lits--
			}
			stack = stack[:len(stack)-1]
			return true
		}
		stack = append(stack, n)
		switch t := n.(type) {
		case *ast.FuncLit:
			lits++
		case *ast.AssignStmt:
			if t.Tok == token.DEFINE {
				return true
			}
			for i, l := range t.Lhs {
				st, ok := unparen(l).(*ast.StarExpr)
				if !ok {
					continue
				}
				xt := info.TypeOf(st.X)
				if xt == nil {
					continue
				}
				pt, ok := xt.Underlying().(*types.Pointer)
				if !ok || !types.Identical(pt.Elem(), ft) {
					continue
				}
				var rhs ast.Expr
				if len(t.Rhs) == len(t.Lhs) && t.Tok == token.ASSIGN {
					rhs = t.Rhs[i]
				}
				isSelf := func(e ast.Expr) bool {
					return types.ExprString(unparen(e)) == types.ExprString(unparen(l))
				}
				w := &c04lWrite{fn: fi, node: t, inLit: lits > 0}
				w.sat, w.how = c04lValue(info, rhs, f.want, isSelf)
				w.how += " through a pointer that may hold the flag's address"
				out = append(out, w)
			}
		}
		return true
	})
	return out
}

// c04lWholeValue: the flag's value in an assignment of a struct that contains it `below` levels down.
func c04lWholeValue(info *types.Info, rhs ast.Expr, f *c04lFlag, below int) (bool, string) {
	if rhs == nil || len(f.chain) == 0 || below < 1 || below > len(f.chain) {
		return false, "a whole-struct value the rule cannot follow"
	}
	cur := unparen(rhs)
	for lvl := len(f.chain) - below; lvl < len(f.chain); lvl++ {
		if u, ok := cur.(*ast.UnaryExpr); ok && u.Op == token.AND {
			cur = unparen(u.X)
		}
		lit, ok := cur.(*ast.CompositeLit)
		if !ok {
			return false, "the struct value " + types.ExprString(rhs)
		}
		name := f.chain[lvl].Name()
		var val ast.Expr
		keyed := true
		for _, el := range lit.Elts {
			kv, ok := el.(*ast.KeyValueExpr)
			if !ok {
				keyed = false
				break
			}
			if id, ok := kv.Key.(*ast.Ident); ok && id.Name == name {
				val = kv.Value
			}
		}
		if !keyed {
			return false, "the struct value " + types.ExprString(rhs)
		}
		if val == nil {
			// everything below is the zero value
			if f.want {
				return false, "the zero value of a struct literal that does not name it"
			}
			return true, "the zero value of a struct literal"
		}
		if lvl == len(f.chain)-1 {
			return c04lValue(info, val, f.want, nil)
		}
		cur = unparen(val)
	}
	return false, "a whole-struct value the rule cannot follow"
}

// c04lConfigReads: what the guards on loc read that counts as configuration: fields and package-level variables
// of basic type (options, flags, identification strings) and the process environment.
func c04lConfigReads(p *Program, g *FG, loc Loc, pkg *types.Package) map[string]bool {
	reads := map[string]bool{}
	env := false
	for _, gd := range g.Guards(loc) {
		exprs := []ast.Node{gd.Cond.Expr}
		if gd.Cond.Tag != nil {
			exprs = append(exprs, gd.Cond.Tag)
		}
		for _, a := range gd.Cond.Alts {
			exprs = append(exprs, a)
		}
		for _, e := range exprs {
			if e == nil {
				continue
			}
			c04GuardReads(p, g.Info, e, 0, reads)
			c04lEnvCalls(p, g.Info, e, 0, &env)
		}
	}
	out := map[string]bool{}
	for r := range reads {
		if strings.HasPrefix(r, "var:") {
			out[r] = true
			continue
		}
		// state of the library (a field of one of its structs) holding a basic value: an option, a flag, an
		// identification string. Channels, the reply being decoded and other data are not configuration.
		if _, chain := c04lFieldChain(pkg, r); len(chain) > 0 {
			if _, basic := chain[len(chain)-1].Type().Underlying().(*types.Basic); basic {
				out[r] = true
			}
		}
	}
	if env {
		out["the process environment"] = true
	}
	return out
}

// c04lEnvCalls: e calls os.Getenv / os.LookupEnv / os.Environ, directly or in a repository predicate it calls.
func c04lEnvCalls(p *Program, info *types.Info, e ast.Node, depth int, found *bool) {
	if depth > 3 || *found {
		return
	}
	seen := map[types.Object]bool{}
	var visit func(n ast.Node) bool
	visit = func(n ast.Node) bool {
		switch t := n.(type) {
		case *ast.FuncLit:
			return false
		case *ast.CallExpr:
			fn := calleeOf(info, t)
			if fn == nil {
				return true
			}
			if fn.Pkg() != nil && fn.Pkg().Path() == "os" {
				switch fn.Name() {
				case "Getenv", "LookupEnv", "Environ":
					*found = true
				}
				return true
			}
			if fi := p.FuncOfObj(fn); fi != nil && fi.Decl.Body != nil {
				c04lEnvCalls(p, fi.Pkg.TypesInfo, fi.Decl.Body, depth+1, found)
			}
		case *ast.Ident:
			v, ok := info.Uses[t].(*types.Var)
			if !ok || v.IsField() || v.Pkg() == nil || v.Parent() == v.Pkg().Scope() || seen[v] {
				return true
			}
			seen[v] = true
			if def := singleDefOf(info, v); def != nil {
				ast.Inspect(def, visit)
			} else if td, ok := tupleDefTables[info][v]; ok && td.call != nil {
				ast.Inspect(td.call, visit)
			}
		}
		return true
	}
	ast.Inspect(e, visit)
}

func c04BlindSetRecorded(c *Ctx) {
	c.Clauses = append(c.Clauses, "C04.l a setter whose restoring sequence runs under a capability flag that the setter itself is not guarded by (the blind enable of in-band resize in the probe, SetAppID) keeps its pairing only through the record of the terminal's reply: after the set nothing may give the flag the value that skips the reset (no quirk, option or later phase clears it), some writer records it, and a recording writer is not conditional on configuration the setter is not conditional on")
	c.expect("C04.l", 6)
	suspend := c.P.Func("vaxis.(*Vaxis).Suspend")
	nw := c.P.Func("vaxis.New")
	pk := c.P.Pkg("vaxis")
	if suspend == nil || nw == nil || pk == nil {
		c.undecided("C04.l", "vaxis.New/Suspend", 0, "New or Suspend not found")
		return
	}
	setters, restorers := c04ModeSites(c, suspend)
	perFrame := map[string]bool{"DECSET 2026": true} // balanced per flush (C01.a)

	startRoots := map[string]bool{"vaxis.New": true}
	startMemo := map[string]bool{}
	isStart := func(fi *FuncInfo) bool {
		if fi == nil {
			return false
		}
		if v, ok := startMemo[fi.Name]; ok {
			return v
		}
		v := fi.Name == "vaxis.New" || c04StartupPartOf(c, fi, startRoots) != ""
		startMemo[fi.Name] = v
		return v
	}
	deadMemo := map[string]bool{}
	isDead := func(fi *FuncInfo) bool {
		if v, ok := deadMemo[fi.Name]; ok {
			return v
		}
		v := c04NeverReferenced(c, fi)
		deadMemo[fi.Name] = v
		return v
	}
	funcs := c.P.FuncsIn("vaxis")

	type flagState struct {
		flag   *c04lFlag
		writes []*c04lWrite
	}
	flagMemo := map[string]*flagState{}
	flagOf := func(atom string) *flagState {
		if fs, ok := flagMemo[atom]; ok {
			return fs
		}
		f := &c04lFlag{key: atom, path: atom[1:], want: atom[0] == '+'}
		f.root, f.chain = c04lFieldChain(pk.Types, f.path)
		fs := &flagState{flag: f}
		for _, fi := range funcs {
			if fi.Decl.Body != nil {
				fs.writes = append(fs.writes, c04lWritesOf(c.P, fi, f)...)
			}
		}
		if len(f.escapes) > 0 {
			for _, fi := range funcs {
				if fi.Decl.Body != nil {
					fs.writes = append(fs.writes, c04lDerefStores(fi, f)...)
				}
			}
		}
		flagMemo[atom] = fs
		return fs
	}

	seenKey := map[string]int{}
	for _, s := range setters {
		if perFrame[s.ms.class] {
			continue
		}
		// paired by guards? then C04.a/d/h are the rules
		paired := false
		type cand struct {
			r      c04Site
			excess []string
		}
		var cands []cand
		for _, r := range restorers {
			if r.ms.class != s.ms.class {
				continue
			}
			var excess []string
			for _, gk := range r.em.GuardKeys {
				if !containsStr(s.em.GuardKeys, gk) {
					excess = append(excess, gk)
				}
			}
			if len(excess) == 0 {
				paired = true
				break
			}
			cands = append(cands, cand{r, excess})
		}
		if paired || len(cands) == 0 {
			continue // no restorer at all: C04.a reports it
		}
		sort.SliceStable(cands, func(i, j int) bool { return len(cands[i].excess) < len(cands[j].excess) })
		base := fmt.Sprintf("%s/sets %s", s.em.FnName, s.ms.class)
		seenKey[base]++
		if n := seenKey[base]; n > 1 {
			base = fmt.Sprintf("%s#%d", base, n)
		}

		// where S runs
		fnBase := s.em.FnName
		inLit := false
		if i := strings.Index(fnBase, "$"); i >= 0 {
			fnBase, inLit = fnBase[:i], true
		}
		fS := c.P.Func(fnBase)
		startup := fS != nil && !inLit && isStart(fS)

		// the guards of S as configuration reads
		sReads := c04lConfigReads(c.P, s.em.G, s.em.Loc, pk.Types)

		type verdict struct {
			bad  bool
			pos  token.Pos
			text string
		}
		judge := func(cd cand) (out []struct {
			key string
			v   verdict
		}, anyBad bool) {
			add := func(key string, v verdict) {
				out = append(out, struct {
					key string
					v   verdict
				}{key, v})
				if v.bad {
					anyBad = true
				}
			}
			for _, atom := range cd.excess {
				if !c04lAtomRe.MatchString(atom) {
					add(base+"/reset guard "+atom, verdict{true, cd.r.em.Call.Pos(), fmt.Sprintf("the restoring sequence %q in %s runs under %s, which the setter is not guarded by and which is not a boolean field the rule can follow", cd.r.seq.Raw, cd.r.em.FnName, atom)})
					continue
				}
				fs := flagOf(atom)
				f := fs.flag
				// (1) falsifying writes that can execute after S
				clearingFns := map[string]*c04lWrite{}
				clearAt := map[ast.Node]*c04lWrite{}
				for _, w := range fs.writes {
					if !w.sat {
						clearAt[w.node] = w
						if _, ok := clearingFns[w.fn.Name]; !ok {
							clearingFns[w.fn.Name] = w
						}
					}
				}
				type off struct {
					pos  token.Pos
					text string
				}
				var offs []off
				seenOff := map[token.Pos]bool{}
				note := func(pos token.Pos, text string) {
					if !seenOff[pos] {
						seenOff[pos] = true
						offs = append(offs, off{pos, text})
					}
				}
				for _, w := range fs.writes {
					if w.sat || isDead(w.fn) {
						continue
					}
					switch {
					case !startup:
						note(w.node.Pos(), fmt.Sprintf("%s stores %s", w.fn.Name, w.how))
					case !isStart(w.fn):
						note(w.node.Pos(), fmt.Sprintf("%s, which runs after start-up, stores %s", w.fn.Name, w.how))
					case w.inLit:
						note(w.node.Pos(), fmt.Sprintf("a function literal of %s stores %s", w.fn.Name, w.how))
					}
				}
				if startup && len(clearingFns) > 0 {
					reachMemo := map[string]string{}
					reachesClearing := func(cf *FuncInfo) string {
						if v, ok := reachMemo[cf.Name]; ok {
							return v
						}
						var names []string
						for fn := range staticReach(c.P, cf) {
							if _, ok := clearingFns[fn]; ok {
								names = append(names, fn)
							}
						}
						sort.Strings(names)
						v := ""
						if len(names) > 0 {
							v = names[0]
						}
						reachMemo[cf.Name] = v
						return v
					}
					visited := map[string]bool{}
					var region func(fi *FuncInfo, g *FG, from Loc, depth int)
					checkNode := func(fi *FuncInfo, n ast.Node) {
						info := fi.Pkg.TypesInfo
						inspectNoLit(n, func(m ast.Node) bool {
							if w, ok := clearAt[m]; ok {
								note(m.Pos(), fmt.Sprintf("%s stores %s after the set", fi.Name, w.how))
							}
							if call, ok := m.(*ast.CallExpr); ok {
								if cf := c.P.FuncOfObj(calleeOf(info, call)); cf != nil && cf.Decl.Body != nil {
									if wfn := reachesClearing(cf); wfn != "" {
										w := clearingFns[wfn]
										note(w.node.Pos(), fmt.Sprintf("%s, called by %s after the set, reaches %s which stores %s", types.ExprString(call.Fun), fi.Name, wfn, w.how))
									}
								}
							}
							return true
						})
					}
					region = func(fi *FuncInfo, g *FG, from Loc, depth int) {
						if g == nil || depth > 6 {
							return
						}
						g.walk(from, func(l Loc, n ast.Node) bool {
							checkNode(fi, n)
							return true
						}, nil)
						if !visited[fi.Name] {
							visited[fi.Name] = true
							// deferred calls run after everything else of the function
							inspectNoLit(fi.Decl.Body, func(m ast.Node) bool {
								if ds, ok := m.(*ast.DeferStmt); ok {
									checkNode(fi, ds.Call)
								}
								return true
							})
						}
						if fi.Name == "vaxis.New" {
							return
						}
						callers, _ := c04PlainCallers(c, fi)
						for _, cf := range callers {
							cg := c.P.Graph(cf)
							if cg == nil {
								continue
							}
							for _, h := range cg.Calls(func(fn *types.Func, _ *ast.CallExpr) bool { return fn != nil && fn == fi.Obj }) {
								region(cf, cg, Loc{h.Loc.B, h.Loc.Idx + 1}, depth+1)
							}
						}
					}
					g := c.P.Graph(fS)
					loc := s.em.Loc
					if s.em.G != g {
						if l, ok := g.Locate(s.em.Call); ok {
							loc = l
						} else {
							loc = Loc{g.Blocks[0], -1}
						}
					}
					region(fS, g, Loc{loc.B, loc.Idx + 1}, 0)
				}
				sort.Slice(offs, func(i, j int) bool { return offs[i].pos < offs[j].pos })
				phase := "it is set by an API call at any time of the session"
				if startup {
					phase = "it is set during start-up"
				}
				key1 := fmt.Sprintf("%s/%s keeps the value that runs the reset", base, f.path)
				if len(offs) == 0 {
					add(key1, verdict{false, s.em.Call.Pos(), fmt.Sprintf("%q is set without the guard %s of its reset %q in %s (%s); no write that can execute after the set gives %s another value than %v", s.seq.Raw, atom, cd.r.seq.Raw, cd.r.em.FnName, phase, f.path, f.want)})
				} else {
					var texts []string
					for _, o := range offs {
						texts = append(texts, o.text)
					}
					add(key1, verdict{true, offs[0].pos, fmt.Sprintf("%q is set without the guard %s of its reset %q in %s (%s) and the flag is the only record that the terminal took it, but %s: for a terminal that implements the mode the reset is skipped and the mode stays set after Suspend/Close", s.seq.Raw, atom, cd.r.seq.Raw, cd.r.em.FnName, phase, strings.Join(texts, "; "))})
				}
				// (2) somebody records the flag, (3) not only under configuration the setter does not share
				var recs []*c04lWrite
				for _, w := range fs.writes {
					if w.sat && !isDead(w.fn) {
						recs = append(recs, w)
					}
				}
				key2 := fmt.Sprintf("%s/%s is recorded", base, f.path)
				if len(recs) == 0 {
					add(key2, verdict{true, s.em.Call.Pos(), fmt.Sprintf("%q is set without the guard %s of its reset, and nothing ever gives %s the value %v: the reset %q in %s never runs", s.seq.Raw, atom, f.path, f.want, cd.r.seq.Raw, cd.r.em.FnName)})
					continue
				}
				add(key2, verdict{false, recs[0].node.Pos(), fmt.Sprintf("%s stores %s", recs[0].fn.Name, recs[0].how)})
				unjudged := false
				uncond := false
				var conds []string
				var firstPos token.Pos
				for _, w := range recs {
					if w.inLit {
						unjudged = true
						continue
					}
					g := c.P.Graph(w.fn)
					loc, ok := g.Locate(w.node)
					if !ok {
						unjudged = true
						continue
					}
					var extra []string
					for r := range c04lConfigReads(c.P, g, loc, pk.Types) {
						if !sReads[r] && r != f.path {
							extra = append(extra, r)
						}
					}
					sort.Strings(extra)
					if len(extra) == 0 {
						uncond = true
						break
					}
					if firstPos == 0 {
						firstPos = w.node.Pos()
					}
					conds = append(conds, fmt.Sprintf("%s records it only under a condition on %s", w.fn.Name, strings.Join(extra, ", ")))
				}
				key3 := fmt.Sprintf("%s/%s is recorded whatever the configuration", base, f.path)
				switch {
				case uncond:
					add(key3, verdict{false, recs[0].node.Pos(), "a recording write is conditional on nothing but the reply (and what the setter itself is conditional on)"})
				case unjudged:
					// a recording write inside a function literal: its conditions are not judged here
				default:
					add(key3, verdict{true, firstPos, fmt.Sprintf("%q is set without the guard %s of its reset, but %s: under the other configurations a terminal that took the set is not remembered and the reset %q in %s is skipped", s.seq.Raw, atom, strings.Join(conds, "; "), cd.r.seq.Raw, cd.r.em.FnName)})
				}
			}
			return
		}
		// the first candidate restorer whose flags are all sound discharges the setter; otherwise report the best one
		var chosen []struct {
			key string
			v   verdict
		}
		for i, cd := range cands {
			out, anyBad := judge(cd)
			if i == 0 || !anyBad {
				chosen = out
			}
			if !anyBad {
				break
			}
		}
		for _, o := range chosen {
			if o.v.bad {
				c.bad("C04.l", o.key, o.v.pos, "%s", o.v.text)
			} else {
				c.ok("C04.l", o.key, o.v.pos, "%s", o.v.text)
			}
		}
	}
}
