package main

// C16.m — the measuring loop counts every emitted line unless the height limit is reached.
//
// "The text widgets draw exactly the emitted lines, one per row": the surface the lines are drawn on is sized by
// findContainerSize, whose loops run the same scanner as the draw loop and count one row per line; WriteCell drops
// what lies below the surface. A line the measuring loop does not count is a line that is not drawn. The only
// legitimate reason to stop counting before the scanner is exhausted is that the height limit (ctx.Max.Height) is
// reached.
//
// Rule, per findContainerSize (plain and rich): every early exit — a `return`, or a `break` that leaves the loop —
// inside an outermost loop of the function is judged by the conditions it is nested under INSIDE that loop (enclosing
// if / else branches, and the negation of earlier sibling `if c { …; return/continue/break }` statements), each in
// disjunctive normal form with single-definition locals and `return expr` helpers resolved:
//
//	ok        one of these conditions implies, in every disjunct, X >= ctx.Max.Height (>=, >, == against the height
//	          of the constraint the function was given, mirrored or negated forms included);
//	violated  no condition does, and all of them are transparent (comparisons of sizes, widths, flags): the loop
//	          stops counting lines for a reason other than the height limit (e.g. on the WIDTH clamp);
//	not judged  a condition calls a function of the repository whose result the rule cannot resolve (a helper that
//	          reports "no room left"), or tests a local that is one result of a multi-value call (`line, ok := next()`
//	          followed by `if !ok { break }`: the end of a pull iterator): nothing is claimed for that exit.

import (
	"go/ast"
	"go/token"
	"go/types"
	"strings"
)

func init() { registerExtra("C16", c16MeasureCountsEveryLine) }

func c16MeasureCountsEveryLine(c *Ctx) {
	c.Clauses = append(c.Clauses, "C16.m the measuring loops of Text/RichText.findContainerSize count every emitted line unless the height limit is reached: every return/break that leaves an outermost loop of findContainerSize early is nested (inside the loop) under a condition implying X >= ctx.Max.Height in each disjunct; an early exit under transparent conditions that do not (e.g. the width clamp) is violated; exits behind an unresolvable helper predicate are not judged")
	c.expect("C16.m", 2)
	e := &c14Env{c: &Ctx{P: c.P, counts: map[string]int{}, minima: map[string]int{}}, sizeFns: map[*FuncInfo]bool{}, surfFnsDone: map[*FuncInfo]bool{}, seenKey: map[string]bool{}, inlining: map[*FuncInfo]bool{}}
	if !e.setup() {
		c.undecided("C16.m", "vxfw", 0, "vxfw types not found")
		return
	}
	e.c = c
	for _, name := range []string{"vxfw/text.(*Text).findContainerSize", "vxfw/richtext.(*RichText).findContainerSize"} {
		key := name + "/measuring loops count every line until the height limit"
		fi := c.P.Func(name)
		if fi == nil || fi.Decl.Body == nil {
			c.undecided("C16.m", key, 0, "function not found")
			continue
		}
		c16mFunc(c, e, fi, key)
	}
}

func c16mFunc(c *Ctx, e *c14Env, fi *FuncInfo, key string) {
	info := fi.Pkg.TypesInfo
	par := c.P.Parents(fi.Pkg)
	sc := e.scopeOf(fi)
	// the constraint parameter
	var ctxObj types.Object
	for _, p := range c14Params(info, fi.Decl) {
		if p != nil && types.Identical(p.Type(), e.ctxT) {
			ctxObj = p
		}
	}
	if ctxObj == nil {
		c.undecided("C16.m", key, fi.Decl.Pos(), "no DrawContext parameter")
		return
	}
	maxH := c14ID(ctxObj, "Max.Height")

	isLoop := func(n ast.Node) bool {
		switch n.(type) {
		case *ast.ForStmt, *ast.RangeStmt:
			return true
		}
		return false
	}
	// outermost loop enclosing n (nil if none); stops at function literals
	outerLoop := func(n ast.Node) ast.Node {
		var out ast.Node
		for cur := par[n]; cur != nil && cur != ast.Node(fi.Decl); cur = par[cur] {
			if _, isLit := cur.(*ast.FuncLit); isLit {
				return nil
			}
			if isLoop(cur) {
				out = cur
			}
		}
		return out
	}
	loopBody := func(l ast.Node) *ast.BlockStmt {
		switch t := l.(type) {
		case *ast.ForStmt:
			return t.Body
		case *ast.RangeStmt:
			return t.Body
		}
		return nil
	}
	terminates := func(b *ast.BlockStmt) bool {
		if b == nil || len(b.List) == 0 {
			return false
		}
		switch t := b.List[len(b.List)-1].(type) {
		case *ast.ReturnStmt, *ast.BranchStmt:
			return true
		case *ast.ExprStmt:
			if call, ok := t.X.(*ast.CallExpr); ok {
				if id, ok := call.Fun.(*ast.Ident); ok && id.Name == "panic" {
					return true
				}
			}
		}
		return false
	}
	type pc struct {
		x   ast.Expr
		pol bool
	}
	// conditions the statement n is nested under inside loop l; opaque=true when a construct is not understood
	condsOf := func(n ast.Node, l ast.Node) (out []pc, opaque bool) {
		child := n
		for cur := par[n]; cur != nil && cur != l; child, cur = cur, par[cur] {
			switch t := cur.(type) {
			case *ast.IfStmt:
				if child == ast.Node(t.Body) {
					out = append(out, pc{t.Cond, true})
				} else if child == t.Else {
					out = append(out, pc{t.Cond, false})
				}
			case *ast.BlockStmt:
				for _, st := range t.List {
					if st == child {
						break
					}
					if is, ok := st.(*ast.IfStmt); ok && is.Else == nil && is.Init == nil && terminates(is.Body) {
						out = append(out, pc{is.Cond, false})
					}
				}
			case *ast.CaseClause, *ast.SwitchStmt, *ast.TypeSwitchStmt, *ast.SelectStmt, *ast.CommClause:
				opaque = true
			case *ast.LabeledStmt:
			case *ast.ForStmt, *ast.RangeStmt:
				// an inner loop: its condition is a condition of the exit as well, but never a height test we rely on
				opaque = true
			}
		}
		return out, opaque
	}
	heightLimit := func(l c14wLit) bool {
		be, ok := unparen(l.v.x).(*ast.BinaryExpr)
		if !ok {
			return false
		}
		op := be.Op
		switch op {
		case token.LSS, token.LEQ, token.GTR, token.GEQ, token.EQL, token.NEQ:
		default:
			return false
		}
		if !l.pol {
			op = negOp(op)
		}
		a, b := l.v.with(be.X).term(), l.v.with(be.Y).term()
		switch {
		case b == maxH && a != maxH:
			return op == token.GEQ || op == token.GTR || op == token.EQL
		case a == maxH && b != maxH:
			return op == token.LEQ || op == token.LSS || op == token.EQL
		}
		return false
	}
	// locals that receive one result of a multi-value call (`line, ok := next()`): what such a flag says is what the
	// callee says — a predicate the rule does not resolve, like a call in the condition itself
	tupleFed := map[types.Object]bool{}
	ast.Inspect(fi.Decl.Body, func(n ast.Node) bool {
		as, ok := n.(*ast.AssignStmt)
		if !ok || len(as.Rhs) != 1 || len(as.Lhs) < 2 {
			return true
		}
		call, ok := unparen(as.Rhs[0]).(*ast.CallExpr)
		if !ok {
			return true
		}
		if tv, ok := info.Types[call.Fun]; ok && tv.IsType() {
			return true
		}
		for _, lh := range as.Lhs {
			if id, ok := unparen(lh).(*ast.Ident); ok {
				if o, isVar := info.ObjectOf(id).(*types.Var); isVar && !o.IsField() {
					tupleFed[o] = true
				}
			}
		}
		return true
	})
	hasRepoCall := func(l c14wLit) bool {
		found := false
		ast.Inspect(l.v.x, func(n ast.Node) bool {
			if id, isID := n.(*ast.Ident); isID && !found {
				if o := l.v.sc.info.ObjectOf(id); o != nil && tupleFed[o] {
					found = true
					return false
				}
			}
			call, ok := n.(*ast.CallExpr)
			if !ok || found {
				return !found
			}
			if tv, ok := l.v.sc.info.Types[call.Fun]; ok && tv.IsType() {
				return true
			}
			if id := c14FunIdent(call); id != nil {
				if _, isB := l.v.sc.info.Uses[id].(*types.Builtin); isB {
					return true
				}
			}
			found = true
			return false
		})
		return found
	}

	exits, judgedOK, unjudged := 0, 0, 0
	var badAt ast.Node
	var badWhy string
	ast.Inspect(fi.Decl.Body, func(n ast.Node) bool {
		if _, isLit := n.(*ast.FuncLit); isLit {
			return false
		}
		var l ast.Node
		switch t := n.(type) {
		case *ast.ReturnStmt:
			l = outerLoop(t)
		case *ast.BranchStmt:
			if t.Tok != token.BREAK && t.Tok != token.GOTO {
				return true
			}
			ol := outerLoop(t)
			if ol == nil {
				return true
			}
			if t.Tok == token.GOTO {
				exits++
				unjudged++
				return true
			}
			// the statement this break leaves
			var target ast.Node
			if t.Label != nil {
				for cur := par[ast.Node(t)]; cur != nil; cur = par[cur] {
					if ls, ok := cur.(*ast.LabeledStmt); ok && ls.Label.Name == t.Label.Name {
						target = ls.Stmt
						break
					}
				}
			} else {
				for cur := par[ast.Node(t)]; cur != nil; cur = par[cur] {
					switch cur.(type) {
					case *ast.ForStmt, *ast.RangeStmt, *ast.SwitchStmt, *ast.TypeSwitchStmt, *ast.SelectStmt:
						target = cur
					}
					if target != nil {
						break
					}
				}
			}
			if target != ol {
				return true
			}
			l = ol
		default:
			return true
		}
		if l == nil || loopBody(l) == nil {
			return true
		}
		exits++
		conds, opaque := condsOf(n, l)
		ok := false
		transparent := !opaque
		var shown []string
		for _, cd := range conds {
			s := types.ExprString(cd.x)
			if !cd.pol {
				s = "!(" + s + ")"
			}
			shown = append(shown, s)
			dnf, fits := c14wDNF(sc.v(cd.x), cd.pol, 0)
			if !fits {
				transparent = false
				continue
			}
			all := len(dnf) > 0
			for _, conj := range dnf {
				has := false
				for _, lit := range conj {
					if heightLimit(lit) {
						has = true
					}
					if hasRepoCall(lit) {
						transparent = false
					}
				}
				if !has {
					all = false
				}
			}
			if all {
				ok = true
			}
		}
		switch {
		case ok:
			judgedOK++
		case !transparent:
			unjudged++
		default:
			if badAt == nil {
				badAt = n
				badWhy = "unconditionally"
				if len(shown) > 0 {
					badWhy = "when " + strings.Join(shown, " && ")
				}
			}
		}
		return true
	})
	if badAt != nil {
		c.bad("C16.m", key, badAt.Pos(), "the measuring loop is left early %s: none of these conditions implies that the height limit %s.Max.Height is reached, so the lines the scanner still emits are not counted — the surface gets too few rows and WriteCell drops every later line although there is room for it", badWhy, ctxObj.Name())
		return
	}
	c.ok("C16.m", key, fi.Decl.Pos(), "%d early exit(s) from the measuring loops: %d under the height limit, %d behind a predicate the rule does not resolve", exits, judgedOK, unjudged)
}
