package main

// C03.k — reply routing coherence. A reply that handleSequence hands over on a channel is collected by
// a query function that (i) returns early unless a capability holds and (ii) wrote the query whose OSC
// selector the reply carries. Necessary for "replies update exactly the answer they report, for all
// capability sets": every capability the hand-over is gated on must be one the waiting query function
// is gated on (otherwise, for the capability set that separates the two, the waiter's reply is dropped
// and the waiter never returns), and the reply selector under which the hand-over happens must be the
// selector of the query the waiter wrote.
//
// The hand-over may be written out per reply or driven by a local table of rows (a slice literal of
// structs ranged over): rows are expanded, each row's fields standing for the expressions it holds.

import (
	"fmt"
	"go/ast"
	"go/token"
	"go/types"
	"sort"
	"strings"
)

func init() { registerExtra("C03", c03ReplyRouting) }

type c03Waiter struct {
	fn   *FuncInfo
	caps []string // capability guard keys at the blocking receive
	sels []string // OSC selectors of the queries the function writes
	pos  token.Pos
}

func c03CapKeys(keys []string) []string {
	var out []string
	for _, k := range keys {
		if strings.HasPrefix(k, "+Vaxis.caps.") || strings.HasPrefix(k, "-Vaxis.caps.") {
			out = append(out, k)
		}
	}
	sort.Strings(out)
	return out
}

func c03ReplyRouting(c *Ctx) {
	c.Clauses = append(c.Clauses, "C03.k a reply is handed to a waiting query function only under capabilities that function itself requires, and under the reply selector of the query it wrote (table-driven hand-overs are expanded row by row)")
	c.expect("C03.k", 3)
	pk := c.P.Pkg("vaxis")
	handle := c.P.Func("vaxis.(*Vaxis).handleSequence")
	if pk == nil || handle == nil {
		c.undecided("C03.k", "vaxis.(*Vaxis).handleSequence", 0, "handleSequence not found")
		return
	}
	info := pk.TypesInfo
	inInput := staticReach(c.P, handle)
	// ---- waiters: functions outside the input context with a blocking receive from a Vaxis channel field
	waiters := map[string][]*c03Waiter{}
	for _, fi := range c.P.FuncsIn("vaxis") {
		if fi.Decl.Body == nil || inInput[fi.Name] {
			continue
		}
		g := c.P.Graph(fi)
		par := c.P.Parents(fi.Pkg)
		for _, h := range g.Find(func(n ast.Node) bool {
			u, ok := n.(*ast.UnaryExpr)
			return ok && u.Op == token.ARROW
		}) {
			u := h.Node.(*ast.UnaryExpr)
			ch := canonPath(info, u.X)
			if !strings.HasPrefix(ch, "Vaxis.ch") {
				continue
			}
			// the draining receive of a select with default is not the wait
			drain := false
			for cur := par[ast.Node(u)]; cur != nil; cur = par[cur] {
				if cc, ok := cur.(*ast.CommClause); ok {
					if sel, _ := par[par[cc]].(*ast.SelectStmt); sel != nil {
						for _, cl := range sel.Body.List {
							if cl.(*ast.CommClause).Comm == nil {
								drain = true
							}
						}
					}
					break
				}
				if _, ok := cur.(*ast.FuncLit); ok {
					break
				}
			}
			if drain {
				continue
			}
			w := &c03Waiter{fn: fi, caps: c03CapKeys(guardKeys(g, h.Loc)), pos: u.Pos()}
			for _, em := range ExtractEmissions(c.P, []*FuncInfo{fi}, vaxisTerminalSink) {
				for _, t := range em.Templates {
					for _, s := range parseSeqs(t) {
						if s.Kind == "OSC" && s.OSCSel != "" {
							w.sels = append(w.sels, s.OSCSel)
						}
					}
				}
			}
			waiters[ch] = append(waiters[ch], w)
		}
	}
	// ---- hand-overs in the input context
	n := 0
	for _, fi := range c.P.FuncsIn("vaxis") {
		if fi.Decl.Body == nil || !inInput[fi.Name] {
			continue
		}
		g := c.P.Graph(fi)
		for _, h := range g.Find(func(n ast.Node) bool { _, ok := n.(*ast.SendStmt); return ok }) {
			send := h.Node.(*ast.SendStmt)
			for _, inst := range c03ExpandRows(c, fi, g, h.Loc, send.Chan) {
				ws := waiters[inst.ch]
				if len(ws) == 0 {
					continue
				}
				n++
				suffix := ""
				if inst.row >= 0 {
					suffix = fmt.Sprintf(" (table row %d)", inst.row+1)
				}
				key := fmt.Sprintf("%s/hand-over on %s matches its waiter%s", fi.Name, inst.ch, suffix)
				var problems []string
				for _, w := range ws {
					for _, k := range c03CapKeys(inst.guards) {
						if !containsStr(w.caps, k) {
							problems = append(problems, fmt.Sprintf("the hand-over is gated on %s, which %s (waiting on %s under %v) does not require: for the capability set that separates them the reply is dropped and the waiter never returns", k, w.fn.Name, inst.ch, w.caps))
						}
					}
					if len(inst.prefixes) > 0 && len(w.sels) > 0 {
						ok := false
						for _, p := range inst.prefixes {
							for _, s := range w.sels {
								if p == s {
									ok = true
								}
							}
						}
						if !ok {
							problems = append(problems, fmt.Sprintf("the reply handed over carries selector %v, but %s, which waits on %s, wrote the query OSC %v", inst.prefixes, w.fn.Name, inst.ch, w.sels))
						}
					}
				}
				if len(problems) == 0 {
					c.ok("C03.k", key, send.Pos(), "capability guards %v are required by the waiter as well; reply selector %v is the one the waiter queried", c03CapKeys(inst.guards), inst.prefixes)
				} else {
					c.bad("C03.k", key, send.Pos(), "%s", strings.Join(c12Dedup(problems), "; "))
				}
			}
		}
	}
	if n == 0 {
		c.undecided("C03.k", "vaxis/hand-overs", handle.Decl.Pos(), "no send on a channel that a query function waits on was found in the input context")
	}
}

type c03SendInst struct {
	ch       string
	guards   []string
	prefixes []string
	row      int
}

// c03ExpandRows gives the instances of a send: one when the channel is a field of Vaxis, one per row when the
// channel is a field of the value variable of a range over a local table of struct literals.
func c03ExpandRows(c *Ctx, fi *FuncInfo, g *FG, loc Loc, chanExpr ast.Expr) []c03SendInst {
	info := fi.Pkg.TypesInfo
	guards := g.Guards(loc)
	prefixOf := func(e ast.Expr, subst func(ast.Expr) ast.Expr) []string {
		var out []string
		inspectNoLit(e, func(n ast.Node) bool {
			call, ok := n.(*ast.CallExpr)
			if !ok || len(call.Args) != 2 {
				return true
			}
			fn := calleeOf(info, call)
			if fn == nil || fullName(fn) != "strings.HasPrefix" {
				return true
			}
			arg := call.Args[1]
			if subst != nil {
				arg = subst(arg)
			}
			if s, ok := constString(info, arg); ok {
				out = append(out, strings.TrimSuffix(s, ";"))
			}
			return true
		})
		return out
	}
	direct := canonPath(info, chanExpr)
	if strings.HasPrefix(direct, "Vaxis.") {
		inst := c03SendInst{ch: direct, row: -1}
		for _, gd := range guards {
			inst.guards = append(inst.guards, condKeys(info, gd.Cond, gd.Pol)...)
			if gd.Pol && gd.Cond.Tag == nil && gd.Cond.Alts == nil {
				inst.prefixes = append(inst.prefixes, prefixOf(gd.Cond.Expr, nil)...)
			}
		}
		return []c03SendInst{inst}
	}
	// r.field with r the value of `for _, r := range table`
	sel, ok := unparen(chanExpr).(*ast.SelectorExpr)
	if !ok {
		return nil
	}
	rid, ok := unparen(sel.X).(*ast.Ident)
	if !ok {
		return nil
	}
	robj := info.ObjectOf(rid)
	var rs *ast.RangeStmt
	ast.Inspect(fi.Decl.Body, func(n ast.Node) bool {
		if r, ok := n.(*ast.RangeStmt); ok && r.Value != nil {
			if id, ok := r.Value.(*ast.Ident); ok && info.ObjectOf(id) == robj {
				rs = r
			}
		}
		return rs == nil
	})
	if rs == nil {
		return nil
	}
	var lit *ast.CompositeLit
	switch t := unparen(rs.X).(type) {
	case *ast.CompositeLit:
		lit = t
	case *ast.Ident:
		if v, ok := info.ObjectOf(t).(*types.Var); ok {
			if def, _ := c19LocalDef(fi, v); def != nil {
				lit, _ = unparen(def).(*ast.CompositeLit)
			}
		}
	}
	if lit == nil {
		return nil
	}
	st, ok := robj.Type().Underlying().(*types.Struct)
	if !ok {
		return nil
	}
	var out []c03SendInst
	for i, el := range lit.Elts {
		row, ok := unparen(el).(*ast.CompositeLit)
		if !ok {
			continue
		}
		fields := map[string]ast.Expr{}
		for j, e := range row.Elts {
			if kv, ok := e.(*ast.KeyValueExpr); ok {
				if id, ok := kv.Key.(*ast.Ident); ok {
					fields[id.Name] = kv.Value
				}
			} else if j < st.NumFields() {
				fields[st.Field(j).Name()] = e
			}
		}
		subst := func(e ast.Expr) ast.Expr {
			if s, ok := unparen(e).(*ast.SelectorExpr); ok {
				if id, ok := unparen(s.X).(*ast.Ident); ok && info.ObjectOf(id) == robj {
					if v, ok := fields[s.Sel.Name]; ok {
						return v
					}
				}
			}
			return e
		}
		chE := subst(chanExpr)
		inst := c03SendInst{ch: canonPath(info, chE), row: i}
		if !strings.HasPrefix(inst.ch, "Vaxis.") {
			continue
		}
		for _, gd := range guards {
			if gd.Cond.Tag != nil || gd.Cond.Alts != nil {
				inst.guards = append(inst.guards, condKeys(info, gd.Cond, gd.Pol)...)
				continue
			}
			ex := unparen(gd.Cond.Expr)
			pol := gd.Pol
			for {
				if u, ok := ex.(*ast.UnaryExpr); ok && u.Op == token.NOT {
					ex, pol = unparen(u.X), !pol
					continue
				}
				break
			}
			ex2 := subst(ex)
			inst.guards = append(inst.guards, exprKeys(info, ex2, pol)...)
			// `if !HasPrefix(payload, r.prefix) { continue }`: the false edge carries the prefix
			if !pol {
				continue
			}
			inst.prefixes = append(inst.prefixes, prefixOf(ex, subst)...)
		}
		// a skipping guard written as `if !cond { continue }` reaches the send on its false edge
		for _, gd := range guards {
			if gd.Cond.Tag == nil && gd.Cond.Alts == nil && !gd.Pol {
				if u, ok := unparen(gd.Cond.Expr).(*ast.UnaryExpr); ok && u.Op == token.NOT {
					inst.prefixes = append(inst.prefixes, prefixOf(u.X, subst)...)
				}
			}
		}
		out = append(out, inst)
	}
	return out
}
