package main

// c03_mouse_eval.go — rule C03.f decided by EFFECT instead of by statement shape.
//
// parseMouseEvent is a pure function of the CSI it is given (besides logging). Whatever way it is written
// (field assignments, locals collected into a composite literal, modifier tables, helper functions), its
// result over the SGR-1006 report space is what the property talks about. The function is therefore run in
// the concrete AST interpreter of c09.go (c09vm; no code of the repository is built or executed) over
//
//     button parameter 0..511  x  final M/m                                  (every bit combination, twice over)
//     a spread of column/row parameters, with and without colon sub-parameters
//     marker bytes other than exactly "<"                                     (must be refused, must not panic)
//
// and every result is compared with the reference decoding of xterm's ctlseqs (the table at the top of
// c03_mouse.go). Each obligation of the rule keeps its key; the first counter-example is the message.
// When the interpreter does not understand the code (unsupported construct), nothing is reported from here
// and the shape-based formulation of c03_mouse.go decides as before.

import (
	"fmt"
	"go/types"
)

type c03MouseCase struct {
	inter  []int64
	params [][]int64
	final  rune
}

func (k c03MouseCase) String() string {
	s := "CSI "
	for _, b := range k.inter {
		s += string(rune(b))
	}
	for i, p := range k.params {
		if i > 0 {
			s += ";"
		}
		for j, v := range p {
			if j > 0 {
				s += ":"
			}
			s += fmt.Sprint(v)
		}
	}
	return s + " " + string(k.final)
}

// mouseByEffects reports true when it has decided (and emitted) the decode obligations of C03.f.
func (x *c03Env) mouseByEffects(fi *FuncInfo) bool {
	c := x.c
	name := fi.Name
	scope := x.pk.Types.Scope()
	konst := func(n string) (int64, bool) {
		k, ok := scope.Lookup(n).(*types.Const)
		if !ok {
			return 0, false
		}
		return constToInt(types.TypeAndValue{Value: k.Val()})
	}
	var kv [6]int64
	for i, n := range []string{"ModShift", "ModAlt", "ModCtrl", "EventPress", "EventRelease", "EventMotion"} {
		v, ok := konst(n)
		if !ok {
			return false
		}
		kv[i] = v
	}
	modShift, modAlt, modCtrl, evPress, evRelease, evMotion := kv[0], kv[1], kv[2], kv[3], kv[4], kv[5]
	ap := c.P.Pkg("ansi")
	if ap == nil {
		return false
	}
	csiTN, _ := ap.Types.Scope().Lookup("CSI").(*types.TypeName)
	if csiTN == nil {
		return false
	}
	sig := fi.Obj.Type().(*types.Signature)
	if sig.Recv() != nil || sig.Params().Len() != 1 || sig.Results().Len() != 2 || !types.Identical(sig.Params().At(0).Type(), csiTN.Type()) {
		return false
	}
	// logging is inert for the decode
	if lp := c.P.Pkg("log"); lp != nil {
		for _, n := range lp.Types.Scope().Names() {
			if fn, ok := lp.Types.Scope().Lookup(n).(*types.Func); ok && fn.Exported() {
				nres := fn.Type().(*types.Signature).Results().Len()
				if _, have := c09natives[fullName(fn)]; !have && nres == 0 {
					c09natives[fullName(fn)] = func(vm *c09vm, _ any, _ []any) []any { return nil }
				}
			}
		}
	}
	vm := newC09vm(c, x.pk)
	type result struct {
		ok                          bool
		button, row, col, typ, mods int64
	}
	undecided := ""
	run := func(k c03MouseCase) (r result, panicked string, good bool) {
		defer func() {
			if rec := recover(); rec != nil {
				if a, ok := rec.(c09abort); ok {
					undecided = a.msg
					good = false
					return
				}
				panic(rec)
			}
		}()
		seq := vm.zero(csiTN.Type()).(*c09struct)
		seq.f["Final"] = int64(k.final)
		if k.inter != nil {
			in := []any{}
			for _, b := range k.inter {
				in = append(in, b)
			}
			seq.f["Intermediate"] = in
		}
		if k.params != nil {
			ps := []any{}
			for _, p := range k.params {
				sub := []any{}
				for _, v := range p {
					sub = append(sub, v)
				}
				ps = append(ps, sub)
			}
			seq.f["Parameters"] = ps
		}
		res, er, pn := vm.run(fi.Obj, nil, seq)
		if er != "" {
			undecided = er
			return r, "", false
		}
		if pn != "" {
			return r, pn, true
		}
		if len(res) != 2 {
			undecided = "parseMouseEvent does not return two values"
			return r, "", false
		}
		m, ok1 := res[0].(*c09struct)
		okv, ok2 := res[1].(bool)
		if !ok1 || !ok2 {
			undecided = "parseMouseEvent does not return (Mouse, bool)"
			return r, "", false
		}
		r.ok = okv
		for _, f := range []struct {
			n string
			p *int64
		}{{"Button", &r.button}, {"Row", &r.row}, {"Col", &r.col}, {"EventType", &r.typ}, {"Modifiers", &r.mods}} {
			v, ok := m.f[f.n].(int64)
			if !ok {
				undecided = "Mouse has no integer field " + f.n
				return r, "", false
			}
			*f.p = v
		}
		return r, "", true
	}

	// first counter-example per obligation
	type ob struct{ key, okMsg, bad string }
	obs := []*ob{}
	mk := func(key, okMsg string) *ob { o := &ob{key: key, okMsg: okMsg}; obs = append(obs, o); return o }
	fail := func(o *ob, format string, a ...any) {
		if o.bad == "" {
			o.bad = fmt.Sprintf(format, a...)
		}
	}
	oAccept := mk(name+"/every well-formed SGR report is decoded", "all reports `CSI < b;x;y M|m` are accepted without panic")
	oShift := mk(name+"/bit 4 of the button parameter means ModShift", "ModShift is reported exactly when bit 4 is set")
	oAlt := mk(name+"/bit 8 of the button parameter means ModAlt", "ModAlt is reported exactly when bit 8 is set")
	oCtrl := mk(name+"/bit 16 of the button parameter means ModCtrl", "ModCtrl is reported exactly when bit 16 is set")
	oOther := mk(name+"/no modifier besides Shift, Alt, Ctrl is reported", "Modifiers is a subset of ModShift|ModAlt|ModCtrl")
	oMotion := mk(name+"/bit 32 of the button parameter means EventMotion", "EventMotion is reported exactly when bit 32 is set")
	oButton := mk(name+"/Button = button parameter & 0xC3", "Button is bits 0,1,6,7 of the button parameter for every value")
	oCol := mk(name+"/Col = parameter 2 minus 1", "1-based report coordinate converted to 0-based")
	oRow := mk(name+"/Row = parameter 3 minus 1", "1-based report coordinate converted to 0-based")
	oPress := mk(name+"/final M means EventPress", "EventPress for final M when the motion bit is clear")
	oRelease := mk(name+"/final m means EventRelease", "EventRelease for final m when the motion bit is clear")
	oOver := mk(name+"/motion overrides press", "a report with the motion bit is never delivered as press/release")
	oMarker := mk(name+"/accepted reports carry exactly the '<' marker", "every report whose marker bytes are not exactly `<` is refused")

	evName := func(v int64) string {
		switch v {
		case evPress:
			return "EventPress"
		case evRelease:
			return "EventRelease"
		case evMotion:
			return "EventMotion"
		}
		return fmt.Sprintf("EventType(%d)", v)
	}
	check := func(k c03MouseCase) bool {
		r, pn, good := run(k)
		if !good {
			return false
		}
		if pn != "" {
			fail(oAccept, "%s makes parseMouseEvent panic (%s): the input goroutine's recover closes Vaxis", k, pn)
			return true
		}
		if !r.ok {
			fail(oAccept, "%s is refused: the mouse event is lost", k)
			return true
		}
		p0, p1, p2 := k.params[0][0], k.params[1][0], k.params[2][0]
		for _, m := range []struct {
			o    *ob
			bit  int64
			mask int64
			n    string
		}{{oShift, 4, modShift, "ModShift"}, {oAlt, 8, modAlt, "ModAlt"}, {oCtrl, 16, modCtrl, "ModCtrl"}} {
			if (r.mods&m.mask != 0) != (p0&m.bit != 0) {
				if p0&m.bit != 0 {
					fail(m.o, "%s (bit %d set) is delivered without %s (Modifiers = %d): xterm's SGR encoding carries %s in bit %d of the button parameter", k, m.bit, m.n, r.mods, m.n, m.bit)
				} else {
					fail(m.o, "%s (bit %d clear) is delivered with %s (Modifiers = %d): xterm's SGR encoding carries %s in bit %d of the button parameter", k, m.bit, m.n, r.mods, m.n, m.bit)
				}
			}
		}
		if extra := r.mods &^ (modShift | modAlt | modCtrl); extra != 0 {
			fail(oOther, "%s is delivered with Modifiers = %d: SGR-1006 has no bit for modifier mask %d", k, r.mods, extra)
		}
		if (r.typ == evMotion) != (p0&32 != 0) {
			fail(oMotion, "%s (bit 32 %s) is delivered as %s: motion is bit 32 of the button parameter", k, map[bool]string{true: "set", false: "clear"}[p0&32 != 0], evName(r.typ))
		}
		if p0&32 != 0 && (r.typ == evPress || r.typ == evRelease) {
			fail(oOver, "%s has the motion bit and is delivered as %s: motion reports are delivered as presses/releases", k, evName(r.typ))
		}
		if p0&32 == 0 {
			if k.final == 'M' && r.typ != evPress {
				fail(oPress, "%s is delivered as %s; in SGR mode `M` is press and `m` is release", k, evName(r.typ))
			}
			if k.final == 'm' && r.typ != evRelease {
				fail(oRelease, "%s is delivered as %s; in SGR mode `M` is press and `m` is release", k, evName(r.typ))
			}
		}
		if r.button != p0&0xC3 {
			fail(oButton, "%s is delivered with Button = %d; SGR-1006 encodes the button number in bits 0,1,6,7 (0xC3) of the button parameter: %d", k, r.button, p0&0xC3)
		}
		if r.col != p1-1 {
			fail(oCol, "%s is delivered with Col = %d; the report carries the 1-based column in parameter 2, so the 0-based value is %d", k, r.col, p1-1)
		}
		if r.row != p2-1 {
			fail(oRow, "%s is delivered with Row = %d; the report carries the 1-based row in parameter 3, so the 0-based value is %d", k, r.row, p2-1)
		}
		return true
	}
	sgr := []int64{'<'}
	for p0 := int64(0); p0 < 512; p0++ {
		for _, f := range []rune{'M', 'm'} {
			if !check(c03MouseCase{inter: sgr, params: [][]int64{{p0}, {3}, {7}}, final: f}) {
				goto giveUp
			}
		}
	}
	for _, xy := range [][2]int64{{1, 1}, {1, 2}, {2, 1}, {17, 224}, {224, 17}, {65535, 1}, {1, 65535}, {0, 0}, {1000, 999}} {
		for _, p0 := range []int64{0, 35, 64 + 16, 65535} {
			if !check(c03MouseCase{inter: sgr, params: [][]int64{{p0}, {xy[0]}, {xy[1]}}, final: 'M'}) ||
				!check(c03MouseCase{inter: sgr, params: [][]int64{{p0, 91}, {xy[0], 92, 93}, {xy[1], 94}}, final: 'm'}) {
				goto giveUp
			}
		}
	}
	for _, in := range [][]int64{nil, {}, {'?'}, {'>'}, {'='}, {' '}, {'<', '<'}, {'<', '?'}, {'?', '<'}, {'<', ' ', '$'}} {
		for _, f := range []rune{'M', 'm'} {
			k := c03MouseCase{inter: in, params: [][]int64{{0}, {1}, {1}}, final: f}
			r, pn, good := run(k)
			if !good {
				goto giveUp
			}
			if pn != "" {
				fail(oMarker, "%s makes parseMouseEvent panic (%s): a report without the SGR marker must be refused, not crash the input goroutine", k, pn)
			} else if r.ok {
				fail(oMarker, "%s is accepted: reports without exactly the SGR marker `<` (CSI ? … M, CSI > … m, malformed ones) are decoded as mouse events", k)
			}
		}
	}
	for _, o := range obs {
		c.check(o.bad == "", "C03.f", o.key, fi.Decl.Pos(), o.okMsg+" (decided by evaluating parseMouseEvent over the report space)", o.bad)
	}
	return true
giveUp:
	c.info("C03.f: parseMouseEvent could not be evaluated (%s); the statement-shape formulation decides", undecided)
	return false
}
