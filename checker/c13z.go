package main

// C13.j — motion reports for every button the host can name.
//
// The statement quantifies over "all mouse buttons ... and event types" and "every combination of the
// child's ... mouse modes". The motion gate of the widget is the one place where the button VALUE
// decides whether a report goes out at all: button-event tracking (1002) reports motion while a
// button is held, any-event tracking (1003) reports all of it, normal tracking (1000) none. C13.d
// decides that gate over the whole mode table, but for one held button (left) only, and the round
// trips of C13.c / C13.i run the motion classes of left/middle/right with every reporting mode set,
// where 1003 hides what "held" means. A definition of "a button is held" that is right for the
// first three buttons and wrong for others (seed C13_b_r8: `held := msg.Button < MouseNoButton`,
// which is false for MouseButton8..11 = 128..131, so their drags are dropped under 1002 alone)
// passes all of those.
//
// This rule evaluates the same end-to-end relation as C13.c
//
//     Model.Update(Mouse) -> bytes written to the PTY stand-in -> reference tokeniser
//                         -> Vaxis.handleSequence -> Mouse posted
//
// for an EventMotion with EVERY constant of type vaxis.MouseButton the root package declares (found
// by type, not from a list of names, so a constant added later is covered):
//
//   reported  for every constant that denotes a button that can be held (everything except
//             MouseNoButton and the wheel codes 64..127): under 1002 alone, 1003 alone, 1002+1003
//             and 1000+1002, each with and without 1006 and with and without alternate scroll in
//             the alternate screen (which must not matter once a reporting mode is set), a report
//             is written; under 1006 it decodes to the same button, column, row and EventMotion;
//             without 1006 it is an X10 report (only its gating is decided, as in C13.d)
//   silent    for every constant (wheel codes and MouseNoButton included): under 1000 alone, with
//             and without 1006 / alternate scroll / alternate screen, nothing is written for an
//             EventMotion (the child asked for presses and releases only)
//   intact    (folded into the two above) whatever IS written under 1006 for a wheel code in a
//             motion-reporting mode decodes to the event handed over
//
// Not judged: whether motion carrying a wheel code is reported under 1002 / 1003. A wheel cannot be
// held, no terminal produces such an event, and a maintainer may define "held" either way; the
// statement does not settle it.
//
// It is evaluation of the library's own code on concrete inputs, so it is independent of how the
// gate is written (two early returns, one switch, a helper, a table of buttons, a bit mask): only
// what is written counts. Every judged input is an event the host-side decoder can deliver
// (parseMouseEvent keeps bits 0,1,6,7 of the button parameter, so 128..131 with the motion bit is
// CSI < 160..163 ; x ; y M), hence a mismatch is a failure of the property.

import (
	"fmt"
	"go/constant"
	"go/types"
	"sort"
	"strings"
)

func init() { registerExtra("C13", c13MotionEveryButton) }

func c13MotionEveryButton(c *Ctx) {
	c.Clauses = append(c.Clauses, "C13.j motion is gated by what the child enabled for EVERY button constant of vaxis.MouseButton (discovered by type): with a button that can be held (all but MouseNoButton and the wheel codes) an EventMotion is reported under 1002 alone, 1003 alone, 1002+1003 and 1000+1002, with and without 1006 and alternate scroll/alternate screen, and under 1006 decodes to the same button, column, row and motion type; under 1000 alone no EventMotion is written for any button constant")
	c.NotDec = append(c.NotDec, "whether an EventMotion carrying a wheel code is reported under 1002/1003 (a wheel cannot be held; only that it is silent under 1000 alone and intact when written)")
	c.expect("C13.j", 14)
	x := c13lastEnv
	if x == nil || x.c != c {
		return // runC13 stopped early and said why
	}
	x.ruleJ()
}

type c13Button struct {
	name string
	val  int64
}

// mouseButtons lists the constants of the root package whose type is the type of Mouse.Button, one
// name per value (the first in name order), sorted by value.
func (x *c13Env) mouseButtons() []c13Button {
	bt := x.fieldType(x.typ(x.root, "Mouse"), "Button")
	if bt == nil {
		return nil
	}
	sc := x.root.Scope()
	seen := map[int64]bool{}
	var out []c13Button
	for _, n := range sc.Names() { // sorted
		cn, ok := sc.Lookup(n).(*types.Const)
		if !ok || !types.Identical(cn.Type(), bt) || cn.Val().Kind() != constant.Int {
			continue
		}
		v, ok := constant.Int64Val(cn.Val())
		if !ok || seen[v] {
			continue
		}
		seen[v] = true
		out = append(out, c13Button{n, v})
	}
	sort.SliceStable(out, func(i, j int) bool { return out[i].val < out[j].val })
	return out
}

func (x *c13Env) ruleJ() {
	motion := x.consts["EventMotion"]
	none := x.consts["MouseNoButton"]
	btns := x.mouseButtons()
	if len(btns) == 0 {
		x.c.undecided("C13.j", "setup/button constants", x.fnUpdate.Decl.Pos(), "no constant of the type of vaxis.Mouse.Button found: the button vocabulary named by the property has changed shape")
		return
	}
	// the xterm protocol encodes wheel buttons 4..7 as 64..67 (bit 6 set, bit 7 clear)
	wheel := func(v int64) bool { return v&0x40 != 0 && v&0x80 == 0 }
	positions := [][2]int64{{0, 0}, {2, 9}, {79, 23}}
	variants := func(base ...string) []map[string]bool {
		var out []map[string]bool
		for bits := 0; bits < 4; bits++ {
			f := map[string]bool{}
			for _, b := range base {
				f[b] = true
			}
			if bits&1 != 0 {
				f["mouseSGR"] = true
			}
			if bits&2 != 0 {
				f["altScroll"], f["smcup"] = true, true
			}
			out = append(out, f)
		}
		return out
	}
	var reporting, quiet []map[string]bool
	for _, base := range [][]string{{"mouseDrag"}, {"mouseMotion"}, {"mouseDrag", "mouseMotion"}, {"mouseButtons", "mouseDrag"}} {
		reporting = append(reporting, variants(base...)...)
	}
	quiet = variants("mouseButtons")

	for _, b := range btns {
		canHold := b.val != none && !wheel(b.val)
		if canHold || wheel(b.val) {
			v := &c13Verdict{}
			for _, flags := range reporting {
				for pi, p := range positions {
					if !flags["mouseSGR"] && pi > 0 {
						continue // X10: gating only, one position
					}
					at := fmt.Sprintf("modes %s col %d row %d", c13FlagString(flags), p[0], p[1])
					if flags["mouseSGR"] {
						if canHold {
							x.mouseRoundTrip(v, at, flags, b.val, p[0], p[1], motion)
						} else {
							x.mouseIntact(v, at, flags, b.val, p[0], p[1], motion)
						}
						continue
					}
					if !canHold {
						continue
					}
					v.n++
					r := x.run(x.fnUpdate, x.model(flags), x.mouseEv(b.val, p[0], p[1], motion))
					switch {
					case r.undecided != "":
						v.unk("%s: %s", at, r.undecided)
					case r.panicked != "":
						v.fail("%s: Update panics: %s", at, r.panicked)
					case r.writes == "":
						v.fail("%s: nothing is written although the child enabled motion reports while a button is held (button %d)", at, b.val)
					case !strings.HasPrefix(r.writes, "\x1b[M"):
						v.fail("%s: written %q is not an X10 mouse report", at, r.writes)
					}
				}
			}
			if canHold {
				x.emit("C13.j", fmt.Sprintf("term.(*Model).Update/motion with %s held: reported whenever the child set 1002 or 1003", b.name), x.fnUpdate, v,
					"a report is written in every sampled mode combination that enables drags, and under 1006 it decodes to the same button, position and motion type")
			} else {
				x.emit("C13.j", fmt.Sprintf("term.(*Model).Update/motion carrying %s: intact when reported", b.name), x.fnUpdate, v,
					"whatever is written under 1006 decodes to the same button, position and motion type")
			}
		}
		v := &c13Verdict{}
		for _, flags := range quiet {
			p := positions[1]
			at := fmt.Sprintf("modes %s", c13FlagString(flags))
			v.n++
			r := x.run(x.fnUpdate, x.model(flags), x.mouseEv(b.val, p[0], p[1], motion))
			switch {
			case r.undecided != "":
				v.unk("%s: %s", at, r.undecided)
			case r.panicked != "":
				v.fail("%s: Update panics: %s", at, r.panicked)
			case r.writes != "":
				v.fail("%s: %q is written for a motion event although the child enabled neither 1002 nor 1003", at, r.writes)
			}
		}
		x.emit("C13.j", fmt.Sprintf("term.(*Model).Update/motion with %s: nothing written under 1000 alone", b.name), x.fnUpdate, v,
			"silent with normal tracking only")
	}
}

// mouseIntact is mouseRoundTrip for an event whose reporting is not judged: nothing written is
// accepted, anything written must decode to the event handed over.
func (x *c13Env) mouseIntact(v *c13Verdict, at string, flags map[string]bool, btn, col, row, et int64) {
	r := x.run(x.fnUpdate, x.model(flags), x.mouseEv(btn, col, row, et))
	if r.undecided == "" && r.panicked == "" && r.writes == "" {
		v.n++
		return
	}
	x.mouseRoundTrip(v, at, flags, btn, col, row, et)
}
