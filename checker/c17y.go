package main

// C17 rule written after the eleventh round of seeded regressions. Decided by the AST interpreter of c17.go
// (nothing of /repo is compiled or run).
//
//  C17.k  textinput.Model.Draw in password mode. The property's drawing clause ("while the text fits the widget,
//         the drawn cursor column equals the display width of the text before the cursor") speaks about the
//         TEXT, not about what is painted in its place. A field with a mask character (SetInvisibleChar) paints
//         the mask instead of every content character; the mask has a width of its own (a narrow '*' for a wide
//         kanji, or a wide mask for narrow text). C17.g only draws unmasked fields, where the painted cell and
//         the content character are the same thing, so a Draw whose column bookkeeping follows the painted cell
//         in one place and the content character in another (col += cell.Character.Width next to
//         cursor = col + char.Width) is invisible to it. This rule closes the domain: the mask is installed by
//         interpreting the library's own SetInvisibleChar (the rule does not depend on how the mask is stored),
//         then Draw is interpreted for narrow and wide masks over narrow, wide, combining and zero-width
//         content, every cursor index, every window width; Draw must return, and when the text fits with the
//         scroll margin (by its own width and by the width of its masks) the one drawn cursor must be at
//         prompt width + width of the text before the cursor - the same column the unmasked field shows.
//         Being a comparison of effects, it judges every way of writing the loop (helper for the advance,
//         cursor computed after the loop from a width sum, index-based loops) alike.

import (
	"fmt"
	"go/token"
	"strings"
)

func init() {
	registerExtra("C17", c17DrawMasked)
}

func c17DrawMasked(c *Ctx) {
	const rule = "C17.k"
	const pkgName = "widgets/textinput"
	c.Clauses = append(c.Clauses, "C17.k textinput.Draw in password mode (interpreted: the mask is installed through SetInvisibleChar, narrow and wide masks over narrow, wide, combining and zero-width content, every cursor index and window width): Draw returns, and while the text fits the one drawn cursor is at prompt width + display width of the TEXT before the cursor, exactly as for the unmasked field")
	c.expect(rule, 2)
	m, ty := c17ExtraMachine(c)
	pk := c.P.Pkg(pkgName)
	mT := c17Named(pk, "Model")
	dr := c.P.Func(pkgName + ".(*Model).Draw")
	set := c.P.Func(pkgName + ".(*Model).SetInvisibleChar")
	fields := c17FieldNames(mT)
	if m == nil || mT == nil || dr == nil || ty.windowT == nil || !fields["content"] || !fields["cursor"] || !fields["prompt"] {
		c.undecided(rule, pkgName+".(*Model).Draw", token.NoPos, "Model.Draw or the fields content/cursor/prompt not found")
		return
	}
	if set == nil {
		c.undecided(rule, pkgName+".(*Model).SetInvisibleChar", token.NoPos, "the password-mode setter SetInvisibleChar(string) was not found: the masked field cannot be built")
		return
	}
	margin := 4
	if v, ok := c17Const(pk, "scrolloff"); ok && v >= 0 && v < 64 {
		margin = int(v)
	}
	contents := []string{"", "ab", "世", "世世世", "a世c", "世b世x", "e\u0301世e\u0301", "a\u200b世b", "世\u00ade\u0301"}
	masks := []string{"*", "世"}
	maxW := 20
	if c.Tier == "thorough" {
		contents = append(contents, "世世世世世世", "abcdefghijkl", "\u0301世a世")
		masks = append(masks, "\u2022")
		maxW = 34
	}
	setup, term, col := &c17Verdict{}, &c17Verdict{}, &c17Verdict{}
	for _, mask := range masks {
		mw := c17WidthOf(c17Clusters(mask))
		for _, prompt := range []string{"", "> "} {
			pw := c17WidthOf(c17Clusters(prompt))
			for _, ct := range contents {
				cls := c17Clusters(ct)
				need := c17WidthOf(cls)
				if len(cls)*mw > need {
					need = len(cls) * mw
				}
				for cur := 0; cur <= len(cls); cur++ {
					for w := 1; w <= maxW; w++ {
						obj := m.zero(mT, 0)
						*obj.st.f["content"] = m.mkChars(ty, ct)
						*obj.st.f["prompt"] = m.mkChars(ty, prompt)
						*obj.st.f["cursor"] = c17I(int64(cur))
						p := c17V{k: c17Ptr, ptr: &obj}
						_, _, ab := m.c17Call(set, p, c17S(mask))
						setup.runs++
						if setup.abort(ab, fmt.Sprintf("SetInvisibleChar(%q)", mask)) {
							continue
						}
						// the setter must not have edited the line
						if cc := obj.st.f["content"]; cc == nil || len(cc.elems()) != len(cls) {
							setup.fail("SetInvisibleChar(%q) on content %q changed the number of content characters", mask, ct)
							continue
						}
						win := m.zero(ty.windowT, 0)
						*win.st.f["Width"] = c17I(int64(w))
						*win.st.f["Height"] = c17I(1)
						ctx := fmt.Sprintf("password mode, mask %q (width %d): prompt=%q content=%q cursor=%d, Draw on a window %d columns wide", mask, mw, prompt, ct, cur, w)
						_, log, ab := m.c17Call(dr, p, win)
						term.runs++
						if ab != nil {
							if ab.kind == "steps" {
								term.fail("%s: Draw does not return (%s)", ctx, ab.msg)
							} else {
								term.abort(ab, ctx)
							}
							continue
						}
						if pw+need+margin >= w {
							continue // does not fit with the scroll margin: scrolling / truncation is legitimate
						}
						col.runs++
						want := fmt.Sprintf("cursor %d,0", pw+c17WidthOf(cls[:cur]))
						if strings.Join(log, ";") != want {
							col.fail("%s: drawn %v, expected [%s] (prompt width plus the display width of the text before the cursor; the mask painted in place of a character does not change where the text's cursor is - the column advance of the drawing loop and the cursor column must use the width of the same, logical, character)", ctx, log, want)
						}
					}
				}
			}
		}
	}
	if setup.witness != "" || setup.undec != "" {
		setup.record(c, rule, set.Name+"/installs the mask", set.Decl.Pos(), "")
		if setup.undec != "" {
			return
		}
	}
	term.record(c, rule, dr.Name+"/password mode: returns for every window width", dr.Decl.Pos(), fmt.Sprintf("masked Draw terminates for widths 1..%d", maxW))
	col.record(c, rule, dr.Name+"/password mode: cursor column when the text fits", dr.Decl.Pos(), "cursor drawn at prompt width + width of the text before the cursor, whatever the width of the mask")
}
