package main

// c18_interp.go — a concrete evaluator over the type-checked AST, used by the
// C18 check to obtain, WITHOUT building or running the repository, the byte
// string an SGR encoder writes for a given list of styles and the style an SGR
// consumer computes for a given parameter list. Values are ints (wrapped to
// their static type), bools, strings, slices, arrays, structs (lazy zero fields),
// pointers, string builders and function values (function literals with the
// frame they capture, method values, declared functions). Everything the evaluator does not understand
// aborts the run with a reason (the rule then reports `undecided`); an
// out-of-range index or nil dereference of the analysed code is recorded as a
// simulated panic (the rule reports it as a violation of C18.e).

import (
	"fmt"
	"go/ast"
	"go/constant"
	"go/token"
	"go/types"
	"strconv"
	"strings"
	"unicode/utf8"

	"golang.org/x/tools/go/packages"
)

type c18Kind uint8

const (
	c18Unknown c18Kind = iota
	c18Int
	c18Bool
	c18Str
	c18Slice
	c18Struct
	c18Ptr
	c18Nil
	c18Builder
	c18Tuple
	c18Array // fixed-size array: value semantics (c18Copy copies the elements); ref is a *c18SliceV over the whole backing
	c18Func  // function value: closure, method value or declared function (ref is a *c18FuncV)
	c18Map   // map value with reference semantics (ref is a *c18MapV, see c18_map.go); a nil map is c18Nil
)

// c18FuncV is a function value: a function literal with the frame it was created in (variables are captured by
// reference), or a declared function / method with its bound receiver.
type c18FuncV struct {
	lit  *ast.FuncLit
	fr   *c18Frame
	fi   *FuncInfo
	recv *c18Val
	ext  *types.Func // a function outside the repository used as a value; called through m.ext (callExtValue)
}

func (v c18Val) fn() *c18FuncV { p, _ := v.ref.(*c18FuncV); return p }

const c18MaxArray = 4096

type c18Val struct {
	k   c18Kind
	b   bool
	i   int64
	s   string
	tm  string // strings only: the template the string was built from ("%d" for a formatted number, see c18_frag.go); "" = the string itself
	ref any    // *c18SliceV | *c18StructV | *c18Val (pointer target) | *strings.Builder | []c18Val (tuple) | *c18FuncV
}

type c18SliceV struct {
	arr    *[]c18Val
	lo, hi int
}

type c18StructV struct {
	t *types.Struct
	f []*c18Val // lazily materialised fields
}

func (s *c18StructV) field(i int) *c18Val {
	if s.f[i] == nil {
		v := c18Zero(s.t.Field(i).Type())
		s.f[i] = &v
	}
	return s.f[i]
}

func (s *c18StructV) fieldByName(name string) *c18Val {
	for i := 0; i < s.t.NumFields(); i++ {
		if s.t.Field(i).Name() == name {
			return s.field(i)
		}
	}
	return nil
}

func c18IntV(i int64) c18Val   { return c18Val{k: c18Int, i: i} }
func c18StrV(s string) c18Val  { return c18Val{k: c18Str, s: s} }
func c18BoolV(b bool) c18Val   { return c18Val{k: c18Bool, b: b} }
func c18PtrV(p *c18Val) c18Val { return c18Val{k: c18Ptr, ref: p} }

func (v c18Val) ptr() *c18Val          { p, _ := v.ref.(*c18Val); return p }
func (v c18Val) strct() *c18StructV    { p, _ := v.ref.(*c18StructV); return p }
func (v c18Val) slice() *c18SliceV     { p, _ := v.ref.(*c18SliceV); return p }
func (v c18Val) bld() *strings.Builder { p, _ := v.ref.(*strings.Builder); return p }

func c18IsBuilderType(t types.Type) bool {
	if n, ok := t.(*types.Named); ok && n.Obj().Pkg() != nil {
		full := n.Obj().Pkg().Path() + "." + n.Obj().Name()
		return full == "strings.Builder" || full == "bytes.Buffer"
	}
	return false
}

func c18Zero(t types.Type) c18Val {
	if c18IsBuilderType(t) {
		return c18Val{k: c18Builder, ref: &strings.Builder{}}
	}
	switch u := t.Underlying().(type) {
	case *types.Basic:
		switch {
		case u.Info()&types.IsBoolean != 0:
			return c18BoolV(false)
		case u.Info()&types.IsInteger != 0:
			return c18IntV(0)
		case u.Info()&types.IsString != 0:
			return c18StrV("")
		}
		return c18Val{}
	case *types.Struct:
		return c18Val{k: c18Struct, ref: &c18StructV{t: u, f: make([]*c18Val, u.NumFields())}}
	case *types.Array:
		if u.Len() < 0 || u.Len() > c18MaxArray {
			return c18Val{}
		}
		arr := make([]c18Val, u.Len())
		for i := range arr {
			arr[i] = c18Zero(u.Elem())
		}
		return c18Val{k: c18Array, ref: &c18SliceV{arr: &arr, lo: 0, hi: len(arr)}}
	case *types.Pointer, *types.Slice, *types.Map, *types.Chan, *types.Signature, *types.Interface:
		return c18Val{k: c18Nil}
	}
	return c18Val{}
}

// c18Copy gives value semantics to structs (deep copy of materialised fields); slices, pointers and builders share.
func c18Copy(v c18Val) c18Val {
	if v.k == c18Array {
		src := v.slice()
		arr := make([]c18Val, src.hi-src.lo)
		for i := range arr {
			arr[i] = c18Copy((*src.arr)[src.lo+i])
		}
		return c18Val{k: c18Array, ref: &c18SliceV{arr: &arr, lo: 0, hi: len(arr)}}
	}
	if v.k != c18Struct {
		return v
	}
	src := v.strct()
	dst := &c18StructV{t: src.t, f: make([]*c18Val, len(src.f))}
	for i, f := range src.f {
		if f != nil {
			c := c18Copy(*f)
			dst.f[i] = &c
		}
	}
	return c18Val{k: c18Struct, ref: dst}
}

// c18Equal: Go's == on the modelled values. ok=false when not decidable.
func c18Equal(a, b c18Val) (eq bool, ok bool) {
	if a.k == c18Unknown || b.k == c18Unknown {
		return false, false
	}
	if a.k == c18Nil || b.k == c18Nil {
		if a.k == c18Nil && b.k == c18Nil {
			return true, true
		}
		o := a
		if a.k == c18Nil {
			o = b
		}
		if o.k == c18Slice {
			return false, true // a non-nil slice header
		}
		return false, true
	}
	if a.k != b.k {
		return false, false
	}
	switch a.k {
	case c18Int:
		return a.i == b.i, true
	case c18Bool:
		return a.b == b.b, true
	case c18Str:
		return a.s == b.s, true
	case c18Ptr:
		return a.ptr() == b.ptr(), true
	case c18Array:
		sa, sb := a.slice(), b.slice()
		if sa.hi-sa.lo != sb.hi-sb.lo {
			return false, false
		}
		for i := 0; i < sa.hi-sa.lo; i++ {
			e, ok := c18Equal((*sa.arr)[sa.lo+i], (*sb.arr)[sb.lo+i])
			if !ok {
				return false, false
			}
			if !e {
				return false, true
			}
		}
		return true, true
	case c18Struct:
		sa, sb := a.strct(), b.strct()
		if sa.t.NumFields() != sb.t.NumFields() {
			return false, false
		}
		for i := 0; i < sa.t.NumFields(); i++ {
			e, ok := c18Equal(*sa.field(i), *sb.field(i))
			if !ok {
				return false, false
			}
			if !e {
				return false, true
			}
		}
		return true, true
	}
	return false, false
}

func c18WrapInt(v int64, t types.Type) int64 {
	if t == nil {
		return v
	}
	b, ok := t.Underlying().(*types.Basic)
	if !ok {
		return v
	}
	switch b.Kind() {
	case types.Uint8:
		return int64(uint8(v))
	case types.Int8:
		return int64(int8(v))
	case types.Uint16:
		return int64(uint16(v))
	case types.Int16:
		return int64(int16(v))
	case types.Uint32:
		return int64(uint32(v))
	case types.Int32:
		return int64(int32(v))
	}
	return v
}

// simulated panic of the analysed code / abort of the evaluator
type c18PanicT struct{ msg string }
type c18AbortT struct{ msg string }

type c18Event struct {
	call *ast.CallExpr
	text string
	tmpl string // the format string the text was produced from (Printf-like sinks), else the text itself
}

type c18Machine struct {
	p         *Program
	funcCache map[*types.Func]*FuncInfo
	globals   map[types.Object]*c18Val // package-level variables (memo + overrides)
	globalBad map[types.Object]string  // package-level variables whose init() could not be evaluated (see c18_map.go)
	override  map[types.Object]string  // string overrides of package-level variables (legacy-sgr variant)
	sink      SinkFn                   // terminal sink (render region); nil for whole-function runs
	out       strings.Builder
	events    []c18Event
	steps     int
	depth     int
	trace     bool // record events
	swtabs    map[*ast.SwitchStmt]*c18SwitchTab
	calls     map[*ast.CallExpr]*c18CallInfo
	// ext (optional) models calls of functions outside the repository for another rule's runs (C16.k: uniseg line
	// breaking over a small alphabet); ok=false = no model, the call is treated as before
	ext func(m *c18Machine, fr *c18Frame, full string, call *ast.CallExpr) (v c18Val, ok bool)
	// extSegmenter: ext also replaces the built-in model of uniseg.FirstGraphemeClusterInString (C11.n)
	extSegmenter bool
}

type c18CallInfo struct {
	fn        *types.Func
	full      string
	sinkKnown bool
	isSink    bool
	sinkArg   int
	sinkFmt   bool
}

// c18SwitchTab: jump table of a tagged switch whose case expressions are all integer or string constants.
type c18SwitchTab struct {
	ok   bool
	ints map[int64]*ast.CaseClause
	strs map[string]*ast.CaseClause
	def  *ast.CaseClause
}

func (m *c18Machine) switchTab(fr *c18Frame, s *ast.SwitchStmt) *c18SwitchTab {
	if t, ok := m.swtabs[s]; ok {
		return t
	}
	t := &c18SwitchTab{ok: true, ints: map[int64]*ast.CaseClause{}, strs: map[string]*ast.CaseClause{}}
	for _, cl := range s.Body.List {
		cc := cl.(*ast.CaseClause)
		if cc.List == nil {
			t.def = cc
			continue
		}
		for _, e := range cc.List {
			tv, ok := fr.info.Types[e]
			if !ok || tv.Value == nil {
				t.ok = false
				break
			}
			switch tv.Value.Kind() {
			case constant.Int:
				i, exact := constant.Int64Val(tv.Value)
				if !exact {
					t.ok = false
				} else if _, dup := t.ints[i]; !dup {
					t.ints[i] = cc
				}
			case constant.String:
				sv := constant.StringVal(tv.Value)
				if _, dup := t.strs[sv]; !dup {
					t.strs[sv] = cc
				}
			default:
				t.ok = false
			}
		}
	}
	if m.swtabs == nil {
		m.swtabs = map[*ast.SwitchStmt]*c18SwitchTab{}
	}
	m.swtabs[s] = t
	return t
}

func newC18Machine(p *Program) *c18Machine {
	return &c18Machine{p: p, funcCache: map[*types.Func]*FuncInfo{}, globals: map[types.Object]*c18Val{}, override: map[types.Object]string{}, trace: true}
}

func (m *c18Machine) setOverrides(o map[types.Object]string) {
	m.override = o
	m.globals = map[types.Object]*c18Val{}
	m.globalBad = nil
}

func (m *c18Machine) abort(format string, a ...any) {
	panic(c18AbortT{fmt.Sprintf(format, a...)})
}

func (m *c18Machine) gopanic(format string, a ...any) {
	panic(c18PanicT{fmt.Sprintf(format, a...)})
}

type c18Frame struct {
	info   *types.Info
	pk     *packages.Package
	env    map[types.Object]*c18Val
	ret    []c18Val
	lax    bool      // region mode: unbound locals read as unknown
	parent *c18Frame // frame a function literal was created in (its free variables live there)
}

// lookup finds the storage of a local variable in the frame or, for the body of a function literal, in the frames
// enclosing it.
func (fr *c18Frame) lookup(obj types.Object) (*c18Val, bool) {
	for f := fr; f != nil; f = f.parent {
		if b, ok := f.env[obj]; ok {
			return b, true
		}
	}
	return nil, false
}

const (
	c18CtlNone = iota
	c18CtlBreak
	c18CtlContinue
	c18CtlReturn
)

type c18Ctl struct {
	kind  int
	label string
}

// protect runs f and converts simulated panics / aborts into return values.
func (m *c18Machine) protect(f func()) (panicMsg, abortMsg string) {
	defer func() {
		if r := recover(); r != nil {
			switch t := r.(type) {
			case c18PanicT:
				panicMsg = t.msg
			case c18AbortT:
				abortMsg = t.msg
			default:
				panic(r)
			}
		}
	}()
	m.steps = 0
	m.depth = 0
	f()
	return
}

func (m *c18Machine) funcInfo(fn *types.Func) *FuncInfo {
	if fi, ok := m.funcCache[fn]; ok {
		return fi
	}
	fi := m.p.FuncOfObj(fn)
	m.funcCache[fn] = fi
	return fi
}

func (m *c18Machine) pkgOf(obj types.Object) *packages.Package {
	if obj.Pkg() == nil {
		return nil
	}
	return m.p.Pkgs[obj.Pkg().Path()]
}

// global returns the storage of a package-level variable, initialised from its declaration.
func (m *c18Machine) global(obj types.Object) *c18Val {
	if msg, bad := m.globalBad[obj]; bad {
		m.abort("%s", msg)
	}
	if b, ok := m.globals[obj]; ok {
		return b
	}
	if s, ok := m.override[obj]; ok {
		v := c18StrV(s)
		m.globals[obj] = &v
		return &v
	}
	pk := m.pkgOf(obj)
	if pk == nil {
		m.abort("package-level variable %s of a package outside the repository", obj.Name())
	}
	for _, f := range pk.Syntax {
		for _, d := range f.Decls {
			gd, ok := d.(*ast.GenDecl)
			if !ok || gd.Tok != token.VAR {
				continue
			}
			for _, sp := range gd.Specs {
				vs := sp.(*ast.ValueSpec)
				for i, n := range vs.Names {
					if pk.TypesInfo.Defs[n] != obj {
						continue
					}
					var v c18Val
					if i < len(vs.Values) && len(vs.Values) == len(vs.Names) {
						fr := &c18Frame{info: pk.TypesInfo, pk: pk, env: map[types.Object]*c18Val{}}
						v = c18Copy(m.eval(fr, vs.Values[i]))
					} else if len(vs.Values) == 0 {
						v = c18Zero(obj.Type())
					} else {
						m.abort("package-level variable %s has a multi-value initialiser", obj.Name())
					}
					m.globals[obj] = &v
					m.runInits(pk, obj)
					return &v
				}
			}
		}
	}
	m.abort("declaration of package-level variable %s not found", obj.Name())
	return nil
}

// ---------------------------------------------------------------- calls

// callFunc interprets a repository function. recv is nil for plain functions.
func (m *c18Machine) callFunc(fi *FuncInfo, recv *c18Val, args []c18Val, ellipsis bool) []c18Val {
	if fi == nil || fi.Decl.Body == nil {
		m.abort("function without body")
	}
	return m.invoke(fi.Name, fi.Pkg, fi.Decl.Recv, fi.Decl.Type, fi.Decl.Body, fi.Obj.Type().(*types.Signature), nil, recv, args, ellipsis)
}

// callValue calls a function value (closure, method value, declared function).
func (m *c18Machine) callValue(f *c18FuncV, args []c18Val, ellipsis bool) []c18Val {
	if f == nil {
		m.gopanic("call of a nil function value")
	}
	if f.lit != nil {
		sig, ok := f.fr.info.TypeOf(f.lit).(*types.Signature)
		if !ok {
			m.abort("function literal without a signature")
		}
		return m.invoke("function literal", f.fr.pk, nil, f.lit.Type, f.lit.Body, sig, f.fr, nil, args, ellipsis)
	}
	if f.ext != nil && f.fi == nil {
		return m.callExtValue(f.ext, args)
	}
	return m.callFunc(f.fi, f.recv, args, ellipsis)
}

// callExtValue calls a function outside the repository through a function value: the rule's model (m.ext) reads its
// arguments from a call expression, so one is synthesised whose arguments are identifiers bound to the values.
func (m *c18Machine) callExtValue(fn *types.Func, args []c18Val) []c18Val {
	if m.ext == nil {
		m.abort("call of %s through a function value (outside the repository, no model)", fullName(fn))
	}
	info := &types.Info{Uses: map[*ast.Ident]types.Object{}, Defs: map[*ast.Ident]types.Object{}, Types: map[ast.Expr]types.TypeAndValue{}, Selections: map[*ast.SelectorExpr]*types.Selection{}}
	fr := &c18Frame{info: info, env: map[types.Object]*c18Val{}}
	fun := ast.NewIdent(fn.Name())
	info.Uses[fun] = fn
	call := &ast.CallExpr{Fun: fun}
	sig, _ := fn.Type().(*types.Signature)
	for i := range args {
		id := ast.NewIdent(fmt.Sprintf("arg%d", i))
		var t types.Type = types.Typ[types.Invalid]
		if sig != nil && i < sig.Params().Len() {
			t = sig.Params().At(i).Type()
		}
		v := types.NewVar(token.NoPos, fn.Pkg(), id.Name, t)
		info.Uses[id] = v
		a := args[i]
		fr.env[v] = &a
		call.Args = append(call.Args, id)
	}
	v, ok := m.ext(m, fr, fullName(fn), call)
	if !ok {
		m.abort("call of %s through a function value (outside the repository, no model)", fullName(fn))
	}
	if v.k == c18Tuple {
		if vs, isT := v.ref.([]c18Val); isT {
			return vs
		}
	}
	return []c18Val{v}
}

// invoke interprets a function body. parent is the defining frame of a function literal (nil for declared functions).
func (m *c18Machine) invoke(name string, pk *packages.Package, recvList *ast.FieldList, ftype *ast.FuncType, body *ast.BlockStmt, sig *types.Signature, parent *c18Frame, recv *c18Val, args []c18Val, ellipsis bool) []c18Val {
	m.depth++
	defer func() { m.depth-- }()
	if m.depth > 24 {
		m.abort("call depth exceeded in %s", name)
	}
	info := pk.TypesInfo
	fr := &c18Frame{info: info, pk: pk, env: map[types.Object]*c18Val{}, parent: parent, lax: parent != nil && parent.lax}
	if recvList != nil && recv != nil {
		for _, f := range recvList.List {
			for _, n := range f.Names {
				if n.Name != "_" {
					v := c18Copy(*recv)
					fr.env[info.Defs[n]] = &v
				}
			}
		}
	}
	np := sig.Params().Len()
	i := 0
	for _, f := range ftype.Params.List {
		names := f.Names
		if len(names) == 0 {
			i++
			continue
		}
		for _, n := range names {
			var v c18Val
			if sig.Variadic() && i == np-1 && !ellipsis {
				rest := []c18Val{}
				if i < len(args) {
					for _, a := range args[i:] {
						rest = append(rest, c18Copy(a))
					}
				}
				v = c18Val{k: c18Slice, ref: &c18SliceV{arr: &rest, lo: 0, hi: len(rest)}}
			} else if i < len(args) {
				v = c18Copy(args[i])
			} else {
				m.abort("missing argument %d in call of %s", i, name)
			}
			if n.Name != "_" {
				fr.env[info.Defs[n]] = &v
			}
			i++
		}
	}
	var named []types.Object
	if ftype.Results != nil {
		for _, f := range ftype.Results.List {
			for _, n := range f.Names {
				v := c18Zero(info.Defs[n].Type())
				fr.env[info.Defs[n]] = &v
				named = append(named, info.Defs[n])
			}
		}
	}
	ctl := m.block(fr, body.List)
	if ctl.kind == c18CtlReturn && fr.ret != nil {
		return fr.ret
	}
	if len(named) > 0 {
		var out []c18Val
		for _, o := range named {
			out = append(out, *fr.env[o])
		}
		return out
	}
	return nil
}

func (m *c18Machine) toAny(v c18Val) any {
	switch v.k {
	case c18Int:
		return v.i
	case c18Str:
		return v.s
	case c18Bool:
		return v.b
	}
	m.abort("value of kind %d passed to a formatting function", v.k)
	return nil
}

func (m *c18Machine) sprintf(format c18Val, args []c18Val) string {
	if format.k != c18Str {
		m.abort("format string is not a known string")
	}
	as := make([]any, len(args))
	for i, a := range args {
		as[i] = m.toAny(a)
	}
	return fmt.Sprintf(format.s, as...)
}

// spread evaluates call arguments; a trailing `xs...` is expanded.
func (m *c18Machine) evalArgs(fr *c18Frame, call *ast.CallExpr, from int, spread bool) []c18Val {
	var out []c18Val
	for i := from; i < len(call.Args); i++ {
		v := m.eval(fr, call.Args[i])
		if spread && call.Ellipsis.IsValid() && i == len(call.Args)-1 {
			switch v.k {
			case c18Slice:
				sl := v.slice()
				out = append(out, (*sl.arr)[sl.lo:sl.hi]...)
			case c18Nil:
			default:
				m.abort("cannot expand variadic argument")
			}
			continue
		}
		out = append(out, v)
	}
	return out
}

func (m *c18Machine) builderOf(v c18Val) *strings.Builder {
	if v.k == c18Ptr && v.ptr() != nil {
		v = *v.ptr()
	}
	if v.k == c18Builder {
		return v.bld()
	}
	return nil
}

func (m *c18Machine) emit(call *ast.CallExpr, b *strings.Builder, text string) {
	m.emitT(call, b, text, text)
}

func (m *c18Machine) emitT(call *ast.CallExpr, b *strings.Builder, text, tmpl string) {
	if b != nil {
		b.WriteString(text)
	} else {
		m.out.WriteString(text)
	}
	if m.trace {
		m.events = append(m.events, c18Event{call, text, tmpl})
	}
}

func (m *c18Machine) strArg(v c18Val, what string) string {
	if v.k != c18Str {
		m.abort("%s: argument is not a known string", what)
	}
	return v.s
}

func (m *c18Machine) call(fr *c18Frame, call *ast.CallExpr) c18Val {
	info := fr.info
	fun := unparen(call.Fun)
	// conversion
	if tv, ok := info.Types[fun]; ok && tv.IsType() {
		if len(call.Args) != 1 {
			m.abort("conversion with %d arguments", len(call.Args))
		}
		v := m.eval(fr, call.Args[0])
		switch u := tv.Type.Underlying().(type) {
		case *types.Basic:
			switch {
			case u.Info()&types.IsInteger != 0:
				if v.k == c18Int {
					return c18IntV(c18WrapInt(v.i, tv.Type))
				}
				return c18Val{}
			case u.Info()&types.IsString != 0:
				if v.k == c18Str {
					return v
				}
				if v.k == c18Unknown {
					return v
				}
				if r, ok := m.fragToString(v, info.TypeOf(call.Args[0])); ok {
					return r
				}
				m.abort("conversion of a non-string value to string")
			}
			return c18Val{}
		case *types.Struct:
			return c18Copy(v)
		case *types.Slice:
			if r, ok := m.fragToSlice(v, u); ok {
				return r
			}
		}
		m.abort("unsupported conversion to %s", tv.Type)
	}
	// builtins
	if id, ok := fun.(*ast.Ident); ok {
		if b, ok := info.Uses[id].(*types.Builtin); ok {
			return m.builtin(fr, b.Name(), call)
		}
	}
	ci := m.calls[call]
	if ci == nil {
		ci = &c18CallInfo{fn: calleeOf(info, call)}
		if ci.fn != nil {
			ci.full = fullName(ci.fn)
		}
		if m.calls == nil {
			m.calls = map[*ast.CallExpr]*c18CallInfo{}
		}
		m.calls[call] = ci
	}
	fn := ci.fn
	if fn == nil {
		// call of a function value: a local closure, a method value, a function stored in a variable or field
		fv := m.eval(fr, call.Fun)
		switch fv.k {
		case c18Func:
			args := m.evalArgs(fr, call, 0, false)
			ret := m.callValue(fv.fn(), args, call.Ellipsis.IsValid())
			switch len(ret) {
			case 0:
				return c18Val{}
			case 1:
				return ret[0]
			}
			return c18Val{k: c18Tuple, ref: ret}
		case c18Nil:
			m.gopanic("call of a nil function value")
		}
		m.abort("dynamic call %s", types.ExprString(call.Fun))
	}
	// terminal sink of the region mode
	if m.sink != nil {
		if !ci.sinkKnown {
			ci.sinkArg, ci.sinkFmt, _, ci.isSink = m.sink(fr.pk, call, fn)
			ci.sinkKnown = true
		}
		if arg, isFmt := ci.sinkArg, ci.sinkFmt; ci.isSink && arg < len(call.Args) {
			f := m.eval(fr, call.Args[arg])
			text := ""
			if isFmt {
				text = m.sprintf(f, m.evalArgs(fr, call, arg+1, true))
			} else {
				text = m.strArg(f, "sink")
			}
			// the template: the format string, or a stored string written as it is (a string computed by a
			// call, e.g. tparm(...), has no template: its key is derived from the text)
			tmpl := ""
			if isFmt {
				tmpl = f.s
			} else if f.tm != "" {
				tmpl = f.tm
			} else if _, computed := unparen(call.Args[arg]).(*ast.CallExpr); !computed {
				tmpl = text
			}
			m.emitT(call, nil, text, tmpl)
			return c18Val{k: c18Tuple, ref: []c18Val{c18IntV(int64(len(text))), {k: c18Nil}}}
		}
	}
	full := ci.full
	switch full {
	case "strings.HasPrefix", "strings.HasSuffix", "strings.Contains", "strings.TrimPrefix", "strings.TrimSuffix", "strings.Cut", "strings.Split", "strings.ReplaceAll", "strings.Index":
		args := m.evalArgs(fr, call, 0, false)
		for _, a := range args {
			if a.k != c18Str {
				return c18Val{}
			}
		}
		switch full {
		case "strings.HasPrefix":
			return c18BoolV(strings.HasPrefix(args[0].s, args[1].s))
		case "strings.HasSuffix":
			return c18BoolV(strings.HasSuffix(args[0].s, args[1].s))
		case "strings.Contains":
			return c18BoolV(strings.Contains(args[0].s, args[1].s))
		case "strings.Index":
			return c18IntV(int64(strings.Index(args[0].s, args[1].s)))
		case "strings.TrimPrefix":
			return c18StrV(strings.TrimPrefix(args[0].s, args[1].s))
		case "strings.TrimSuffix":
			return c18StrV(strings.TrimSuffix(args[0].s, args[1].s))
		case "strings.ReplaceAll":
			return c18StrV(strings.ReplaceAll(args[0].s, args[1].s, args[2].s))
		case "strings.Cut":
			a, b, ok := strings.Cut(args[0].s, args[1].s)
			return c18Val{k: c18Tuple, ref: []c18Val{c18StrV(a), c18StrV(b), c18BoolV(ok)}}
		case "strings.Split":
			parts := strings.Split(args[0].s, args[1].s)
			arr := make([]c18Val, len(parts))
			for i, p := range parts {
				arr[i] = c18StrV(p)
			}
			return c18Val{k: c18Slice, ref: &c18SliceV{arr: &arr, lo: 0, hi: len(arr)}}
		}
	case "strconv.Atoi":
		a := m.eval(fr, call.Args[0])
		if a.k != c18Str {
			return c18Val{k: c18Tuple, ref: []c18Val{{}, {}}}
		}
		n, err := strconv.Atoi(a.s)
		ev := c18Val{k: c18Nil}
		if err != nil {
			ev = c18StrV("error: " + err.Error())
		}
		return c18Val{k: c18Tuple, ref: []c18Val{c18IntV(int64(n)), ev}}
	case "strconv.Itoa":
		a := m.eval(fr, call.Args[0])
		if a.k != c18Int {
			return c18Val{}
		}
		return c18NumStr(strconv.Itoa(int(a.i)))
	case "strconv.FormatInt", "strconv.FormatUint", "strconv.AppendInt", "strconv.AppendUint",
		"strings.Builder.Write", "bytes.Buffer.Write", "strings.Repeat", "strings.Join":
		return m.fragCall(fr, call, full)
	case "fmt.Sprintf":
		f := m.eval(fr, call.Args[0])
		r := c18StrV(m.sprintf(f, m.evalArgs(fr, call, 1, true)))
		if r.s != f.s {
			r.tm = c18Tmpl(f)
		}
		return r
	case "fmt.Fprintf", "fmt.Fprint":
		w := m.eval(fr, call.Args[0])
		b := m.builderOf(w)
		if b == nil {
			m.abort("%s to a writer that is neither the tracked sink nor a local builder", full)
		}
		text, tmpl := "", ""
		if full == "fmt.Fprintf" {
			f := m.eval(fr, call.Args[1])
			text = m.sprintf(f, m.evalArgs(fr, call, 2, true))
			tmpl = f.s
		} else {
			for _, a := range m.evalArgs(fr, call, 1, true) {
				text += fmt.Sprint(m.toAny(a))
			}
			tmpl = text
		}
		m.emitT(call, b, text, tmpl)
		return c18Val{k: c18Tuple, ref: []c18Val{c18IntV(int64(len(text))), {k: c18Nil}}}
	case "strings.Builder.WriteString", "bytes.Buffer.WriteString", "strings.Builder.String", "bytes.Buffer.String",
		"strings.Builder.Len", "bytes.Buffer.Len", "strings.Builder.WriteByte", "bytes.Buffer.WriteByte", "strings.Builder.WriteRune", "bytes.Buffer.WriteRune",
		"strings.Builder.Reset", "bytes.Buffer.Reset", "strings.Builder.Grow", "bytes.Buffer.Grow":
		sel, _ := fun.(*ast.SelectorExpr)
		if sel == nil {
			m.abort("builder method value")
		}
		b := m.builderOf(m.eval(fr, sel.X))
		if b == nil {
			m.abort("method %s on an unknown builder", fn.Name())
		}
		switch fn.Name() {
		case "WriteString":
			av := m.eval(fr, call.Args[0])
			text := m.strArg(av, "WriteString")
			tmpl := ""
			if av.tm != "" {
				tmpl = av.tm
			} else if _, computed := unparen(call.Args[0]).(*ast.CallExpr); !computed {
				tmpl = text
			}
			m.emitT(call, b, text, tmpl)
			return c18Val{k: c18Tuple, ref: []c18Val{c18IntV(int64(len(text))), {k: c18Nil}}}
		case "WriteByte":
			v := m.eval(fr, call.Args[0])
			if v.k != c18Int {
				m.abort("WriteByte of an unknown byte")
			}
			m.emit(call, b, string([]byte{byte(v.i)}))
			return c18Val{k: c18Nil}
		case "WriteRune":
			v := m.eval(fr, call.Args[0])
			if v.k != c18Int {
				m.abort("WriteRune of an unknown rune")
			}
			m.emit(call, b, string(rune(v.i)))
			return c18Val{k: c18Tuple, ref: []c18Val{c18IntV(int64(utf8.RuneLen(rune(v.i)))), {k: c18Nil}}}
		case "String":
			return c18StrV(b.String())
		case "Len":
			return c18IntV(int64(b.Len()))
		case "Reset":
			b.Reset()
			return c18Val{}
		case "Grow":
			return c18Val{}
		}
	case "github.com/rivo/uniseg.FirstGraphemeClusterInString":
		// a rule's own model of the segmenter (m.ext with m.extSegmenter, C11.n) takes precedence over the built-in one
		if m.ext != nil && m.extSegmenter {
			if v, ok := m.ext(m, fr, full, call); ok {
				return v
			}
		}
		// model: the first rune is the cluster, width 1 (the check only feeds single-rune ASCII graphemes)
		a := m.eval(fr, call.Args[0])
		if a.k != c18Str || a.s == "" {
			m.abort("FirstGraphemeClusterInString on an unknown or empty string")
		}
		_, size := utf8.DecodeRuneInString(a.s)
		return c18Val{k: c18Tuple, ref: []c18Val{c18StrV(a.s[:size]), c18StrV(a.s[size:]), c18IntV(1), c18IntV(-1)}}
	}
	if fn.Pkg() != nil && fn.Pkg().Path() == modPath+"/log" {
		for _, a := range call.Args { // arguments are still evaluated (they may index)
			m.eval(fr, a)
		}
		return c18Val{}
	}
	if full == modPath+".gwidth" {
		return c18Val{}
	}
	fi := m.funcInfo(fn)
	if fi == nil && m.ext != nil {
		if v, ok := m.ext(m, fr, full, call); ok {
			return v
		}
	}
	if fi == nil {
		m.abort("call of %s (outside the repository, no model)", full)
	}
	sig := fn.Type().(*types.Signature)
	var recv *c18Val
	if sig.Recv() != nil {
		sel, ok := fun.(*ast.SelectorExpr)
		if !ok {
			m.abort("method expression call")
		}
		recv = m.recvOf(fr, sel, sig)
	}
	args := m.evalArgs(fr, call, 0, false)
	ret := m.callFunc(fi, recv, args, call.Ellipsis.IsValid())
	switch len(ret) {
	case 0:
		return c18Val{}
	case 1:
		return ret[0]
	}
	return c18Val{k: c18Tuple, ref: ret}
}

// recvOf evaluates the receiver of the method selection sel (x.m) for a method with signature sig.
func (m *c18Machine) recvOf(fr *c18Frame, sel *ast.SelectorExpr, sig *types.Signature) *c18Val {
	info := fr.info
	selection := info.Selections[sel]
	if selection == nil {
		m.abort("unresolved method selection")
	}
	_, wantPtr := sig.Recv().Type().(*types.Pointer)
	path := selection.Index()
	var base c18Val
	_, xIsPtr := info.TypeOf(sel.X).Underlying().(*types.Pointer)
	if wantPtr && !xIsPtr && len(path) == 1 {
		base = c18PtrV(m.lvalue(fr, sel.X))
	} else {
		base = m.eval(fr, sel.X)
		for _, idx := range path[:len(path)-1] {
			if base.k == c18Ptr {
				if base.ptr() == nil {
					m.gopanic("nil pointer dereference")
				}
				base = *base.ptr()
			}
			if base.k != c18Struct {
				m.abort("promoted method through a non-struct value")
			}
			base = *base.strct().field(idx)
		}
		if !wantPtr && base.k == c18Ptr {
			if base.ptr() == nil {
				m.gopanic("nil pointer dereference")
			}
			base = *base.ptr()
		}
		if wantPtr && base.k != c18Ptr && base.k != c18Nil && base.k != c18Unknown {
			m.abort("pointer-receiver method through an embedded value")
		}
	}
	return &base
}

func (m *c18Machine) lenOf(v c18Val) (int, bool) {
	switch v.k {
	case c18Str:
		return len(v.s), true
	case c18Slice, c18Array:
		sl := v.slice()
		return sl.hi - sl.lo, true
	case c18Nil:
		return 0, true
	case c18Map:
		return len(v.mp().keys), true
	case c18Ptr: // len(p) of a pointer to an array
		if t := v.ptr(); t != nil && t.k == c18Array {
			sl := t.slice()
			return sl.hi - sl.lo, true
		}
	}
	return 0, false
}

func (m *c18Machine) builtin(fr *c18Frame, name string, call *ast.CallExpr) c18Val {
	switch name {
	case "len", "cap":
		v := m.eval(fr, call.Args[0])
		if n, ok := m.lenOf(v); ok {
			return c18IntV(int64(n))
		}
		return c18Val{}
	case "make":
		t := fr.info.TypeOf(call.Args[0])
		if _, isChan := t.Underlying().(*types.Chan); isChan {
			return c18Val{} // channels are not modelled: an unknown value (any use of it aborts)
		}
		if mt, ok := t.Underlying().(*types.Map); ok {
			for _, a := range call.Args[1:] {
				m.eval(fr, a) // size hint: evaluated for its effects only
			}
			return c18NewMap(mt)
		}
		if _, ok := t.Underlying().(*types.Slice); !ok {
			m.abort("make of %s", t)
		}
		n := 0
		if len(call.Args) > 1 {
			v := m.eval(fr, call.Args[1])
			if v.k != c18Int {
				m.abort("make with unknown length")
			}
			n = int(v.i)
		}
		if n < 0 {
			m.gopanic("makeslice: len out of range")
		}
		elem := t.Underlying().(*types.Slice).Elem()
		arr := make([]c18Val, n)
		for i := range arr {
			arr[i] = c18Zero(elem)
		}
		return c18Val{k: c18Slice, ref: &c18SliceV{arr: &arr, lo: 0, hi: n}}
	case "append":
		base := m.eval(fr, call.Args[0])
		var add []c18Val
		for i := 1; i < len(call.Args); i++ {
			v := m.eval(fr, call.Args[i])
			if call.Ellipsis.IsValid() && i == len(call.Args)-1 {
				switch v.k {
				case c18Slice:
					sl := v.slice()
					for _, e := range (*sl.arr)[sl.lo:sl.hi] {
						add = append(add, c18Copy(e))
					}
				case c18Nil:
				case c18Str:
					add = append(add, c18Bytes(v.s)...)
				default:
					m.abort("append of unknown slice")
				}
				continue
			}
			add = append(add, c18Copy(v))
		}
		switch base.k {
		case c18Nil:
			arr := add
			if arr == nil {
				return base
			}
			return c18Val{k: c18Slice, ref: &c18SliceV{arr: &arr, lo: 0, hi: len(arr)}}
		case c18Slice:
			sl := base.slice()
			if sl.hi == len(*sl.arr) {
				*sl.arr = append(*sl.arr, add...)
				return c18Val{k: c18Slice, ref: &c18SliceV{arr: sl.arr, lo: sl.lo, hi: sl.hi + len(add)}}
			}
			arr := append(append([]c18Val{}, (*sl.arr)[sl.lo:sl.hi]...), add...)
			return c18Val{k: c18Slice, ref: &c18SliceV{arr: &arr, lo: 0, hi: len(arr)}}
		}
		m.abort("append to an unknown slice")
	case "delete":
		m.mapDelete(fr, call)
		return c18Val{}
	case "panic":
		m.gopanic("explicit panic")
	}
	m.abort("builtin %s", name)
	return c18Val{}
}

// ---------------------------------------------------------------- expressions

func (m *c18Machine) walkFields(v c18Val, path []int) c18Val {
	for _, idx := range path {
		if v.k == c18Ptr {
			if v.ptr() == nil {
				m.gopanic("nil pointer dereference")
			}
			v = *v.ptr()
		}
		switch v.k {
		case c18Struct:
			v = *v.strct().field(idx)
		case c18Unknown:
			return c18Val{}
		case c18Nil:
			m.gopanic("nil pointer dereference")
		default:
			m.abort("field selection on a non-struct value")
		}
	}
	return v
}

func (m *c18Machine) eval(fr *c18Frame, e ast.Expr) c18Val {
	m.steps++
	if m.steps > 40_000_000 {
		m.abort("step budget exceeded")
	}
	info := fr.info
	if tv, ok := info.Types[e]; ok && tv.Value != nil {
		switch tv.Value.Kind() {
		case constant.Int:
			if i, ok := constant.Int64Val(tv.Value); ok {
				return c18IntV(i)
			}
			if u, ok := constant.Uint64Val(tv.Value); ok {
				return c18IntV(int64(u))
			}
		case constant.Bool:
			return c18BoolV(constant.BoolVal(tv.Value))
		case constant.String:
			return c18StrV(constant.StringVal(tv.Value))
		}
		return c18Val{}
	}
	switch e := e.(type) {
	case *ast.ParenExpr:
		return m.eval(fr, e.X)
	case *ast.Ident:
		obj := info.ObjectOf(e)
		if _, isNil := obj.(*types.Nil); isNil {
			return c18Val{k: c18Nil}
		}
		if b, ok := fr.lookup(obj); ok {
			return *b
		}
		if v, ok := obj.(*types.Var); ok {
			if v.Pkg() != nil && v.Parent() == v.Pkg().Scope() {
				return *m.global(v)
			}
			if fr.lax {
				return c18Val{}
			}
			m.abort("read of unbound variable %s", e.Name)
		}
		if fn, ok := obj.(*types.Func); ok {
			if fi := m.funcInfo(fn); fi != nil {
				return c18Val{k: c18Func, ref: &c18FuncV{fi: fi}}
			}
			m.abort("function value %s (outside the repository, no model)", e.Name)
		}
		m.abort("identifier %s is not a value the evaluator models", e.Name)
	case *ast.SelectorExpr:
		if sel, ok := info.Selections[e]; ok {
			if sel.Kind() == types.MethodVal {
				// method value x.m: the receiver is evaluated (and, for a value receiver, copied) now
				fn, _ := sel.Obj().(*types.Func)
				var fi *FuncInfo
				if fn != nil {
					fi = m.funcInfo(fn)
				}
				if fi == nil {
					m.abort("method value %s (no body in the repository)", types.ExprString(e))
				}
				recv := m.recvOf(fr, e, fn.Type().(*types.Signature))
				cp := c18Copy(*recv)
				return c18Val{k: c18Func, ref: &c18FuncV{fi: fi, recv: &cp}}
			}
			if sel.Kind() != types.FieldVal {
				m.abort("method expression %s", types.ExprString(e))
			}
			return m.walkFields(m.eval(fr, e.X), sel.Index())
		}
		obj := info.Uses[e.Sel]
		if v, ok := obj.(*types.Var); ok {
			return *m.global(v)
		}
		if fn, ok := obj.(*types.Func); ok {
			if fi := m.funcInfo(fn); fi != nil {
				return c18Val{k: c18Func, ref: &c18FuncV{fi: fi}}
			}
			if m.ext != nil {
				return c18Val{k: c18Func, ref: &c18FuncV{ext: fn}}
			}
		}
		m.abort("qualified identifier %s is not a variable or constant", types.ExprString(e))
	case *ast.IndexExpr:
		if mt := c18MapTypeOf(info, e.X); mt != nil {
			v, _, _ := m.mapIndex(fr, e, mt)
			return v
		}
		x := m.eval(fr, e.X)
		if x.k == c18Ptr && x.ptr() != nil && x.ptr().k == c18Array {
			x = *x.ptr()
		}
		idx := m.eval(fr, e.Index)
		if x.k == c18Unknown || idx.k != c18Int {
			if x.k == c18Unknown || idx.k == c18Unknown {
				return c18Val{}
			}
			m.abort("index expression %s", types.ExprString(e))
		}
		n, ok := m.lenOf(x)
		if !ok {
			m.abort("index of a non-slice value %s", types.ExprString(e))
		}
		if idx.i < 0 || int(idx.i) >= n {
			m.gopanic("index out of range [%d] with length %d in %s", idx.i, n, types.ExprString(e))
		}
		if x.k == c18Str {
			return c18IntV(int64(x.s[idx.i]))
		}
		sl := x.slice()
		return (*sl.arr)[sl.lo+int(idx.i)]
	case *ast.SliceExpr:
		if e.Slice3 {
			m.abort("3-index slice")
		}
		x := m.eval(fr, e.X)
		if x.k == c18Ptr && x.ptr() != nil && x.ptr().k == c18Array {
			x = *x.ptr()
		}
		n, ok := m.lenOf(x)
		if !ok {
			if x.k == c18Unknown {
				return x
			}
			m.abort("slice of a non-slice value")
		}
		lo, hi := 0, n
		if e.Low != nil {
			v := m.eval(fr, e.Low)
			if v.k != c18Int {
				return c18Val{}
			}
			lo = int(v.i)
		}
		if e.High != nil {
			v := m.eval(fr, e.High)
			if v.k != c18Int {
				return c18Val{}
			}
			hi = int(v.i)
		}
		if lo < 0 || hi < lo || hi > n {
			m.gopanic("slice bounds out of range [%d:%d] with length %d in %s", lo, hi, n, types.ExprString(e))
		}
		switch x.k {
		case c18Str:
			return c18StrV(x.s[lo:hi])
		case c18Nil:
			return x
		}
		sl := x.slice()
		return c18Val{k: c18Slice, ref: &c18SliceV{arr: sl.arr, lo: sl.lo + lo, hi: sl.lo + hi}}
	case *ast.StarExpr:
		v := m.eval(fr, e.X)
		switch v.k {
		case c18Ptr:
			if v.ptr() == nil {
				m.gopanic("nil pointer dereference")
			}
			return *v.ptr()
		case c18Nil:
			m.gopanic("nil pointer dereference")
		}
		return c18Val{}
	case *ast.UnaryExpr:
		if e.Op == token.AND {
			if cl, ok := unparen(e.X).(*ast.CompositeLit); ok {
				v := m.eval(fr, cl)
				return c18PtrV(&v)
			}
			return c18PtrV(m.lvalue(fr, e.X))
		}
		x := m.eval(fr, e.X)
		switch e.Op {
		case token.NOT:
			if x.k == c18Bool {
				return c18BoolV(!x.b)
			}
		case token.SUB:
			if x.k == c18Int {
				return c18IntV(c18WrapInt(-x.i, info.TypeOf(e)))
			}
		case token.XOR:
			if x.k == c18Int {
				return c18IntV(c18WrapInt(^x.i, info.TypeOf(e)))
			}
		case token.ADD:
			return x
		}
		return c18Val{}
	case *ast.BinaryExpr:
		return m.binary(fr, e)
	case *ast.CallExpr:
		return m.call(fr, e)
	case *ast.CompositeLit:
		return m.composite(fr, e)
	case *ast.FuncLit:
		return c18Val{k: c18Func, ref: &c18FuncV{lit: e, fr: fr}}
	}
	m.abort("expression %T", e)
	return c18Val{}
}

func (m *c18Machine) binary(fr *c18Frame, e *ast.BinaryExpr) c18Val {
	if e.Op == token.LAND || e.Op == token.LOR {
		x := m.eval(fr, e.X)
		if x.k != c18Bool {
			// the other operand may still decide the result
			y := m.eval(fr, e.Y)
			if y.k == c18Bool && ((e.Op == token.LAND && !y.b) || (e.Op == token.LOR && y.b)) {
				return y
			}
			return c18Val{}
		}
		if e.Op == token.LAND && !x.b {
			return x
		}
		if e.Op == token.LOR && x.b {
			return x
		}
		y := m.eval(fr, e.Y)
		if y.k == c18Bool {
			return y
		}
		return c18Val{}
	}
	x, y := m.eval(fr, e.X), m.eval(fr, e.Y)
	switch e.Op {
	case token.EQL, token.NEQ:
		eq, ok := c18Equal(x, y)
		if !ok {
			return c18Val{}
		}
		return c18BoolV(eq == (e.Op == token.EQL))
	}
	if x.k == c18Int && y.k == c18Int {
		t := fr.info.TypeOf(e)
		var r int64
		switch e.Op {
		case token.LSS:
			return c18BoolV(x.i < y.i)
		case token.LEQ:
			return c18BoolV(x.i <= y.i)
		case token.GTR:
			return c18BoolV(x.i > y.i)
		case token.GEQ:
			return c18BoolV(x.i >= y.i)
		case token.ADD:
			r = x.i + y.i
		case token.SUB:
			r = x.i - y.i
		case token.MUL:
			r = x.i * y.i
		case token.QUO:
			if y.i == 0 {
				m.gopanic("integer divide by zero")
			}
			r = x.i / y.i
		case token.REM:
			if y.i == 0 {
				m.gopanic("integer divide by zero")
			}
			r = x.i % y.i
		case token.AND:
			r = x.i & y.i
		case token.OR:
			r = x.i | y.i
		case token.XOR:
			r = x.i ^ y.i
		case token.AND_NOT:
			r = x.i &^ y.i
		case token.SHL:
			if y.i < 0 {
				m.gopanic("negative shift amount")
			}
			if y.i > 63 {
				r = 0
			} else {
				r = x.i << uint(y.i)
			}
		case token.SHR:
			if y.i < 0 {
				m.gopanic("negative shift amount")
			}
			if y.i > 63 {
				r = 0
			} else {
				r = x.i >> uint(y.i)
			}
		default:
			m.abort("integer operator %s", e.Op)
		}
		return c18IntV(c18WrapInt(r, t))
	}
	if x.k == c18Str && y.k == c18Str {
		switch e.Op {
		case token.ADD:
			return c18Concat(x, y)
		case token.LSS:
			return c18BoolV(x.s < y.s)
		case token.LEQ:
			return c18BoolV(x.s <= y.s)
		case token.GTR:
			return c18BoolV(x.s > y.s)
		case token.GEQ:
			return c18BoolV(x.s >= y.s)
		}
	}
	return c18Val{}
}

func (m *c18Machine) composite(fr *c18Frame, e *ast.CompositeLit) c18Val {
	t := fr.info.TypeOf(e)
	if t == nil {
		m.abort("composite literal without a type")
	}
	if p, ok := t.Underlying().(*types.Pointer); ok { // elided &T in a slice of pointers
		v := m.compositeOf(fr, e, p.Elem())
		return c18PtrV(&v)
	}
	return m.compositeOf(fr, e, t)
}

func (m *c18Machine) compositeOf(fr *c18Frame, e *ast.CompositeLit, t types.Type) c18Val {
	if c18IsBuilderType(t) {
		return c18Zero(t)
	}
	switch u := t.Underlying().(type) {
	case *types.Struct:
		v := c18Zero(t)
		st := v.strct()
		for i, el := range e.Elts {
			if kv, ok := el.(*ast.KeyValueExpr); ok {
				id, ok := kv.Key.(*ast.Ident)
				if !ok {
					m.abort("struct literal key")
				}
				f := st.fieldByName(id.Name)
				if f == nil {
					m.abort("struct literal field %s", id.Name)
				}
				*f = c18Copy(m.eval(fr, kv.Value))
				continue
			}
			*st.field(i) = c18Copy(m.eval(fr, el))
		}
		_ = u
		return v
	case *types.Slice, *types.Array:
		var elemT types.Type
		n := -1
		kind := c18Slice
		switch ut := u.(type) {
		case *types.Slice:
			elemT = ut.Elem()
		case *types.Array:
			elemT, kind = ut.Elem(), c18Array
			n = int(ut.Len())
			if n < 0 || n > c18MaxArray {
				m.abort("composite literal of %s", t)
			}
		}
		var arr []c18Val
		next := 0
		for _, el := range e.Elts {
			val := el
			if kv, ok := el.(*ast.KeyValueExpr); ok {
				k, isConst := constInt(fr.info, kv.Key)
				if !isConst || k < 0 || k > c18MaxArray {
					m.abort("keyed element of a slice or array literal")
				}
				next, val = int(k), kv.Value
			}
			for len(arr) <= next {
				arr = append(arr, c18Zero(elemT))
			}
			var v c18Val
			if cl, ok := val.(*ast.CompositeLit); ok && cl.Type == nil {
				// elided element type ({...} for T, or for *T meaning &T{...})
				if pt, isPtr := elemT.Underlying().(*types.Pointer); isPtr {
					inner := m.compositeOf(fr, cl, pt.Elem())
					v = c18PtrV(&inner)
				} else {
					v = m.compositeOf(fr, cl, elemT)
				}
			} else {
				v = c18Copy(m.eval(fr, val))
			}
			arr[next] = v
			next++
		}
		for n >= 0 && len(arr) < n {
			arr = append(arr, c18Zero(elemT))
		}
		if arr == nil {
			arr = []c18Val{}
		}
		return c18Val{k: kind, ref: &c18SliceV{arr: &arr, lo: 0, hi: len(arr)}}
	case *types.Map:
		return m.mapLiteral(fr, e, t, u)
	}
	m.abort("composite literal of %s", t)
	return c18Val{}
}

// lvalue returns the storage designated by e.
func (m *c18Machine) lvalue(fr *c18Frame, e ast.Expr) *c18Val {
	info := fr.info
	switch e := e.(type) {
	case *ast.ParenExpr:
		return m.lvalue(fr, e.X)
	case *ast.Ident:
		obj := info.ObjectOf(e)
		if b, ok := fr.lookup(obj); ok {
			return b
		}
		if v, ok := obj.(*types.Var); ok {
			if v.Pkg() != nil && v.Parent() == v.Pkg().Scope() {
				return m.global(v)
			}
			if fr.lax {
				b := c18Zero(v.Type())
				if b.k != c18Struct {
					b = c18Val{}
				}
				root := fr
				for root.parent != nil {
					root = root.parent
				}
				root.env[obj] = &b
				return &b
			}
		}
		m.abort("assignment to unbound variable %s", e.Name)
	case *ast.SelectorExpr:
		sel, ok := info.Selections[e]
		if !ok {
			if v, ok := info.Uses[e.Sel].(*types.Var); ok {
				return m.global(v)
			}
			m.abort("assignment to %s", types.ExprString(e))
		}
		if sel.Kind() != types.FieldVal {
			m.abort("assignment to a method value")
		}
		var box *c18Val
		if _, isPtr := info.TypeOf(e.X).Underlying().(*types.Pointer); isPtr {
			v := m.eval(fr, e.X)
			if v.k == c18Nil || (v.k == c18Ptr && v.ptr() == nil) {
				m.gopanic("nil pointer dereference")
			}
			if v.k != c18Ptr {
				m.abort("store through an unknown pointer %s", types.ExprString(e.X))
			}
			box = v.ptr()
		} else {
			box = m.lvalue(fr, e.X)
		}
		for _, idx := range sel.Index() {
			if box.k == c18Ptr {
				if box.ptr() == nil {
					m.gopanic("nil pointer dereference")
				}
				box = box.ptr()
			}
			if box.k != c18Struct {
				m.abort("store into a field of a non-struct value (%s)", types.ExprString(e))
			}
			box = box.strct().field(idx)
		}
		return box
	case *ast.IndexExpr:
		if mt := c18MapTypeOf(info, e.X); mt != nil {
			return m.mapSlot(fr, e, mt)
		}
		x := m.eval(fr, e.X)
		if x.k == c18Ptr && x.ptr() != nil && x.ptr().k == c18Array {
			x = *x.ptr()
		}
		idx := m.eval(fr, e.Index)
		if idx.k != c18Int {
			m.abort("store at an unknown index")
		}
		if x.k == c18Nil {
			m.gopanic("index out of range [%d] with length 0", idx.i)
		}
		if x.k != c18Slice && x.k != c18Array {
			m.abort("store into a non-slice value")
		}
		sl := x.slice()
		if idx.i < 0 || int(idx.i) >= sl.hi-sl.lo {
			m.gopanic("index out of range [%d] with length %d in %s", idx.i, sl.hi-sl.lo, types.ExprString(e))
		}
		return &(*sl.arr)[sl.lo+int(idx.i)]
	case *ast.StarExpr:
		v := m.eval(fr, e.X)
		if v.k == c18Nil || (v.k == c18Ptr && v.ptr() == nil) {
			m.gopanic("nil pointer dereference")
		}
		if v.k != c18Ptr {
			m.abort("store through an unknown pointer")
		}
		return v.ptr()
	}
	m.abort("assignment target %T", e)
	return nil
}

// ---------------------------------------------------------------- statements

func (m *c18Machine) block(fr *c18Frame, list []ast.Stmt) c18Ctl {
	for _, s := range list {
		if ctl := m.stmt(fr, s, ""); ctl.kind != c18CtlNone {
			return ctl
		}
	}
	return c18Ctl{}
}

func (m *c18Machine) cond(fr *c18Frame, e ast.Expr) bool {
	v := m.eval(fr, e)
	if v.k != c18Bool {
		m.abort("branch on a condition the evaluator cannot decide: %s", types.ExprString(e))
	}
	return v.b
}

func (m *c18Machine) assignOp(fr *c18Frame, s *ast.AssignStmt) {
	info := fr.info
	if s.Tok != token.ASSIGN && s.Tok != token.DEFINE {
		// compound assignment
		if len(s.Lhs) != 1 || len(s.Rhs) != 1 {
			m.abort("compound assignment with several operands")
		}
		var op token.Token
		switch s.Tok {
		case token.ADD_ASSIGN:
			op = token.ADD
		case token.SUB_ASSIGN:
			op = token.SUB
		case token.MUL_ASSIGN:
			op = token.MUL
		case token.OR_ASSIGN:
			op = token.OR
		case token.AND_ASSIGN:
			op = token.AND
		case token.XOR_ASSIGN:
			op = token.XOR
		case token.AND_NOT_ASSIGN:
			op = token.AND_NOT
		case token.SHL_ASSIGN:
			op = token.SHL
		case token.SHR_ASSIGN:
			op = token.SHR
		default:
			m.abort("assignment operator %s", s.Tok)
		}
		box := m.lvalue(fr, s.Lhs[0])
		y := m.eval(fr, s.Rhs[0])
		x := *box
		t := info.TypeOf(s.Lhs[0])
		switch {
		case x.k == c18Int && y.k == c18Int:
			var r int64
			switch op {
			case token.ADD:
				r = x.i + y.i
			case token.SUB:
				r = x.i - y.i
			case token.MUL:
				r = x.i * y.i
			case token.OR:
				r = x.i | y.i
			case token.AND:
				r = x.i & y.i
			case token.XOR:
				r = x.i ^ y.i
			case token.AND_NOT:
				r = x.i &^ y.i
			case token.SHL:
				r = x.i << uint(y.i&63)
			case token.SHR:
				r = x.i >> uint(y.i&63)
			}
			*box = c18IntV(c18WrapInt(r, t))
		case x.k == c18Str && y.k == c18Str && op == token.ADD:
			*box = c18Concat(x, y)
		default:
			*box = c18Val{}
		}
		return
	}
	var vals []c18Val
	if len(s.Rhs) == 1 && len(s.Lhs) > 1 {
		v, isMapOk := c18Val{}, false
		if len(s.Lhs) == 2 {
			v, isMapOk = m.mapCommaOk(fr, s.Rhs[0])
		}
		if !isMapOk {
			v = m.eval(fr, s.Rhs[0])
		}
		tu, ok := v.ref.([]c18Val)
		if v.k != c18Tuple || !ok || len(tu) != len(s.Lhs) {
			if v.k == c18Unknown {
				vals = make([]c18Val, len(s.Lhs))
			} else {
				m.abort("multi-value assignment from %s", types.ExprString(s.Rhs[0]))
			}
		} else {
			vals = tu
		}
	} else {
		if len(s.Lhs) != len(s.Rhs) {
			m.abort("assignment arity")
		}
		for _, r := range s.Rhs {
			vals = append(vals, c18Copy(m.eval(fr, r)))
		}
	}
	for i, l := range s.Lhs {
		if id, ok := l.(*ast.Ident); ok {
			if id.Name == "_" {
				continue
			}
			if s.Tok == token.DEFINE {
				if obj := info.Defs[id]; obj != nil {
					v := vals[i]
					fr.env[obj] = &v
					continue
				}
			}
		}
		*m.lvalue(fr, l) = vals[i]
	}
}

func (m *c18Machine) stmt(fr *c18Frame, s ast.Stmt, label string) c18Ctl {
	m.steps++
	switch s := s.(type) {
	case *ast.BlockStmt:
		return m.block(fr, s.List)
	case *ast.ExprStmt:
		m.eval(fr, s.X)
	case *ast.EmptyStmt:
	case *ast.LabeledStmt:
		return m.stmt(fr, s.Stmt, s.Label.Name)
	case *ast.AssignStmt:
		m.assignOp(fr, s)
	case *ast.IncDecStmt:
		box := m.lvalue(fr, s.X)
		if box.k == c18Int {
			d := int64(1)
			if s.Tok == token.DEC {
				d = -1
			}
			*box = c18IntV(c18WrapInt(box.i+d, fr.info.TypeOf(s.X)))
		} else {
			*box = c18Val{}
		}
	case *ast.DeclStmt:
		gd, ok := s.Decl.(*ast.GenDecl)
		if !ok {
			m.abort("declaration statement")
		}
		for _, sp := range gd.Specs {
			vs, ok := sp.(*ast.ValueSpec)
			if !ok {
				continue // local type/const declarations
			}
			if gd.Tok == token.CONST {
				continue
			}
			if len(vs.Names) == 2 && len(vs.Values) == 1 {
				if tu, isMapOk := m.mapCommaOk(fr, vs.Values[0]); isMapOk { // var v, ok = m[k]
					parts, _ := tu.ref.([]c18Val)
					for i, n := range vs.Names {
						if obj := fr.info.Defs[n]; obj != nil && n.Name != "_" {
							var v c18Val
							if tu.k == c18Tuple && len(parts) == 2 {
								v = parts[i]
							}
							fr.env[obj] = &v
						}
					}
					continue
				}
			}
			for i, n := range vs.Names {
				obj := fr.info.Defs[n]
				if obj == nil {
					continue
				}
				var v c18Val
				switch {
				case len(vs.Values) == len(vs.Names):
					v = c18Copy(m.eval(fr, vs.Values[i]))
				case len(vs.Values) == 0:
					v = c18Zero(obj.Type())
				default:
					m.abort("multi-value var declaration")
				}
				fr.env[obj] = &v
			}
		}
	case *ast.ReturnStmt:
		if len(s.Results) == 0 {
			fr.ret = nil
			return c18Ctl{kind: c18CtlReturn}
		}
		var out []c18Val
		if len(s.Results) == 1 {
			v := m.eval(fr, s.Results[0])
			if tu, ok := v.ref.([]c18Val); ok && v.k == c18Tuple {
				out = tu
			} else {
				out = []c18Val{c18Copy(v)}
			}
		} else {
			for _, r := range s.Results {
				out = append(out, c18Copy(m.eval(fr, r)))
			}
		}
		fr.ret = out
		return c18Ctl{kind: c18CtlReturn}
	case *ast.IfStmt:
		if s.Init != nil {
			if ctl := m.stmt(fr, s.Init, ""); ctl.kind != c18CtlNone {
				return ctl
			}
		}
		if m.cond(fr, s.Cond) {
			return m.block(fr, s.Body.List)
		} else if s.Else != nil {
			return m.stmt(fr, s.Else, "")
		}
	case *ast.SwitchStmt:
		return m.switchStmt(fr, s, label)
	case *ast.ForStmt:
		if s.Init != nil {
			m.stmt(fr, s.Init, "")
		}
		for {
			if s.Cond != nil && !m.cond(fr, s.Cond) {
				break
			}
			ctl := m.block(fr, s.Body.List)
			if ctl.kind == c18CtlReturn {
				return ctl
			}
			if ctl.kind == c18CtlBreak {
				if ctl.label == "" || ctl.label == label {
					break
				}
				return ctl
			}
			if ctl.kind == c18CtlContinue && ctl.label != "" && ctl.label != label {
				return ctl
			}
			if s.Post != nil {
				m.stmt(fr, s.Post, "")
			}
			m.steps++
			if m.steps > 40_000_000 {
				m.abort("step budget exceeded (loop)")
			}
		}
	case *ast.RangeStmt:
		x := m.eval(fr, s.X)
		var elems, mapKeys []c18Val
		isStr := false
		if x.k == c18Ptr && x.ptr() != nil && x.ptr().k == c18Array {
			x = *x.ptr()
		}
		switch x.k {
		case c18Slice:
			sl := x.slice()
			elems = (*sl.arr)[sl.lo:sl.hi]
		case c18Array:
			// the range expression of an array is evaluated (copied) once
			sl := c18Copy(x).slice()
			elems = (*sl.arr)[sl.lo:sl.hi]
		case c18Nil:
		case c18Str:
			isStr = true
		case c18Map:
			mv := x.mp()
			if len(mv.keys) > 1 && !c06RangeOrderFree(fr.info, s) {
				m.abort("range over a map with %d entries (iteration order is unspecified): %s", len(mv.keys), types.ExprString(s.X))
			}
			mapKeys = append(mapKeys, mv.keys...)
			for _, pv := range mv.vals {
				elems = append(elems, *pv)
			}
		default:
			m.abort("range over %s", types.ExprString(s.X))
		}
		bind := func(e ast.Expr, v c18Val) {
			if e == nil {
				return
			}
			if id, ok := e.(*ast.Ident); ok {
				if id.Name == "_" {
					return
				}
				if s.Tok == token.DEFINE {
					if obj := fr.info.Defs[id]; obj != nil {
						fr.env[obj] = &v
						return
					}
				}
			}
			*m.lvalue(fr, e) = v
		}
		iter := func(k, v c18Val) (c18Ctl, bool) {
			bind(s.Key, k)
			bind(s.Value, c18Copy(v))
			ctl := m.block(fr, s.Body.List)
			switch ctl.kind {
			case c18CtlReturn:
				return ctl, true
			case c18CtlBreak:
				if ctl.label == "" || ctl.label == label {
					return c18Ctl{}, true
				}
				return ctl, true
			case c18CtlContinue:
				if ctl.label != "" && ctl.label != label {
					return ctl, true
				}
			}
			return c18Ctl{}, false
		}
		if isStr {
			for i, r := range x.s {
				if ctl, stop := iter(c18IntV(int64(i)), c18IntV(int64(r))); stop {
					return ctl
				}
			}
		} else {
			for i := range elems {
				k := c18IntV(int64(i))
				if mapKeys != nil {
					k = c18Copy(mapKeys[i])
				}
				if ctl, stop := iter(k, elems[i]); stop {
					return ctl
				}
			}
		}
	case *ast.BranchStmt:
		lbl := ""
		if s.Label != nil {
			lbl = s.Label.Name
		}
		switch s.Tok {
		case token.BREAK:
			return c18Ctl{kind: c18CtlBreak, label: lbl}
		case token.CONTINUE:
			return c18Ctl{kind: c18CtlContinue, label: lbl}
		}
		m.abort("branch statement %s", s.Tok)
	default:
		m.abort("statement %T", s)
	}
	return c18Ctl{}
}

func (m *c18Machine) switchStmt(fr *c18Frame, s *ast.SwitchStmt, label string) c18Ctl {
	if s.Init != nil {
		m.stmt(fr, s.Init, "")
	}
	var tag c18Val
	if s.Tag != nil {
		tag = m.eval(fr, s.Tag)
		if tag.k == c18Unknown {
			m.abort("switch on a value the evaluator cannot decide: %s", types.ExprString(s.Tag))
		}
	}
	var chosen *ast.CaseClause
	var def *ast.CaseClause
	list := s.Body.List
	if s.Tag != nil && (tag.k == c18Int || tag.k == c18Str) {
		if t := m.switchTab(fr, s); t.ok {
			if tag.k == c18Int {
				chosen = t.ints[tag.i]
			} else {
				chosen = t.strs[tag.s]
			}
			def = t.def
			list = nil
		}
	}
outer:
	for _, cl := range list {
		cc := cl.(*ast.CaseClause)
		if cc.List == nil {
			def = cc
			continue
		}
		for _, e := range cc.List {
			if s.Tag == nil {
				if m.cond(fr, e) {
					chosen = cc
					break outer
				}
				continue
			}
			v := m.eval(fr, e)
			eq, ok := c18Equal(tag, v)
			if !ok {
				m.abort("case comparison the evaluator cannot decide: %s", types.ExprString(e))
			}
			if eq {
				chosen = cc
				break outer
			}
		}
	}
	if chosen == nil {
		chosen = def
	}
	if chosen == nil {
		return c18Ctl{}
	}
	ctl := c18Ctl{}
	for chosen != nil {
		// a final `fallthrough` (the only place the language allows it) continues with the next clause in source order
		body, next := chosen.Body, (*ast.CaseClause)(nil)
		if n := len(body); n > 0 {
			if br, ok := body[n-1].(*ast.BranchStmt); ok && br.Tok == token.FALLTHROUGH {
				body = body[:n-1]
				for i, cl := range s.Body.List {
					if cl == ast.Stmt(chosen) && i+1 < len(s.Body.List) {
						next = s.Body.List[i+1].(*ast.CaseClause)
					}
				}
				if next == nil {
					m.abort("fallthrough without a following clause")
				}
			}
		}
		ctl = m.block(fr, body)
		if ctl.kind != c18CtlNone {
			break
		}
		chosen = next
	}
	if ctl.kind == c18CtlBreak && (ctl.label == "" || ctl.label == label) {
		return c18Ctl{}
	}
	return ctl
}
