package main

// Additional C19 / C11 rules written by the main author after independently seeded regressions.
//
//   C19.g  list.Dynamic.ensureScroll: whenever the selection is at or above the top item
//          (cursor <= top) the top becomes the cursor and the partial-row offset is reset; otherwise
//          the cursor is requested into view. (If cursor == top were excluded, a selection landing on a
//          partially scrolled top item would stay cut off after the draw.)
//   C19.h / C11.i  a grapheme cluster is recognised as a line break by containment of '\n'
//          (CR LF is ONE cluster), never by equality with "\n".

import (
	"go/ast"
	"go/token"
	"go/types"
	"strings"
)

func init() {
	registerExtra("C19", c19EnsureScroll)
	registerExtra("C19", func(c *Ctx) { newlineTests(c, "C19.h", []string{"widgets/pager.(*Model).Layout"}) })
	registerExtra("C11", func(c *Ctx) { newlineTests(c, "C11.i", []string{"vaxis.Window.Print"}) })
}

func c19EnsureScroll(c *Ctx) {
	c.Clauses = append(c.Clauses, "C19.g ensureScroll resets top and offset whenever cursor <= top, else requests the cursor into view",
		"C19.h the pager recognises a line break by containment of a newline in the cluster (CR LF is one cluster)")
	c.expect("C19.g", 2)
	c.expect("C19.h", 1)
	fi := c.P.Func("vxfw/list.(*Dynamic).ensureScroll")
	if fi == nil {
		c.undecided("C19.g", "vxfw/list.(*Dynamic).ensureScroll", 0, "ensureScroll not found")
		return
	}
	info := fi.Pkg.TypesInfo
	g := c.P.Graph(fi)
	isAssign := func(path string) func(ast.Node) bool {
		return func(n ast.Node) bool {
			as, ok := n.(*ast.AssignStmt)
			return ok && len(as.Lhs) == 1 && lhsPath(info, as.Lhs[0]) == path
		}
	}
	tops := g.Find(isAssign("Dynamic.scroll.top"))
	offs := g.Find(isAssign("Dynamic.scroll.offset"))
	wants := g.Find(isAssign("Dynamic.scroll.wantsCursor"))
	if len(tops) != 1 || len(offs) != 1 || len(wants) != 1 {
		c.undecided("C19.g", fi.Name+"/shape", fi.Decl.Pos(), "expected one store each to scroll.top, scroll.offset and scroll.wantsCursor (found %d, %d, %d)", len(tops), len(offs), len(wants))
		return
	}
	cur := Term{}
	top := Term{}
	// terms as they appear in the guard
	for _, b := range g.Blocks {
		if cd := g.BranchCond(b); cd != nil && cd.Tag == nil {
			if be, ok := unparen(cd.Expr).(*ast.BinaryExpr); ok {
				for _, e := range []ast.Expr{be.X, be.Y} {
					switch canonPath(info, e) {
					case "Dynamic.cursor":
						cur = termOf(info, e)
					case "Dynamic.scroll.top":
						top = termOf(info, e)
					}
				}
			}
		}
	}
	if cur.ID == "" || top.ID == "" {
		c.undecided("C19.g", fi.Name+"/guard", fi.Decl.Pos(), "no comparison of cursor with scroll.top found")
		return
	}
	// the reset branch must be reachable for every cursor <= top: its guard facts may only say cursor <= top (+k with k >= 0)
	factsTop := g.FactsAt(tops[0].Loc)
	okReset := true
	why := ""
	for _, a := range factsTop {
		if a.Kind == "lin" && a.A.ID == cur.ID && a.B.ID == top.ID && a.K < 0 {
			okReset, why = false, "the reset of scroll.top/offset happens only for "+a.String()
		}
		if a.Kind == "ne" || a.Kind == "bool" {
			okReset, why = false, "the reset is additionally guarded by "+a.String()
		}
	}
	// and it must not be reachable with cursor > top … (then the view would jump needlessly) – not required by the property
	c.check(okReset, "C19.g", fi.Name+"/top and offset reset whenever cursor <= top", tops[0].Node.Pos(),
		"reset branch covers cursor == top", why+": a selection that lands exactly on a partially scrolled top item keeps its first rows cut off after the draw")
	// both stores happen together
	okPair := tops[0].Loc.B == offs[0].Loc.B
	if v, isC := constInt(info, offs[0].Node.(*ast.AssignStmt).Rhs[0]); !isC || v != 0 {
		okPair = false
	}
	c.check(okPair, "C19.g", fi.Name+"/offset reset to 0 together with top", offs[0].Node.Pos(), "top = cursor and offset = 0 on the same path", "scroll.offset is not reset to 0 where scroll.top is set to the cursor")
	// the wantsCursor request covers cursor > top
	factsW := g.FactsAt(wants[0].Loc)
	okW := impliesLin(factsW, top, cur, -1) || impliesLin(factsW, top, cur, 0)
	c.check(okW, "C19.g", fi.Name+"/cursor requested into view when below the top", wants[0].Node.Pos(), "wantsCursor set under cursor > top", "wantsCursor is not set on the cursor-below-top path")
}

// newlineTests: in the given functions, the branch that starts a new line inside a loop over
// vaxis.Characters(...) must test the cluster for containing a newline.
func newlineTests(c *Ctx, rule string, fns []string) {
	if rule == "C11.i" {
		c.Clauses = append(c.Clauses, "C11.i Print recognises a line break by containment of a newline in the cluster (CR LF is one cluster)")
		c.expect("C11.i", 1)
	}
	for _, name := range fns {
		fi := c.P.Func(name)
		if fi == nil {
			c.undecided(rule, name, 0, "function not found")
			continue
		}
		info := fi.Pkg.TypesInfo
		found := 0
		var visitBody func(body *ast.BlockStmt, level int)
		visitBody = func(body *ast.BlockStmt, level int) {
			ast.Inspect(body, func(n ast.Node) bool {
				rs, ok := n.(*ast.RangeStmt)
				if !ok {
					return true
				}
				call, ok := unparen(rs.X).(*ast.CallExpr)
				if !ok {
					return true
				}
				fn := calleeOf(info, call)
				if fn == nil || repoName(fn) != "vaxis.Characters" {
					return true
				}
				valID, _ := rs.Value.(*ast.Ident)
				if valID == nil {
					return true
				}
				charObj := info.ObjectOf(valID)
				// mentions: the expression reads the text of the cluster (carrier.Grapheme, or the carrier itself when the
				// text was passed on as a string)
				mentionsIn := func(e ast.Node, carrier types.Object, isText bool) bool {
					return containsNode(e, func(m ast.Node) bool {
						if isText {
							id, ok := m.(*ast.Ident)
							return ok && info.ObjectOf(id) == carrier
						}
						s, ok := m.(*ast.SelectorExpr)
						if !ok || s.Sel.Name != "Grapheme" {
							return false
						}
						id, ok := s.X.(*ast.Ident)
						return ok && info.ObjectOf(id) == carrier
					})
				}
				// scan: the first statement of the body that is an if testing the cluster text for a newline; when the
				// body has none, the same search in the helpers of the package that are handed the cluster
				var scan func(body *ast.BlockStmt, carrier types.Object, isText bool, depth int) bool
				scan = func(body *ast.BlockStmt, carrier types.Object, isText bool, depth int) bool {
					// the candidate tests: conditions of if statements, case expressions of a tagless switch and
					// (other than for C11.i, which has a recogniser of its own for this) a flag variable
					// assigned the test
					type cand struct {
						cond ast.Expr
						pos  token.Pos
					}
					var cands []cand
					for _, st := range c19FlatStmts(body.List) {
						switch t := st.(type) {
						case *ast.IfStmt:
							cands = append(cands, cand{t.Cond, t.Pos()})
						case *ast.SwitchStmt:
							if t.Tag == nil && rule != "C11.i" {
								for _, cl := range t.Body.List {
									if cc, ok := cl.(*ast.CaseClause); ok {
										for _, e := range cc.List {
											cands = append(cands, cand{e, cc.Pos()})
										}
									}
								}
							}
						case *ast.AssignStmt:
							if len(t.Lhs) == 1 && len(t.Rhs) == 1 && rule != "C11.i" && (t.Tok == token.DEFINE || t.Tok == token.ASSIGN) && c19IsBoolType(info.TypeOf(t.Rhs[0])) {
								cands = append(cands, cand{t.Rhs[0], t.Pos()})
							}
						}
					}
					for _, cd := range cands {
						ifs := struct {
							Cond ast.Expr
							pos  token.Pos
						}{unparen(cd.cond), cd.pos}
						for {
							if u, ok := ifs.Cond.(*ast.UnaryExpr); ok && u.Op == token.NOT {
								ifs.Cond = unparen(u.X)
								continue
							}
							break
						}
						if !mentionsIn(ifs.Cond, carrier, isText) {
							continue
						}
						// does the condition look for a newline at all?
						aboutNL := containsNode(ifs.Cond, func(m ast.Node) bool {
							if bl, ok := m.(*ast.BasicLit); ok {
								if s, isStr := constString(info, bl); isStr && strings.Contains(s, "\n") {
									return true
								}
								if v, isInt := constInt(info, bl); isInt && v == '\n' && bl.Kind == token.CHAR {
									return true
								}
							}
							if cl, ok := m.(*ast.CallExpr); ok {
								if f := calleeOf(info, cl); f != nil && strings.Contains(f.Name(), "LineBreak") {
									return true
								}
							}
							return false
						})
						if !aboutNL {
							continue
						}
						found++
						verdict, why := classifyNewlineTest(info, ifs.Cond)
						key := name + "/line break recognised by containment of a newline in the cluster"
						switch verdict {
						case "ok":
							c.ok(rule, key, ifs.pos, "%s", why)
						case "bad":
							c.bad(rule, key, ifs.pos, "%s: CR LF is a single grapheme cluster (\"\\r\\n\"), so a text with CRLF line terminators is laid out without line breaks", why)
						default:
							c.undecided(rule, key, ifs.pos, "unrecognised form of the newline test: %s", types.ExprString(ifs.Cond))
						}
						return true
					}
					if depth >= 2 || rule == "C11.i" {
						return false
					}
					// the per-cluster work was moved into a helper: follow the cluster into it
					done := false
					for _, st := range body.List {
						if done {
							break
						}
						ast.Inspect(st, func(m ast.Node) bool {
							if done {
								return false
							}
							if _, isLit := m.(*ast.FuncLit); isLit {
								return false
							}
							call, ok := m.(*ast.CallExpr)
							if !ok {
								return true
							}
							fn := calleeOf(info, call)
							if fn == nil || fn.Pkg() != fi.Pkg.Types {
								return true
							}
							cfi := c.P.FuncOfObj(fn)
							if cfi == nil || cfi.Decl.Body == nil || cfi == fi {
								return true
							}
							sig, _ := fn.Type().(*types.Signature)
							if sig == nil || sig.Variadic() || sig.Params().Len() != len(call.Args) {
								return true
							}
							for k, a := range call.Args {
								a = unparen(a)
								po := types.Object(sig.Params().At(k))
								switch {
								case isIdentOf(info, a, carrier):
									if scan(cfi.Decl.Body, po, isText, depth+1) {
										done = true
									}
								case !isText && mentionsIn(a, carrier, false) && isSelectorExpr(a):
									if scan(cfi.Decl.Body, po, true, depth+1) {
										done = true
									}
								}
								if done {
									break
								}
							}
							return !done
						})
					}
					return done
				}
				scan(rs.Body, charObj, false, 0)
				return true
			})
			if found > 0 || level >= 2 || rule == "C11.i" {
				return
			}
			// the loop over the clusters was moved into a helper of the package
			seen := map[*FuncInfo]bool{}
			ast.Inspect(body, func(n ast.Node) bool {
				if _, isLit := n.(*ast.FuncLit); isLit {
					return false
				}
				if call, ok := n.(*ast.CallExpr); ok && found == 0 {
					if fn := calleeOf(info, call); fn != nil && fn.Pkg() == fi.Pkg.Types {
						if cfi := c.P.FuncOfObj(fn); cfi != nil && cfi.Decl.Body != nil && cfi != fi && !seen[cfi] {
							seen[cfi] = true
							visitBody(cfi.Decl.Body, level+1)
						}
					}
				}
				return true
			})
		}
		visitBody(fi.Decl.Body, 0)
		if found == 0 && rule == "C11.i" {
			// other shapes of the same test (a flag variable, an index loop over the clusters ...): c11text.go
			found = c11NewlineTestAnyShape(c, rule, name, fi)
		}
		if found == 0 && rule == "C19.h" {
			// other shapes of the same loop (an index loop over the clusters, a test behind a flag or a predicate helper
			// that the syntactic search does not follow): the branches of the supergraph that decide "newline" (c19n.go)
			found = c19NewlineTestsInFlow(c, rule, name, fi)
		}
		if found == 0 {
			c.undecided(rule, name+"/newline test", fi.Decl.Pos(), "no newline test on the clusters of vaxis.Characters found")
		}
	}
}

func classifyNewlineTest(info *types.Info, cond ast.Expr) (string, string) {
	cond = unparen(cond)
	switch t := cond.(type) {
	case *ast.CallExpr:
		if fn := calleeOf(info, t); fn != nil {
			switch fullName(fn) {
			case "strings.ContainsRune", "strings.Contains", "strings.ContainsAny", "strings.HasSuffix", "strings.IndexByte", "strings.IndexRune":
				return "ok", "containment test " + fn.Name()
			case "github.com/rivo/uniseg.HasTrailingLineBreakInString", "github.com/rivo/uniseg.HasTrailingLineBreak":
				return "ok", "uniseg trailing-line-break test"
			}
		}
	case *ast.BinaryExpr:
		switch t.Op {
		case token.EQL:
			for _, side := range []ast.Expr{t.X, t.Y} {
				if s, ok := constString(info, side); ok && strings.Trim(s, "\r\n") == "" && s != "" {
					return "bad", "the cluster is compared for equality with " + types.ExprString(side)
				}
			}
		case token.LOR:
			a, wa := classifyNewlineTest(info, t.X)
			b, wb := classifyNewlineTest(info, t.Y)
			if a == "ok" || b == "ok" {
				if a == "ok" {
					return "ok", wa
				}
				return "ok", wb
			}
			if a == "bad" && b == "bad" {
				// "\n" || "\r\n" enumerations: accept if both LF and CRLF are listed
				return "bad", wa + " / " + wb
			}
		case token.GEQ, token.GTR, token.NEQ:
			// strings.IndexByte(g, '\n') >= 0 and friends
			if call, ok := unparen(t.X).(*ast.CallExpr); ok {
				if fn := calleeOf(info, call); fn != nil && strings.HasPrefix(fullName(fn), "strings.Index") {
					return "ok", "index test " + fn.Name()
				}
			}
		}
	}
	return "?", ""
}

func isIdentOf(info *types.Info, e ast.Expr, o types.Object) bool {
	id, ok := e.(*ast.Ident)
	return ok && o != nil && info.ObjectOf(id) == o
}

func isSelectorExpr(e ast.Expr) bool {
	_, ok := e.(*ast.SelectorExpr)
	return ok
}

// c19FlatStmts: the statements of a list with plain blocks, labels and "switch { default: ... }" wrappers (the
// form in which the global helper inliner splices a helper with several returns) opened up.
func c19FlatStmts(list []ast.Stmt) []ast.Stmt {
	var out []ast.Stmt
	for _, st := range list {
		switch t := st.(type) {
		case *ast.LabeledStmt:
			out = append(out, c19FlatStmts([]ast.Stmt{t.Stmt})...)
		case *ast.BlockStmt:
			out = append(out, c19FlatStmts(t.List)...)
		case *ast.SwitchStmt:
			if t.Tag == nil && t.Init == nil && len(t.Body.List) == 1 {
				if cc, ok := t.Body.List[0].(*ast.CaseClause); ok && cc.List == nil {
					out = append(out, c19FlatStmts(cc.Body)...)
					continue
				}
			}
			out = append(out, st)
		default:
			out = append(out, st)
		}
	}
	return out
}

// c19NewlineTestsInFlow: the newline tests of the function as the branch conditions of its supergraph that decide
// whether the cluster is a newline (the recogniser of rule C19.n), each classified like the syntactic ones.
func c19NewlineTestsInFlow(c *Ctx, rule, name string, fi *FuncInfo) int {
	var p *c19Pkg
	for _, sh := range c19AnchorPkgs {
		if pk := c.P.Pkg(sh); pk != nil && pk == fi.Pkg {
			p = c19LoadPkg(c, sh)
		}
	}
	if p == nil {
		return 0
	}
	info := p.info
	fl := c19NewFlow(c, fi, nil, p.allow)
	seen := map[ast.Expr]bool{}
	found := 0
	for _, b := range fl.blks {
		if b.cnd == nil || b.cnd.Tag != nil || b.cnd.Alts != nil {
			continue
		}
		var tests []ast.Expr
		c19With(b.fr, func() { tests = c19NLTestExprs(fl, b.fr, b.cnd.Expr, 0) })
		for _, t := range tests {
			if seen[t] {
				continue
			}
			seen[t] = true
			found++
			verdict, why := classifyNewlineTest(info, t)
			key := name + "/line break recognised by containment of a newline in the cluster"
			switch verdict {
			case "ok":
				c.ok(rule, key, t.Pos(), "%s", why)
			case "bad":
				c.bad(rule, key, t.Pos(), "%s: CR LF is a single grapheme cluster (\"\\r\\n\"), so a text with CRLF line terminators is laid out without line breaks", why)
			default:
				c.undecided(rule, key, t.Pos(), "unrecognised form of the newline test: %s", types.ExprString(t))
			}
		}
	}
	return found
}

// c19NLTestExprs: the elementary newline tests (calls, comparisons, "\n" || "\r\n" enumerations) that a condition
// consults, through negation, conjuncts, flag variables and predicate helpers. Call in the alias context of the node.
func c19NLTestExprs(fl *c19Flow, fr *c19Frame, e ast.Expr, depth int) []ast.Expr {
	info := fl.info
	e = unparen(e)
	if depth > 5 || e == nil {
		return nil
	}
	switch t := e.(type) {
	case *ast.UnaryExpr:
		if t.Op == token.NOT {
			return c19NLTestExprs(fl, fr, t.X, depth+1)
		}
	case *ast.BinaryExpr:
		switch t.Op {
		case token.LAND, token.LOR:
			if t.Op == token.LOR && c19NLAtom(fl, fr, t, 0) != 0 {
				if _, isBin := unparen(t.X).(*ast.BinaryExpr); isBin {
					return []ast.Expr{t} // an enumeration of line terminators: judged as a whole
				}
			}
			return append(c19NLTestExprs(fl, fr, t.X, depth+1), c19NLTestExprs(fl, fr, t.Y, depth+1)...)
		case token.EQL, token.NEQ:
			if c19IsBoolType(info.TypeOf(t.X)) {
				return append(c19NLTestExprs(fl, fr, t.X, depth+1), c19NLTestExprs(fl, fr, t.Y, depth+1)...)
			}
		}
		if c19NLAtom(fl, fr, t, 0) != 0 {
			return []ast.Expr{t}
		}
	case *ast.CallExpr:
		if c19NLAtom(fl, fr, t, 0) == 0 {
			return nil
		}
		if c19MentionsNewline(info, t) {
			return []ast.Expr{t}
		}
		if ret, hfr, bind := c19PureHelper(info, t); ret != nil {
			oldC, oldB := c19Ctx, c19Bind
			c19Ctx, c19Bind = hfr, bind
			c19PureDepth++
			out := c19NLTestExprs(fl, hfr, ret, depth+1)
			c19PureDepth--
			c19Ctx, c19Bind = oldC, oldB
			return out
		}
	case *ast.Ident:
		if c19NLAtom(fl, fr, t, 0) == 0 || fr == nil || fr.fi == nil {
			return nil
		}
		v := info.ObjectOf(t)
		var out []ast.Expr
		is := func(x ast.Expr) bool {
			id, ok := unparen(x).(*ast.Ident)
			return ok && info.ObjectOf(id) == v
		}
		ast.Inspect(fr.fi.Decl, func(m ast.Node) bool {
			switch st := m.(type) {
			case *ast.AssignStmt:
				for i, lh := range st.Lhs {
					if is(lh) && len(st.Lhs) == len(st.Rhs) {
						out = append(out, c19NLTestExprs(fl, fr, st.Rhs[i], depth+1)...)
					}
				}
			case *ast.ValueSpec:
				for i, nm := range st.Names {
					if is(nm) && len(st.Values) == len(st.Names) {
						out = append(out, c19NLTestExprs(fl, fr, st.Values[i], depth+1)...)
					}
				}
			}
			return true
		})
		return out
	}
	return nil
}
