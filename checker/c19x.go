package main

// Additional C19 / C11 rules written by the main author after independently seeded regressions.
//
//   C19.g  list.Dynamic.ensureScroll: whenever the selection is at or above the top item
//          (cursor <= top) the top becomes the cursor and the partial-row offset is reset; otherwise
//          the cursor is requested into view. (If cursor == top were excluded, a selection landing on a
//          partially scrolled top item would stay cut off after the draw.)
//   C19.h / C11.i  a grapheme cluster is recognised as a line break by containment of '\n'
//          (CR LF is ONE cluster), never by equality with "\n".

import (
	"go/ast"
	"go/token"
	"go/types"
	"strings"
)

func init() {
	registerExtra("C19", c19EnsureScroll)
	registerExtra("C19", func(c *Ctx) { newlineTests(c, "C19.h", []string{"widgets/pager.(*Model).Layout"}) })
	registerExtra("C11", func(c *Ctx) { newlineTests(c, "C11.i", []string{"vaxis.Window.Print"}) })
}

func c19EnsureScroll(c *Ctx) {
	c.Clauses = append(c.Clauses, "C19.g ensureScroll resets top and offset whenever cursor <= top, else requests the cursor into view",
		"C19.h the pager recognises a line break by containment of a newline in the cluster (CR LF is one cluster)")
	c.expect("C19.g", 2)
	c.expect("C19.h", 1)
	fi := c.P.Func("vxfw/list.(*Dynamic).ensureScroll")
	if fi == nil {
		c.undecided("C19.g", "vxfw/list.(*Dynamic).ensureScroll", 0, "ensureScroll not found")
		return
	}
	info := fi.Pkg.TypesInfo
	g := c.P.Graph(fi)
	isAssign := func(path string) func(ast.Node) bool {
		return func(n ast.Node) bool {
			as, ok := n.(*ast.AssignStmt)
			return ok && len(as.Lhs) == 1 && lhsPath(info, as.Lhs[0]) == path
		}
	}
	tops := g.Find(isAssign("Dynamic.scroll.top"))
	offs := g.Find(isAssign("Dynamic.scroll.offset"))
	wants := g.Find(isAssign("Dynamic.scroll.wantsCursor"))
	if len(tops) != 1 || len(offs) != 1 || len(wants) != 1 {
		c.undecided("C19.g", fi.Name+"/shape", fi.Decl.Pos(), "expected one store each to scroll.top, scroll.offset and scroll.wantsCursor (found %d, %d, %d)", len(tops), len(offs), len(wants))
		return
	}
	cur := Term{}
	top := Term{}
	// terms as they appear in the guard
	for _, b := range g.Blocks {
		if cd := g.BranchCond(b); cd != nil && cd.Tag == nil {
			if be, ok := unparen(cd.Expr).(*ast.BinaryExpr); ok {
				for _, e := range []ast.Expr{be.X, be.Y} {
					switch canonPath(info, e) {
					case "Dynamic.cursor":
						cur = termOf(info, e)
					case "Dynamic.scroll.top":
						top = termOf(info, e)
					}
				}
			}
		}
	}
	if cur.ID == "" || top.ID == "" {
		c.undecided("C19.g", fi.Name+"/guard", fi.Decl.Pos(), "no comparison of cursor with scroll.top found")
		return
	}
	// the reset branch must be reachable for every cursor <= top: its guard facts may only say cursor <= top (+k with k >= 0)
	factsTop := g.FactsAt(tops[0].Loc)
	okReset := true
	why := ""
	for _, a := range factsTop {
		if a.Kind == "lin" && a.A.ID == cur.ID && a.B.ID == top.ID && a.K < 0 {
			okReset, why = false, "the reset of scroll.top/offset happens only for "+a.String()
		}
		if a.Kind == "ne" || a.Kind == "bool" {
			okReset, why = false, "the reset is additionally guarded by "+a.String()
		}
	}
	// and it must not be reachable with cursor > top … (then the view would jump needlessly) – not required by the property
	c.check(okReset, "C19.g", fi.Name+"/top and offset reset whenever cursor <= top", tops[0].Node.Pos(),
		"reset branch covers cursor == top", why+": a selection that lands exactly on a partially scrolled top item keeps its first rows cut off after the draw")
	// both stores happen together
	okPair := tops[0].Loc.B == offs[0].Loc.B
	if v, isC := constInt(info, offs[0].Node.(*ast.AssignStmt).Rhs[0]); !isC || v != 0 {
		okPair = false
	}
	c.check(okPair, "C19.g", fi.Name+"/offset reset to 0 together with top", offs[0].Node.Pos(), "top = cursor and offset = 0 on the same path", "scroll.offset is not reset to 0 where scroll.top is set to the cursor")
	// the wantsCursor request covers cursor > top
	factsW := g.FactsAt(wants[0].Loc)
	okW := impliesLin(factsW, top, cur, -1) || impliesLin(factsW, top, cur, 0)
	c.check(okW, "C19.g", fi.Name+"/cursor requested into view when below the top", wants[0].Node.Pos(), "wantsCursor set under cursor > top", "wantsCursor is not set on the cursor-below-top path")
}

// newlineTests: in the given functions, the branch that starts a new line inside a loop over
// vaxis.Characters(...) must test the cluster for containing a newline.
func newlineTests(c *Ctx, rule string, fns []string) {
	if rule == "C11.i" {
		c.Clauses = append(c.Clauses, "C11.i Print recognises a line break by containment of a newline in the cluster (CR LF is one cluster)")
		c.expect("C11.i", 1)
	}
	for _, name := range fns {
		fi := c.P.Func(name)
		if fi == nil {
			c.undecided(rule, name, 0, "function not found")
			continue
		}
		info := fi.Pkg.TypesInfo
		found := 0
		ast.Inspect(fi.Decl.Body, func(n ast.Node) bool {
			rs, ok := n.(*ast.RangeStmt)
			if !ok {
				return true
			}
			call, ok := unparen(rs.X).(*ast.CallExpr)
			if !ok {
				return true
			}
			fn := calleeOf(info, call)
			if fn == nil || repoName(fn) != "vaxis.Characters" {
				return true
			}
			valID, _ := rs.Value.(*ast.Ident)
			if valID == nil {
				return true
			}
			charObj := info.ObjectOf(valID)
			// first statement of the loop body that is an if testing the cluster text
			for _, st := range rs.Body.List {
				ifs, ok := st.(*ast.IfStmt)
				if !ok {
					continue
				}
				mentions := containsNode(ifs.Cond, func(m ast.Node) bool {
					s, ok := m.(*ast.SelectorExpr)
					if !ok || s.Sel.Name != "Grapheme" {
						return false
					}
					id, ok := s.X.(*ast.Ident)
					return ok && info.ObjectOf(id) == charObj
				})
				if !mentions {
					continue
				}
				// does the condition look for a newline at all?
				aboutNL := containsNode(ifs.Cond, func(m ast.Node) bool {
					if bl, ok := m.(*ast.BasicLit); ok {
						if s, isStr := constString(info, bl); isStr && strings.Contains(s, "\n") {
							return true
						}
						if v, isInt := constInt(info, bl); isInt && v == '\n' && bl.Kind == token.CHAR {
							return true
						}
					}
					if cl, ok := m.(*ast.CallExpr); ok {
						if f := calleeOf(info, cl); f != nil && strings.Contains(f.Name(), "LineBreak") {
							return true
						}
					}
					return false
				})
				if !aboutNL {
					continue
				}
				found++
				verdict, why := classifyNewlineTest(info, ifs.Cond)
				key := name + "/line break recognised by containment of a newline in the cluster"
				switch verdict {
				case "ok":
					c.ok(rule, key, ifs.Pos(), "%s", why)
				case "bad":
					c.bad(rule, key, ifs.Pos(), "%s: CR LF is a single grapheme cluster (\"\\r\\n\"), so a text with CRLF line terminators is laid out without line breaks", why)
				default:
					c.undecided(rule, key, ifs.Pos(), "unrecognised form of the newline test: %s", types.ExprString(ifs.Cond))
				}
				break
			}
			return true
		})
		if found == 0 && rule == "C11.i" {
			// other shapes of the same test (a flag variable, an index loop over the clusters ...): c11text.go
			found = c11NewlineTestAnyShape(c, rule, name, fi)
		}
		if found == 0 {
			c.undecided(rule, name+"/newline test", fi.Decl.Pos(), "no newline test on the clusters of vaxis.Characters found")
		}
	}
}

func classifyNewlineTest(info *types.Info, cond ast.Expr) (string, string) {
	cond = unparen(cond)
	switch t := cond.(type) {
	case *ast.CallExpr:
		if fn := calleeOf(info, t); fn != nil {
			switch fullName(fn) {
			case "strings.ContainsRune", "strings.Contains", "strings.ContainsAny", "strings.HasSuffix", "strings.IndexByte", "strings.IndexRune":
				return "ok", "containment test " + fn.Name()
			case "github.com/rivo/uniseg.HasTrailingLineBreakInString", "github.com/rivo/uniseg.HasTrailingLineBreak":
				return "ok", "uniseg trailing-line-break test"
			}
		}
	case *ast.BinaryExpr:
		switch t.Op {
		case token.EQL:
			for _, side := range []ast.Expr{t.X, t.Y} {
				if s, ok := constString(info, side); ok && strings.Trim(s, "\r\n") == "" && s != "" {
					return "bad", "the cluster is compared for equality with " + types.ExprString(side)
				}
			}
		case token.LOR:
			a, wa := classifyNewlineTest(info, t.X)
			b, wb := classifyNewlineTest(info, t.Y)
			if a == "ok" || b == "ok" {
				if a == "ok" {
					return "ok", wa
				}
				return "ok", wb
			}
			if a == "bad" && b == "bad" {
				// "\n" || "\r\n" enumerations: accept if both LF and CRLF are listed
				return "bad", wa + " / " + wb
			}
		case token.GEQ, token.GTR, token.NEQ:
			// strings.IndexByte(g, '\n') >= 0 and friends
			if call, ok := unparen(t.X).(*ast.CallExpr); ok {
				if fn := calleeOf(info, call); fn != nil && strings.HasPrefix(fullName(fn), "strings.Index") {
					return "ok", "index test " + fn.Name()
				}
			}
		}
	}
	return "?", ""
}
