package main

// c18norm.go — source normalisation of C18 (run before the rules, after the global pre-normalisation).
//
// The three SGR consumers (parseSGR, term.sgr, NewStyledString) are analysed function by function: the evaluator
// follows calls, but the bounds rule C18.e (dominating length guards) reads one body. A refactoring that moves a
// part of a consumer into a NEW helper function (e.g. one extended-colour parser shared by SGR 38/48/58) must not
// hide that part from the rule, nor make the caller's index arithmetic depend on an opaque result. Therefore:
//
//  1. new helper functions (names not on the reference list) with NAMED results are rewritten to the equivalent
//     form with unnamed results (the names become zero-initialised locals, a bare `return` returns them). The two
//     forms are the same function when the body has no defer / closure (checked). The shared inliner (c15norm.go)
//     does not inline functions with named results; after this step it can.
//  2. the shared inliner is run again over the two packages with a larger size limit: the helper that holds the
//     whole extended-colour switch is larger than the default limit, and so is a helper that holds the whole body
//     of a consumer (term.sgr as a one-line wrapper around applySGR(params, &vt.cursor.Style): ~1300 nodes). The
//     limit only bounds the growth of the copy; only new helpers the consumers call are candidates.
//  3. in the consumer functions, single-definition pure locals (sub := params[i], rest := params[i:],
//     remaining := len(params) - i, dst := &style.Foreground) are substituted by their definitions with the
//     path-sensitive safety conditions of c15PropagateIn, so that guards and index expressions speak about the
//     parameter list itself again.
//
// Nothing happens on a tree without new function names (steps 1-2) / without such locals (step 3).

import (
	"go/ast"
	"go/token"
	"go/types"
	"os"

	"golang.org/x/tools/go/packages"
)

var c18ConsumerDecls = map[string]bool{"parseSGR": true, "sgr": true, "NewStyledString": true}

func c18Normalise(c *Ctx) {
	if os.Getenv("VX_NO_NORMALISE") != "" {
		return
	}
	var shorts []string
	for _, sh := range []string{"vaxis", "widgets/term"} {
		if c.P.Pkg(sh) != nil {
			shorts = append(shorts, sh)
		}
	}
	before := len(c.Obs)
	// 1. named results of new helpers
	changed := map[*packages.Package]map[*ast.File]bool{}
	for _, sh := range shorts {
		pk := c.P.Pkg(sh)
		if ch := c18UnnameResults(pk); len(ch) > 0 {
			changed[pk] = ch
		}
	}
	if len(changed) > 0 {
		if err := c15Recheck(c, shorts, changed); err != nil {
			c.undecided("LOAD", "normalise", 0, "rewriting named results produced code that does not type-check (%v)", err)
			return
		}
	}
	// 2. inline (again) with a larger limit; only the new helpers the consumers (transitively) call may be inlined
	//    in this pass: every other function name is an anchor
	wanted := map[string]bool{}
	for _, sh := range shorts {
		pk := c.P.Pkg(sh)
		decls := map[*types.Func]*ast.FuncDecl{}
		var work []*ast.FuncDecl
		for _, f := range pk.Syntax {
			for _, d := range f.Decls {
				if fd, ok := d.(*ast.FuncDecl); ok && fd.Body != nil {
					if obj, ok := pk.TypesInfo.Defs[fd.Name].(*types.Func); ok {
						decls[obj] = fd
					}
					if c18ConsumerDecls[fd.Name.Name] {
						work = append(work, fd)
					}
				}
			}
		}
		seen := map[*ast.FuncDecl]bool{}
		for len(work) > 0 {
			fd := work[len(work)-1]
			work = work[:len(work)-1]
			if seen[fd] {
				continue
			}
			seen[fd] = true
			ast.Inspect(fd.Body, func(n ast.Node) bool {
				if call, ok := n.(*ast.CallExpr); ok {
					if fn := calleeOf(pk.TypesInfo, call); fn != nil {
						if cd := decls[fn]; cd != nil && !refFuncNames[cd.Name.Name] {
							wanted[cd.Name.Name] = true
							work = append(work, cd)
						}
					}
				}
				return true
			})
		}
	}
	fresh := len(wanted) > 0
	if fresh {
		anchors := map[string]bool{}
		for _, sh := range shorts {
			for _, f := range c.P.Pkg(sh).Syntax {
				for _, d := range f.Decls {
					if fd, ok := d.(*ast.FuncDecl); ok && !wanted[fd.Name.Name] {
						anchors[fd.Name.Name] = true
					}
				}
			}
		}
		for n := range refFuncNames {
			anchors[n] = true
		}
		old := c15MaxInlineNodes
		c15MaxInlineNodes = 4000
		c15NormaliseOpt(c, shorts, anchors, false)
		c15MaxInlineNodes = old
		if len(c.Obs) > before {
			return
		}
	}
	// 3. single-definition locals of the consumers
	c15PropagateSlices = true
	defer func() { c15PropagateSlices = false }()
	any := len(changed) > 0 || fresh
	for round := 0; round < 8; round++ {
		changed = map[*packages.Package]map[*ast.File]bool{}
		for _, sh := range shorts {
			pk := c.P.Pkg(sh)
			for _, f := range pk.Syntax {
				for _, d := range f.Decls {
					fd, ok := d.(*ast.FuncDecl)
					if !ok || fd.Body == nil || !c18ConsumerDecls[fd.Name.Name] {
						continue
					}
					if c15PropagateIn(c, pk, pk.TypesInfo, f, fd) {
						if changed[pk] == nil {
							changed[pk] = map[*ast.File]bool{}
						}
						changed[pk][f] = true
					}
				}
			}
		}
		if len(changed) == 0 {
			break
		}
		any = true
		if err := c15Recheck(c, shorts, changed); err != nil {
			c.undecided("LOAD", "normalise", 0, "local-variable propagation produced code that does not type-check (%v)", err)
			return
		}
	}
	if any {
		installAccessorResolver(c.P)
	}
}

// c18UnnameResults rewrites  func h(..) (a T, b U) { B }  as  func h(..) (T, U) { var a T; var b U; B' }  for new
// unexported helpers, where B' is B with every bare `return` replaced by `return a, b`.
func c18UnnameResults(pk *packages.Package) map[*ast.File]bool {
	changed := map[*ast.File]bool{}
	for _, f := range pk.Syntax {
		for _, d := range f.Decls {
			fd, ok := d.(*ast.FuncDecl)
			if !ok || fd.Body == nil || fd.Type.Results == nil || refFuncNames[fd.Name.Name] || fd.Name.IsExported() {
				continue
			}
			named := false
			blank := false
			for _, fld := range fd.Type.Results.List {
				for _, nm := range fld.Names {
					named = true
					if nm.Name == "_" {
						blank = true
					}
				}
			}
			if !named {
				continue
			}
			// a deferred call / closure may observe or change the result variables after `return e` has stored into them
			plain := true
			var bare []*ast.ReturnStmt
			ast.Inspect(fd.Body, func(n ast.Node) bool {
				switch t := n.(type) {
				case *ast.DeferStmt, *ast.FuncLit, *ast.GoStmt:
					plain = false
				case *ast.ReturnStmt:
					if len(t.Results) == 0 {
						bare = append(bare, t)
					}
				}
				return plain
			})
			if !plain || (blank && len(bare) > 0) {
				continue
			}
			var fields []*ast.Field
			var decls []ast.Stmt
			var names []string
			for _, fld := range fd.Type.Results.List {
				for _, nm := range fld.Names {
					fields = append(fields, &ast.Field{Type: c15Copy(fld.Type, nil).(ast.Expr)})
					names = append(names, nm.Name)
					if nm.Name == "_" {
						continue
					}
					decls = append(decls,
						&ast.DeclStmt{Decl: &ast.GenDecl{Tok: token.VAR, Specs: []ast.Spec{&ast.ValueSpec{Names: []*ast.Ident{ast.NewIdent(nm.Name)}, Type: c15Copy(fld.Type, nil).(ast.Expr)}}}},
						&ast.AssignStmt{Lhs: []ast.Expr{ast.NewIdent("_")}, Tok: token.ASSIGN, Rhs: []ast.Expr{ast.NewIdent(nm.Name)}})
				}
			}
			for _, r := range bare {
				for _, nm := range names {
					r.Results = append(r.Results, ast.NewIdent(nm))
				}
			}
			fd.Type.Results.List = fields
			fd.Body.List = append(decls, fd.Body.List...)
			changed[f] = true
		}
	}
	return changed
}
