package main

// c03_req.go — rule C03.i: request-flag / reply-channel pairing.
//
// A request flag is an integer field F of Vaxis that a requester sets (atomicStore(&vx.F, true))
// before it waits for a reply on a channel field ch, and that handleSequence consults
// (atomicLoad(&vx.F)) to decide whether an ambiguous report (CSI r;c R = cursor position OR a
// modified F3 key) is the awaited reply. Pairs (F, ch) are discovered from both sides:
//   requester side: a function that stores true into F and receives from a Vaxis channel field;
//   handler side  : a send on a Vaxis channel field in the input context dominated by +load(F).
// Obligations per pair:
//   i1 requester: every path from the store of true to a normal return passes the select arm that
//      receives from ch (the handler cleared the flag before sending) or a store of false into F;
//   i2 handler: every send on ch is dominated by +load(F)            (reply path only while set);
//   i3 handler: every path to that send passes a store of false into F (cleared before hand-over);
//   i4 handler: every path from the true edge of the load(F) test to the end of the function
//      passes a store of false (a consumed report always ends the request);
//   i5 every other access to F is one of these forms (ownership).
// Breaks ⇒ after an unanswered (or malformed-answer) query the flag stays set and the next
// two-parameter CSI … R — a late report or Shift/Alt/Ctrl+F3 — is swallowed instead of delivered.

import (
	"fmt"
	"go/ast"
	"go/constant"
	"go/token"
	"go/types"
	"sort"

	"golang.org/x/tools/go/cfg"
)

type c03Pair struct {
	flag *types.Var
	ch   *types.Var
}

// flagStore: call is atomicStore(&x.F, <const bool>) or sync/atomic.StoreInt32(&x.F, <const>).
func (x *c03Env) flagStore(n ast.Node) (f *types.Var, val bool, ok bool) {
	call, isCall := n.(*ast.CallExpr)
	if !isCall || len(call.Args) != 2 {
		return nil, false, false
	}
	fn := calleeOf(x.info, call)
	if fn == nil {
		return nil, false, false
	}
	name := repoName(fn)
	if name != "vaxis.atomicStore" && fullName(fn) != "sync/atomic.StoreInt32" {
		return nil, false, false
	}
	f = x.addrField(call.Args[0])
	if f == nil {
		return nil, false, false
	}
	tv, has := x.info.Types[call.Args[1]]
	if !has || tv.Value == nil {
		return f, false, false
	}
	switch tv.Value.Kind() {
	case constant.Bool:
		return f, constant.BoolVal(tv.Value), true
	case constant.Int:
		v, _ := constant.Int64Val(tv.Value)
		return f, v != 0, true
	}
	return f, false, false
}

// flagLoad: call is atomicLoad(&x.F) or sync/atomic.LoadInt32(&x.F).
func (x *c03Env) flagLoad(n ast.Node) *types.Var {
	call, isCall := n.(*ast.CallExpr)
	if isCall && len(call.Args) == 0 {
		if fn := calleeOf(x.info, call); fn != nil && fn.Pkg() == x.pk.Types {
			return x.flagAccessor(fn)
		}
	}
	if !isCall || len(call.Args) != 1 {
		return nil
	}
	fn := calleeOf(x.info, call)
	if fn == nil {
		return nil
	}
	if repoName(fn) != "vaxis.atomicLoad" && fullName(fn) != "sync/atomic.LoadInt32" {
		return nil
	}
	return x.addrField(call.Args[0])
}

// flagAccessor: fi is `func (…) bool { return <load of F> }` (possibly compared with a constant) -> F.
func (x *c03Env) flagAccessor(fn *types.Func) *types.Var {
	fi := x.c.P.FuncOfObj(fn)
	if fi == nil || fi.Pkg != x.pk || fi.Decl.Body == nil || len(fi.Decl.Body.List) != 1 {
		return nil
	}
	rs, ok := fi.Decl.Body.List[0].(*ast.ReturnStmt)
	if !ok || len(rs.Results) != 1 {
		return nil
	}
	var f *types.Var
	ast.Inspect(rs.Results[0], func(n ast.Node) bool {
		if call, ok := n.(*ast.CallExpr); ok && len(call.Args) == 1 {
			if cf := calleeOf(x.info, call); cf != nil && (repoName(cf) == "vaxis.atomicLoad" || fullName(cf) == "sync/atomic.LoadInt32") {
				f = x.addrField(call.Args[0])
			}
		}
		return f == nil
	})
	if f == nil || !x.impliesLoad(rs.Results[0], true, f) || !x.impliesLoadFalse(rs.Results[0], f) {
		return nil
	}
	return f
}

// impliesLoadFalse: e being false implies the flag is clear (so e is exactly "the flag is set").
func (x *c03Env) impliesLoadFalse(e ast.Expr, f *types.Var) bool {
	e = unparen(e)
	switch t := e.(type) {
	case *ast.CallExpr:
		return x.flagLoad(t) == f
	case *ast.BinaryExpr:
		if t.Op == token.EQL || t.Op == token.NEQ {
			return true // load ⋈ const: two-valued, the negation pins the other value (impliesLoad checked the constant)
		}
	}
	return false
}

// addrField: e is &<path>.F with F a field of Vaxis.
func (x *c03Env) addrField(e ast.Expr) *types.Var {
	u, ok := unparen(e).(*ast.UnaryExpr)
	if !ok || u.Op != token.AND {
		return nil
	}
	return x.vaxisField(u.X)
}

func (x *c03Env) vaxisField(e ast.Expr) *types.Var {
	sel, ok := unparen(e).(*ast.SelectorExpr)
	if !ok {
		return nil
	}
	s, ok := x.info.Selections[sel]
	if !ok || s.Kind() != types.FieldVal {
		return nil
	}
	fv, _ := s.Obj().(*types.Var)
	if fv == nil || anchorType(x.info.TypeOf(sel.X)) != "Vaxis" {
		return nil
	}
	return fv
}

// loadPolarity: does cond == pol imply load(F) is true? (the call itself, `!= 0`, `== 1`, `== true`, conjunctions, negations)
func (x *c03Env) impliesLoad(e ast.Expr, pol bool, f *types.Var) bool {
	e = unparen(e)
	switch t := e.(type) {
	case *ast.UnaryExpr:
		if t.Op == token.NOT {
			return x.impliesLoad(t.X, !pol, f)
		}
	case *ast.CallExpr:
		return pol && x.flagLoad(t) == f
	case *ast.BinaryExpr:
		switch t.Op {
		case token.LAND:
			return pol && (x.impliesLoad(t.X, true, f) || x.impliesLoad(t.Y, true, f))
		case token.LOR:
			return !pol && (x.impliesLoad(t.X, false, f) || x.impliesLoad(t.Y, false, f))
		case token.EQL, token.NEQ:
			for _, pr := range [][2]ast.Expr{{t.X, t.Y}, {t.Y, t.X}} {
				call, ok := unparen(pr[0]).(*ast.CallExpr)
				if !ok || x.flagLoad(call) != f {
					continue
				}
				tv, ok := x.info.Types[pr[1]]
				if !ok || tv.Value == nil {
					continue
				}
				set := false
				switch tv.Value.Kind() {
				case constant.Bool:
					set = constant.BoolVal(tv.Value)
				case constant.Int:
					v, _ := constant.Int64Val(tv.Value)
					if v != 0 && v != 1 {
						return false
					}
					set = v == 1
				default:
					return false
				}
				// (load == set) has value pol'  =>  load is (set == pol')
				eq := t.Op == token.EQL
				return (set == (eq == pol))
			}
		}
	}
	return false
}

func (x *c03Env) mentionsFlag(n ast.Node, f *types.Var) bool {
	return containsNode(n, func(m ast.Node) bool {
		e, ok := m.(ast.Expr)
		return ok && x.vaxisField(e) == f
	})
}

// recvFrom: the channel field a comm statement / expression receives from (nil if none).
func (x *c03Env) recvField(n ast.Node) *types.Var {
	var out *types.Var
	inspectNoLit(n, func(m ast.Node) bool {
		if u, ok := m.(*ast.UnaryExpr); ok && u.Op == token.ARROW && out == nil {
			out = x.vaxisField(u.X)
		}
		return out == nil
	})
	return out
}

func (x *c03Env) isComm(n ast.Node) bool {
	cc, ok := x.par[n].(*ast.CommClause)
	return ok && cc.Comm == n
}

// allPathsPass: every path from `from` (exclusive of earlier nodes) to a normal exit passes a
// block or node accepted by okBlock / okNode. Returns the first offending exit.
func (x *c03Env) allPathsPass(g *FG, from Loc, okBlock func(*cfg.Block) bool, okNode func(ast.Node) bool) (bool, *cfg.Block) {
	var bad *cfg.Block
	seen := map[*cfg.Block]bool{}
	var walk func(b *cfg.Block, idx int)
	walk = func(b *cfg.Block, idx int) {
		if bad != nil {
			return
		}
		if idx == 0 {
			if seen[b] {
				return
			}
			seen[b] = true
			if okBlock != nil && okBlock(b) {
				return
			}
		}
		for i := idx; i < len(b.Nodes); i++ {
			n := b.Nodes[i]
			if x.isComm(n) {
				continue // evaluated for every arm; the arm taken is a block, not this node
			}
			if okNode(n) {
				return
			}
		}
		if len(b.Succs) == 0 {
			if b.Kind == cfg.KindSelectAfterCase {
				return // "no arm ready" of a select without default: blocks, does not return
			}
			if g.isNormalExit(b) {
				bad = b
			}
			return
		}
		for _, s := range b.Succs {
			walk(s, 0)
		}
	}
	walk(from.B, from.Idx)
	return bad == nil, bad
}

func (x *c03Env) exitPos(g *FG, b *cfg.Block, def token.Pos) token.Pos {
	if b != nil && len(b.Nodes) > 0 {
		return b.Nodes[len(b.Nodes)-1].Pos()
	}
	return def
}

func (x *c03Env) ruleI() {
	c := x.c
	type reqSite struct {
		fi  *FuncInfo
		hit Hit
	}
	requesters := map[*types.Var][]reqSite{}
	pairs := map[c03Pair]bool{}
	flags := map[*types.Var]bool{}
	funcs := c.P.FuncsIn("vaxis")

	// reply channels: Vaxis channel fields the input context sends on
	replyCh := map[*types.Var]bool{}
	for _, f := range x.reach {
		if f.pk != x.pk {
			continue
		}
		x.inspectSync(f.body, func(n ast.Node) bool {
			if s, ok := n.(*ast.SendStmt); ok {
				if ch := x.vaxisField(s.Chan); ch != nil {
					replyCh[ch] = true
				}
			}
			return true
		})
	}
	// requester side discovery
	for _, fi := range funcs {
		if fi.Decl.Body == nil {
			continue
		}
		g := c.P.Graph(fi)
		var chans []*types.Var
		ast.Inspect(fi.Decl.Body, func(n ast.Node) bool {
			if u, ok := n.(*ast.UnaryExpr); ok && u.Op == token.ARROW {
				if f := x.vaxisField(u.X); f != nil {
					if _, isChan := f.Type().Underlying().(*types.Chan); isChan && replyCh[f] {
						dup := false
						for _, o := range chans {
							dup = dup || o == f
						}
						if !dup {
							chans = append(chans, f)
						}
					}
				}
			}
			return true
		})
		for _, h := range g.Find(func(n ast.Node) bool { f, v, ok := x.flagStore(n); return ok && v && f != nil }) {
			f, _, _ := x.flagStore(h.Node)
			if len(chans) == 0 {
				continue // a plain status flag (e.g. resize): nobody waits for a reply
			}
			requesters[f] = append(requesters[f], reqSite{fi, h})
			flags[f] = true
			if len(chans) == 1 {
				pairs[c03Pair{f, chans[0]}] = true
			} else {
				c.undecided("C03.i", fmt.Sprintf("%s/%s request waits on several reply channels", fi.Name, f.Name()), h.Node.Pos(), "the requester receives from %d Vaxis channels; the reply channel of %s is ambiguous", len(chans), f.Name())
			}
		}
	}
	// handler side discovery: sends in the input context dominated by +load(F)
	type sendSite struct {
		f    *c03Fn
		g    *FG
		send *ast.SendStmt
		loc  Loc
		ch   *types.Var
	}
	var sends []sendSite
	for _, f := range x.reach {
		if f.fi == nil || f.pk != x.pk {
			continue
		}
		g := c.P.Graph(f.fi)
		for _, h := range g.Find(func(n ast.Node) bool { _, ok := n.(*ast.SendStmt); return ok }) {
			s := h.Node.(*ast.SendStmt)
			ch := x.vaxisField(s.Chan)
			if ch == nil {
				continue
			}
			sends = append(sends, sendSite{f, g, s, h.Loc, ch})
			for _, ga := range x.guardsInter(f.fi, g, h.Loc, 0) {
				gd := ga.gd
				if gd.Cond.Tag != nil || gd.Cond.Alts != nil {
					continue
				}
				ast.Inspect(gd.Cond.Expr, func(n ast.Node) bool {
					if fl := x.flagLoad(n); fl != nil && x.impliesLoad(gd.Cond.Expr, gd.Pol, fl) {
						pairs[c03Pair{fl, ch}] = true
						flags[fl] = true
					}
					return true
				})
			}
		}
	}
	if len(pairs) == 0 {
		c.undecided("C03.i", "vaxis/request flags", x.handle.Decl.Pos(), "no request flag / reply channel pair found (today: reqCursorPos / chCursorPos); the cursor-position hand-off has changed shape")
		return
	}
	var plist []c03Pair
	for p := range pairs {
		plist = append(plist, p)
	}
	sort.Slice(plist, func(i, j int) bool {
		return plist[i].flag.Name()+plist[i].ch.Name() < plist[j].flag.Name()+plist[j].ch.Name()
	})

	for _, p := range plist {
		F, CH := p.flag, p.ch
		var isClear func(n ast.Node) bool
		clearing := map[*types.Func]int{} // 1: every path of the helper clears F, 2: not
		isClear = func(n ast.Node) bool {
			return containsNode(n, func(m ast.Node) bool {
				if f, v, ok := x.flagStore(m); ok && !v && f == F {
					return true
				}
				// a same-package helper that clears F on every path
				if call, ok := m.(*ast.CallExpr); ok {
					if fn := calleeOf(x.info, call); fn != nil {
						if cfi := x.keyEnv().inReach[fn]; cfi != nil && cfi.Decl.Body != nil {
							if clearing[fn] == 0 {
								clearing[fn] = 2 // recursion guard
								if okAll, _ := x.allPathsPass(c.P.Graph(cfi), c.P.Graph(cfi).Entry(), nil, isClear); okAll {
									clearing[fn] = 1
								}
							}
							return clearing[fn] == 1
						}
					}
				}
				return false
			})
		}
		// i1 requester side
		if len(requesters[F]) == 0 {
			c.bad("C03.i", fmt.Sprintf("vaxis/%s has a requester that waits on %s", F.Name(), CH.Name()), F.Pos(), "handleSequence consults %s before sending on %s, but no function sets it and then receives from that channel: the reply path is dead or the flag is set by someone who does not collect the reply", F.Name(), CH.Name())
		}
		for _, r := range requesters[F] {
			g := c.P.Graph(r.fi)
			key := fmt.Sprintf("%s/%s set => reply received from %s or flag cleared on every path", r.fi.Name, F.Name(), CH.Name())
			// a deferred clear installed before the request covers every path
			deferred := g.MustPrecede(func(n ast.Node) bool { _, isDefer := n.(*ast.DeferStmt); return isDefer && isClear(n) }, r.hit.Loc)
			okAll, badExit := x.allPathsPass(g, Loc{r.hit.Loc.B, r.hit.Loc.Idx + 1},
				func(b *cfg.Block) bool {
					if b.Kind != cfg.KindSelectCaseBody {
						return false
					}
					cc, ok := b.Stmt.(*ast.CommClause)
					return ok && cc.Comm != nil && x.recvField(cc.Comm) == CH
				},
				func(n ast.Node) bool {
					if isClear(n) {
						return true
					}
					return x.recvField(n) == CH // a plain blocking receive
				})
			if deferred || okAll {
				c.ok("C03.i", key, r.hit.Node.Pos(), "every path to a return takes the %s arm or stores false", CH.Name())
			} else {
				c.bad("C03.i", key, x.exitPos(g, badExit, r.hit.Node.Pos()), "there is a path from the request to a return (ending here) that neither receives the reply nor clears %s: after an unanswered query the flag stays set and the next two-parameter CSI … R (a late report or Shift/Alt/Ctrl+F3) is swallowed instead of delivered as a key", F.Name())
			}
		}
		// m: the request is armed before the query is written (C03.m)
		for _, r := range requesters[F] {
			g := c.P.Graph(r.fi)
			waits := g.Find(func(n ast.Node) bool { return x.recvField(n) == CH })
			isArm := func(n ast.Node) bool {
				return containsNode(n, func(m ast.Node) bool { f, v, ok := x.flagStore(m); return ok && v && f == F })
			}
			key := fmt.Sprintf("%s/%s is set before the query is written", r.fi.Name, F.Name())
			nq, why := 0, ""
			for _, em := range ExtractEmissions(c.P, []*FuncInfo{r.fi}, vaxisTerminalSink) {
				if em.G != g {
					continue
				}
				leads := false
				for _, w := range waits {
					if g.ReachesAvoiding(em.Loc, w.Loc, nil) {
						leads = true
					}
				}
				if !leads {
					continue
				}
				nq++
				if !g.MustPrecede(isArm, em.Loc) && why == "" {
					why = fmt.Sprintf("%s writes to the terminal (%s) on a path that has not yet stored true into %s: a report that the input goroutine dispatches between the write and the store is not recognised as the awaited reply — it is delivered to the application as a key and the request times out", r.fi.Name, c03Short(em.Call), F.Name())
				}
			}
			switch {
			case nq == 0:
				// the query is written elsewhere (by the caller): nothing to order inside this function
			case why == "":
				c.ok("C03.m", key, r.hit.Node.Pos(), "every terminal write of %s from which the wait on %s is reachable comes after the store of true on every path (%d writes)", r.fi.Name, CH.Name(), nq)
			default:
				c.bad("C03.m", key, r.hit.Node.Pos(), "%s", why)
			}
		}
		// handler side
		nSend := 0
		for _, s := range sends {
			if s.ch != CH {
				continue
			}
			nSend++
			base := fmt.Sprintf("%s/send on %s", s.f.name, canonPath(x.info, s.send.Chan))
			guarded := false
			for _, ga := range x.guardsInter(s.f.fi, s.g, s.loc, 0) {
				gd := ga.gd
				if gd.Cond.Tag == nil && gd.Cond.Alts == nil && x.impliesLoad(gd.Cond.Expr, gd.Pol, F) {
					guarded = true
					// i4: from the edge of the test, every path to the end of that function clears the flag
					succ := gd.From.Succs[1]
					if gd.Pol {
						succ = gd.From.Succs[0]
					}
					okAll, badExit := x.allPathsPass(ga.g, Loc{succ, 0}, nil, isClear)
					if okAll {
						c.ok("C03.i", fmt.Sprintf("%s/reply path under %s always clears it", s.f.name, F.Name()), gd.Cond.Expr.Pos(), "every path from the test to the end of the function stores false")
					} else {
						c.bad("C03.i", fmt.Sprintf("%s/reply path under %s always clears it", s.f.name, F.Name()), x.exitPos(ga.g, badExit, gd.Cond.Expr.Pos()),
							"a path that consumed the report as the awaited reply leaves the function (here) with %s still set: the next CSI … R is swallowed as well", F.Name())
					}
				}
			}
			c.check(guarded, "C03.i", base+" only while "+F.Name()+" is set", s.send.Pos(),
				"dominated by the positive test of the flag", "the report is handed to "+CH.Name()+" without testing "+F.Name()+": a key press encoded as the same sequence (CSI 1;2R = Shift+F3) is consumed as a reply although nobody asked")
			cleared := s.g.MustPrecede(isClear, s.loc)
			for f2, hop := s.f.fi, 0; !cleared && f2 != nil && hop < 3; hop++ {
				cs := x.uniqueCaller(f2)
				if cs == nil {
					break
				}
				cleared = cs.g.MustPrecede(isClear, cs.loc)
				f2 = cs.fi
			}
			c.check(cleared, "C03.i", base+" after "+F.Name()+" was cleared", s.send.Pos(),
				"every path to the hand-over stores false first", "the hand-over on "+CH.Name()+" is reachable without clearing "+F.Name()+": the requester's receive arm does not clear it either, so the flag outlives the request")
		}
		if nSend == 0 {
			c.bad("C03.i", fmt.Sprintf("vaxis/%s is answered on %s", F.Name(), CH.Name()), F.Pos(), "a requester sets %s and waits on %s, but the input context never sends on that channel", F.Name(), CH.Name())
		}
	}

	// i5 ownership: every mention of a request flag is a store/load in one of the understood forms
	for _, fi := range funcs {
		if fi.Decl.Body == nil {
			continue
		}
		ast.Inspect(fi.Decl.Body, func(n ast.Node) bool {
			e, ok := n.(ast.Expr)
			if !ok {
				return true
			}
			f := x.vaxisField(e)
			if f == nil || !flags[f] {
				return true
			}
			okUse := false
			if u, ok := x.par[e].(*ast.UnaryExpr); ok && u.Op == token.AND {
				if call, ok := x.par[u].(*ast.CallExpr); ok {
					if sf, _, isConst := x.flagStore(call); sf == f && isConst {
						okUse = true
					}
					if x.flagLoad(call) == f {
						okUse = true
					}
				}
			}
			if !okUse {
				c.undecided("C03.i", fmt.Sprintf("%s/%s accessed outside atomicStore(const)/atomicLoad", fi.Name, f.Name()), e.Pos(), "the request flag %s is used in a form the pairing rule does not understand", f.Name())
			}
			return true
		})
	}
	// a load of the flag in the input context must be a branch condition the rule recognised (otherwise undecided)
	for _, f := range x.reach {
		if f.fi == nil || f.pk != x.pk {
			continue
		}
		g := c.P.Graph(f.fi)
		for _, h := range g.Find(func(n ast.Node) bool { fl := x.flagLoad(n); return fl != nil && flags[fl] }) {
			fl := x.flagLoad(h.Node)
			if x.flagAccessor(f.fi.Obj) == fl {
				continue // the accessor itself; its callers are checked
			}
			cd := g.BranchCond(h.Loc.B)
			if cd == nil || cd.Tag != nil || h.Loc.Idx != len(h.Loc.B.Nodes)-1 || !(x.impliesLoad(cd.Expr, true, fl) || x.impliesLoad(cd.Expr, false, fl)) {
				c.undecided("C03.i", fmt.Sprintf("%s/test of %s", f.name, fl.Name()), h.Node.Pos(), "%s is loaded outside a branch condition whose polarity the rule understands", fl.Name())
			}
		}
	}
}
