package main

// C19.i / C19.j — vxfw/list: "lay drawn items out in order, contiguously and without overlap".
//
// C19.i is a typestate over the layout accumulator (the local that is passed as the row of every
// placement): a child may only be placed at the accumulated row while that row is in sync with the
// children already placed, i.e. it is the bottom of the last child (downward stacking: place, then
// advance by the placed child's height) or it has just been lowered by the height of the child about to
// be placed (upward stacking: reserve, then place at the front). A call that hands the surface to
// another layout function (which may re-flow the children) leaves the caller's accumulator stale until it
// is re-derived from the last child or the surface is known to have no children.
//
//   states  E   no child can exist yet (the accumulator may be assigned freely)
//           S   accumulator in sync with the children
//           P:x child x placed at the accumulator, accumulator not advanced yet
//           R:x accumulator lowered by the height of x, x not placed yet
//           X   stale
//
// C19.j: a loop that edits the elements of a slice of structs through the range copy stores the copy back
// (otherwise the edit — shifting the children into view, re-flowing them from row 0 — is lost), and a
// re-flow loop assigns consecutive rows (row of element = running row; running row += element height).

import (
	"fmt"
	"go/ast"
	"go/token"
	"go/types"
	"os"
	"strings"

	"golang.org/x/tools/go/cfg"
)

func init() { registerExtra("C19", c19Contiguity) }

type c19LayoutFn struct {
	fi    *FuncInfo
	sites []ast.Node // placement calls
}

func c19IsSurfaceType(t types.Type) bool {
	if p, ok := t.(*types.Pointer); ok {
		t = p.Elem()
	}
	n, ok := t.(*types.Named)
	return ok && n.Obj().Name() == "Surface" && n.Obj().Pkg() != nil && strings.HasSuffix(n.Obj().Pkg().Path(), "/vxfw")
}

// c19Placement: AddChild(col,row,child) on a Surface, or NewSubSurface(col,row,child).
func c19Placement(info *types.Info, n ast.Node) (call *ast.CallExpr, row, child ast.Expr, viaAdd bool) {
	ce, ok := n.(*ast.CallExpr)
	if !ok || len(ce.Args) != 3 {
		return nil, nil, nil, false
	}
	fn := calleeOf(info, ce)
	if fn == nil {
		return nil, nil, nil, false
	}
	switch repoName(fn) {
	case "vxfw.Surface.AddChild":
		return ce, ce.Args[1], ce.Args[2], true
	case "vxfw.NewSubSurface":
		return ce, ce.Args[1], ce.Args[2], false
	}
	return nil, nil, nil, false
}

func c19PlainVar(info *types.Info, e ast.Expr) *types.Var {
	e = unparen(e)
	for {
		if call, ok := e.(*ast.CallExpr); ok && len(call.Args) == 1 {
			if _, conv := c19IsConversion(info, call); conv {
				e = unparen(call.Args[0])
				continue
			}
		}
		break
	}
	id, ok := e.(*ast.Ident)
	if !ok {
		return nil
	}
	v, _ := info.ObjectOf(id).(*types.Var)
	if v == nil || v.IsField() {
		return nil
	}
	return v
}

// c19HeightRoots: the Surface-typed variables whose height occurs in e (x.Size.Height).
func c19HeightRoots(info *types.Info, e ast.Expr) []types.Object {
	var out []types.Object
	seen := map[types.Object]bool{}
	inspectNoLit(e, func(n ast.Node) bool {
		se, ok := n.(*ast.SelectorExpr)
		if !ok || se.Sel.Name != "Height" {
			return true
		}
		inner, ok := unparen(se.X).(*ast.SelectorExpr)
		if !ok || inner.Sel.Name != "Size" {
			return true
		}
		if !c19IsSurfaceType(info.TypeOf(inner.X)) {
			return true
		}
		if r := rootObj(info, inner.X); r != nil && !seen[r] {
			seen[r] = true
			out = append(out, r)
		}
		return true
	})
	return out
}

// c19IsLastChild: e is X.Children[len(X.Children)-1] (directly or through a single-definition local).
func c19IsLastChild(c *Ctx, fi *FuncInfo, e ast.Expr) bool {
	info := fi.Pkg.TypesInfo
	e = unparen(e)
	if id, ok := e.(*ast.Ident); ok {
		v, _ := info.ObjectOf(id).(*types.Var)
		if v == nil {
			return false
		}
		def, _ := c19LocalDef(fi, v)
		if def == nil {
			return false
		}
		e = unparen(def)
	}
	ie, ok := e.(*ast.IndexExpr)
	if !ok {
		return false
	}
	sel, ok := unparen(ie.X).(*ast.SelectorExpr)
	if !ok || sel.Sel.Name != "Children" || !c19IsSurfaceType(info.TypeOf(sel.X)) {
		return false
	}
	// index == len(same) - 1
	l := c19LinOf(info, ie.Index)
	want := c19LenLin(info, ie.X).addK(-1)
	d := l.plus(want, -1)
	return len(d.coef) == 0 && d.k == 0
}

// c19Rederive: rhs == L.Origin.Row + L.Surface.Size.Height (+ anything that is not a child term) with L the last child.
func c19Rederive(c *Ctx, fi *FuncInfo, rhs ast.Expr) bool {
	info := fi.Pkg.TypesInfo
	var rowOf, heightOf ast.Expr
	inspectNoLit(rhs, func(n ast.Node) bool {
		se, ok := n.(*ast.SelectorExpr)
		if !ok {
			return true
		}
		switch se.Sel.Name {
		case "Row":
			if in, ok := unparen(se.X).(*ast.SelectorExpr); ok && in.Sel.Name == "Origin" {
				rowOf = in.X
			}
		case "Height":
			if in, ok := unparen(se.X).(*ast.SelectorExpr); ok && in.Sel.Name == "Size" {
				if in2, ok := unparen(in.X).(*ast.SelectorExpr); ok && in2.Sel.Name == "Surface" {
					heightOf = in2.X
				}
			}
		}
		return true
	})
	if rowOf == nil || heightOf == nil {
		return false
	}
	if termOf(info, rowOf).ID != termOf(info, heightOf).ID {
		return false
	}
	// the sum has coefficient +1 on both
	l := c19LinOf(info, rhs)
	pos := 0
	for _, id := range l.ids() {
		if l.coef[id] == 1 {
			pos++
		} else if l.coef[id] < 0 {
			return false
		}
	}
	return pos >= 2 && c19IsLastChild(c, fi, rowOf)
}

func c19Contiguity(c *Ctx) {
	c.Clauses = append(c.Clauses,
		"C19.i vxfw/list: a child is placed at the accumulated row only while that row is in sync with the children already placed (place-then-advance downward, reserve-then-place-at-the-front upward; after the surface was handed to another layout function the accumulator is re-derived from the last child unless there are no children)",
		"C19.j vxfw/list: loops that shift or re-flow the children through the range copy store the copy back; a re-flow assigns consecutive rows")
	c.expect("C19.i", 3)
	c.expect("C19.j", 3)
	pkgName := "vxfw/list"
	pk := c.P.Pkg(pkgName)
	if pk == nil {
		c.undecided("C19.i", pkgName, 0, "package not found")
		return
	}
	info := pk.TypesInfo
	// layout functions: those that contain a placement
	layout := map[*types.Func]*c19LayoutFn{}
	var order []*c19LayoutFn
	for _, fi := range c.P.FuncsIn(pkgName) {
		if fi.Decl.Body == nil {
			continue
		}
		lf := &c19LayoutFn{fi: fi}
		inspectNoLit(fi.Decl.Body, func(n ast.Node) bool {
			if call, _, _, _ := c19Placement(info, n); call != nil {
				lf.sites = append(lf.sites, call)
			}
			return true
		})
		if len(lf.sites) > 0 {
			if fi.Obj != nil {
				layout[fi.Obj] = lf
			}
			order = append(order, lf)
		}
	}
	if len(order) == 0 {
		c.undecided("C19.i", pkgName+"/placements", 0, "no AddChild / NewSubSurface call found in the package: nothing lays the items out")
		return
	}
	var models []*c19AccModel
	for _, lf := range order {
		models = append(models, c19ContiguityFn(c, lf, layout))
	}
	// the order of the children (C19.o) and the front-insertion obligation of C19.i: c19o.go
	c19ListOrder(c, models, layout)
	c19RangeCopies(c, pkgName)
}

// c19AccModel: the layout accumulator of one layout function and the events on it (shared by the
// contiguity typestate below and by the order typestate of c19o.go).
type c19AccModel struct {
	c       *Ctx
	fi      *FuncInfo
	info    *types.Info
	acc     *types.Var
	isParam bool
	layout  map[*types.Func]*c19LayoutFn
}

type c19AccEvent struct {
	kind string // place, advance, reserve, rederive, clobber, foreign, childstore
	obj  types.Object
	pos  token.Pos
	node ast.Node
}

func c19ObjName(o types.Object) string {
	if o == nil {
		return "?"
	}
	return o.Name()
}

func (m *c19AccModel) isAcc(e ast.Expr) bool {
	id, ok := unparen(e).(*ast.Ident)
	return ok && m.info.ObjectOf(id) == types.Object(m.acc)
}

// c19NewAccModel finds the accumulator (nil: the function has no layout placement at an accumulated row, or
// the shape is not understood - then `report` says so).
func c19NewAccModel(c *Ctx, lf *c19LayoutFn, layout map[*types.Func]*c19LayoutFn, report bool) *c19AccModel {
	fi := lf.fi
	info := fi.Pkg.TypesInfo
	// the accumulator: the one local that is the row of every placement
	var acc *types.Var
	for _, s := range lf.sites {
		_, row, _, _ := c19Placement(info, s)
		// a placement at a constant row inside another surface (the cursor gutter wraps the child at row 0) is not a layout placement
		if _, isConst := constInt(info, row); isConst {
			continue
		}
		// a placement that re-uses the origin of an existing child (replacement in place)
		if se, ok := unparen(row).(*ast.SelectorExpr); ok && se.Sel.Name == "Row" {
			continue
		}
		v := c19PlainVar(info, row)
		if v == nil {
			if report {
				c.undecided("C19.i", fi.Name+"/row of placement", s.Pos(), "the row of a placement is %s, not a plain accumulator variable", types.ExprString(row))
			}
			return nil
		}
		if acc != nil && acc != v {
			if report {
				c.undecided("C19.i", fi.Name+"/row of placement", s.Pos(), "placements use two different accumulators (%s, %s)", acc.Name(), v.Name())
			}
			return nil
		}
		acc = v
	}
	if acc == nil {
		return nil
	}
	m := &c19AccModel{c: c, fi: fi, info: info, acc: acc, layout: layout}
	if fi.Decl.Type.Params != nil {
		for _, f := range fi.Decl.Type.Params.List {
			for _, nm := range f.Names {
				if info.ObjectOf(nm) == types.Object(acc) {
					m.isParam = true
				}
			}
		}
	}
	return m
}

// init: the accumulator state at the entry of the function.
func (m *c19AccModel) init() string {
	if m.isParam {
		return "S"
	}
	return "E"
}

// events: the accumulator events of one CFG node, in evaluation order.
func (m *c19AccModel) events(n ast.Node) []c19AccEvent {
	type event = c19AccEvent
	c, fi, info, acc, layout, isAcc := m.c, m.fi, m.info, m.acc, m.layout, m.isAcc
	{
		var evs []event
		// calls first, in source order
		inspectNoLit(n, func(m ast.Node) bool {
			call, ok := m.(*ast.CallExpr)
			if !ok {
				return true
			}
			if pc, row, child, _ := c19Placement(info, call); pc != nil {
				if v := c19PlainVar(info, row); v != nil && v == acc {
					evs = append(evs, event{"place", rootObj(info, child), call.Pos(), call})
				}
				return true
			}
			fn := calleeOf(info, call)
			if fn == nil {
				return true
			}
			if _, isLayout := layout[fn]; isLayout {
				// does the call hand over a surface?
				for _, a := range call.Args {
					if c19IsSurfaceType(info.TypeOf(a)) {
						if _, isPtr := info.TypeOf(a).(*types.Pointer); isPtr {
							evs = append(evs, event{"foreign", nil, call.Pos(), call})
							break
						}
					}
				}
			}
			return true
		})
		switch st := n.(type) {
		case *ast.AssignStmt:
			for i, lh := range st.Lhs {
				if isAcc(lh) {
					if st.Tok == token.DEFINE || len(st.Lhs) != len(st.Rhs) {
						evs = append(evs, event{"clobber", nil, st.Pos(), st})
						continue
					}
					rhs := st.Rhs[i]
					switch st.Tok {
					case token.ADD_ASSIGN, token.SUB_ASSIGN:
						roots := c19HeightRoots(info, rhs)
						if len(roots) == 1 {
							k := "advance"
							if st.Tok == token.SUB_ASSIGN {
								k = "reserve"
							}
							evs = append(evs, event{k, roots[0], st.Pos(), st})
						} else {
							evs = append(evs, event{"clobber", nil, st.Pos(), st})
						}
					case token.ASSIGN:
						if c19Rederive(c, fi, rhs) {
							evs = append(evs, event{"rederive", nil, st.Pos(), st})
							continue
						}
						// acc = acc +/- height
						l := c19LinOf(info, rhs)
						accID := c19NewTerm(info, ast.Expr(st.Lhs[i])).id
						roots := c19HeightRoots(info, rhs)
						if l.coef[accID] == 1 && len(roots) == 1 {
							sign := int64(0)
							for _, id := range l.ids() {
								if id != accID && strings.Contains(types.ExprString(l.tm[id].ex), "Height") {
									sign = l.coef[id]
								}
							}
							if sign == 1 {
								evs = append(evs, event{"advance", roots[0], st.Pos(), st})
								continue
							}
							if sign == -1 {
								evs = append(evs, event{"reserve", roots[0], st.Pos(), st})
								continue
							}
						}
						evs = append(evs, event{"clobber", nil, st.Pos(), st})
					default:
						evs = append(evs, event{"clobber", nil, st.Pos(), st})
					}
					continue
				}
				// stores to X.Children / X.Children[i]
				if c19IsChildrenStore(info, lh) {
					// the commit of a pending NewSubSurface (append / slices.Insert of it) is part of the placement
					if len(st.Lhs) == len(st.Rhs) && c19IsCommit(info, st.Rhs[i]) {
						continue
					}
					evs = append(evs, event{"childstore", nil, st.Pos(), st})
				}
			}
		case *ast.IncDecStmt:
			if isAcc(st.X) {
				evs = append(evs, event{"clobber", nil, st.Pos(), st})
			}
		}
		return evs
	}
}

// step: the accumulator typestate after one event (why != "": a placement at a row that is not in sync).
func (m *c19AccModel) step(cur string, ev c19AccEvent) (next, why string) {
	objName := c19ObjName
	switch ev.kind {
	case "place":
		switch {
		case cur == "E" || cur == "S":
			cur = "P:" + objName(ev.obj)
		case strings.HasPrefix(cur, "R:"):
			if cur == "R:"+objName(ev.obj) {
				cur = "S"
			} else {
				why = "the row was lowered by the height of " + cur[2:] + " but " + objName(ev.obj) + " is placed there: the children overlap or leave a hole"
				cur = "S"
			}
		case strings.HasPrefix(cur, "P:"):
			why = "the previous child (" + cur[2:] + ") was placed at the same accumulated row and the row was not advanced by its height: the children overlap"
			cur = "P:" + objName(ev.obj)
		default:
			why = "the accumulated row is stale here (it was changed without a placement, or the surface was handed to another layout function that may have re-flowed the children, and it was not re-derived from the last child): the item is not placed directly below the previous one"
			cur = "P:" + objName(ev.obj)
		}
	case "advance":
		switch {
		case cur == "E":
		case cur == "P:"+objName(ev.obj):
			cur = "S"
		default:
			cur = "X"
		}
	case "reserve":
		switch {
		case cur == "E" || cur == "S":
			cur = "R:" + objName(ev.obj)
		default:
			cur = "X"
		}
	case "rederive":
		cur = "S"
	case "clobber":
		if cur != "E" {
			cur = "X"
		}
	case "foreign":
		cur = "X"
	case "childstore":
		if cur != "E" {
			cur = "X"
		}
	}
	return cur, why
}

// emptyOnEdge: the surfaces X for which the branch edge establishes len(X.Children) <= 0.
func (m *c19AccModel) emptyOnEdge(cd *Cond, truth bool) []ast.Expr {
	info := m.info
	var out []ast.Expr
	atoms := condAtoms(info, cd, truth)
	inspectNoLit(cd.Expr, func(n ast.Node) bool {
		call, ok := n.(*ast.CallExpr)
		if !ok || c19IsBuiltin(info, call, "len") == "" || len(call.Args) != 1 {
			return true
		}
		sel, ok := unparen(call.Args[0]).(*ast.SelectorExpr)
		if !ok || sel.Sel.Name != "Children" || !c19IsSurfaceType(info.TypeOf(sel.X)) {
			return true
		}
		if impliesLin(atoms, termOf(info, call), Term{}, 0) {
			out = append(out, sel)
		}
		return true
	})
	return out
}

func c19ContiguityFn(c *Ctx, lf *c19LayoutFn, layout map[*types.Func]*c19LayoutFn) *c19AccModel {
	m := c19NewAccModel(c, lf, layout, true)
	if m == nil {
		return nil
	}
	fi, info, acc := m.fi, m.info, m.acc
	g := c.P.Graph(fi)
	bad := map[ast.Node]string{}
	seenSite := map[ast.Node]bool{}
	fl := &tsFlow{g: g}
	fl.transfer = func(l Loc, n ast.Node, s string) []string {
		cur := s
		for _, ev := range m.events(n) {
			if os.Getenv("C19DBG") != "" {
				fmt.Fprintf(os.Stderr, "%s %s: %s obj=%s in=%s\n", fi.Name, c.P.Pos(ev.pos), ev.kind, c19ObjName(ev.obj), cur)
			}
			if ev.kind == "place" {
				seenSite[ev.node] = true
			}
			var why string
			cur, why = m.step(cur, ev)
			if why != "" && (bad[ev.node] == "" || !strings.HasPrefix(why, "the accumulated row is stale")) {
				bad[ev.node] = why
			}
		}
		return []string{cur}
	}
	fl.refine = func(b *cfg.Block, cd *Cond, truth bool, s string) []string {
		// an edge on which len(X.Children) <= 0 holds: no children, the accumulator is free again
		if len(m.emptyOnEdge(cd, truth)) > 0 {
			return []string{"E"}
		}
		return []string{s}
	}
	fl.run(m.init())
	for _, s := range lf.sites {
		_, row, _, _ := c19Placement(info, s)
		if v := c19PlainVar(info, row); v == nil || v != acc {
			continue
		}
		key := fi.Name + "/child placed at the accumulated row in sync with the children"
		if !seenSite[s] {
			c.okTrivial("C19.i", key, s.Pos(), "placement not reachable")
			continue
		}
		if why, isBad := bad[s]; isBad {
			c.bad("C19.i", key, s.Pos(), "%s", why)
		} else {
			c.ok("C19.i", key, s.Pos(), "every path to this placement leaves %s equal to the bottom of the last child (or lowered by the height of the child placed, or no child exists)", acc.Name())
		}
	}
	return m
}

func c19IsChildrenStore(info *types.Info, lh ast.Expr) bool {
	lh = unparen(lh)
	if ie, ok := lh.(*ast.IndexExpr); ok {
		lh = unparen(ie.X)
	}
	sel, ok := lh.(*ast.SelectorExpr)
	return ok && sel.Sel.Name == "Children" && c19IsSurfaceType(info.TypeOf(sel.X))
}

// c19IsCommit: append(X.Children, ss) or slices.Insert(X.Children, i, ss).
func c19IsCommit(info *types.Info, rhs ast.Expr) bool {
	call, ok := unparen(rhs).(*ast.CallExpr)
	if !ok {
		return false
	}
	if c19IsBuiltin(info, call, "append") != "" {
		return true
	}
	fn := calleeOf(info, call)
	return fn != nil && c19IsSlicesInsert(fn)
}

func c19IsSlicesInsert(fn *types.Func) bool {
	return fn.Name() == "Insert" && fn.Pkg() != nil && (fn.Pkg().Path() == "slices" || strings.HasSuffix(fn.Pkg().Path(), "/slices"))
}

// c19RangeCopies: C19.j. The rule is about the EFFECT of a loop over a slice of structs that edits fields of
// its elements (shifting the children into view, re-flowing them from row 0): the edit must arrive in the
// slice. An element can be reached
//   - through a copy (the value variable of the range statement, or a local `e := C[k]`): the copy has to be
//     stored back (`C[k] = e`) on every path to the next iteration;
//   - in place (`C[k].f = ...`, or through `p := &C[k]`): nothing has to be stored back, but a later store of a
//     (stale) copy over the same element before the next iteration would undo the edit.
//
// k is the key of the range statement or the counter of a three-clause loop.
type c19ElemLoop struct {
	fi   *FuncInfo
	info *types.Info
	loop ast.Stmt
	body *ast.BlockStmt
	coll ast.Expr              // collection of a range statement (nil for a three-clause loop)
	keys map[types.Object]bool // index variables
	val  types.Object          // range copy
}

const (
	c19RefNone = iota
	c19RefCopy
	c19RefInPlace
)

func c19StructSlice(t types.Type) bool {
	if t == nil {
		return false
	}
	var el types.Type
	switch u := t.Underlying().(type) {
	case *types.Slice:
		el = u.Elem()
	case *types.Array:
		el = u.Elem()
	case *types.Pointer:
		if a, ok := u.Elem().Underlying().(*types.Array); ok {
			el = a.Elem()
		}
	}
	if el == nil {
		return false
	}
	_, ok := el.Underlying().(*types.Struct)
	return ok
}

// elemIndex: e is C[k] with C a slice of structs and k an index variable of the loop (and C the ranged
// collection when there is one).
func (el *c19ElemLoop) elemIndex(e ast.Expr) (coll ast.Expr, ok bool) {
	ie, isIdx := unparen(e).(*ast.IndexExpr)
	if !isIdx || !c19StructSlice(el.info.TypeOf(ie.X)) {
		return nil, false
	}
	id, isID := unparen(ie.Index).(*ast.Ident)
	if !isID || !el.keys[el.info.ObjectOf(id)] {
		return nil, false
	}
	if el.coll != nil && termOf(el.info, ie.X).ID != termOf(el.info, el.coll).ID {
		return nil, false
	}
	return ie.X, true
}

// ref classifies the base of a selector chain: which element reference is it, if any. For a copy the
// variable holding the copy and the collection it was taken from are returned.
func (el *c19ElemLoop) ref(e ast.Expr) (kind int, copyVar types.Object, coll ast.Expr) {
	e = unparen(e)
	for {
		switch t := e.(type) {
		case *ast.SelectorExpr:
			if _, isField := el.info.Selections[t]; !isField {
				return c19RefNone, nil, nil
			}
			e = unparen(t.X)
			continue
		case *ast.StarExpr:
			e = unparen(t.X)
			continue
		}
		break
	}
	if c, ok := el.elemIndex(e); ok {
		return c19RefInPlace, nil, c
	}
	id, ok := e.(*ast.Ident)
	if !ok {
		return c19RefNone, nil, nil
	}
	obj := el.info.ObjectOf(id)
	if obj == nil {
		return c19RefNone, nil, nil
	}
	if el.val != nil && obj == el.val {
		return c19RefCopy, obj, el.coll
	}
	v, isVar := obj.(*types.Var)
	if !isVar || v.IsField() {
		return c19RefNone, nil, nil
	}
	def, stmt := c19LocalDef(el.fi, v)
	if def == nil || stmt == nil || stmt.Pos() < el.body.Pos() || stmt.End() > el.body.End() {
		return c19RefNone, nil, nil
	}
	def = unparen(def)
	if u, isAddr := def.(*ast.UnaryExpr); isAddr && u.Op == token.AND {
		if c, ok := el.elemIndex(u.X); ok {
			return c19RefInPlace, nil, c
		}
		return c19RefNone, nil, nil
	}
	if c, ok := el.elemIndex(def); ok {
		if _, isPtr := v.Type().Underlying().(*types.Pointer); !isPtr {
			return c19RefCopy, obj, c
		}
	}
	return c19RefNone, nil, nil
}

// isStoreOf: x is `C[k] = cv` (cv == nil: any copy of an element of this loop).
func (el *c19ElemLoop) isStoreOf(x ast.Node, cv types.Object, coll ast.Expr) bool {
	as, ok := x.(*ast.AssignStmt)
	if !ok || len(as.Lhs) != 1 || len(as.Rhs) != 1 || as.Tok != token.ASSIGN {
		return false
	}
	c, ok := el.elemIndex(as.Lhs[0])
	if !ok {
		return false
	}
	if coll != nil && termOf(el.info, c).ID != termOf(el.info, coll).ID {
		return false
	}
	rid, ok := unparen(as.Rhs[0]).(*ast.Ident)
	if !ok {
		return false
	}
	if cv != nil {
		return el.info.ObjectOf(rid) == cv
	}
	k, _, _ := el.ref(rid)
	return k == c19RefCopy
}

func c19RangeCopies(c *Ctx, pkgName string) {
	for _, fi := range c.P.FuncsIn(pkgName) {
		if fi.Decl.Body == nil {
			continue
		}
		info := fi.Pkg.TypesInfo
		g := c.P.Graph(fi)
		inspectNoLit(fi.Decl.Body, func(m ast.Node) bool {
			el := &c19ElemLoop{fi: fi, info: info, keys: map[types.Object]bool{}}
			switch lp := m.(type) {
			case *ast.RangeStmt:
				if !c19StructSlice(info.TypeOf(lp.X)) {
					return true
				}
				el.loop, el.body, el.coll = lp, lp.Body, lp.X
				if kid, ok := lp.Key.(*ast.Ident); ok && kid.Name != "_" {
					if o := info.ObjectOf(kid); o != nil {
						el.keys[o] = true
					}
				}
				if vid, ok := lp.Value.(*ast.Ident); ok && vid.Name != "_" {
					el.val = info.ObjectOf(vid)
				}
			case *ast.ForStmt:
				if lp.Post == nil {
					return true
				}
				el.loop, el.body = lp, lp.Body
				for _, st := range []ast.Stmt{lp.Init, lp.Post} {
					switch s := st.(type) {
					case *ast.AssignStmt:
						for _, lh := range s.Lhs {
							if id, ok := lh.(*ast.Ident); ok {
								if o := info.ObjectOf(id); o != nil {
									el.keys[o] = true
								}
							}
						}
					case *ast.IncDecStmt:
						if id, ok := s.X.(*ast.Ident); ok {
							if o := info.ObjectOf(id); o != nil {
								el.keys[o] = true
							}
						}
					}
				}
				if len(el.keys) == 0 {
					return true
				}
			default:
				return true
			}
			// edits of fields of an element
			type edit struct {
				node ast.Node
				lhs  ast.Expr
				kind int
				cv   types.Object
				coll ast.Expr
			}
			var edits []edit
			inspectNoLit(el.body, func(x ast.Node) bool {
				var lhss []ast.Expr
				switch st := x.(type) {
				case *ast.AssignStmt:
					if st.Tok == token.DEFINE {
						return true
					}
					lhss = st.Lhs
				case *ast.IncDecStmt:
					lhss = []ast.Expr{st.X}
				default:
					return true
				}
				for _, lh := range lhss {
					if _, isSel := unparen(lh).(*ast.SelectorExpr); !isSel {
						continue
					}
					if k, cv, coll := el.ref(lh); k != c19RefNone {
						edits = append(edits, edit{x, lh, k, cv, coll})
					}
				}
				return true
			})
			if len(edits) == 0 {
				return true
			}
			collExpr := edits[0].coll
			var copyName string
			for _, ed := range edits {
				if ed.kind == c19RefCopy && copyName == "" {
					copyName = ed.cv.Name()
				}
			}
			collStr := "the slice"
			if collExpr != nil {
				collStr = types.ExprString(collExpr)
			}
			key := fi.Name + "/edit of the elements of " + c19CollName(info, collExpr) + " (made in place) is stored back"
			if copyName != "" {
				key = fi.Name + "/edit of " + copyName + " (copy of an element of " + c19CollName(info, collExpr) + ") is stored back"
			}
			inBody := func(nd ast.Node) bool { return nd.Pos() >= el.body.Pos() && nd.End() <= el.body.End() }
			okAll := true
			why := ""
			for _, ed := range edits {
				ed := ed
				loc, found := g.Locate(ed.node)
				if !found {
					okAll = false
					why = "the edit " + c19Short(ed.node) + " was not found in the control-flow graph"
					continue
				}
				switch ed.kind {
				case c19RefCopy:
					if ed.coll == nil || len(el.keys) == 0 {
						okAll = false
						why = "the loop edits the copy " + ed.cv.Name() + " and has no index to store it back with"
						continue
					}
					if g.reachesNextIteration(loc, func(x ast.Node) bool { return el.isStoreOf(x, ed.cv, ed.coll) }, el.loop) {
						okAll = false
						why = "the loop edits the range copy " + ed.cv.Name() + " and does not store it back into " + collStr + " on every path"
					}
				case c19RefInPlace:
					clobbered := false
					g.walk(Loc{loc.B, loc.Idx + 1}, func(l Loc, nd ast.Node) bool {
						if !inBody(nd) {
							return false
						}
						if containsNode(nd, func(x ast.Node) bool { return el.isStoreOf(x, nil, ed.coll) }) {
							clobbered = true
							return false
						}
						return true
					}, nil)
					if clobbered {
						okAll = false
						why = "the element edited in place (" + c19Short(ed.node) + ") is overwritten by a copy taken before the edit"
					}
				}
			}
			okWhy := "every path from the edit to the next iteration stores " + copyName + " back into " + collStr
			if copyName == "" {
				okWhy = "the elements of " + collStr + " are edited in place and no copy is stored over them afterwards"
			}
			if why == "" {
				why = "the loop edits a copy of the element"
			}
			c.check(okAll, "C19.j", key, el.loop.Pos(), okWhy,
				why+": the shift / re-flow of the children has no effect (the selected item stays outside the viewport, or the re-flowed items keep their old rows)")
			// a re-flow: Origin.Row assigned from a running local that is advanced by the element's height
			for _, ed := range edits {
				as, isAs := ed.node.(*ast.AssignStmt)
				if !isAs || as.Tok != token.ASSIGN || len(as.Lhs) != 1 || len(as.Rhs) != 1 {
					continue
				}
				se, ok := unparen(as.Lhs[0]).(*ast.SelectorExpr)
				if !ok || se.Sel.Name != "Row" {
					continue
				}
				run := c19PlainVar(info, as.Rhs[0])
				if run == nil {
					continue
				}
				isAdvance := func(x ast.Node) bool {
					st, ok := x.(*ast.AssignStmt)
					if !ok || len(st.Lhs) != 1 || len(st.Rhs) != 1 {
						return false
					}
					id, ok := unparen(st.Lhs[0]).(*ast.Ident)
					if !ok || info.ObjectOf(id) != types.Object(run) {
						return false
					}
					hasH := containsNode(st.Rhs[0], func(y ast.Node) bool {
						s2, ok := y.(*ast.SelectorExpr)
						if !ok || s2.Sel.Name != "Height" {
							return false
						}
						k, _, _ := el.ref(s2)
						return k != c19RefNone
					})
					if !hasH {
						return false
					}
					if st.Tok == token.ADD_ASSIGN {
						return true
					}
					if st.Tok == token.ASSIGN {
						l := c19LinOf(info, st.Rhs[0])
						return l.coef[c19NewTerm(info, st.Lhs[0]).id] == 1
					}
					return false
				}
				loc, _ := g.Locate(ed.node)
				okAdv := !g.reachesNextIteration(loc, isAdvance, el.loop)
				// and the running row is not advanced before the assignment within the iteration
				before := false
				for _, st := range el.body.List {
					if st.Pos() >= ed.node.Pos() {
						break
					}
					if containsNode(st, isAdvance) {
						before = true
					}
				}
				c.check(okAdv && !before, "C19.j", fi.Name+"/re-flow assigns consecutive rows", as.Pos(),
					"row of the element = "+run.Name()+", then "+run.Name()+" advances by the element's height before the next element",
					"the re-flow does not advance "+run.Name()+" by the height of each element after using it as that element's row: the re-flowed items overlap or leave gaps")
			}
			return true
		})
	}
}

func c19CollName(info *types.Info, e ast.Expr) string {
	if sel, ok := unparen(e).(*ast.SelectorExpr); ok {
		if c19IsSurfaceType(info.TypeOf(sel.X)) {
			return "Surface." + sel.Sel.Name
		}
		return sel.Sel.Name
	}
	return "a slice"
}

// C19.l — rows are signed and unbounded in the dynamic list (items scrolled above the viewport have negative
// origins, a selection far below has a row beyond 65535): an expression that contains a child's origin is
// never converted to an unsigned or narrower integer type (the conversion wraps, and the comparison that
// decides whether the selected item must be shifted into view is then made on a wrapped value).
func init() { registerExtra("C19", c19SignedRows) }

func c19SignedRows(c *Ctx) {
	c.Clauses = append(c.Clauses, "C19.l vxfw/list: an expression containing a child's origin row/column is never converted to an unsigned or narrower integer type")
	pkgName := "vxfw/list"
	n := 0
	for _, fi := range c.P.FuncsIn(pkgName) {
		if fi.Decl.Body == nil {
			continue
		}
		info := fi.Pkg.TypesInfo
		ast.Inspect(fi.Decl.Body, func(m ast.Node) bool {
			call, ok := m.(*ast.CallExpr)
			if !ok || len(call.Args) != 1 {
				return true
			}
			to, conv := c19IsConversion(info, call)
			if !conv {
				return true
			}
			tb, ok := to.Underlying().(*types.Basic)
			if !ok || tb.Info()&types.IsInteger == 0 {
				return true
			}
			mentionsOrigin := containsNode(call.Args[0], func(x ast.Node) bool {
				se, ok := x.(*ast.SelectorExpr)
				if !ok || (se.Sel.Name != "Row" && se.Sel.Name != "Col") {
					return false
				}
				in, ok := unparen(se.X).(*ast.SelectorExpr)
				return ok && in.Sel.Name == "Origin"
			})
			if !mentionsOrigin {
				return true
			}
			n++
			narrow := tb.Info()&types.IsUnsigned != 0 || tb.Kind() == types.Int8 || tb.Kind() == types.Int16 || tb.Kind() == types.Int32
			c.check(!narrow, "C19.l", fi.Name+"/"+types.ExprString(call)+" keeps a child's origin signed and wide", call.Pos(),
				"conversion to a signed 64-bit type", "a child's origin (negative for items scrolled above the viewport, beyond 65535 after a long jump) is converted to "+tb.Name()+": the value wraps, so the test that decides whether the selected item has to be shifted into view is made on a wrong row")
			return true
		})
	}
	if n == 0 {
		c.okTrivial("C19.l", pkgName+"/no conversion of a child's origin", 0, "no integer conversion in the package has an operand that contains Origin.Row / Origin.Col")
	}
}
