package main

// C20 — second set of extensions of the symbolic executor c20Exec (the first is c20ip.go). Each one removes a
// dependence of the rules on how the code is written, none of them knows a name from the library:
//
//  (1) Pointer aliases. A local `p := &v` (one definition, v an access path) has no storage of its own: p.f IS
//      v.f. (The global helper inlining turns a pointer receiver into exactly this: s_inl := &sum.)
//  (2) Local closures. `f := func(...) {...}` (one definition, never reassigned) called in the function that
//      declares it is executed in the caller's state like a helper function; the variables it captures are the
//      caller's variables.
//  (3) A function literal analysed on its own (the encoder goroutine of a Resize method) is entered from the
//      statement of the enclosing function that contains it, with the state of each path that reaches it: the
//      variables it captures have the values the enclosing function computed, whichever way it computed them.
//  (4) Equality of two struct values whose fields the executor knows is the conjunction of the equalities of
//      their fields (inequality: some field differs).
//  (5) Iterations of a list loop entered on a path (for counters that stand for the length of the list).

import (
	"fmt"
	"go/ast"
	"go/constant"
	"go/token"
	"go/types"
	"strings"

	"golang.org/x/tools/go/cfg"
)

func c20IsStructType(t types.Type) bool {
	if t == nil {
		return false
	}
	_, ok := t.Underlying().(*types.Struct)
	return ok
}

// ---------------------------------------------------------------------------
// (1) pointer aliases

var c20ParamObjs = map[*types.Info]map[types.Object]bool{}

// c20IsParamLike: obj is declared in a field list (parameter, result, receiver): it has a value before its first
// assignment, so "assigned once" does not mean "defined once".
func (x *c20Exec) isParamLike(obj types.Object) bool {
	tbl, ok := c20ParamObjs[x.info]
	if !ok {
		tbl = map[types.Object]bool{}
		c20ParamObjs[x.info] = tbl
		if x.g != nil && x.g.Pkg != nil {
			for _, f := range x.g.Pkg.Syntax {
				ast.Inspect(f, func(n ast.Node) bool {
					if fl, ok := n.(*ast.FieldList); ok {
						for _, fld := range fl.List {
							for _, nm := range fld.Names {
								if o := x.info.Defs[nm]; o != nil {
									tbl[o] = true
								}
							}
						}
					}
					return true
				})
			}
		}
	}
	return tbl[obj]
}

// ptrAliasOf: obj is a local pointer variable defined exactly once, as &P with P an access path made of an
// identifier and field selections: P. Otherwise nil.
func (x *c20Exec) ptrAliasOf(obj types.Object) ast.Expr {
	v, ok := obj.(*types.Var)
	if !ok || v.IsField() || v.Pkg() == nil || v.Parent() == nil || v.Parent() == v.Pkg().Scope() {
		return nil
	}
	if _, isPtr := v.Type().Underlying().(*types.Pointer); !isPtr {
		return nil
	}
	rhs := singleDefOf(x.info, v)
	if rhs == nil || x.isParamLike(v) {
		return nil
	}
	u, ok := unparen(rhs).(*ast.UnaryExpr)
	if !ok || u.Op != token.AND {
		return nil
	}
	cur := unparen(u.X)
	for {
		switch t := cur.(type) {
		case *ast.Ident:
			tv, isVar := x.info.ObjectOf(t).(*types.Var)
			if !isVar || tv == v {
				return nil
			}
			return u.X
		case *ast.SelectorExpr:
			sel, ok := x.info.Selections[t]
			if !ok || sel.Kind() != types.FieldVal {
				return nil
			}
			cur = unparen(t.X)
		case *ast.StarExpr:
			cur = unparen(t.X)
		default:
			return nil
		}
	}
}

// derefTerm: the access path of e with a leading pointer alias replaced by the path it points to.
func (x *c20Exec) derefTerm(e ast.Expr, depth int) Term {
	t := c20TermOf(x.info, e)
	if depth > 4 || strings.HasPrefix(t.ID, "expr:") {
		return t
	}
	var root *ast.Ident
	cur := unparen(e)
	for root == nil {
		switch tt := cur.(type) {
		case *ast.Ident:
			root = tt
		case *ast.SelectorExpr:
			if _, ok := x.info.Selections[tt]; !ok {
				return t
			}
			cur = unparen(tt.X)
		case *ast.StarExpr:
			cur = unparen(tt.X)
		case *ast.IndexExpr:
			cur = unparen(tt.X)
		default:
			return t
		}
	}
	obj := x.info.ObjectOf(root)
	if obj == nil {
		return t
	}
	target := x.ptrAliasOf(obj)
	if target == nil {
		return t
	}
	prefix := fmt.Sprintf("%p", obj)
	if !strings.HasPrefix(t.ID, prefix) {
		return t
	}
	tt := x.derefTerm(target, depth+1)
	if strings.HasPrefix(tt.ID, "expr:") || strings.ContainsAny(tt.ID, "[(") {
		return t
	}
	out := Term{ID: tt.ID + t.ID[len(prefix):], Disp: t.Disp}
	if strings.HasPrefix(t.Disp, root.Name) {
		out.Disp = tt.Disp + t.Disp[len(root.Name):]
	}
	return out
}

// ---------------------------------------------------------------------------
// (2) local closures as helpers

var c20ClosureCache = map[*ast.FuncLit]*c20HelperInfo{}

// calleeHelper: the helper (function of the package the rules do not know, or local closure) that call invokes.
func (x *c20Exec) calleeHelper(call *ast.CallExpr) *c20HelperInfo {
	if x.noHelpers {
		return nil
	}
	if fn := calleeOf(x.info, call); fn != nil {
		return x.helperInfo(fn)
	}
	return x.closureInfo(call)
}

// closureInfo: call is f(...) with f a local variable defined exactly once, by a function literal that is small
// and has no closures, defers, goroutines, selects, gotos or recover of its own.
func (x *c20Exec) closureInfo(call *ast.CallExpr) *c20HelperInfo {
	id, ok := unparen(call.Fun).(*ast.Ident)
	if !ok {
		return nil
	}
	v, ok := x.info.ObjectOf(id).(*types.Var)
	if !ok || v.IsField() || v.Pkg() == nil || v.Parent() == nil || v.Parent() == v.Pkg().Scope() || x.isParamLike(v) {
		return nil
	}
	lit, ok := unparen(singleDefOrNil(x.info, v)).(*ast.FuncLit)
	if !ok || lit.Body == nil {
		return nil
	}
	if h, ok := c20ClosureCache[lit]; ok {
		if h.ok && h.g != nil && h.g.Info == x.info {
			return h
		}
		return nil
	}
	h := &c20HelperInfo{wrote: map[types.Object]bool{}, lit: lit}
	c20ClosureCache[lit] = h
	sig, ok := x.info.TypeOf(lit).(*types.Signature)
	if !ok || sig.Variadic() || x.g == nil || x.g.Pkg == nil {
		return nil
	}
	if c15CountNodes(lit.Body) > c20MaxHelperNodes {
		return nil
	}
	info := x.info
	okBody := true
	ast.Inspect(lit.Body, func(n ast.Node) bool {
		switch t := n.(type) {
		case *ast.DeferStmt, *ast.GoStmt, *ast.FuncLit, *ast.SelectStmt:
			okBody = false
		case *ast.BranchStmt:
			if t.Tok == token.GOTO {
				okBody = false
			}
		case *ast.CallExpr:
			if fid, isID := t.Fun.(*ast.Ident); isID && (fid.Name == "recover" || info.ObjectOf(fid) == types.Object(v)) {
				okBody = false
			}
		}
		return okBody
	})
	if !okBody {
		return nil
	}
	if lit.Type.Params != nil {
		for _, f := range lit.Type.Params.List {
			if len(f.Names) == 0 {
				return nil
			}
			for _, n := range f.Names {
				h.params = append(h.params, info.Defs[n])
			}
		}
	}
	if lit.Type.Results != nil {
		for _, f := range lit.Type.Results.List {
			for _, n := range f.Names {
				h.named = append(h.named, info.Defs[n])
			}
		}
	}
	// what it writes: anything declared outside the literal makes it impure
	h.pure = true
	inside := func(o types.Object) bool { return o != nil && o.Pos() >= lit.Pos() && o.Pos() <= lit.End() }
	noteWrite := func(lhs ast.Expr) {
		lhs = unparen(lhs)
		if wid, ok := lhs.(*ast.Ident); ok {
			if wid.Name == "_" {
				return
			}
			o := info.ObjectOf(wid)
			if o != nil {
				h.wrote[o] = true
			}
			if !inside(o) {
				h.pure = false
			}
			return
		}
		root := rootObj(info, lhs)
		if root != nil {
			h.wrote[root] = true
		}
		rv, isVar := root.(*types.Var)
		if !isVar || rv.Pos() < lit.Body.Pos() || rv.Pos() > lit.Body.End() {
			h.pure = false
			return
		}
		switch rv.Type().Underlying().(type) {
		case *types.Pointer, *types.Slice, *types.Map:
			h.pure = false
		}
	}
	ast.Inspect(lit.Body, func(n ast.Node) bool {
		switch t := n.(type) {
		case *ast.AssignStmt:
			for _, l := range t.Lhs {
				noteWrite(l)
			}
		case *ast.IncDecStmt:
			noteWrite(t.X)
		case *ast.RangeStmt:
			if t.Tok == token.ASSIGN {
				if t.Key != nil {
					noteWrite(t.Key)
				}
				if t.Value != nil {
					noteWrite(t.Value)
				}
			}
		}
		return true
	})
	h.g = x.c.P.GraphOfLit(x.g.Pkg, fmt.Sprintf("%s$%s", x.g.Name, id.Name), lit)
	if h.g == nil || len(h.g.Blocks) == 0 {
		return nil
	}
	h.sig, h.ok = sig, true
	return h
}

func singleDefOrNil(info *types.Info, v types.Object) ast.Expr {
	if rhs := singleDefOf(info, v); rhs != nil {
		return rhs
	}
	return &ast.BadExpr{}
}

// ---------------------------------------------------------------------------
// (3) a function literal in the context of the function that contains it

// runLitInContext executes the literal whose graph is gl from every path of the enclosing function outer that
// reaches the statement containing it. x must have been created for outer. at / atExit are those of the rule
// and see the nodes and exits of the literal only.
func (x *c20Exec) runLitInContext(outer, gl *FG, at func(*c20State, Loc, ast.Node) bool, atExit func(*c20State, *cfg.Block)) {
	isLit := func(n ast.Node) bool {
		l, ok := n.(*ast.FuncLit)
		return ok && l.Body == gl.Body
	}
	holds := func(n ast.Node) bool {
		found := false
		ast.Inspect(n, func(m ast.Node) bool {
			if m != nil && isLit(m) {
				found = true
			}
			return !found
		})
		return found
	}
	x.g = outer
	x.run(func(st *c20State, l Loc, n ast.Node) bool {
		if !holds(n) {
			return false
		}
		inner := st.clone()
		for _, b := range gl.Blocks {
			delete(inner.iters, b)
		}
		x.g = gl
		x.registerRangeVars(gl)
		x.registerIndexLoops(gl)
		x.dfsFrom(gl.Blocks[0], 0, inner, at, atExit)
		x.g = outer
		return true
	}, nil)
	x.g = gl
}

// ---------------------------------------------------------------------------
// (4) equality of struct values

// structFieldLeaves: the dotted paths of the fields of s that are not structs themselves.
func c20StructFieldLeaves(s *types.Struct, prefix string, depth int, out *[]string, typs *[]types.Type) bool {
	if depth > 4 {
		return false
	}
	for i := 0; i < s.NumFields(); i++ {
		f := s.Field(i)
		if f.Name() == "_" {
			continue
		}
		p := f.Name()
		if prefix != "" {
			p = prefix + "." + p
		}
		if sub, ok := f.Type().Underlying().(*types.Struct); ok {
			if !c20StructFieldLeaves(sub, p, depth+1, out, typs) {
				return false
			}
			continue
		}
		if _, isArr := f.Type().Underlying().(*types.Array); isArr {
			return false
		}
		*out = append(*out, p)
		*typs = append(*typs, f.Type())
	}
	return true
}

// zeroOf: the zero value of a type (one value per type and state, so that two zero values are equal).
func (x *c20Exec) zeroOf(st *c20State, t types.Type) *c20Val {
	if b, ok := t.Underlying().(*types.Basic); ok && b.Info()&types.IsNumeric != 0 {
		return x.constVal(st, types.TypeAndValue{Type: types.Typ[types.Int], Value: constant.MakeInt64(0)}, "0")
	}
	key := "zero:" + t.String()
	if v, ok := st.memo[key]; ok {
		return v
	}
	z := &c20Val{kind: "const", zero: true, disp: "zero value of " + t.String()}
	if b, ok := t.Underlying().(*types.Basic); ok && b.Info()&types.IsBoolean != 0 {
		z.isB = true
	}
	x.newVal(st, z)
	st.memo[key] = z
	return z
}

// structCmpAlts: e is A == B or A != B over struct values whose fields are known: the alternatives under which
// it has the truth value pol, as comparisons of the fields. nil = not such a comparison.
func (x *c20Exec) structCmpAlts(st *c20State, e ast.Expr, pol bool) [][]c20Leaf {
	be, ok := unparen(e).(*ast.BinaryExpr)
	if !ok || (be.Op != token.EQL && be.Op != token.NEQ) {
		return nil
	}
	ta, tb := x.info.TypeOf(be.X), x.info.TypeOf(be.Y)
	if ta == nil || tb == nil || !types.Identical(ta, tb) {
		return nil
	}
	s, ok := ta.Underlying().(*types.Struct)
	if !ok {
		return nil
	}
	var paths []string
	var typs []types.Type
	if !c20StructFieldLeaves(s, "", 0, &paths, &typs) || len(paths) == 0 || len(paths) > 32 {
		return nil
	}
	ga, gb := x.fieldsOf(st, be.X), x.fieldsOf(st, be.Y)
	if ga == nil || gb == nil {
		return nil
	}
	var cmps []*c20Val
	for i, p := range paths {
		va, ka := ga(p)
		vb, kb := gb(p)
		if !ka || !kb {
			return nil
		}
		if va == nil {
			va = x.zeroOf(st, typs[i])
		}
		if vb == nil {
			vb = x.zeroOf(st, typs[i])
		}
		cmps = append(cmps, x.newVal(st, &c20Val{kind: "cmp", op: token.EQL, args: []*c20Val{va, vb},
			disp: fmt.Sprintf("%s.%s == %s.%s", types.ExprString(be.X), p, types.ExprString(be.Y), p)}))
	}
	equal := (be.Op == token.EQL) == pol
	if equal {
		var alt []c20Leaf
		for _, c := range cmps {
			alt = append(alt, c20Leaf{bv: c, pol: true})
		}
		return [][]c20Leaf{alt}
	}
	var alts [][]c20Leaf
	for _, c := range cmps {
		alts = append(alts, []c20Leaf{{bv: c, pol: false}})
	}
	return alts
}

// ---------------------------------------------------------------------------
// (5) iterations of a list loop on a path

// iterCount: how often the body of the loop described by rs (a range statement of g, or the synthetic one of an
// index loop) was entered on the path of st.
func c20IterCount(st *c20State, g *FG, rs *ast.RangeStmt) int {
	n := 0
	for _, b := range g.Blocks {
		switch b.Kind {
		case cfg.KindRangeBody:
			if s, ok := b.Stmt.(*ast.RangeStmt); ok && s == rs {
				n += st.iters[b]
			}
		case cfg.KindForBody:
			if fs, ok := b.Stmt.(*ast.ForStmt); ok && c20IndexLoopCache[fs] == rs {
				n += st.iters[b]
			}
		}
	}
	return n
}
