package main

// C06.q  sibling agreement of the save/restore-cursor entry points.
//
// In a VT/xterm ESC 7, CSI s, CSI ?1048h and the save half of CSI ?1049h are ONE function (DECSC), and ESC 8,
// CSI u, CSI ?1048l and the restore half of CSI ?1049l are ONE function (DECRC): whatever the save stores into
// the per-screen saved-cursor record (position, SGR rendition, character sets, origin and autowrap mode) comes
// back with every restore, whichever entry point is used. The rule compares EFFECTS, not callee names:
//
//   - save set of an entry   = the Model fields (leaf paths) whose values flow into a store of the saved-cursor
//     record (a value of the record type built / a field of a record assigned) in the statements the entry can
//     run: its case of the dispatcher and, transitively, the package functions called from there;
//   - restore set of an entry = the Model fields (leaf paths, outside the saved records) assigned, in the
//     statements the entry can run, from a value that derives from a saved record (an expression of the record
//     type or reached from one through locals, parameters, receivers and results; package-wide, flow- and
//     context-insensitive, hence generous).
//
// Required: every restore entry's restore set covers the union of the save sets, and every save entry's save set
// covers that union too. Whole-struct copies are expanded to the leaf fields of the package's own struct types;
// a struct of another package (vaxis.Cell/Style) is a leaf that counts as covered when it or a part of it is
// restored. An entry whose case is not found in the dispatcher's switch is not judged (C06.b reports it).

import (
	"go/ast"
	"go/token"
	"go/types"
	"strings"
)

func init() { registerExtra("C06", c06RuleSaveRestoreSiblings) }

type c06qVal struct {
	paths map[string]bool
	taint bool
}

func (v *c06qVal) merge(o c06qVal) {
	for p := range o.paths {
		if v.paths == nil {
			v.paths = map[string]bool{}
		}
		v.paths[p] = true
	}
	v.taint = v.taint || o.taint
}

type c06qAn struct {
	c     *Ctx
	e     *c05Eng
	info  *types.Info
	recT  map[*types.TypeName]bool
	defs  map[types.Object][]ast.Expr
	funcs map[*types.Func]*FuncInfo
	busyV map[types.Object]bool
	busyP map[types.Object]bool
	busyF map[*types.Func]bool
}

func c06RuleSaveRestoreSiblings(c *Ctx) {
	c.Clauses = append(c.Clauses, "C06.q every restore-cursor entry (ESC 8, CSI u, ?1048l, ?1049l) restores every field that the save-cursor entries (ESC 7, CSI s, ?1048h, ?1049h) store in the saved-cursor record, and the save entries store the same fields")
	c.expect("C06.q", 6)
	e := c05Engine(c)
	if e.pk == nil || e.model == nil {
		c.undecided("C06.q", "widgets/term", 0, "package widgets/term or type Model not found")
		return
	}
	a := &c06qAn{c: c, e: e, info: e.pk.TypesInfo, recT: map[*types.TypeName]bool{}, defs: map[types.Object][]ast.Expr{}, funcs: map[*types.Func]*FuncInfo{},
		busyV: map[types.Object]bool{}, busyP: map[types.Object]bool{}, busyF: map[*types.Func]bool{}}
	a.findRecordTypes()
	if len(a.recT) == 0 {
		c.undecided("C06.q", "widgets/term.Model", 0, "no saved-cursor record type found among the fields of Model")
		return
	}
	for _, fi := range c.P.AllFuncs() {
		if fi.Pkg == e.pk && fi.Obj != nil {
			a.funcs[fi.Obj] = fi
		}
	}
	a.collectDefs()

	type entry struct {
		table, key, name string
		save             bool
	}
	entries := []entry{
		{"esc", "7", "ESC 7", true}, {"csi", "s", "CSI s", true}, {"decset", "1048", "CSI ?1048h", true}, {"decset", "1049", "CSI ?1049h", true},
		{"esc", "8", "ESC 8", false}, {"csi", "u", "CSI u", false}, {"decrst", "1048", "CSI ?1048l", false}, {"decrst", "1049", "CSI ?1049l", false},
	}
	tabs := map[string]*c06Table{}
	type found struct {
		entry
		t    *c06Table
		en   *c06Entry
		set  map[string]bool
		whol map[string]bool
	}
	var fs []*found
	union := map[string]bool{}
	for _, en := range entries {
		t, ok := tabs[en.table]
		if !ok {
			t = c06Dispatch(c, e, "widgets/term.(*Model)."+en.table)
			tabs[en.table] = t
		}
		if t == nil || t.entries[en.key] == nil || t.entries[en.key].clause == nil {
			continue
		}
		f := &found{entry: en, t: t, en: t.entries[en.key]}
		nodes := a.reach(f.en.clause.Body)
		if en.save {
			f.set = a.saveSet(nodes)
			for p := range f.set {
				union[p] = true
			}
		} else {
			f.set = a.restoreSet(nodes)
		}
		fs = append(fs, f)
	}
	if len(union) == 0 {
		for _, f := range fs {
			c.undecided("C06.q", f.t.fi.Name+"/"+f.name, f.en.clause.Pos(), "no save entry stores a Model field in the saved-cursor record; nothing to compare")
		}
		return
	}
	all := sortedKeys(union)
	for _, f := range fs {
		var miss []string
		for _, p := range all {
			if !c06qCovered(f.set, p) {
				miss = append(miss, strings.TrimPrefix(p, "Model."))
			}
		}
		if f.save {
			key := f.t.fi.Name + "/" + f.name + " saves what the other save-cursor entries save"
			if len(miss) == 0 {
				c.ok("C06.q", key, f.en.clause.Pos(), "stores %d Model fields in the saved-cursor record, the same as its siblings", len(all))
			} else {
				c.bad("C06.q", key, f.en.clause.Pos(), "%s does not store %s in the saved-cursor record although another save-cursor entry does: a later restore brings back a stale value (in a VT all save entries are DECSC)", f.name, strings.Join(miss, ", "))
			}
			continue
		}
		key := f.t.fi.Name + "/" + f.name + " restores everything the save-cursor entries store"
		if len(miss) == 0 {
			c.ok("C06.q", key, f.en.clause.Pos(), "every one of the %d saved Model fields is assigned back from the saved record", len(all))
		} else {
			c.bad("C06.q", key, f.en.clause.Pos(), "%s does not restore %s from the saved-cursor record although the save entries store it: in a VT/xterm every restore entry is DECRC, so the rendition, character sets and modes saved with the position come back too; text printed and cells erased afterwards differ from the reference", f.name, strings.Join(miss, ", "))
		}
	}
}

// c06qCovered: the leaf p is in the set, or a prefix of it is (whole struct written), or a part of it is (p is a
// leaf of a foreign struct type that is restored field by field).
func c06qCovered(set map[string]bool, p string) bool {
	for q := range set {
		if q == p || strings.HasPrefix(p, q+".") || strings.HasPrefix(q, p+".") {
			return true
		}
	}
	return false
}

// findRecordTypes: the package's struct types that are the type of a Model field and themselves hold a field whose
// type is a package struct type that is also the type of a direct Model field (the saved copy of cursor, charsets).
func (a *c06qAn) findRecordTypes() {
	ms, ok := a.e.model.Underlying().(*types.Struct)
	if !ok {
		return
	}
	local := func(t types.Type) *types.Named {
		n, ok := t.(*types.Named)
		if !ok || n.Obj().Pkg() != a.e.pk.Types {
			return nil
		}
		if _, isS := n.Underlying().(*types.Struct); !isS {
			return nil
		}
		return n
	}
	direct := map[*types.TypeName]bool{}
	for i := 0; i < ms.NumFields(); i++ {
		if n := local(ms.Field(i).Type()); n != nil {
			direct[n.Obj()] = true
		}
	}
	for i := 0; i < ms.NumFields(); i++ {
		n := local(ms.Field(i).Type())
		if n == nil {
			continue
		}
		st := n.Underlying().(*types.Struct)
		for j := 0; j < st.NumFields(); j++ {
			if fn := local(st.Field(j).Type()); fn != nil && direct[fn.Obj()] && fn.Obj() != n.Obj() {
				a.recT[n.Obj()] = true
			}
		}
	}
}

func (a *c06qAn) isRec(t types.Type) bool {
	if t == nil {
		return false
	}
	if p, ok := t.Underlying().(*types.Pointer); ok {
		t = p.Elem()
	}
	n, ok := t.(*types.Named)
	return ok && a.recT[n.Obj()]
}

func (a *c06qAn) isModel(t types.Type) bool {
	if t == nil {
		return false
	}
	if p, ok := t.Underlying().(*types.Pointer); ok {
		t = p.Elem()
	}
	n, ok := t.(*types.Named)
	return ok && n.Obj() == a.e.model.Obj()
}

// rootVar: the variable at the root of a selector/index/deref chain.
func (a *c06qAn) rootVar(x ast.Expr) types.Object {
	for {
		switch t := unparen(x).(type) {
		case *ast.Ident:
			if o := a.info.Defs[t]; o != nil {
				return o
			}
			if v, ok := a.info.Uses[t].(*types.Var); ok {
				return v
			}
			return nil
		case *ast.SelectorExpr:
			x = t.X
		case *ast.IndexExpr:
			x = t.X
		case *ast.StarExpr:
			x = t.X
		case *ast.SliceExpr:
			x = t.X
		default:
			return nil
		}
	}
}

// collectDefs: for every variable of the package, every expression that is assigned to it or to a part of it
// (assignments, declarations, range clauses, arguments bound to parameters, receivers bound at method calls).
func (a *c06qAn) collectDefs() {
	add := func(lhs ast.Expr, rhs ast.Expr) {
		if o := a.rootVar(lhs); o != nil && rhs != nil {
			a.defs[o] = append(a.defs[o], rhs)
		}
	}
	for _, f := range a.e.pk.Syntax {
		ast.Inspect(f, func(n ast.Node) bool {
			switch t := n.(type) {
			case *ast.AssignStmt:
				for i, l := range t.Lhs {
					if len(t.Lhs) == len(t.Rhs) {
						add(l, t.Rhs[i])
					} else if len(t.Rhs) == 1 {
						add(l, t.Rhs[0])
					}
				}
			case *ast.ValueSpec:
				for i, nme := range t.Names {
					if len(t.Values) == len(t.Names) {
						add(nme, t.Values[i])
					} else if len(t.Values) == 1 {
						add(nme, t.Values[0])
					}
				}
			case *ast.RangeStmt:
				if t.Key != nil {
					add(t.Key, t.X)
				}
				if t.Value != nil {
					add(t.Value, t.X)
				}
			case *ast.CallExpr:
				fn := calleeOf(a.info, t)
				if fn == nil || a.funcs[fn.Origin()] == nil && a.funcs[fn] == nil {
					return true
				}
				sig, _ := fn.Type().(*types.Signature)
				if sig == nil {
					return true
				}
				if o := fn.Origin(); o != nil {
					if os, ok := o.Type().(*types.Signature); ok {
						sig = os
					}
				}
				np := sig.Params().Len()
				for i, arg := range t.Args {
					j := i
					if j >= np {
						j = np - 1
					}
					if j >= 0 {
						a.defs[sig.Params().At(j)] = append(a.defs[sig.Params().At(j)], arg)
					}
				}
				if sel, ok := unparen(t.Fun).(*ast.SelectorExpr); ok && sig.Recv() != nil {
					if s := a.info.Selections[sel]; s != nil && s.Kind() == types.MethodVal {
						a.defs[sig.Recv()] = append(a.defs[sig.Recv()], sel.X)
					}
				}
			}
			return true
		})
	}
}

// fieldNames: the names along a field selection, implicit embedded fields included.
func (a *c06qAn) fieldNames(sel *ast.SelectorExpr) ([]string, bool) {
	s := a.info.Selections[sel]
	if s == nil || s.Kind() != types.FieldVal {
		return nil, false
	}
	t := s.Recv()
	var names []string
	for _, ix := range s.Index() {
		if p, ok := t.Underlying().(*types.Pointer); ok {
			t = p.Elem()
		}
		st, ok := t.Underlying().(*types.Struct)
		if !ok || ix >= st.NumFields() {
			return nil, false
		}
		names = append(names, st.Field(ix).Name())
		t = st.Field(ix).Type()
	}
	return names, true
}

// mpaths: the Model places the expression can denote ("Model.cursor.row"); pointer, map and slice variables are
// followed to what they were bound to.
func (a *c06qAn) mpaths(x ast.Expr) []string {
	switch t := unparen(x).(type) {
	case *ast.Ident:
		o := a.info.Uses[t]
		if o == nil {
			o = a.info.Defs[t]
		}
		v, ok := o.(*types.Var)
		if !ok {
			return nil
		}
		if a.isModel(v.Type()) {
			return []string{"Model"}
		}
		switch v.Type().Underlying().(type) {
		case *types.Pointer, *types.Map, *types.Slice:
		default:
			return nil
		}
		if a.busyP[v] {
			return nil
		}
		a.busyP[v] = true
		defer delete(a.busyP, v)
		var out []string
		for _, d := range a.defs[v] {
			out = append(out, a.mpaths(d)...)
		}
		return out
	case *ast.SelectorExpr:
		names, ok := a.fieldNames(t)
		if !ok {
			return nil
		}
		var out []string
		for _, b := range a.mpaths(t.X) {
			out = append(out, b+"."+strings.Join(names, "."))
		}
		return out
	case *ast.IndexExpr:
		return a.mpaths(t.X)
	case *ast.SliceExpr:
		return a.mpaths(t.X)
	case *ast.StarExpr:
		return a.mpaths(t.X)
	case *ast.UnaryExpr:
		if t.Op == token.AND {
			return a.mpaths(t.X)
		}
	}
	return nil
}

// val: the Model places whose values the expression can carry, and whether it derives from a saved record.
func (a *c06qAn) val(x ast.Expr) c06qVal {
	var out c06qVal
	if x == nil {
		return out
	}
	x = unparen(x)
	if tv, ok := a.info.Types[x]; ok && tv.IsValue() && a.isRec(tv.Type) {
		out.taint = true
	}
	switch t := x.(type) {
	case *ast.Ident:
		v, ok := a.info.Uses[t].(*types.Var)
		if !ok || a.isModel(v.Type()) || v.IsField() {
			return out
		}
		if v.Parent() == nil || v.Parent() == a.e.pk.Types.Scope() {
			return out // package-level variable
		}
		if a.busyV[v] {
			return out
		}
		a.busyV[v] = true
		for _, d := range a.defs[v] {
			out.merge(a.val(d))
		}
		delete(a.busyV, v)
	case *ast.SelectorExpr, *ast.IndexExpr, *ast.StarExpr, *ast.SliceExpr:
		ps := a.mpaths(x)
		real := false
		for _, p := range ps {
			if p != "Model" {
				real = true
				out.merge(c06qVal{paths: map[string]bool{p: true}})
			}
		}
		if a.pathThroughRecord(x) {
			out.taint = true
		}
		if real {
			return out
		}
		switch s := x.(type) {
		case *ast.SelectorExpr:
			// a field of a value that is a copy of a Model place (cs := vt.charsets; cs.selected) carries that
			// field of the place only
			bv := a.val(s.X)
			names, isField := a.fieldNames(s)
			bt := a.info.TypeOf(s.X)
			if isField && bt != nil {
				if p, ok := bt.Underlying().(*types.Pointer); ok {
					bt = p.Elem()
				}
				ref := c06qVal{taint: bv.taint}
				for p := range bv.paths {
					if pt := a.typeOfPath(p); pt != nil && types.Identical(pt, bt) {
						p += "." + strings.Join(names, ".")
					}
					ref.merge(c06qVal{paths: map[string]bool{p: true}})
				}
				bv = ref
			}
			out.merge(bv)
		case *ast.IndexExpr:
			out.merge(a.val(s.X))
		case *ast.StarExpr:
			out.merge(a.val(s.X))
		case *ast.SliceExpr:
			out.merge(a.val(s.X))
		}
	case *ast.UnaryExpr:
		out.merge(a.val(t.X))
	case *ast.BinaryExpr:
		out.merge(a.val(t.X))
		out.merge(a.val(t.Y))
	case *ast.CompositeLit:
		for _, el := range t.Elts {
			if kv, ok := el.(*ast.KeyValueExpr); ok {
				out.merge(a.val(kv.Value))
			} else {
				out.merge(a.val(el))
			}
		}
	case *ast.TypeAssertExpr:
		out.merge(a.val(t.X))
	case *ast.CallExpr:
		if tv, ok := a.info.Types[t.Fun]; ok && tv.IsType() {
			for _, arg := range t.Args {
				out.merge(a.val(arg))
			}
			return out
		}
		var fi *FuncInfo
		if fn := calleeOf(a.info, t); fn != nil {
			if fi = a.funcs[fn]; fi == nil {
				fi = a.funcs[fn.Origin()]
			}
		}
		if fi == nil || fi.Decl.Body == nil || a.busyF[fi.Obj] {
			// a function without source here: its result can carry whatever it is given
			for _, arg := range t.Args {
				out.merge(a.val(arg))
			}
			if sel, ok := unparen(t.Fun).(*ast.SelectorExpr); ok {
				if s := a.info.Selections[sel]; s != nil && s.Kind() == types.MethodVal {
					out.merge(a.val(sel.X))
				}
			}
			return out
		}
		// a function of the package: what its results are built from (parameters and receiver are bound to the
		// arguments of all its call sites)
		{
			{
				a.busyF[fi.Obj] = true
				ast.Inspect(fi.Decl.Body, func(n ast.Node) bool {
					if _, isLit := n.(*ast.FuncLit); isLit {
						return false
					}
					if r, ok := n.(*ast.ReturnStmt); ok {
						for _, res := range r.Results {
							out.merge(a.val(res))
						}
					}
					return true
				})
				// named results
				if fi.Decl.Type.Results != nil {
					for _, f := range fi.Decl.Type.Results.List {
						for _, nme := range f.Names {
							if o := a.info.Defs[nme]; o != nil {
								for _, d := range a.defs[o] {
									out.merge(a.val(d))
								}
							}
						}
					}
				}
				delete(a.busyF, fi.Obj)
			}
		}
	}
	return out
}

// pathThroughRecord: some prefix of the selector/index/deref chain has the record type (state.cursor.row,
// vt.altState.decom, (*p).cursor).
func (a *c06qAn) pathThroughRecord(x ast.Expr) bool {
	for {
		x = unparen(x)
		if tv, ok := a.info.Types[x]; ok && a.isRec(tv.Type) {
			return true
		}
		switch t := x.(type) {
		case *ast.SelectorExpr:
			x = t.X
		case *ast.IndexExpr:
			x = t.X
		case *ast.StarExpr:
			x = t.X
		case *ast.SliceExpr:
			x = t.X
		case *ast.UnaryExpr:
			x = t.X
		default:
			return false
		}
	}
}

// reach: the statements the entry can run: its clause and the bodies of the package functions called from there.
func (a *c06qAn) reach(body []ast.Stmt) []ast.Node {
	var out []ast.Node
	seen := map[*FuncInfo]bool{}
	var visit func(n ast.Node)
	visit = func(n ast.Node) {
		out = append(out, n)
		ast.Inspect(n, func(m ast.Node) bool {
			call, ok := m.(*ast.CallExpr)
			if !ok {
				return true
			}
			fn := calleeOf(a.info, call)
			if fn == nil {
				return true
			}
			fi := a.funcs[fn]
			if fi == nil {
				fi = a.funcs[fn.Origin()]
			}
			if fi != nil && fi.Decl.Body != nil && !seen[fi] {
				seen[fi] = true
				visit(fi.Decl.Body)
			}
			return true
		})
	}
	for _, s := range body {
		visit(s)
	}
	return out
}

// leaves expands a Model path to the leaf fields below it (struct types of the package are opened).
func (a *c06qAn) leaves(path string, into map[string]bool) {
	var t types.Type = a.e.model
	for _, nme := range strings.Split(path, ".")[1:] {
		if p, ok := t.Underlying().(*types.Pointer); ok {
			t = p.Elem()
		}
		st, ok := t.Underlying().(*types.Struct)
		if !ok {
			into[path] = true
			return
		}
		var ft types.Type
		for i := 0; i < st.NumFields(); i++ {
			if st.Field(i).Name() == nme {
				ft = st.Field(i).Type()
			}
		}
		if ft == nil {
			into[path] = true
			return
		}
		t = ft
	}
	a.expand(path, t, into, 0)
}

func (a *c06qAn) expand(path string, t types.Type, into map[string]bool, depth int) {
	n, ok := t.(*types.Named)
	if ok && depth < 6 && n.Obj().Pkg() == a.e.pk.Types {
		if st, isS := n.Underlying().(*types.Struct); isS && st.NumFields() > 0 {
			for i := 0; i < st.NumFields(); i++ {
				a.expand(path+"."+st.Field(i).Name(), st.Field(i).Type(), into, depth+1)
			}
			return
		}
	}
	into[path] = true
}

// saveSet: leaf Model fields whose values flow into a store of a saved-cursor record.
func (a *c06qAn) saveSet(nodes []ast.Node) map[string]bool {
	raw := map[string]bool{}
	take := func(v c06qVal) {
		for p := range v.paths {
			raw[p] = true
		}
	}
	for _, root := range nodes {
		ast.Inspect(root, func(n ast.Node) bool {
			switch t := n.(type) {
			case *ast.CompositeLit:
				if tv, ok := a.info.Types[t]; ok && a.isRec(tv.Type) {
					take(a.val(t))
				}
			case *ast.AssignStmt:
				for i, l := range t.Lhs {
					if !a.pathThroughRecord(l) {
						continue
					}
					if len(t.Lhs) == len(t.Rhs) {
						take(a.val(t.Rhs[i]))
					} else if len(t.Rhs) == 1 {
						take(a.val(t.Rhs[0]))
					}
				}
			}
			return true
		})
	}
	out := map[string]bool{}
	for p := range raw {
		if a.recordPath(p) {
			continue // a copy from one saved record to another is not a Model field being saved
		}
		a.leaves(p, out)
	}
	return out
}

// recordPath: the Model path lies in one of the saved records themselves.
func (a *c06qAn) recordPath(path string) bool {
	var t types.Type = a.e.model
	for _, nme := range strings.Split(path, ".")[1:] {
		if p, ok := t.Underlying().(*types.Pointer); ok {
			t = p.Elem()
		}
		st, ok := t.Underlying().(*types.Struct)
		if !ok {
			return false
		}
		var ft types.Type
		for i := 0; i < st.NumFields(); i++ {
			if st.Field(i).Name() == nme {
				ft = st.Field(i).Type()
			}
		}
		if ft == nil {
			return false
		}
		if a.isRec(ft) {
			return true
		}
		t = ft
	}
	return false
}

// restoreSet: leaf Model fields (outside the saved records) assigned from a value that derives from a saved record.
func (a *c06qAn) restoreSet(nodes []ast.Node) map[string]bool {
	out := map[string]bool{}
	var store func(paths []string, rhs ast.Expr)
	store = func(paths []string, rhs ast.Expr) {
		if len(paths) == 0 || rhs == nil {
			return
		}
		if cl, ok := unparen(rhs).(*ast.CompositeLit); ok {
			if tv, ok := a.info.Types[cl]; ok {
				if _, isS := tv.Type.Underlying().(*types.Struct); isS {
					keyed := len(cl.Elts) > 0
					for _, el := range cl.Elts {
						if _, ok := el.(*ast.KeyValueExpr); !ok {
							keyed = false
						}
					}
					if keyed {
						for _, el := range cl.Elts {
							kv := el.(*ast.KeyValueExpr)
							id, ok := kv.Key.(*ast.Ident)
							if !ok {
								continue
							}
							var sub []string
							for _, p := range paths {
								sub = append(sub, p+"."+id.Name)
							}
							store(sub, kv.Value)
						}
						return
					}
				}
			}
		}
		if !a.val(rhs).taint {
			return
		}
		for _, p := range paths {
			if p != "Model" && !a.recordPath(p) {
				a.leaves(p, out)
			}
		}
	}
	for _, root := range nodes {
		ast.Inspect(root, func(n ast.Node) bool {
			switch t := n.(type) {
			case *ast.AssignStmt:
				for i, l := range t.Lhs {
					if _, isId := unparen(l).(*ast.Ident); isId {
						continue // a local variable (or the rebinding of a pointer variable) stores nothing in the Model
					}
					var rhs ast.Expr
					if len(t.Lhs) == len(t.Rhs) {
						rhs = t.Rhs[i]
					} else if len(t.Rhs) == 1 {
						rhs = t.Rhs[0]
					}
					store(a.mpaths(l), rhs)
				}
			case *ast.CallExpr:
				// copy(dst, src) and clear-and-fill helpers of the runtime: copy is the only builtin that stores
				if id, ok := unparen(t.Fun).(*ast.Ident); ok && id.Name == "copy" && len(t.Args) == 2 {
					if _, isB := a.info.Uses[id].(*types.Builtin); isB {
						store(a.mpaths(t.Args[0]), t.Args[1])
					}
				}
			}
			return true
		})
	}
	return out
}

// typeOfPath: the type of the Model place named by the path, nil when a field is not found.
func (a *c06qAn) typeOfPath(path string) types.Type {
	var t types.Type = a.e.model
	for _, nme := range strings.Split(path, ".")[1:] {
		if p, ok := t.Underlying().(*types.Pointer); ok {
			t = p.Elem()
		}
		st, ok := t.Underlying().(*types.Struct)
		if !ok {
			return nil
		}
		var ft types.Type
		for i := 0; i < st.NumFields(); i++ {
			if st.Field(i).Name() == nme {
				ft = st.Field(i).Type()
			}
		}
		if ft == nil {
			return nil
		}
		t = ft
	}
	return t
}
