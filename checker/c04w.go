package main

// C04.j — while the shutdown path waits for another goroutine's confirmation, that goroutine does not need the waiting
// goroutine to get there (no wait-for cycle through the input goroutine).
//
// C04.i excludes the direct self-join. The same hang arises over two goroutines: Close/Suspend, running ON the input
// goroutine G (kill-signal arm, panic handler), wait in T.WaitXxx for a confirmation `x.f <- …` that the object's own
// goroutine H (started by T's constructor) performs — but on every path to that confirmation H first has to get rid
// of a value on another channel `x.c2` of the same object (a plain blocking send), and the only receiver of that
// channel for this object is G itself, which is not receiving any more. As soon as more values are pending than the
// channel buffers (H sends in a loop), H never arrives at the confirmation, G never returns from the wait: the
// terminal is not restored, chQuit is never closed, the panic is not re-raised.
//
// The rule reports only a cycle it can establish completely; each step is structural:
//   1. W is a receive `<-r.f` in a method of a repository type T on its own receiver; some `go` statement G (not in a
//      loop) can arrive at W (C04.i's path search), entering W's method through a call `h.m()` whose receiver is a
//      holder h (an unexported field or a local variable).
//   2. every wake-up of f is a send/close in the function that a `go x.run()` of T's package starts (H ≠ G), and in
//      that function every path to the wake-up passes a blocking send on another channel field c2 of T — a send
//      statement outside any select, or a call of a function of T's package every path of which performs one —;
//      and a loop of that function can send on c2 as well (more values than any buffer holds).
//   3. c2 is handed out only by getter methods of T (no other escape), is not received from inside T's package, and
//      every receive from `h'.getter()` in the repository either has another holder h' that provably holds other
//      objects, or has the holder h and runs exclusively on G. (At least one such receive by G exists.)
//   4. objects of T do not travel: in T's package a *T variable is only selected from, passed to functions of the
//      package, compared, copied to another local or returned by a constructor that returns a fresh object; a holder
//      is only ever assigned such a constructor's result, compared and used as a method-call receiver.
// A channel that the waiting select loop itself keeps receiving from (a service arm, see C04.i) cannot hold the
// signalling goroutine up: c2 must not be one of those. A receive elsewhere in the waiting method does not count —
// the goroutine that waits is not executing it (collecting once before a plain wait is not enough).
// If any step cannot be established the wait is not judged by this rule (C04.i still applies).

import (
	"fmt"
	"go/ast"
	"go/token"
	"go/types"
	"sort"
	"strings"
)

func init() { registerExtra("C04", c04NoWaitCycle) }

type c04kWorld struct {
	*c04jWorld
	confined map[*types.Named]string // "" = confined, otherwise why not
	holders  map[types.Object]string // "" = clean
}

func c04kNamed(t types.Type) *types.Named {
	if t == nil {
		return nil
	}
	if p, ok := t.Underlying().(*types.Pointer); ok {
		t = p.Elem()
	} else if p, ok := t.(*types.Pointer); ok {
		t = p.Elem()
	}
	n, _ := t.(*types.Named)
	return n
}

func c04kIsPtrTo(t types.Type, T *types.Named) bool {
	p, ok := t.(*types.Pointer)
	if !ok {
		return false
	}
	n, ok := p.Elem().(*types.Named)
	return ok && n.Obj() == T.Obj()
}

// funcs of the package that declares T
func (k *c04kWorld) pkgFuncs(T *types.Named) []*FuncInfo {
	var out []*FuncInfo
	for _, fi := range k.c.P.AllFuncs() {
		if fi.Pkg.Types == T.Obj().Pkg() && fi.Decl.Body != nil {
			out = append(out, fi)
		}
	}
	return out
}

// freshCtor: fn is a function of T's package every return of which returns a local that was defined as &T{…} / new(T).
func (k *c04kWorld) freshCtor(fn *types.Func, T *types.Named) bool {
	cf := k.c.P.FuncOfObj(fn)
	if cf == nil || cf.Decl.Body == nil || cf.Pkg.Types != T.Obj().Pkg() {
		return false
	}
	sig, ok := fn.Type().(*types.Signature)
	if !ok || sig.Results().Len() != 1 || !c04kIsPtrTo(sig.Results().At(0).Type(), T) {
		return false
	}
	info := cf.Pkg.TypesInfo
	okAll, n := true, 0
	inspectNoLit(cf.Decl.Body, func(m ast.Node) bool {
		rs, isRet := m.(*ast.ReturnStmt)
		if !isRet {
			return true
		}
		n++
		if len(rs.Results) != 1 {
			okAll = false
			return true
		}
		id, isId := unparen(rs.Results[0]).(*ast.Ident)
		if !isId {
			okAll = false
			return true
		}
		def := singleDefOf(info, info.Uses[id])
		if def == nil {
			okAll = false
			return true
		}
		switch d := unparen(def).(type) {
		case *ast.UnaryExpr:
			if _, isLit := unparen(d.X).(*ast.CompositeLit); d.Op != token.AND || !isLit {
				okAll = false
			}
		case *ast.CallExpr:
			if id, ok := unparen(d.Fun).(*ast.Ident); !ok || id.Name != "new" {
				okAll = false
			}
		default:
			okAll = false
		}
		return true
	})
	return okAll && n > 0
}

// typeConfined: step 4 for T's package.
func (k *c04kWorld) typeConfined(T *types.Named) string {
	if why, ok := k.confined[T]; ok {
		return why
	}
	why := ""
	fail := func(fi *FuncInfo, n ast.Node, what string) {
		if why == "" {
			why = fmt.Sprintf("%s: %s (%s)", fi.Name, what, k.c.P.Pos(n.Pos()))
		}
	}
	for _, fi := range k.pkgFuncs(T) {
		if k.dead(fi) {
			continue
		}
		info := fi.Pkg.TypesInfo
		var stack []ast.Node
		ast.Inspect(fi.Decl.Body, func(n ast.Node) bool {
			if n == nil {
				stack = stack[:len(stack)-1]
				return true
			}
			stack = append(stack, n)
			id, ok := n.(*ast.Ident)
			if !ok {
				return true
			}
			var o types.Object = info.Uses[id]
			if o == nil {
				o = info.Defs[id]
			}
			v, ok := o.(*types.Var)
			if !ok || v.IsField() {
				return true
			}
			if n2, ok := v.Type().(*types.Named); ok && n2.Obj() == T.Obj() {
				fail(fi, id, "a "+T.Obj().Name()+" value is copied")
				return true
			}
			if !c04kIsPtrTo(v.Type(), T) {
				return true
			}
			// effective parent
			var par ast.Node
			var child ast.Node = id
			for i := len(stack) - 2; i >= 0; i-- {
				if _, isParen := stack[i].(*ast.ParenExpr); isParen {
					child = stack[i]
					continue
				}
				par = stack[i]
				break
			}
			switch t := par.(type) {
			case *ast.SelectorExpr:
				if t.X != child {
					fail(fi, id, "unexpected selector")
				}
			case *ast.CallExpr:
				if fn := calleeOf(info, t); fn != nil {
					if fn.Pkg() != T.Obj().Pkg() {
						fail(fi, id, "passed to "+fn.FullName())
					}
				} else if sel, ok := unparen(t.Fun).(*ast.SelectorExpr); ok {
					if tv := info.TypeOf(sel.X); tv == nil || !c04kIsPtrTo(tv, T) {
						fail(fi, id, "passed to a function value")
					}
				} else {
					fail(fi, id, "passed to a function value")
				}
			case *ast.AssignStmt:
				for i := range t.Lhs {
					if i < len(t.Rhs) && len(t.Lhs) == len(t.Rhs) && t.Rhs[i] == child {
						lid, ok := t.Lhs[i].(*ast.Ident)
						if !ok {
							fail(fi, id, "stored in "+types.ExprString(t.Lhs[i]))
							continue
						}
						var lo types.Object = info.Defs[lid]
						if lo == nil {
							lo = info.Uses[lid]
						}
						if lv, ok := lo.(*types.Var); !ok || lv.IsField() || lv.Parent() == lv.Pkg().Scope() {
							if lid.Name != "_" {
								fail(fi, id, "stored in "+lid.Name)
							}
						}
					}
				}
				if len(t.Lhs) != len(t.Rhs) {
					for _, r := range t.Rhs {
						if r == child {
							fail(fi, id, "used in a multi-value assignment")
						}
					}
				}
			case *ast.ValueSpec, *ast.BinaryExpr, *ast.Field:
			case *ast.ReturnStmt:
				if !k.freshCtor(fi.Obj, T) {
					fail(fi, id, "returned")
				}
			case *ast.IfStmt, *ast.ExprStmt, *ast.BlockStmt:
			default:
				fail(fi, id, fmt.Sprintf("used in a %T", par))
			}
			return true
		})
	}
	k.confined[T] = why
	return why
}

func c04kHolderOf(info *types.Info, e ast.Expr) types.Object {
	switch t := unparen(e).(type) {
	case *ast.Ident:
		if v, ok := info.Uses[t].(*types.Var); ok && !v.IsField() {
			// a local defined once as a copy of a holder stands for it (cleanHolder checks what else it is used for)
			if def := singleDefOf(info, v); def != nil {
				if _, isCall := unparen(def).(*ast.CallExpr); !isCall {
					if h := c04kHolderOf(info, def); h != nil {
						return h
					}
				}
			}
			return v
		}
	case *ast.SelectorExpr:
		if sel, ok := info.Selections[t]; ok && sel.Kind() == types.FieldVal {
			return sel.Obj()
		}
	}
	return nil
}

// cleanHolder: step 4 for a holder ("" = clean).
func (k *c04kWorld) cleanHolder(h types.Object, T *types.Named) string {
	if why, ok := k.holders[h]; ok {
		return why
	}
	why := ""
	fail := func(fi *FuncInfo, n ast.Node, what string) {
		if why == "" {
			why = fmt.Sprintf("%s %s in %s (%s)", h.Name(), what, fi.Name, k.c.P.Pos(n.Pos()))
		}
	}
	hv, _ := h.(*types.Var)
	if hv == nil || !c04kIsPtrTo(hv.Type(), T) {
		why = h.Name() + " is not a *" + T.Obj().Name() + " variable"
	} else if hv.IsField() && hv.Exported() {
		why = h.Name() + " is an exported field"
	} else if !hv.IsField() && hv.Pkg() != nil && hv.Parent() == hv.Pkg().Scope() && hv.Exported() {
		why = h.Name() + " is an exported variable"
	}
	assigned := 0
	isCtorCall := func(info *types.Info, e ast.Expr) bool {
		call, ok := unparen(e).(*ast.CallExpr)
		if !ok {
			return false
		}
		fn := calleeOf(info, call)
		return fn != nil && k.freshCtor(fn, T)
	}
	isNil := func(info *types.Info, e ast.Expr) bool {
		id, ok := unparen(e).(*ast.Ident)
		if !ok {
			return false
		}
		_, isNil := info.Uses[id].(*types.Nil)
		return isNil
	}
	for _, fi := range k.c.P.AllFuncs() {
		if why != "" {
			break
		}
		if fi.Decl.Body == nil || k.dead(fi) {
			continue
		}
		info := fi.Pkg.TypesInfo
		var stack []ast.Node
		ast.Inspect(fi.Decl.Body, func(n ast.Node) bool {
			if n == nil {
				stack = stack[:len(stack)-1]
				return true
			}
			stack = append(stack, n)
			id, ok := n.(*ast.Ident)
			if !ok || (info.Uses[id] != h && info.Defs[id] != h) {
				return true
			}
			var child ast.Node = id
			i := len(stack) - 2
			if i >= 0 {
				if sel, ok := stack[i].(*ast.SelectorExpr); ok && sel.Sel == id {
					child = sel
					i--
				}
			}
			for i >= 0 {
				if _, isParen := stack[i].(*ast.ParenExpr); isParen {
					child = stack[i]
					i--
					continue
				}
				break
			}
			if i < 0 {
				return true
			}
			switch t := stack[i].(type) {
			case *ast.SelectorExpr:
				sel, ok := info.Selections[t]
				var call *ast.CallExpr
				if i >= 1 {
					call, _ = stack[i-1].(*ast.CallExpr)
				}
				if t.X != child || !ok || sel.Kind() != types.MethodVal || call == nil || call.Fun != ast.Expr(t) {
					fail(fi, id, "is used other than as the receiver of a method call")
				}
			case *ast.AssignStmt:
				if len(t.Lhs) != len(t.Rhs) {
					fail(fi, id, "is part of a multi-value assignment")
					break
				}
				for j := range t.Lhs {
					if t.Lhs[j] == child {
						if isCtorCall(info, t.Rhs[j]) {
							assigned++
						} else if !isNil(info, t.Rhs[j]) {
							fail(fi, id, "is assigned "+types.ExprString(t.Rhs[j]))
						}
					}
					if t.Rhs[j] == child {
						// a local alias that is itself only a method-call receiver
						lid, isId := t.Lhs[j].(*ast.Ident)
						var lv *types.Var
						if isId {
							lv, _ = info.Defs[lid].(*types.Var)
						}
						if lv == nil || t.Tok != token.DEFINE || singleDefOf(info, lv) == nil || !k.aliasClean(fi, lv) {
							fail(fi, id, "is copied")
						}
					}
				}
			case *ast.ValueSpec:
				for j, nm := range t.Names {
					if ast.Node(nm) == child && len(t.Values) == len(t.Names) {
						if isCtorCall(info, t.Values[j]) {
							assigned++
						} else if !isNil(info, t.Values[j]) {
							fail(fi, id, "is initialised from "+types.ExprString(t.Values[j]))
						}
					}
				}
				for _, v := range t.Values {
					if v == child {
						fail(fi, id, "is copied")
					}
				}
			case *ast.KeyValueExpr:
				if t.Key == child && isCtorCall(info, t.Value) {
					assigned++
				} else {
					fail(fi, id, "is used in a composite literal")
				}
			case *ast.BinaryExpr:
				if t.Op != token.EQL && t.Op != token.NEQ {
					fail(fi, id, "is used in an expression")
				}
			default:
				fail(fi, id, fmt.Sprintf("is used in a %T", stack[i]))
			}
			return true
		})
	}
	if why == "" && assigned == 0 {
		why = h.Name() + " is never assigned a constructor's result (a parameter?)"
	}
	k.holders[h] = why
	return why
}

// aliasClean: every use of the local x in fi is as the receiver of a method call.
func (k *c04kWorld) aliasClean(fi *FuncInfo, x *types.Var) bool {
	info := fi.Pkg.TypesInfo
	parents := k.c.P.Parents(fi.Pkg)
	clean := true
	ast.Inspect(fi.Decl.Body, func(n ast.Node) bool {
		id, ok := n.(*ast.Ident)
		if !ok || info.Uses[id] != types.Object(x) {
			return true
		}
		var child ast.Node = id
		par := parents[id]
		for {
			if pe, ok := par.(*ast.ParenExpr); ok {
				child, par = pe, parents[pe]
				continue
			}
			break
		}
		if as, ok := par.(*ast.AssignStmt); ok && len(as.Lhs) == 1 && len(as.Rhs) == 1 && as.Rhs[0] == child {
			if l, ok := as.Lhs[0].(*ast.Ident); ok && l.Name == "_" {
				return true // `_ = x`
			}
		}
		sel, ok := par.(*ast.SelectorExpr)
		if !ok || sel.X != child {
			clean = false
			return true
		}
		s, ok := info.Selections[sel]
		call, isCall := parents[sel].(*ast.CallExpr)
		if !ok || s.Kind() != types.MethodVal || !isCall || call.Fun != ast.Expr(sel) {
			clean = false
		}
		return true
	})
	return clean
}

// own: e is `x.field` with x a *T variable; returns the field.
func c04kOwnField(info *types.Info, e ast.Expr, T *types.Named) *types.Var {
	sel, ok := c04jStrip(e).(*ast.SelectorExpr)
	if !ok {
		return nil
	}
	s, ok := info.Selections[sel]
	if !ok || s.Kind() != types.FieldVal {
		return nil
	}
	id, ok := unparen(sel.X).(*ast.Ident)
	if !ok {
		return nil
	}
	v, ok := info.Uses[id].(*types.Var)
	if !ok || !c04kIsPtrTo(v.Type(), T) {
		return nil
	}
	f, _ := s.Obj().(*types.Var)
	return f
}

// sendsPlain: fi, or a function of T's package it reaches through static calls, performs a plain (non-select)
// send on x.c2.
func (k *c04kWorld) sendsPlain(fi *FuncInfo, c2 *types.Var, T *types.Named) bool {
	if fi == nil || fi.Decl.Body == nil {
		return false
	}
	if k.hasSend(fi, c2, T) {
		return true
	}
	for name := range k.reachSet(fi) {
		if sf := k.c.P.Func(name); sf != nil && k.hasSend(sf, c2, T) {
			return true
		}
	}
	return false
}

// isBlockingSend: the node is a plain send on x.c2 or a (not deferred, not started) call that can perform one.
func (k *c04kWorld) isBlockingSend(fi *FuncInfo, c2 *types.Var, T *types.Named) func(ast.Node) bool {
	info := fi.Pkg.TypesInfo
	parents := k.c.P.Parents(fi.Pkg)
	return func(n ast.Node) bool {
		switch t := n.(type) {
		case *ast.SendStmt:
			if c04kOwnField(info, t.Chan, T) != c2 {
				return false
			}
			if _, inSelect := parents[t].(*ast.CommClause); inSelect {
				return false
			}
			return true
		case *ast.CallExpr:
			switch parents[t].(type) {
			case *ast.DeferStmt, *ast.GoStmt:
				return false
			}
			if fn := calleeOf(info, t); fn != nil && fn.Pkg() == T.Obj().Pkg() {
				if cf := k.c.P.FuncOfObj(fn); cf != nil && cf != fi {
					return k.sendsPlain(cf, c2, T)
				}
			}
		}
		return false
	}
}

func c04NoWaitCycle(c *Ctx) {
	c.Clauses = append(c.Clauses, "C04.j a goroutine whose confirmation the shutdown path waits for does not, on every path to that confirmation, first have to hand a value to the very goroutine that is waiting (the input goroutine runs Close on a kill signal and in its panic handler, and is the only receiver of the parser's sequence channel)")
	c.expect("C04.j", 1)
	c.Assume = append(c.Assume, "C04.j: the shutdown path (Close/Suspend) is run by one goroutine at a time: a receive inside the waiting method other than the wait itself is not being executed by a second goroutine while the first one waits")
	suspend := c.P.Func("vaxis.(*Vaxis).Suspend")
	cl := c.P.Func("vaxis.(*Vaxis).Close")
	if suspend == nil || cl == nil {
		c.undecided("C04.j", "vaxis.(*Vaxis).Close/Suspend", 0, "Close or Suspend not found")
		return
	}
	w := c04jWorldOf(c)
	k := &c04kWorld{c04jWorld: w, confined: map[*types.Named]string{}, holders: map[types.Object]string{}}
	shutdown := staticReach(c.P, cl)
	for n := range staticReach(c.P, suspend) {
		shutdown[n] = true
	}
	members := map[types.Object][]types.Object{}
	for o := range w.parent {
		r := w.find(o)
		members[r] = append(members[r], o)
	}
	classWakes := map[types.Object][]*c04jSite{}
	for _, wk := range w.wakes {
		if w.dead(wk.fi) {
			continue // a helper whose calls were all inlined (or that nothing references): it never runs
		}
		r := w.find(wk.ents[0])
		classWakes[r] = append(classWakes[r], wk)
	}
	seen := map[string]int{}
	for _, wt := range w.waits {
		if !shutdown[wt.fi.Name] {
			continue
		}
		var names []string
		for _, e := range wt.ents {
			names = append(names, c04jEntName(e))
		}
		key := fmt.Sprintf("%s/the goroutine that ends the %s on %s does not need the waiting goroutine", wt.fi.Name, wt.kind, strings.Join(names, ", "))
		seen[key]++
		if seen[key] > 1 {
			key += fmt.Sprintf(" #%d", seen[key])
		}
		verdict, why := k.cycle(wt, members, classWakes)
		switch {
		case verdict:
			c.bad("C04.j", key, wt.node.Pos(), "%s", why)
		default:
			c.ok("C04.j", key, wt.node.Pos(), "no wait-for cycle established: %s", why)
		}
	}
}

func (k *c04kWorld) cycle(wt *c04jSite, members map[types.Object][]types.Object, classWakes map[types.Object][]*c04jSite) (bool, string) {
	c := k.c
	w := k.c04jWorld
	if (wt.kind != "receive" && wt.kind != "select") || len(wt.ents) != 1 || len(wt.recvX) != 1 {
		return false, "the wait is not ended by a single receive"
	}
	// step 1: `<-r.f` in a method of T on its own receiver
	fi := wt.fi
	if fi.Decl.Recv == nil || len(fi.Decl.Recv.List) != 1 || len(fi.Decl.Recv.List[0].Names) != 1 {
		return false, "the wait is not in a method"
	}
	info := fi.Pkg.TypesInfo
	rv, _ := info.Defs[fi.Decl.Recv.List[0].Names[0]].(*types.Var)
	if rv == nil {
		return false, "the wait is not in a method"
	}
	T := c04kNamed(rv.Type())
	if T == nil || !c04kIsPtrTo(rv.Type(), T) {
		return false, "the method has no pointer receiver of a named type"
	}
	f := c04kOwnField(info, wt.recvX[0], T)
	if f == nil {
		return false, "the channel is not a field of the method's receiver"
	}
	served := map[types.Object]bool{}
	for _, e := range wt.serves {
		served[w.find(e)] = true
	}
	root := w.find(f)
	for _, m := range members[root] {
		if w.escN[m] > 0 {
			return false, c04jEntName(m) + " can be reached from outside (" + w.escaped[m] + ")"
		}
	}
	wakes := classWakes[root]
	if len(wakes) == 0 {
		return false, "no wake-up (C04.i reports it)"
	}
	// step 2
	type blocked struct {
		wake *c04jSite
		h    *c04jGo
		c2   []*types.Var
	}
	st, _ := T.Underlying().(*types.Struct)
	if st == nil {
		return false, T.Obj().Name() + " is not a struct"
	}
	var bl []blocked
	for _, wk := range wakes {
		if wk.fi.Pkg.Types != T.Obj().Pkg() {
			return false, "a wake-up is performed outside " + T.Obj().Pkg().Name()
		}
		var hgo *c04jGo
		for _, g := range w.gos {
			if g.callee != nil && g.fi.Pkg.Types == T.Obj().Pkg() && g.callee.Pkg.Types == T.Obj().Pkg() && (g.callee == wk.fi || w.reaches(g.callee, wk.fi.Name)) && w.ownedBy(wk, g, 0, map[*types.Func]bool{}) {
				hgo = g
			}
		}
		if hgo == nil {
			return false, fmt.Sprintf("the %s in %s is not performed (exclusively) by a goroutine that %s starts on a function of its own", wk.kind, wk.fi.Name, T.Obj().Pkg().Name())
		}
		// the places where the wake-up is still ahead: in its own function, and — if that is a helper — in the
		// goroutine's function at the calls that lead to it
		type level struct {
			fi      *FuncInfo
			g       *FG
			targets []Loc
		}
		var levels []level
		{
			g := c.P.Graph(wk.fi)
			loc, ok := g.Locate(wk.node)
			if !ok {
				return false, "the wake-up is inside a function literal"
			}
			levels = append(levels, level{wk.fi, g, []Loc{loc}})
		}
		if hgo.callee != wk.fi {
			g := c.P.Graph(hgo.callee)
			lv := level{hgo.callee, g, nil}
			for _, h := range g.Calls(func(fn *types.Func, call *ast.CallExpr) bool {
				cf := c.P.FuncOfObj(fn)
				return cf != nil && (cf == wk.fi || w.reaches(cf, wk.fi.Name))
			}) {
				lv.targets = append(lv.targets, h.Loc)
			}
			levels = append(levels, lv)
		}
		var c2s []*types.Var
		var servedNames []string
		for i := 0; i < st.NumFields(); i++ {
			c2 := st.Field(i)
			if !c04jIsChan(c2.Type()) || w.find(c2) == root {
				continue
			}
			// a blocking send the goroutine can be in, with the wake-up still ahead
			ahead := false
			for _, lv := range levels {
				isB := k.isBlockingSend(lv.fi, c2, T)
				for _, h := range lv.g.Find(isB) {
					for _, t := range lv.targets {
						if lv.g.ReachesAvoiding(h.Loc, t, nil) {
							ahead = true
						}
					}
				}
			}
			if !ahead {
				continue
			}
			if served[w.find(c2)] {
				// the waiter keeps taking values from c2 while it waits (a service arm of its select loop)
				servedNames = append(servedNames, c04jEntName(c2))
				continue
			}
			// a loop of the goroutine can send on c2 as well: more values than any buffer holds
			loops := false
			fns := []*FuncInfo{hgo.callee}
			for name := range k.reachSet(hgo.callee) {
				if sf := c.P.Func(name); sf != nil && sf != hgo.callee && sf.Pkg.Types == T.Obj().Pkg() {
					fns = append(fns, sf)
				}
			}
			for _, lf := range fns {
				if loops || lf.Decl.Body == nil {
					continue
				}
				linfo := lf.Pkg.TypesInfo
				parents := c.P.Parents(lf.Pkg)
				inspectNoLit(lf.Decl.Body, func(n ast.Node) bool {
					switch n.(type) {
					case *ast.ForStmt, *ast.RangeStmt:
					default:
						return true
					}
					ast.Inspect(n, func(m ast.Node) bool {
						switch t := m.(type) {
						case *ast.FuncLit:
							return false
						case *ast.SendStmt:
							if _, inSelect := parents[t].(*ast.CommClause); !inSelect && c04kOwnField(linfo, t.Chan, T) == c2 {
								loops = true
							}
						case *ast.CallExpr:
							if fn := calleeOf(linfo, t); fn != nil {
								if cf := c.P.FuncOfObj(fn); cf != nil && cf.Pkg.Types == T.Obj().Pkg() && k.sendsPlain(cf, c2, T) {
									loops = true
								}
							}
						}
						return !loops
					})
					return true
				})
			}
			if loops {
				c2s = append(c2s, c2)
			}
		}
		if len(c2s) == 0 && len(servedNames) > 0 {
			return false, fmt.Sprintf("while it waits, %s itself keeps receiving from %s (an arm of its select loop that returns to the select), so %s cannot stay blocked sending on it before its %s on %s", wt.fi.Name, strings.Join(servedNames, ", "), wk.fi.Name, wk.kind, c04jEntName(f))
		}
		if len(c2s) == 0 {
			return false, fmt.Sprintf("%s never has its %s on %s ahead of it while it can be in a plain blocking send on another channel of the object", wk.fi.Name, wk.kind, c04jEntName(f))
		}
		bl = append(bl, blocked{wk, hgo, c2s})
	}
	// step 4 (type)
	if why := k.typeConfined(T); why != "" {
		return false, "objects of " + T.Obj().Name() + " are not confined: " + why
	}
	// step 1 (G) and step 3
	var notes []string
	for _, g := range w.gos {
		if g.inLoop {
			continue
		}
		isH := false
		for _, b := range bl {
			if b.h == g {
				isH = true
			}
		}
		if isH {
			continue
		}
		var body *ast.BlockStmt
		var ft *ast.FuncType
		var pk *FuncInfo
		var nm string
		if g.lit != nil {
			body, ft, pk, nm = g.lit.Body, g.lit.Type, g.fi, g.fi.Name+"$go"
			if !containsWaitOrCallTo(&c04jSearch{w: w, wait: wt}, g.fi, body, wt.fi.Name) {
				continue
			}
		} else {
			if !w.reaches(g.callee, wt.fi.Name) {
				continue
			}
			body, ft, pk, nm = g.callee.Decl.Body, g.callee.Decl.Type, g.callee, g.callee.Name
		}
		s := &c04jSearch{w: w, wait: wt, ents: map[types.Object]bool{root: true}, visited: map[string]bool{}}
		if !s.exposed(pk, nm, body, ft, nil, 0) || s.entryCall == nil {
			continue
		}
		sel, ok := unparen(s.entryCall.Fun).(*ast.SelectorExpr)
		if !ok {
			continue
		}
		h := c04kHolderOf(s.entryInfo, sel.X)
		if h == nil {
			notes = append(notes, g.name+": enters through a receiver the rule cannot name")
			continue
		}
		if why := k.cleanHolder(h, T); why != "" {
			notes = append(notes, g.name+": "+why)
			continue
		}
		// every wake-up blocked behind a channel only g serves
		all := true
		var chain []string
		for _, b := range bl {
			served := ""
			okOne := false
			for _, c2 := range b.c2 {
				why := k.onlyServedBy(c2, h, g, T, members, wt)
				if why == "" {
					okOne = true
					chain = append(chain, fmt.Sprintf("%s can be in a plain blocking send on %[4]s (values are sent in a loop) with its %[2]s on %[3]s (%[5]s) still ahead", b.wake.fi.Name, b.wake.kind, c04jEntName(f), c04jEntName(c2), c.P.Pos(b.wake.node.Pos())))
					break
				}
				served = why
			}
			if !okOne {
				all = false
				notes = append(notes, g.name+": "+served)
				break
			}
		}
		if !all {
			continue
		}
		var tr []string
		for i := len(s.trace) - 1; i >= 0; i-- {
			tr = append(tr, s.trace[i])
		}
		return true, fmt.Sprintf("%s waits on %s for the object's own goroutine, but %s; the only receiver of that channel for the object held in %s is %s — which is the goroutine that waits here when the shutdown runs on it (%s): with more values pending than the channel buffers (a termination signal or a panic during a burst of input) neither goroutine moves again, Close never returns and the terminal is not restored",
			wt.fi.Name, c04jEntName(f), strings.Join(chain, "; "), c04jEntName(h), g.name, strings.Join(tr, " → "))
	}
	sort.Strings(notes)
	if len(notes) == 0 {
		return false, "no goroutine that arrives at the wait is the only receiver the waker depends on"
	}
	return false, strings.Join(notes, "; ")
}

func (k *c04kWorld) reachSet(fi *FuncInfo) map[string]bool {
	k.reaches(fi, "")
	return k.reach[fi.Name]
}

func (k *c04kWorld) hasSend(fi *FuncInfo, c2 *types.Var, T *types.Named) bool {
	if fi.Decl.Body == nil || fi.Pkg.Types != T.Obj().Pkg() {
		return false
	}
	parents := k.c.P.Parents(fi.Pkg)
	found := false
	ast.Inspect(fi.Decl.Body, func(n ast.Node) bool {
		if s, ok := n.(*ast.SendStmt); ok && c04kOwnField(fi.Pkg.TypesInfo, s.Chan, T) == c2 {
			if _, inSelect := parents[s].(*ast.CommClause); !inSelect {
				found = true
			}
		}
		return !found
	})
	return found
}

// onlyServedBy: step 3 ("" = established).
func (k *c04kWorld) onlyServedBy(c2 *types.Var, h types.Object, g *c04jGo, T *types.Named, members map[types.Object][]types.Object, wt *c04jSite) string {
	w := k.c04jWorld
	r2 := w.find(c2)
	for _, m := range members[r2] {
		if w.escN[m] != w.getN[m] {
			return c04jEntName(m) + " can be reached from outside (" + w.escaped[m] + ")"
		}
	}
	byG := 0
	for _, r := range w.recvs {
		if w.find(r.ents[0]) != r2 || w.dead(r.fi) {
			continue
		}
		info := r.fi.Pkg.TypesInfo
		var x ast.Expr
		switch t := r.node.(type) {
		case *ast.UnaryExpr:
			x = t.X
		case *ast.RangeStmt:
			x = t.X
		}
		call, ok := c04jStrip(x).(*ast.CallExpr)
		if !ok && r.fi == wt.fi && c04kOwnField(info, x, T) == c2 {
			// a receive in the wait's own method, on its own receiver: it is performed by whoever executes that
			// method for this object — the goroutine under examination, which is blocked at the wait (receives
			// that belong to the waiting select itself are its service arms and were dealt with before). Another
			// goroutine in the same method at the same time would be a second, concurrent shutdown (assumption).
			continue
		}
		if !ok {
			return fmt.Sprintf("%s is received from directly in %s", c04jEntName(c2), r.fi.Name)
		}
		fn := calleeOf(info, call)
		sel, isSel := unparen(call.Fun).(*ast.SelectorExpr)
		if fn == nil || !w.getters[fn] || !isSel {
			return fmt.Sprintf("%s is received from through %s in %s", c04jEntName(c2), types.ExprString(call.Fun), r.fi.Name)
		}
		h2 := c04kHolderOf(info, sel.X)
		switch {
		case h2 == h:
			if !w.ownedBy(r, g, 0, map[*types.Func]bool{}) {
				return fmt.Sprintf("%s also receives from %s.%s()", r.fi.Name, c04jEntName(h), fn.Name())
			}
			byG++
		case h2 != nil && k.cleanHolder(h2, T) == "":
			// another object
		default:
			return fmt.Sprintf("the receive from %s in %s may concern the same object", types.ExprString(x), r.fi.Name)
		}
	}
	if byG == 0 {
		return g.name + " does not receive from " + c04jEntName(c2)
	}
	return ""
}
