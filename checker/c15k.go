package main

// C15.k — who may clear the consume flag (round-11 seed C15_b_r11).
//
// The property: "stopping as soon as a handler consumes it ... each command a handler returns (... consume, batches of
// these) takes effect exactly once". App.consumeEvent is the one flag shared by the command interpreter
// (App.handleCommand sets it for a ConsumeEventCmd) and the dispatch loops (which test it after every handleCommand and
// stop). A consume is PENDING from the store of true inside handleCommand until the dispatch loop reads the flag. Code
// that runs in that window must not store false into it, otherwise the consume command takes effect zero times:
//
//  (1) everything reachable from App.handleCommand runs in the window (the rest of the batch is interpreted after the
//      ConsumeEventCmd: BatchCmd{ConsumeEventCmd{}, FocusWidgetCmd(w)} runs focusWidget re-entrantly with the consume
//      pending). So no store that may write false into the flag is reachable from handleCommand through the call graph
//      of package vxfw (static calls, function values mentioned in a body, interface calls resolved to the
//      implementations of the package; function literals belong to the function that contains them).
//  (2) in a function that calls handleCommand and reads the flag afterwards, no store of false and no call of a function
//      that may store false lies on a path between the handleCommand call and the first read of the flag.
//
// The flag is an unexported field, so only package vxfw can write it. Stores are found semantically: `x.consumeEvent = v`,
// `*p = v` with p a local alias of &x.consumeEvent or a *bool parameter that receives &x.consumeEvent at a call site,
// whole-struct assignments `*app = App{...}`. The stored value is classified: constant true (set), `flag || ...` (never
// clears), a bool parameter of the function (judged at each call site, in the caller), anything else may clear.
// Where the dispatch loops reset the flag (entry reset, reset on the consumed edge, a helper of the dispatch loop that
// does either) is of no concern to this rule as long as that code is not reachable from the interpreter.

import (
	"go/ast"
	"go/constant"
	"go/token"
	"go/types"
	"sort"
	"strings"
)

func init() { registerExtra("C15", c15WhoMayClear) }

type c15kSite struct {
	fn  *types.Func // function in which the (effective) clear happens
	pos token.Pos
	how string
}

type c15kEng struct {
	c     *Ctx
	info  *types.Info
	flag  *types.Var
	app   *types.TypeName
	decls map[*types.Func]*FuncInfo
	// call sites of package functions: callee -> (caller, call)
	callers  map[*types.Func][]c15kCall
	valueRef map[*types.Func]bool // mentioned other than as the callee of a call
}

type c15kCall struct {
	caller *types.Func
	call   *ast.CallExpr
}

func c15WhoMayClear(c *Ctx) {
	c.Clauses = append(c.Clauses, "C15.k a pending consume is not wiped: no store that may write false into App.consumeEvent is reachable from App.handleCommand (the rest of a batch, focusWidget's re-entrant notifications), nor lies between a handleCommand call and the consume test of a dispatch loop")
	c.expect("C15.k", 3)
	pk := c.P.Pkg("vxfw")
	hc := c15Func(c, "vxfw.(*App).handleCommand")
	if pk == nil || hc == nil {
		c.undecided("C15.k", "vxfw.(*App).handleCommand", 0, "package vxfw or handleCommand not found")
		return
	}
	e := &c15kEng{c: c, info: pk.TypesInfo, decls: map[*types.Func]*FuncInfo{}, callers: map[*types.Func][]c15kCall{}, valueRef: map[*types.Func]bool{}}
	e.flag = c15StructFields(pk, "App")["consumeEvent"]
	e.app, _ = pk.Types.Scope().Lookup("App").(*types.TypeName)
	if e.flag == nil || e.app == nil {
		c.undecided("C15.k", "vxfw.App.consumeEvent", 0, "the consume flag App.consumeEvent was not found")
		return
	}
	var order []*FuncInfo
	for _, fi := range c.P.FuncsIn("vxfw") {
		if fi.Decl.Body == nil || fi.Obj == nil {
			continue
		}
		e.decls[fi.Obj] = fi
		order = append(order, fi)
	}
	sort.Slice(order, func(i, j int) bool { return order[i].Name < order[j].Name })

	// call graph of the package
	edges := map[*types.Func]map[*types.Func]bool{}
	var concrete []types.Type
	for _, n := range pk.Types.Scope().Names() {
		if tn, ok := pk.Types.Scope().Lookup(n).(*types.TypeName); ok && !tn.IsAlias() {
			if _, isIface := tn.Type().Underlying().(*types.Interface); !isIface {
				concrete = append(concrete, tn.Type(), types.NewPointer(tn.Type()))
			}
		}
	}
	for _, fi := range order {
		out := map[*types.Func]bool{}
		edges[fi.Obj] = out
		calleeIdents := map[*ast.Ident]bool{}
		ast.Inspect(fi.Decl.Body, func(n ast.Node) bool {
			call, ok := n.(*ast.CallExpr)
			if !ok {
				return true
			}
			if fn := calleeOf(e.info, call); fn != nil {
				if _, mine := e.decls[fn]; mine {
					e.callers[fn] = append(e.callers[fn], c15kCall{fi.Obj, call})
				}
				switch f := unparen(call.Fun).(type) {
				case *ast.Ident:
					calleeIdents[f] = true
				case *ast.SelectorExpr:
					calleeIdents[f.Sel] = true
				}
				// interface method: every implementation of the package
				if sig, _ := fn.Type().(*types.Signature); sig != nil && sig.Recv() != nil {
					if it, ok := sig.Recv().Type().Underlying().(*types.Interface); ok {
						for _, t := range concrete {
							if !types.Implements(t, it) {
								continue
							}
							if m, _, _ := types.LookupFieldOrMethod(t, true, pk.Types, fn.Name()); m != nil {
								if mf, ok := m.(*types.Func); ok {
									out[mf] = true
								}
							}
						}
					}
				}
			}
			return true
		})
		ast.Inspect(fi.Decl.Body, func(n ast.Node) bool {
			id, ok := n.(*ast.Ident)
			if !ok {
				return true
			}
			if fn, ok := e.info.Uses[id].(*types.Func); ok {
				if _, mine := e.decls[fn]; mine {
					out[fn] = true
					if !calleeIdents[id] {
						e.valueRef[fn] = true
					}
				}
			}
			return true
		})
	}
	reach := map[*types.Func]bool{hc.Obj: true}
	via := map[*types.Func]*types.Func{}
	for work := []*types.Func{hc.Obj}; len(work) > 0; {
		f := work[len(work)-1]
		work = work[:len(work)-1]
		var next []*types.Func
		for g := range edges[f] {
			next = append(next, g)
		}
		sort.Slice(next, func(i, j int) bool { return fullName(next[i]) < fullName(next[j]) })
		for _, g := range next {
			if !reach[g] {
				reach[g] = true
				via[g] = f
				work = append(work, g)
			}
		}
	}
	chain := func(f *types.Func) string {
		var names []string
		for g := f; g != nil; g = via[g] {
			names = append(names, g.Name())
			if len(names) > 8 {
				break
			}
		}
		for i, j := 0, len(names)-1; i < j; i, j = i+1, j-1 {
			names[i], names[j] = names[j], names[i]
		}
		return strings.Join(names, " -> ")
	}

	// (1) effective clear sites
	var sites []c15kSite
	mayClearDirect := map[*types.Func]bool{}
	for _, fi := range order {
		for _, st := range e.stores(fi) {
			if st.class != "true" {
				mayClearDirect[fi.Obj] = true
			}
			sites = append(sites, e.effective(fi.Obj, st, 0)...)
		}
	}
	type agg struct {
		fi  *FuncInfo
		pos token.Pos
		n   int
		how []string
	}
	per := map[*types.Func]*agg{}
	var fnOrder []*types.Func
	for _, s := range sites {
		a := per[s.fn]
		if a == nil {
			a = &agg{fi: e.decls[s.fn], pos: s.pos}
			per[s.fn] = a
			fnOrder = append(fnOrder, s.fn)
		}
		a.n++
		a.how = append(a.how, s.how)
	}
	var offenders []string
	for _, fn := range fnOrder {
		a := per[fn]
		key := a.fi.Name + "/consumeEvent is cleared only outside the command interpreter"
		if reach[fn] {
			offenders = append(offenders, fn.Name())
			c.bad("C15.k", key, a.pos, "%s (%s) runs while App.handleCommand interprets a command (%s): a consume that is pending from an earlier command of the same batch (BatchCmd{ConsumeEventCmd{}, ...}) is wiped before the dispatch loop tests it, the consumed event keeps propagating", a.how[0], fn.Name(), chain(fn))
		} else {
			c.ok("C15.k", key, a.pos, "%d store(s) that may clear the flag, not reachable from handleCommand", a.n)
		}
	}
	c.check(len(offenders) == 0, "C15.k", hc.Name+"/no clear of consumeEvent reachable from the interpreter", hc.Decl.Pos(),
		"no function reachable from handleCommand may store false into the consume flag",
		"reachable from handleCommand and clearing the consume flag: "+strings.Join(offenders, ", "))

	// (2) the window between handleCommand and the consume test
	mayClear := map[*types.Func]bool{}
	mayRead := map[*types.Func]bool{}
	for _, fi := range order {
		if mayClearDirect[fi.Obj] {
			mayClear[fi.Obj] = true
		}
		if e.readsFlag(fi.Decl.Body) {
			mayRead[fi.Obj] = true
		}
	}
	for changed := true; changed; {
		changed = false
		for _, fi := range order {
			for g := range edges[fi.Obj] {
				if mayClear[g] && !mayClear[fi.Obj] {
					mayClear[fi.Obj] = true
					changed = true
				}
				if mayRead[g] && !mayRead[fi.Obj] {
					mayRead[fi.Obj] = true
					changed = true
				}
			}
		}
	}
	for _, fi := range order {
		if fi.Obj == hc.Obj {
			continue
		}
		g := c.P.Graph(fi)
		if g == nil {
			continue
		}
		starts := g.Calls(func(fn *types.Func, call *ast.CallExpr) bool { return fn == hc.Obj })
		if len(starts) == 0 {
			continue
		}
		nodeCalls := func(n ast.Node, set map[*types.Func]bool) bool {
			return containsNode(n, func(m ast.Node) bool {
				call, ok := m.(*ast.CallExpr)
				if !ok {
					return false
				}
				fn := calleeOf(e.info, call)
				return fn != nil && set[fn]
			})
		}
		isHC := func(n ast.Node) bool {
			return containsNode(n, func(m ast.Node) bool {
				call, ok := m.(*ast.CallExpr)
				return ok && calleeOf(e.info, call) == hc.Obj
			})
		}
		clearsHere := func(n ast.Node) bool {
			for _, st := range e.storesIn(fi, n) {
				if st.class != "true" {
					return true
				}
			}
			return nodeCalls(n, mayClear)
		}
		tested := false
		var badPos token.Pos
		type st struct {
			l       Loc
			tainted bool
		}
		for _, h := range starts {
			seen := map[[2]interface{}]bool{}
			work := []st{{Loc{h.Loc.B, h.Loc.Idx + 1}, false}}
			for len(work) > 0 {
				w := work[len(work)-1]
				work = work[:len(work)-1]
				if w.l.Idx == 0 {
					k := [2]interface{}{w.l.B, w.tainted}
					if seen[k] {
						continue
					}
					seen[k] = true
				}
				stop := false
				tainted := w.tainted
				var taintPos token.Pos
				for i := w.l.Idx; i < len(w.l.B.Nodes); i++ {
					n := w.l.B.Nodes[i]
					if e.readsFlag(n) {
						tested = true
						if tainted && badPos == token.NoPos {
							badPos = taintPos
						}
						stop = true
						break
					}
					// a callee that reads the flag itself (a nested dispatch, a test-and-reset helper that was not
					// inlined) ends the window; what it does first is its own business and is not judged from here
					if isHC(n) || nodeCalls(n, mayRead) {
						stop = true
						break
					}
					if clearsHere(n) {
						tainted = true
						taintPos = n.Pos()
					}
				}
				if stop {
					continue
				}
				for _, s := range w.l.B.Succs {
					work = append(work, st{Loc{s, 0}, tainted})
				}
			}
		}
		if !tested {
			continue // the function interprets commands but is not a dispatch loop (focusWidget, Run): nothing to test here
		}
		key := fi.Name + "/no clear of consumeEvent between handleCommand and the consume test"
		pos := starts[0].Node.Pos()
		if badPos != token.NoPos {
			pos = badPos
		}
		c.check(badPos == token.NoPos, "C15.k", key, pos, "every path from a handleCommand call reaches the read of the flag without a store of false",
			"a store that may clear consumeEvent (or a call of a function that may) lies on a path between handleCommand and the read of the flag: the consume command of the handler is lost and the event keeps propagating")
	}
}

type c15kStore struct {
	pos   token.Pos
	class string // "true" | "clear" | "param"
	param int
	how   string
	// store through a *bool parameter of the function: resolved at the call sites that pass &x.consumeEvent
	ptrParam int // -1 when the store is to the flag itself
}

// stores lists the stores into the flag inside fi (function literals included).
func (e *c15kEng) stores(fi *FuncInfo) []c15kStore { return e.storesIn(fi, fi.Decl.Body) }

func (e *c15kEng) paramIndex(fi *FuncInfo, obj types.Object) int {
	if obj == nil || fi.Decl.Type.Params == nil {
		return -1
	}
	i := 0
	for _, f := range fi.Decl.Type.Params.List {
		if len(f.Names) == 0 {
			i++
			continue
		}
		for _, nm := range f.Names {
			if e.info.Defs[nm] == obj {
				return i
			}
			i++
		}
	}
	return -1
}

// isFlagAddr: &x.consumeEvent
func (e *c15kEng) isFlagAddr(x ast.Expr) bool {
	u, ok := unparen(x).(*ast.UnaryExpr)
	return ok && u.Op == token.AND && c15Field(e.info, u.X) == e.flag
}

func (e *c15kEng) storesIn(fi *FuncInfo, root ast.Node) []c15kStore {
	var out []c15kStore
	if root == nil {
		return nil
	}
	// local aliases of &flag (any definition in the function counts)
	alias := map[types.Object]bool{}
	ast.Inspect(fi.Decl.Body, func(n ast.Node) bool {
		switch t := n.(type) {
		case *ast.AssignStmt:
			if len(t.Lhs) == len(t.Rhs) {
				for i, l := range t.Lhs {
					if id, ok := l.(*ast.Ident); ok && e.isFlagAddr(t.Rhs[i]) {
						if o := e.info.ObjectOf(id); o != nil {
							alias[o] = true
						}
					}
				}
			}
		case *ast.ValueSpec:
			if len(t.Names) == len(t.Values) {
				for i, id := range t.Names {
					if e.isFlagAddr(t.Values[i]) {
						if o := e.info.ObjectOf(id); o != nil {
							alias[o] = true
						}
					}
				}
			}
		}
		return true
	})
	classify := func(v ast.Expr) (string, int) {
		if v == nil {
			return "clear", -1
		}
		v = unparen(v)
		if tv, ok := e.info.Types[v]; ok && tv.Value != nil && tv.Value.Kind() == constant.Bool {
			if constant.BoolVal(tv.Value) {
				return "true", -1
			}
			return "clear", -1
		}
		if b, ok := v.(*ast.BinaryExpr); ok && b.Op == token.LOR {
			if c15Field(e.info, b.X) == e.flag || c15Field(e.info, b.Y) == e.flag {
				return "true", -1 // flag || x never clears
			}
		}
		if id, ok := v.(*ast.Ident); ok {
			if k := e.paramIndex(fi, e.info.Uses[id]); k >= 0 && !e.assigned(fi, e.info.Uses[id]) {
				return "param", k
			}
		}
		return "clear", -1
	}
	ast.Inspect(root, func(n ast.Node) bool {
		as, ok := n.(*ast.AssignStmt)
		if !ok {
			return true
		}
		for i, l := range as.Lhs {
			var v ast.Expr
			if len(as.Lhs) == len(as.Rhs) {
				v = as.Rhs[i]
			}
			l = unparen(l)
			switch {
			case c15Field(e.info, l) == e.flag:
				cl, k := classify(v)
				out = append(out, c15kStore{pos: as.Pos(), class: cl, param: k, ptrParam: -1, how: "`" + c15kText(as) + "`"})
			default:
				st, ok := l.(*ast.StarExpr)
				if !ok {
					continue
				}
				if e.isFlagAddr(st.X) { // *(&x.consumeEvent) = v: what alias substitution leaves behind
					cl, k := classify(v)
					out = append(out, c15kStore{pos: as.Pos(), class: cl, param: k, ptrParam: -1, how: "`" + c15kText(as) + "`"})
					continue
				}
				if id, ok := unparen(st.X).(*ast.Ident); ok {
					o := e.info.Uses[id]
					if alias[o] {
						cl, k := classify(v)
						out = append(out, c15kStore{pos: as.Pos(), class: cl, param: k, ptrParam: -1, how: "`" + c15kText(as) + "` (alias of &consumeEvent)"})
						continue
					}
					if k := e.paramIndex(fi, o); k >= 0 {
						if p, ok := o.Type().Underlying().(*types.Pointer); ok {
							if b, ok := p.Elem().Underlying().(*types.Basic); ok && b.Kind() == types.Bool {
								cl, pk := classify(v)
								out = append(out, c15kStore{pos: as.Pos(), class: cl, param: pk, ptrParam: k, how: "`" + c15kText(as) + "`"})
								continue
							}
						}
					}
				}
				// *app = App{...} / *app = other
				if t := e.info.TypeOf(l); t != nil && e.app != nil && types.Identical(t, e.app.Type()) {
					cl := "clear"
					if lit, ok := unparen(v).(*ast.CompositeLit); ok {
						for _, el := range lit.Elts {
							if kv, ok := el.(*ast.KeyValueExpr); ok {
								if id, ok := kv.Key.(*ast.Ident); ok && e.info.Uses[id] == e.flag {
									cl, _ = classify(kv.Value)
								}
							}
						}
					}
					out = append(out, c15kStore{pos: as.Pos(), class: cl, param: -1, ptrParam: -1, how: "`" + c15kText(as) + "` (the whole App value is overwritten)"})
				}
			}
		}
		return true
	})
	return out
}

// assigned: is the parameter reassigned in the function (then its value is not the argument's)?
func (e *c15kEng) assigned(fi *FuncInfo, obj types.Object) bool {
	found := false
	ast.Inspect(fi.Decl.Body, func(n ast.Node) bool {
		switch t := n.(type) {
		case *ast.AssignStmt:
			for _, l := range t.Lhs {
				if id, ok := unparen(l).(*ast.Ident); ok && e.info.ObjectOf(id) == obj {
					found = true
				}
			}
		case *ast.UnaryExpr:
			if t.Op == token.AND {
				if id, ok := unparen(t.X).(*ast.Ident); ok && e.info.ObjectOf(id) == obj {
					found = true
				}
			}
		}
		return true
	})
	return found
}

// effective resolves a store to the functions in which a clear is decided: a store of a parameter's value is judged at
// every call site (in the caller); a store through a *bool parameter counts only at call sites that pass &x.consumeEvent.
func (e *c15kEng) effective(fn *types.Func, st c15kStore, depth int) []c15kSite {
	fi := e.decls[fn]
	if st.ptrParam >= 0 {
		var out []c15kSite
		for _, cs := range e.callers[fn] {
			if st.ptrParam >= len(cs.call.Args) || !e.isFlagAddr(cs.call.Args[st.ptrParam]) {
				continue
			}
			st2 := st
			st2.ptrParam = -1
			if st.class == "param" {
				out = append(out, e.atCall(fn, cs, st2, depth)...)
			} else if st.class == "clear" {
				out = append(out, c15kSite{cs.caller, cs.call.Pos(), "`" + c15kText(cs.call) + "` stores false into the flag"})
			}
		}
		return out
	}
	switch st.class {
	case "true":
		return nil
	case "clear":
		return []c15kSite{{fn, st.pos, st.how}}
	}
	// value of a parameter
	if depth > 3 || e.valueRef[fn] || len(e.callers[fn]) == 0 {
		return []c15kSite{{fn, st.pos, st.how + " (value not resolved)"}}
	}
	var out []c15kSite
	for _, cs := range e.callers[fn] {
		out = append(out, e.atCall(fn, cs, st, depth)...)
	}
	_ = fi
	return out
}

func (e *c15kEng) atCall(fn *types.Func, cs c15kCall, st c15kStore, depth int) []c15kSite {
	if st.param >= len(cs.call.Args) {
		return []c15kSite{{cs.caller, cs.call.Pos(), "`" + c15kText(cs.call) + "` (argument not resolved)"}}
	}
	arg := unparen(cs.call.Args[st.param])
	if tv, ok := e.info.Types[arg]; ok && tv.Value != nil && tv.Value.Kind() == constant.Bool {
		if constant.BoolVal(tv.Value) {
			return nil
		}
		return []c15kSite{{cs.caller, cs.call.Pos(), "`" + c15kText(cs.call) + "` stores false into the flag"}}
	}
	if id, ok := arg.(*ast.Ident); ok {
		cfi := e.decls[cs.caller]
		if cfi != nil {
			if k := e.paramIndex(cfi, e.info.Uses[id]); k >= 0 && !e.assigned(cfi, e.info.Uses[id]) && depth < 3 && !e.valueRef[cs.caller] && len(e.callers[cs.caller]) > 0 {
				var out []c15kSite
				st2 := st
				st2.param = k
				for _, cs2 := range e.callers[cs.caller] {
					out = append(out, e.atCall(cs.caller, cs2, st2, depth+1)...)
				}
				return out
			}
		}
	}
	return []c15kSite{{cs.caller, cs.call.Pos(), "`" + c15kText(cs.call) + "` may store false into the flag"}}
}

// readsFlag: does n mention the flag other than as the target of a store (function literals are not entered: they run
// when called)?
func (e *c15kEng) readsFlag(n ast.Node) bool {
	if n == nil {
		return false
	}
	lhs := map[ast.Expr]bool{}
	ast.Inspect(n, func(m ast.Node) bool {
		if as, ok := m.(*ast.AssignStmt); ok {
			for _, l := range as.Lhs {
				lhs[unparen(l)] = true
			}
		}
		return true
	})
	found := false
	ast.Inspect(n, func(m ast.Node) bool {
		if sel, ok := m.(*ast.SelectorExpr); ok && !lhs[sel] && c15Field(e.info, sel) == e.flag {
			// &x.consumeEvent alone is not a read
			found = true
		}
		return !found
	})
	return found
}

func c15kText(n ast.Node) string {
	switch t := n.(type) {
	case *ast.AssignStmt:
		var l, r []string
		for _, x := range t.Lhs {
			l = append(l, types.ExprString(x))
		}
		for _, x := range t.Rhs {
			r = append(r, types.ExprString(x))
		}
		return strings.Join(l, ", ") + " " + t.Tok.String() + " " + strings.Join(r, ", ")
	case ast.Expr:
		return types.ExprString(t)
	}
	return ""
}
