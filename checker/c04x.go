package main

// Additional C04 / C07 rules written after round-2 seeded regressions.
//
//  C04.e  the slots that hold the terminal's prior values (appIDLast, userCursorStyle) are written only by
//         the start-up reply path; everything else would make the exit path "restore" the application's own value.
//  C04.f  setupSignals registers the kill-signal handler directly and on every call (Suspend stops it, Resume
//         relies on setupSignals to register again).
//  C07.h  the explicit-width capability is established only by the probe's positive answer (cursor moved by
//         exactly one column), never by the timeout sentinel.

import (
	"fmt"
	"go/ast"
	"go/types"
	"strings"
)

func init() {
	registerExtra("C04", c04PriorSlots)
	registerExtra("C04", c04SignalSetup)
	registerExtra("C07", c07ExplicitWidthProbe)
}

func c04PriorSlots(c *Ctx) {
	c.Clauses = append(c.Clauses, "C04.e the saved prior values (appIDLast, userCursorStyle) are written only by the start-up reply path",
		"C04.f setupSignals registers the kill and resize handlers directly on every call")
	c.expect("C04.e", 2)
	c.expect("C04.f", 1)
	allowed := map[string]map[string]string{
		"Vaxis.appIDLast":       {"vaxis.New": "OSC 176 reply in the start-up loop"},
		"Vaxis.userCursorStyle": {"vaxis.(*Vaxis).handleSequence": "DECRQSS reply"},
	}
	seen := map[string]int{}
	for _, fi := range c.P.FuncsIn("vaxis") {
		if fi.Decl.Body == nil {
			continue
		}
		info := fi.Pkg.TypesInfo
		ast.Inspect(fi.Decl.Body, func(n ast.Node) bool {
			as, ok := n.(*ast.AssignStmt)
			if !ok {
				return true
			}
			for _, l := range as.Lhs {
				p := lhsPath(info, l)
				ok2, tracked := allowed[p]
				if !tracked {
					continue
				}
				seen[p]++
				key := fi.Name + "/writes " + p
				if why, fine := ok2[fi.Name]; fine {
					c.ok("C04.e", key, as.Pos(), "written by the %s", why)
				} else if c04NeverReferenced(c, fi) {
					c.okTrivial("C04.e", key, as.Pos(), "in an unexported function that is never referenced (dead, or a helper whose calls were all inlined into their callers)")
				} else if root, why := c04OnlyHelperOf(c, fi, ok2); root != "" {
					c.ok("C04.e", key, as.Pos(), "written by the %s (in an unexported helper called only from %s)", why, root)
				} else {
					c.bad("C04.e", key, as.Pos(), "%s holds the value the terminal had before start-up and is written back on exit; writing it in %s makes Close/Suspend restore the application's own value instead of the prior one", p, fi.Name)
				}
			}
			return true
		})
	}
	for p := range allowed {
		if seen[p] == 0 {
			c.undecided("C04.e", "vaxis/"+p+" has a writer", 0, "no assignment to %s found", p)
		}
	}
}

func c04SignalSetup(c *Ctx) {
	fi := c.P.Func("vaxis.(*Vaxis).setupSignals")
	if fi == nil {
		c.undecided("C04.f", "vaxis.(*Vaxis).setupSignals", 0, "setupSignals not found")
		return
	}
	info := fi.Pkg.TypesInfo
	g := c.P.Graph(fi)
	isNotify := func(ch string) func(ast.Node) bool {
		return func(n ast.Node) bool {
			call, ok := n.(*ast.CallExpr)
			if !ok || len(call.Args) < 2 {
				return false
			}
			fn := calleeOf(info, call)
			return fn != nil && fullName(fn) == "os/signal.Notify" && canonPath(info, call.Args[0]) == ch
		}
	}
	okKill, _ := g.MustFollow(Loc{g.Blocks[0], -1}, isNotify("Vaxis.chSigKill"))
	c.check(okKill, "C04.f", fi.Name+"/kill-signal handler registered on every call", fi.Decl.Pos(),
		"signal.Notify(vx.chSigKill, …) is on every path through setupSignals", "setupSignals can return without (re)registering the kill-signal handler (it is stopped by Suspend): after Suspend/Resume a termination signal no longer restores the terminal")
}

func c07ExplicitWidthProbe(c *Ctx) {
	c.Clauses = append(c.Clauses, "C07.h explicit-width support is established only by the probe's positive answer (column exactly 1)")
	c.expect("C07.h", 1)
	fi := c.P.Func("vaxis.(*Vaxis).sendQueries")
	if fi == nil {
		c.undecided("C07.h", "vaxis.(*Vaxis).sendQueries", 0, "sendQueries not found")
		return
	}
	info := fi.Pkg.TypesInfo
	g := c.P.Graph(fi)
	hits := g.Find(func(n ast.Node) bool {
		as, ok := n.(*ast.AssignStmt)
		if !ok || len(as.Lhs) != 1 || lhsPath(info, as.Lhs[0]) != "Vaxis.caps.explicitWidth" {
			return false
		}
		tv := info.Types[as.Rhs[0]]
		return tv.Value != nil && tv.Value.String() == "true"
	})
	if len(hits) == 0 {
		c.undecided("C07.h", fi.Name+"/explicitWidth established", fi.Decl.Pos(), "no `caps.explicitWidth = true` in sendQueries")
		return
	}
	for _, h := range hits {
		gk := guardKeys(g, h.Loc)
		ok := false
		for _, k := range gk {
			if strings.HasSuffix(k, "==1") && !strings.Contains(k, "len(") {
				// the compared variable must come from CursorPosition
				ok = c07FromCursorPosition(info, fi, strings.TrimSuffix(k, "==1"))
			}
		}
		c.check(ok, "C07.h", fi.Name+"/explicit width established only when the probe moved the cursor by one column", h.Node.Pos(),
			"guarded by <column reported by CursorPosition> == 1", "caps.explicitWidth is set under "+strings.Join(gk, " ∧ ")+": a timed-out (-1) or unrelated cursor report establishes a capability no reply advertised")
	}
}

// c07FromCursorPosition: is the variable named name assigned from the second result of CursorPosition in fi?
func c07FromCursorPosition(info *types.Info, fi *FuncInfo, name string) bool {
	ok := false
	ast.Inspect(fi.Decl.Body, func(n ast.Node) bool {
		as, isAs := n.(*ast.AssignStmt)
		if !isAs || len(as.Lhs) != 2 || len(as.Rhs) != 1 {
			return true
		}
		call, isCall := as.Rhs[0].(*ast.CallExpr)
		if !isCall {
			return true
		}
		if fn := calleeOf(info, call); fn != nil && repoName(fn) == "vaxis.Vaxis.CursorPosition" {
			if id, isId := as.Lhs[1].(*ast.Ident); isId && id.Name == name {
				ok = true
			}
		}
		return true
	})
	return ok
}

// c04OnlyHelperOf: fi is an unexported function that is never used as a value and whose every static call site
// lies in one of the allowed roots or in another such helper (so it runs only as part of the root's path).
func c04OnlyHelperOf(c *Ctx, fi *FuncInfo, roots map[string]string) (string, string) {
	seen := map[*FuncInfo]bool{}
	var root, why string
	var ok func(f *FuncInfo, depth int) bool
	ok = func(f *FuncInfo, depth int) bool {
		if w, is := roots[f.Name]; is {
			root, why = f.Name, w
			return true
		}
		if depth > 4 || seen[f] || f.Obj.Exported() {
			return false
		}
		seen[f] = true
		callers, asValue := c.P.CallersOf(f)
		if asValue || len(callers) == 0 {
			return false
		}
		for _, cf := range callers {
			if !ok(cf, depth+1) {
				return false
			}
		}
		return true
	}
	if ok(fi, 0) {
		return root, why
	}
	return "", ""
}

// C04.g — Resume re-establishes what Suspend took down: every session mode (DEC private mode, kitty keyboard
// level, keypad mode) that the exit path resets under guards G is set again by the functions Resume runs,
// under guards that G implies. (A mode that start-up establishes only as a side effect of the probe phase —
// which Resume does not repeat — stays off after the first Suspend/Resume cycle.)
func init() { registerExtra("C04", c04ResumeReestablishes) }

func c04ResumeReestablishes(c *Ctx) {
	c.Clauses = append(c.Clauses, "C04.g every session mode the exit path resets is set again by the functions Resume runs, under guards implied by the resetter's guards")
	c.expect("C04.g", 8)
	suspend := c.P.Func("vaxis.(*Vaxis).Suspend")
	resume := c.P.Func("vaxis.(*Vaxis).Resume")
	if suspend == nil || resume == nil {
		c.undecided("C04.g", "vaxis.(*Vaxis).Resume", 0, "Suspend or Resume not found")
		return
	}
	restoreFns := staticReach(c.P, suspend)
	resumeFns := staticReach(c.P, resume)
	ems := ExtractEmissions(c.P, c.P.FuncsIn("vaxis"), vaxisTerminalSink)
	isWriterFn := func(n string) bool { return strings.HasPrefix(n, "vaxis.(*writer).") }
	// modes that every frame establishes again by itself
	perFrame := map[string]string{
		"DECSET 25":   "the frame prologue hides the cursor and the frame shows it as requested",
		"DECSET 2026": "balanced per flush (C01.a)",
	}
	type site struct {
		em  *Emission
		seq Seq
		ms  *modeSeq
	}
	var resets, sets []site
	for _, e := range ems {
		if !e.Resolved {
			continue
		}
		base := e.FnName
		if i := strings.Index(base, "$"); i >= 0 {
			base = base[:i]
		}
		if isWriterFn(base) {
			continue
		}
		for _, t := range e.Templates {
			for _, s := range parseSeqs(t) {
				ms := classifySeq(s)
				if ms == nil {
					continue
				}
				if !(strings.HasPrefix(ms.class, "DECSET ") || ms.class == "kitty-keyboard" || ms.class == "keypad") {
					continue
				}
				if restoreFns[base] && !ms.set {
					resets = append(resets, site{e, s, ms})
				}
				if resumeFns[base] && !restoreFns[base] && ms.set {
					sets = append(sets, site{e, s, ms})
				}
			}
		}
	}
	seen := map[string]bool{}
	for _, r := range resets {
		key := fmt.Sprintf("%s/%s reset on exit is set again by Resume", r.em.FnName, r.ms.class)
		if seen[key] {
			continue
		}
		seen[key] = true
		if why, ok := perFrame[r.ms.class]; ok {
			c.okTrivial("C04.g", key, r.em.Call.Pos(), "%s", why)
			continue
		}
		found, best := false, ""
		for _, s := range sets {
			if s.ms.class != r.ms.class {
				continue
			}
			var missing []string
			for _, gk := range s.em.GuardKeys {
				if !containsStr(r.em.GuardKeys, gk) {
					missing = append(missing, gk)
				}
			}
			if len(missing) == 0 {
				found = true
				best = fmt.Sprintf("set by %q in %s under %v", s.seq.Raw, s.em.FnName, s.em.GuardKeys)
				break
			}
			best = fmt.Sprintf("candidate %q in %s needs %v which the resetter's guards %v do not imply", s.seq.Raw, s.em.FnName, missing, r.em.GuardKeys)
		}
		if found {
			c.ok("C04.g", key, r.em.Call.Pos(), "%q: %s", r.seq.Raw, best)
		} else {
			if best == "" {
				best = "no function that Resume runs sets this mode (start-up establishes it elsewhere, e.g. in the probe phase, which Resume does not repeat)"
			}
			c.bad("C04.g", key, r.em.Call.Pos(), "%q is reset by Suspend but not re-established by Resume: %s; after one Suspend/Resume cycle the mode set differs from the one start-up established", r.seq.Raw, best)
		}
	}
}
