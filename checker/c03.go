package main

// C03 — every terminal report becomes the right event; the input loop survives.
//
//   a  no index/slice of parser-supplied data can panic: length-interval dataflow (c03_len.go)
//      over handleSequence and every function of package vaxis it reaches
//   h  producer side of the element invariant used by (a): every writer of ansi.CSI.Parameters
//      appends only parameters of proven length >= 1; handleSequence has the input goroutine as
//      its only caller
//   b  in the input goroutine's context every channel send is the queue send of PostEventBlocking
//      or a select arm accompanied by default / a timer arm; no blocking receive besides the loop's own
//   c  the dropping PostEvent is used in that context only for the listed internal events; every
//      decodeKey result is posted (blocking) exactly once on every path; the mouse event is posted iff ok
//   d  every posted key passes `pastePending => EventType = EventPaste`; pastePending is written only
//      under CSI 200~ (true) / CSI 201~ (false)
//   e  the goroutine has the deferred recover→Close; the loop is unconditional, leaves only on EOF or
//      the kill signal, and hands every other sequence to handleSequence
//   f  SGR-1006 decoding of parseMouseEvent, decided by evaluating the function over the report space in the
//      AST interpreter and comparing with the reference decoding (c03_mouse_eval.go); the statement-shape
//      formulation (c03_mouse.go) decides only when the function cannot be evaluated; MouseButton constants
//   i  request flag / reply channel pairing (c03_req.go)
//   g  user-input events are produced under exactly their dispatch keys (focus I/O, paste 200/201,
//      mouse M/m) and depend on nothing but the report; a key-carrying final (u ~ R S) is consumed
//      without an event only behind a discriminator no key report satisfies
//   k  reply routing coherence (c03_route.go)
//   l  no stale reply: a buffered reply channel is drained by every waiter before its query (c03_stale.go)

// Before any rule runs, c03Normalise (c03norm.go) substitutes single-definition boolean flags into their uses and
// unrolls range loops over small constant tables, so that the rules see the conditions / rows themselves, and
// replaces local working-variable structs by one local per field (c03sra.go).
// Rule h also follows local lists in which a CSI.Parameters value is built before it is stored (c03_len.go).

import (
	"fmt"
	"go/ast"
	"go/token"
	"go/types"
	"sort"
	"strings"

	"golang.org/x/tools/go/packages"
)

func init() { register("C03", false, runC03) }

type c03Env struct {
	c      *Ctx
	pk     *packages.Package
	info   *types.Info
	par    map[ast.Node]ast.Node
	handle *FuncInfo
	openFi *FuncInfo
	loop   *c03Body   // the function body that receives from the parser and calls handleSequence
	chain  []*c03Body // goroutine root … loop body (root first)
	// INPUT context
	reach     []*c03Fn
	csiParams *types.Var
	keys      *c03KeyEnv
	defCache  map[*FG]map[types.Object]ast.Expr

	callerCache map[*types.Func]*c03CallSite
	callerKnown map[*types.Func]bool
	lenRuns     map[*FG]*c03Len
}

type c03Fn struct {
	name string
	pk   *packages.Package
	body *ast.BlockStmt
	fi   *FuncInfo // nil for the goroutine literal
}

func runC03(c *Ctx) {
	c.Clauses = []string{
		"C03.a every index/slice expression in handleSequence, parseMouseEvent, decodeKey (and whatever else of package vaxis handleSequence reaches) is below the length lower bound proven on every path, with short-circuit operands evaluated under the facts of the left operand",
		"C03.h every writer of ansi.CSI.Parameters delivers parameters of length >= 1 (the element invariant used by C03.a); handleSequence is called only from the input goroutine with the parser's output",
		"C03.b in the input goroutine's context every channel send is PostEventBlocking's queue send or a select arm with default/timer; no other blocking receive",
		"C03.c the dropping PostEvent carries only listed internal events there; each decodeKey result is posted blocking exactly once on every path; the mouse event is posted exactly when parseMouseEvent reports ok",
		"C03.d every posted key passes `if pastePending { EventType = EventPaste }`; pastePending is assigned only under CSI 200~ (true) and CSI 201~ (false)",
		"C03.e deferred recover→Close in the input goroutine; unconditional loop whose only exits are EOF and the kill signal; every non-EOF sequence goes to handleSequence",
		"C03.f SGR-1006 encoding: motion bit 32, button mask 0xC3, Shift/Alt/Ctrl bits 4/8/16, column = P2-1, row = P3-1, M press / m release, motion overrides; MouseButton constants equal the xterm button numbers",
		"C03.g focus, paste-bracket and mouse events are posted under exactly their dispatch keys and under no condition outside the report; key-carrying finals are consumed silently only behind a reply discriminator",
		"C03.i request flag / reply channel pairing (reqCursorPos / chCursorPos): a requester that sets the flag reaches every return through the reply arm or a store of false; handleSequence hands a report over only while the flag is set, clears it before the hand-over and on every path that consumed the report",
		"C03.m a request flag is stored before the query it belongs to is written: in a requester, every terminal write from which the wait on the reply channel is reachable comes after the store of true on every path (a reply dispatched between write and store would be delivered as a key and the answer lost)",
	}
	c.NotDec = []string{
		"exactness of each key decode (C09 decides the key tables), DECRPM numbers and capability effects (C07.c)",
		"one-event-per-report over arbitrary byte streams and ordering across sequences (parser conformance is C02; the queue is FIFO by construction)",
		"real-time behaviour: which side of a query timeout a reply falls on",
		"sends performed by Close (shutdown path; C04/C10)",
	}
	c.Assume = append(c.Assume,
		"dynamic calls (console methods, function values) made from the input goroutine do not send on the reply channels",
		"the parser delivers to handleSequence only values it built itself (C03.h checks the sole call site)")
	// Minima state what must exist semantically (every individually required table entry / site is reported as
	// violated when missing); they are deliberately far below today's counts so that merging guards, naming
	// sub-expressions or extracting helpers cannot make a rule "vacuous".
	c.expect("C03.a", 10)
	c.expect("C03.h", 2)
	c.expect("C03.b", 3)
	c.expect("C03.c", 8)
	c.expect("C03.d", 3)
	c.expect("C03.e", 5)
	c.expect("C03.f", 12)
	c.expect("C03.g", 10)
	c.expect("C03.i", 3)
	c.expect("C03.m", 1)

	c03Normalise(c)
	x := &c03Env{c: c}
	x.pk = c.P.Pkg("vaxis")
	if x.pk == nil {
		c.undecided("C03.a", "setup/package vaxis", 0, "root package not found")
		return
	}
	x.info = x.pk.TypesInfo
	x.par = c.P.Parents(x.pk)
	x.handle = c.P.Func("vaxis.(*Vaxis).handleSequence")
	x.openFi = c.P.Func("vaxis.(*Vaxis).openTty")
	if x.handle == nil || x.openFi == nil {
		c.undecided("C03.a", "setup/handleSequence, openTty", 0, "anchor functions not found")
		return
	}
	if ap := c.P.Pkg("ansi"); ap != nil {
		if tn, ok := ap.Types.Scope().Lookup("CSI").(*types.TypeName); ok {
			if st, ok := tn.Type().Underlying().(*types.Struct); ok {
				for i := 0; i < st.NumFields(); i++ {
					if st.Field(i).Name() == "Parameters" {
						x.csiParams = st.Field(i)
					}
				}
			}
		}
	}
	if x.csiParams == nil {
		c.undecided("C03.h", "setup/ansi.CSI.Parameters", 0, "field not found")
	}
	x.findInputGoroutine()
	if x.loop == nil {
		c.undecided("C03.e", "vaxis/input goroutine", x.openFi.Decl.Pos(), "no function body started with `go` (directly or through a wrapper) that calls handleSequence was found")
	}

	x.ruleA()
	x.ruleH()
	if x.loop != nil {
		x.buildReach()
		x.ruleB()
		x.ruleC()
		x.ruleE()
		x.ruleI()
	}
	x.ruleD()
	x.ruleG()
	x.ruleF()
}

// ctxOf renders the dispatch context of a node: enclosing type-switch / constant switch cases.
func (x *c03Env) ctxOf(pk *packages.Package) func(n ast.Node) string {
	info := pk.TypesInfo
	par := x.c.P.Parents(pk)
	return func(n ast.Node) string {
		var parts []string
		for cur := par[n]; cur != nil; cur = par[cur] {
			if _, ok := cur.(*ast.FuncDecl); ok {
				break
			}
			cc, ok := cur.(*ast.CaseClause)
			if !ok || len(cc.List) == 0 {
				continue
			}
			blk := par[cc]
			switch sw := par[blk].(type) {
			case *ast.TypeSwitchStmt:
				var names []string
				for _, e := range cc.List {
					if nt, ok := info.TypeOf(e).(*types.Named); ok {
						names = append(names, nt.Obj().Name())
					} else {
						names = append(names, types.ExprString(e))
					}
				}
				parts = append([]string{strings.Join(names, ",")}, parts...)
			case *ast.SwitchStmt:
				if sw.Tag == nil {
					continue
				}
				var vals []string
				allConst := true
				for _, e := range cc.List {
					if v, ok := constInt(info, e); ok {
						if b, ok := info.TypeOf(sw.Tag).Underlying().(*types.Basic); ok && b.Kind() == types.Int32 && v >= 0x21 && v < 0x7f {
							vals = append(vals, fmt.Sprintf("'%c'", rune(v)))
						} else {
							vals = append(vals, fmt.Sprint(v))
						}
					} else if s, ok := constString(info, e); ok {
						vals = append(vals, fmt.Sprintf("%q", s))
					} else {
						allConst = false
					}
				}
				if allConst {
					parts = append([]string{strings.Join(vals, ",")}, parts...)
				}
			}
		}
		return strings.Join(parts, " ")
	}
}

// ---- C03.a

func (x *c03Env) ruleA() {
	c := x.c
	reach := staticReach(c.P, x.handle)
	var names []string
	for n := range reach {
		names = append(names, n)
	}
	sort.Strings(names)
	anchors := map[string]bool{"vaxis.(*Vaxis).handleSequence": false, "vaxis.parseMouseEvent": false, "vaxis.decodeKey": false}
	set := map[*types.Func]*FuncInfo{}
	for _, n := range names {
		fi := c.P.Func(n)
		if fi == nil || fi.Pkg != x.pk || fi.Decl.Body == nil {
			continue
		}
		if _, ok := anchors[n]; ok {
			anchors[n] = true
		}
		set[fi.Obj] = fi
	}
	// references to each function of the set (calls and function values) in the package
	refs := map[*types.Func]int{}
	for id, o := range x.info.Uses {
		if fn, ok := o.(*types.Func); ok && set[fn] != nil && id != nil {
			refs[fn]++
		}
	}
	callers := map[*types.Func]map[*types.Func]bool{} // callee -> callers inside the set
	for fn, fi := range set {
		ast.Inspect(fi.Decl.Body, func(n ast.Node) bool {
			if call, ok := n.(*ast.CallExpr); ok {
				if cal := calleeOf(x.info, call); cal != nil && set[cal] != nil && cal != fn {
					if callers[cal] == nil {
						callers[cal] = map[*types.Func]bool{}
					}
					callers[cal][fn] = true
				}
			}
			return true
		})
	}
	// facts handed to the parameters of a callee: join over all of its call sites, provided every
	// reference to the callee is a call from an analysed function
	sites := map[*types.Func][]c03St{}
	done := map[*types.Func]bool{}
	runOne := func(fi *FuncInfo, withEntry bool) {
		a := newC03Len(c, fi.Pkg, fi.Name, fi.Decl.Body, c.P.Graph(fi), x.csiParams)
		a.wantIndex = true
		a.ctxOf = x.ctxOf(fi.Pkg)
		if withEntry && fi.Obj != x.handle.Obj && len(sites[fi.Obj]) > 0 && len(sites[fi.Obj]) == refs[fi.Obj] {
			e := c03Bot()
			for _, st := range sites[fi.Obj] {
				e = c03Join(e, st, false)
			}
			a.entry = &e
		}
		a.onCall = func(call *ast.CallExpr, st c03St) {
			cal := calleeOf(x.info, call)
			cfi := set[cal]
			if cal == nil || cfi == nil {
				return
			}
			out := c03NewSt()
			if st.bot {
				out = c03Bot()
			} else {
				var params []types.Object
				for _, f := range cfi.Decl.Type.Params.List {
					for _, nm := range f.Names {
						params = append(params, x.info.Defs[nm])
					}
				}
				sig, _ := cal.Type().(*types.Signature)
				if sig != nil && !sig.Variadic() && len(params) == len(call.Args) {
					for i, arg := range call.Args {
						argKey, ok := a.pathKey(arg)
						if !ok || params[i] == nil {
							continue
						}
						pid := fmt.Sprintf("%p", params[i])
						for k, v := range st.m {
							if k == argKey || strings.HasPrefix(k, argKey+".") || strings.HasPrefix(k, argKey+"[") {
								out.m[pid+k[len(argKey):]] = v
							}
						}
					}
				}
			}
			sites[cal] = append(sites[cal], out)
		}
		a.run()
		done[fi.Obj] = true
	}
	for len(done) < len(set) {
		progressed := false
		var ready []*FuncInfo
		for fn, fi := range set {
			if done[fn] {
				continue
			}
			ok := true
			for cl := range callers[fn] {
				if !done[cl] {
					ok = false
				}
			}
			if ok {
				ready = append(ready, fi)
			}
		}
		sort.Slice(ready, func(i, j int) bool { return ready[i].Name < ready[j].Name })
		for _, fi := range ready {
			runOne(fi, true)
			progressed = true
		}
		if !progressed { // recursion among the helpers: no entry facts
			var rest []*FuncInfo
			for fn, fi := range set {
				if !done[fn] {
					rest = append(rest, fi)
				}
			}
			sort.Slice(rest, func(i, j int) bool { return rest[i].Name < rest[j].Name })
			for _, fi := range rest {
				runOne(fi, false)
			}
		}
	}
	for n, seen := range anchors {
		if !seen {
			c.undecided("C03.a", n+"/reached from handleSequence", 0, "%s is no longer reached from handleSequence by a static call; the decoding path has changed shape", n)
		}
	}
}

// ---- C03.h

func (x *c03Env) ruleH() {
	c := x.c
	if x.csiParams == nil {
		return
	}
	// every function of ansi / vaxis that writes the field
	for _, short := range []string{"ansi", "vaxis"} {
		for _, fi := range c.P.FuncsIn(short) {
			if fi.Decl.Body == nil {
				continue
			}
			info := fi.Pkg.TypesInfo
			probe := &c03Len{info: info, csiParams: x.csiParams}
			writes := false
			ast.Inspect(fi.Decl.Body, func(n ast.Node) bool {
				if e, ok := n.(ast.Expr); ok && probe.selectsCSIParams(e) {
					writes = true // the field is mentioned: let the engine look for writes (direct or through a local copy)
				}
				switch t := n.(type) {
				case *ast.KeyValueExpr:
					if id, ok := t.Key.(*ast.Ident); ok && info.ObjectOf(id) == x.csiParams {
						writes = true
					}
				case *ast.CompositeLit:
					if nt, ok := info.TypeOf(t).(*types.Named); ok && nt.Obj() == x.csiParams.Pkg().Scope().Lookup("CSI") && len(t.Elts) > 0 {
						if _, kv := t.Elts[0].(*ast.KeyValueExpr); !kv {
							writes = true
						}
					}
				}
				return true
			})
			if !writes {
				continue
			}
			a := newC03Len(c, fi.Pkg, fi.Name, fi.Decl.Body, c.P.Graph(fi), x.csiParams)
			a.wantWriters = true
			a.run()
			// writes inside function literals are not covered by the CFG of the function
			ast.Inspect(fi.Decl.Body, func(n ast.Node) bool {
				if fl, ok := n.(*ast.FuncLit); ok {
					if containsNode(fl.Body, func(m ast.Node) bool {
						as, ok := m.(*ast.AssignStmt)
						if !ok {
							return false
						}
						for _, l := range as.Lhs {
							if probe.selectsCSIParams(unparen(l)) {
								return true
							}
						}
						return false
					}) {
						c.undecided("C03.h", fi.Name+"/write inside a function literal", fl.Pos(), "CSI.Parameters is written inside a closure")
					}
				}
				return true
			})
		}
	}
	// sole caller of handleSequence
	n := 0
	for _, fi := range c.P.FuncsIn("vaxis") {
		if fi.Decl.Body == nil {
			continue
		}
		ast.Inspect(fi.Decl.Body, func(m ast.Node) bool {
			sel, ok := m.(*ast.SelectorExpr)
			if !ok {
				return true
			}
			s, ok := x.info.Selections[sel]
			if !ok || s.Kind() != types.MethodVal || s.Obj() != x.handle.Obj {
				return true
			}
			n++
			key := fmt.Sprintf("%s/use of handleSequence", fi.Name)
			call, isCall := x.par[sel].(*ast.CallExpr)
			inLit := x.loop != nil && x.loop.body.Pos() <= sel.Pos() && sel.End() <= x.loop.body.End()
			switch {
			case !isCall || call.Fun != sel:
				c.bad("C03.h", key, sel.Pos(), "handleSequence is taken as a method value: its inputs are no longer only the parser's output")
			case !inLit:
				c.bad("C03.h", key, sel.Pos(), "handleSequence is called outside the input goroutine: sequences not built by the parser (and a second goroutine) reach it")
			case len(call.Args) != 1 || !x.fromParser(call.Args[0]):
				c.undecided("C03.h", key, sel.Pos(), "the argument of handleSequence is not the value received from the parser's Next() channel")
			default:
				c.ok("C03.h", key, sel.Pos(), "only call: input goroutine, argument received from parser.Next()")
			}
			return true
		})
	}
	if n == 0 {
		c.undecided("C03.h", "vaxis/use of handleSequence", 0, "no call of handleSequence found")
	}
}

// fromParser: e is (a type-switch rebinding of) a variable received from <-vx.parser.Next().
func (x *c03Env) fromParser(e ast.Expr) bool {
	id, ok := unparen(e).(*ast.Ident)
	if !ok {
		return false
	}
	obj := x.info.ObjectOf(id)
	// type switch rebinding: find `switch v := w.(type)` whose implicit objects include obj
	for hop := 0; hop < 3; hop++ {
		found := false
		ast.Inspect(x.loop.body, func(n ast.Node) bool {
			ts, ok := n.(*ast.TypeSwitchStmt)
			if !ok {
				return true
			}
			as, ok := ts.Assign.(*ast.AssignStmt)
			if !ok || len(as.Rhs) != 1 {
				return true
			}
			for _, cl := range ts.Body.List {
				if x.info.Implicits[cl] == obj {
					if ta, ok := as.Rhs[0].(*ast.TypeAssertExpr); ok {
						if src, ok := unparen(ta.X).(*ast.Ident); ok {
							obj = x.info.ObjectOf(src)
							found = true
						}
					}
				}
			}
			return true
		})
		if !found {
			break
		}
	}
	ok = false
	ast.Inspect(x.loop.body, func(n ast.Node) bool {
		cc, isCC := n.(*ast.CommClause)
		if !isCC || cc.Comm == nil {
			return true
		}
		as, isAs := cc.Comm.(*ast.AssignStmt)
		if !isAs || len(as.Lhs) < 1 || len(as.Rhs) != 1 {
			return true
		}
		lid, isId := as.Lhs[0].(*ast.Ident)
		if !isId || x.info.ObjectOf(lid) != obj {
			return true
		}
		if u, isU := unparen(as.Rhs[0]).(*ast.UnaryExpr); isU && u.Op.String() == "<-" {
			if call, isCall := unparen(u.X).(*ast.CallExpr); isCall {
				if fn := calleeOf(x.info, call); fn != nil && repoName(fn) == "ansi.Parser.Next" {
					ok = true
				}
			}
		}
		return true
	})
	return ok
}

// c03Body is a function body: a declared function/method or a function literal.
type c03Body struct {
	body *ast.BlockStmt
	name string
	fi   *FuncInfo    // nil for a literal
	lit  *ast.FuncLit // nil for a declaration
	pos  token.Pos
}

func (x *c03Env) bodyGraph(b *c03Body) *FG {
	if b.fi != nil {
		return x.c.P.Graph(b.fi)
	}
	return x.c.P.GraphOfLit(x.pk, b.name, b.lit)
}

// enclosingBody: the innermost function literal or declaration containing n.
func (x *c03Env) enclosingBody(n ast.Node) *c03Body {
	for cur := x.par[n]; cur != nil; cur = x.par[cur] {
		switch t := cur.(type) {
		case *ast.FuncLit:
			decl := "?"
			for up := x.par[t]; up != nil; up = x.par[up] {
				if fd, ok := up.(*ast.FuncDecl); ok {
					decl = "vaxis." + funcDeclName(fd)
					break
				}
			}
			return &c03Body{body: t.Body, name: decl + "$input", lit: t, pos: t.Pos()}
		case *ast.FuncDecl:
			fi := x.c.P.Func("vaxis." + funcDeclName(t))
			if fi == nil || t.Body == nil {
				return nil
			}
			return &c03Body{body: t.Body, name: fi.Name, fi: fi, pos: t.Pos()}
		}
	}
	return nil
}

// findInputGoroutine: the body that calls handleSequence, and the chain of bodies from the `go` statement
// that starts it: `go func(){…}()`, `go vx.inputLoop()`, `go func(){ defer …; vx.inputLoop() }()`, …
func (x *c03Env) findInputGoroutine() {
	// the call of handleSequence whose enclosing body also receives from the parser (else: the first call)
	var calls []ast.Node
	for _, fi := range x.c.P.FuncsIn("vaxis") {
		if fi.Decl.Body == nil {
			continue
		}
		ast.Inspect(fi.Decl.Body, func(n ast.Node) bool {
			if isCallTo(x.info, n, "vaxis.Vaxis.handleSequence") {
				calls = append(calls, n)
			}
			return true
		})
	}
	var loop *c03Body
	for _, call := range calls {
		b := x.enclosingBody(call)
		if b == nil {
			continue
		}
		if loop == nil {
			loop = b
		}
		if containsNode(b.body, func(m ast.Node) bool { return isCallTo(x.info, m, "ansi.Parser.Next") }) {
			loop = b
			break
		}
	}
	if loop == nil {
		return
	}
	chain := []*c03Body{loop}
	cur := loop
	for hop := 0; hop < 4; hop++ {
		// how is cur invoked?
		var invocations []*ast.CallExpr
		if cur.lit != nil {
			if ce, ok := x.par[cur.lit].(*ast.CallExpr); ok && ce.Fun == ast.Expr(cur.lit) {
				invocations = append(invocations, ce)
			}
		} else {
			bad := false
			for id, o := range x.info.Uses {
				if o != types.Object(cur.fi.Obj) {
					continue
				}
				var e ast.Node = id
				if sel, ok := x.par[id].(*ast.SelectorExpr); ok && sel.Sel == id {
					e = sel
				}
				if ce, ok := x.par[e].(*ast.CallExpr); ok && ce.Fun == e {
					invocations = append(invocations, ce)
				} else {
					bad = true // used as a value
				}
			}
			if bad {
				return
			}
			sort.Slice(invocations, func(i, j int) bool { return invocations[i].Pos() < invocations[j].Pos() })
		}
		if len(invocations) == 0 {
			return
		}
		allGo := true
		var next *c03Body
		for _, ce := range invocations {
			if gs, ok := x.par[ce].(*ast.GoStmt); ok && gs.Call == ce {
				continue
			}
			allGo = false
			if nb := x.enclosingBody(ce); nb != nil && next == nil {
				next = nb
			}
		}
		if allGo {
			x.loop, x.chain = loop, chain
			return
		}
		if len(invocations) != 1 || next == nil {
			return // called both as a goroutine and synchronously, or from several places
		}
		chain = append([]*c03Body{next}, chain...)
		cur = next
	}
}
