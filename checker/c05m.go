package main

// C05.m — no handler stores into a nil map.
//
// `m[k] = v` panics when m is nil; reading a nil map does not, so a nil map can sit in the Model for a long time
// (printing, DECRC, everything that only looks entries up keeps working) until the first sequence that stores.
// Necessary condition of "never panics", decided here as a nil-map typestate:
//
//	every map-typed field path of Model that can reach an index store (directly, or by being copied — alone or
//	inside a struct — into a path that reaches one) holds a made map whenever a sequence has been processed:
//	the constructor makes it, and every function leaves it non-nil provided the required paths were non-nil when
//	the function was entered.
//
// Abstract interpretation over go/cfg, flow-sensitive, interprocedural by summaries:
//   - a location is an access path (Model.charsets.designations, a local struct's .charsets.designations, what a
//     pointer parameter points to, a fresh &T{...});
//   - a map value is a set of origins: K (made: make, map literal), N@site (nil: the nil literal, the zero value
//     of an omitted field in a composite literal, of `var x T`, of new(T)), E:path (the value the path had when
//     the function was entered), U (unknown: anything the analysis does not model — never reported);
//   - struct assignments copy leaf by leaf, pointers to struct fields are followed (one target: strong update,
//     several: weak), `x == nil` / `x != nil` tests refine, calls of package functions are replaced by their
//     summary (effects on the Model and on pointer arguments, results, stores) with E:… substituted by the
//     caller's values. The analysis therefore does not care whether a map is built in place, by a helper, from
//     a shared initial value, or copied through locals.
//
// Verdicts are taken at the ROOTS (exported functions, functions the goroutines call, functions nobody in the
// package calls), i.e. between two sequences, so a helper that clears a struct which its caller then completes
// is judged by what the caller leaves behind. A nil that survives is blamed on the function that wrote it.
//
//	required paths R: least set with  E:p reaches a store  =>  p in R;   p in R and E:q in exit(p) of a root  =>  q in R
//	C05.m/<fn>/store into <map> never hits a nil map      no N@… reaches the store
//	C05.m/<fn>/Model.<p> stays a made map                  for p in R: no N@<fn> in exit(p) of any root

import (
	"fmt"
	"go/ast"
	"go/token"
	"go/types"
	"sort"
	"strings"

	"golang.org/x/tools/go/cfg"
	"golang.org/x/tools/go/packages"
)

func init() { registerExtra("C05", c05RuleNilMap) }

type c05mVal map[string]bool

func c05mOf(s ...string) c05mVal {
	v := c05mVal{}
	for _, x := range s {
		v[x] = true
	}
	return v
}

func (v c05mVal) union(o c05mVal) c05mVal {
	r := c05mVal{}
	for k := range v {
		r[k] = true
	}
	for k := range o {
		r[k] = true
	}
	return r
}

func (v c05mVal) eq(o c05mVal) bool {
	if len(v) != len(o) {
		return false
	}
	for k := range v {
		if !o[k] {
			return false
		}
	}
	return true
}

func (v c05mVal) sorted() []string {
	var out []string
	for k := range v {
		out = append(out, k)
	}
	sort.Strings(out)
	return out
}

type c05mState struct {
	env map[string]c05mVal
	ptr map[types.Object]map[string]bool // pointer-typed locals: what they may point to (absent: unknown)
}

func (s *c05mState) clone() *c05mState {
	n := &c05mState{env: make(map[string]c05mVal, len(s.env)), ptr: make(map[types.Object]map[string]bool, len(s.ptr))}
	for k, v := range s.env {
		n.env[k] = v
	}
	for k, v := range s.ptr {
		n.ptr[k] = v
	}
	return n
}

// join merges o into s; reports whether s changed.
func (s *c05mState) join(o *c05mState) bool {
	changed := false
	for k, v := range o.env {
		if old, ok := s.env[k]; !ok {
			s.env[k] = v
			changed = true
		} else if !old.eq(v) {
			u := old.union(v)
			if !u.eq(old) {
				s.env[k] = u
				changed = true
			}
		}
	}
	for k, v := range o.ptr {
		old, ok := s.ptr[k]
		if !ok {
			s.ptr[k] = v
			changed = true
			continue
		}
		u := map[string]bool{}
		for x := range old {
			u[x] = true
		}
		for x := range v {
			u[x] = true
		}
		if len(u) != len(old) {
			s.ptr[k] = u
			changed = true
		}
	}
	return changed
}

type c05mStore struct {
	pos  token.Pos
	fn   string
	what string
	val  c05mVal
}

type c05mRet struct {
	kind   byte               // 's' struct, 'm' map, 'p' pointer to struct, 0 other
	leaves map[string]c05mVal // 's'
	val    c05mVal            // 'm'
	pts    map[string]bool    // 'p'
	known  bool               // 'p': the targets are known
}

type c05mSum struct {
	hasModel bool
	ctor     bool // returns a Model it has built
	exit     *c05mState
	rets     []*c05mRet
	stores   map[token.Pos]*c05mStore
	ins      []*types.Var
}

type c05mAn struct {
	c       *Ctx
	pk      *packages.Package
	model   types.Type
	sums    map[*FuncInfo]*c05mSum
	busy    map[*FuncInfo]bool
	leaves  map[string][]string
	ids     map[types.Object]string
	assigns map[string]map[string]token.Pos // function name -> Model leaf path -> first position
	stored  map[string]bool                 // Model leaf paths that are the target of an index store
	mleaves []string
}

func c05RuleNilMap(c *Ctx) {
	c.Clauses = append(c.Clauses, "C05.m no index store hits a nil map: every map-typed field path of Model that reaches a store (directly or by being copied into one that does) is made by the constructor and is left non-nil by every function (whole-struct assignments included), given that the required paths were non-nil at entry")
	// what must exist whatever the code shape: a store into a map of the Model and the constructor that makes it
	c.expect("C05.m", 2)
	e := c05Engine(c)
	if e.pk == nil || e.model == nil {
		c.undecided("C05.m", "widgets/term", 0, "package widgets/term or type Model not found")
		return
	}
	a := &c05mAn{c: c, pk: e.pk, model: e.model, sums: map[*FuncInfo]*c05mSum{}, busy: map[*FuncInfo]bool{}, leaves: map[string][]string{},
		ids: map[types.Object]string{}, assigns: map[string]map[string]token.Pos{}, stored: map[string]bool{}}
	a.mleaves = a.leavesOf(a.model)
	funcs := c.P.FuncsIn("widgets/term")
	sort.Slice(funcs, func(i, j int) bool { return funcs[i].Name < funcs[j].Name })
	// roots
	called := map[*FuncInfo]bool{}
	fromLit := map[*FuncInfo]bool{}
	for _, fi := range funcs {
		if fi.Decl.Body == nil {
			continue
		}
		var walk func(n ast.Node, inLit bool)
		walk = func(n ast.Node, inLit bool) {
			ast.Inspect(n, func(m ast.Node) bool {
				switch t := m.(type) {
				case *ast.FuncLit:
					if m != n {
						walk(t.Body, true)
						return false
					}
				case *ast.CallExpr:
					if fn := calleeOf(fi.Pkg.TypesInfo, t); fn != nil {
						if cf := c.P.FuncOfObj(fn); cf != nil && cf.Pkg == a.pk {
							if inLit {
								fromLit[cf] = true
							} else if cf != fi {
								called[cf] = true
							}
						}
					}
				}
				return true
			})
		}
		walk(fi.Decl.Body, false)
	}
	var roots []*FuncInfo
	for _, fi := range funcs {
		if fi.Decl.Body == nil || fi.Pkg != a.pk {
			continue
		}
		if fi.Decl.Name.IsExported() || fromLit[fi] || !called[fi] {
			roots = append(roots, fi)
		}
	}
	for _, fi := range funcs {
		if fi.Decl.Body != nil && fi.Pkg == a.pk {
			a.summary(fi)
		}
	}
	// all stores, as the roots see them
	type storeAgg struct {
		pos   token.Pos
		val   c05mVal
		sites map[token.Pos]c05mVal // per store statement
	}
	stores := map[string]*storeAgg{}
	required := map[string]bool{}
	for _, r := range roots {
		s := a.sums[r]
		if s == nil {
			continue
		}
		for _, st := range s.stores {
			key := st.fn + "/store into " + st.what + " never hits a nil map"
			ag := stores[key]
			if ag == nil {
				ag = &storeAgg{pos: st.pos, val: c05mVal{}, sites: map[token.Pos]c05mVal{}}
				stores[key] = ag
			}
			if st.pos < ag.pos {
				ag.pos = st.pos
			}
			ag.val = ag.val.union(st.val)
			if old, ok := ag.sites[st.pos]; ok {
				ag.sites[st.pos] = old.union(st.val)
			} else {
				ag.sites[st.pos] = st.val
			}
			for src := range st.val {
				if strings.HasPrefix(src, "E:M.") {
					required[strings.TrimPrefix(src, "E:M")] = true
				}
			}
		}
	}
	for changed := true; changed; {
		changed = false
		for _, r := range roots {
			s := a.sums[r]
			if s == nil || !s.hasModel {
				continue
			}
			for p := range required {
				for src := range s.exit.env["M"+p] {
					if strings.HasPrefix(src, "E:M.") {
						if q := strings.TrimPrefix(src, "E:M"); !required[q] {
							required[q] = true
							changed = true
						}
					}
				}
			}
		}
	}
	var skeys []string
	for k := range stores {
		skeys = append(skeys, k)
	}
	sort.Strings(skeys)
	for _, k := range skeys {
		ag := stores[k]
		// within one call the analysis joins paths, so a nil next to a made map can be an artefact of two correlated
		// tests (`if c { m = make(..) }; if c { m[k] = v }`): only a map that is nil on every path is reported here.
		// Between two sequences any history is possible: that is the business of the "stays a made map" obligations.
		var nils []string
		var badPos token.Pos
		var sitePos []token.Pos
		for p := range ag.sites {
			sitePos = append(sitePos, p)
		}
		sort.Slice(sitePos, func(i, j int) bool { return sitePos[i] < sitePos[j] })
		for _, p := range sitePos {
			v := ag.sites[p]
			definite := len(v) > 0
			var here []string
			for _, src := range v.sorted() {
				if strings.HasPrefix(src, "N@") {
					here = append(here, a.describe(src))
				} else {
					definite = false
				}
			}
			if definite && len(nils) == 0 {
				nils, badPos = here, p
			}
		}
		if len(nils) > 0 {
			c.bad("C05.m", k, badPos, "the map is nil here (%s): assignment to an entry of a nil map panics", strings.Join(nils, "; "))
		} else {
			c.ok("C05.m", k, ag.pos, "the map is made on every path, or is a required path of the Model (%s)", strings.Join(ag.val.sorted(), ", "))
		}
	}
	// surviving nils in required paths, blamed on the function that wrote them
	type blame struct {
		pos  token.Pos
		what []string
	}
	blames := map[string]*blame{}
	for _, r := range roots {
		s := a.sums[r]
		if s == nil || !(s.hasModel || s.ctor) {
			continue
		}
		for p := range required {
			for src := range s.exit.env["M"+p] {
				if !strings.HasPrefix(src, "N@") {
					continue
				}
				fn, pos, _ := c05mSplitOrigin(src)
				key := fn + "/Model" + p + " stays a made map"
				b := blames[key]
				if b == nil {
					b = &blame{pos: pos}
					blames[key] = b
				}
				d := a.describe(src) + " survives to the end of " + c05ShortFn(r)
				dup := false
				for _, w := range b.what {
					if w == d {
						dup = true
					}
				}
				if !dup {
					b.what = append(b.what, d)
				}
			}
		}
	}
	var rk []string
	for p := range required {
		rk = append(rk, p)
	}
	for p := range a.stored {
		if !required[p] {
			rk = append(rk, p)
		}
	}
	sort.Strings(rk)
	var fnames []string
	for fn := range a.assigns {
		fnames = append(fnames, fn)
	}
	sort.Strings(fnames)
	done := map[string]bool{}
	for _, fn := range fnames {
		for _, p := range rk {
			pos, ok := a.assigns[fn][p]
			if !ok {
				continue
			}
			key := fn + "/Model" + p + " stays a made map"
			done[key] = true
			if b := blames[key]; b != nil {
				sort.Strings(b.what)
				c.bad("C05.m", key, b.pos, "Model%s is stored into by a handler (or copied into a map that is), but %s: the next sequence that stores an entry panics with \"assignment to entry in nil map\"", p, strings.Join(b.what, "; "))
			} else if !required[p] {
				c.ok("C05.m", key, pos, "every store into this map is preceded by a nil test that makes it")
			} else {
				c.ok("C05.m", key, pos, "every value written here that is still there when the sequence ends is a made map")
			}
		}
	}
	var bk []string
	for k := range blames {
		if !done[k] {
			bk = append(bk, k)
		}
	}
	sort.Strings(bk)
	for _, k := range bk {
		b := blames[k]
		sort.Strings(b.what)
		c.bad("C05.m", k, b.pos, "a required map of the Model can be left nil: %s", strings.Join(b.what, "; "))
	}
	if len(stores) == 0 {
		c.okTrivial("C05.m", "widgets/term/no index store into a map", 0, "nothing stores into a map")
	}
}

// origin strings: N@<function>|<pos as int>|<description>
func c05mSplitOrigin(src string) (fn string, pos token.Pos, what string) {
	parts := strings.SplitN(strings.TrimPrefix(src, "N@"), "|", 3)
	if len(parts) != 3 {
		return src, 0, ""
	}
	var p int
	fmt.Sscanf(parts[1], "%d", &p)
	return parts[0], token.Pos(p), parts[2]
}

func (a *c05mAn) describe(src string) string {
	fn, pos, what := c05mSplitOrigin(src)
	return fmt.Sprintf("%s in %s at %s", what, fn, a.c.P.Pos(pos))
}

func (a *c05mAn) isModel(t types.Type) bool {
	if t == nil {
		return false
	}
	if p, ok := t.Underlying().(*types.Pointer); ok {
		t = p.Elem()
	}
	return types.Identical(t, a.model)
}

// leavesOf: the map-typed leaves of t, as field paths ("" for a map itself).
func (a *c05mAn) leavesOf(t types.Type) []string {
	if t == nil {
		return nil
	}
	key := types.TypeString(t, nil)
	if l, ok := a.leaves[key]; ok {
		return l
	}
	a.leaves[key] = nil // cycle guard
	var out []string
	var rec func(t types.Type, prefix string, depth int)
	rec = func(t types.Type, prefix string, depth int) {
		if depth > 5 {
			return
		}
		switch u := t.Underlying().(type) {
		case *types.Map:
			out = append(out, prefix)
		case *types.Struct:
			for i := 0; i < u.NumFields(); i++ {
				rec(u.Field(i).Type(), prefix+"."+u.Field(i).Name(), depth+1)
			}
		}
	}
	rec(t, "", 0)
	a.leaves[key] = out
	return out
}

func (a *c05mAn) idOf(o types.Object) string {
	if s, ok := a.ids[o]; ok {
		return s
	}
	s := fmt.Sprintf("L%d:%s", len(a.ids), o.Name())
	a.ids[o] = s
	return s
}

// ---------------------------------------------------------------- per-function analysis

type c05mFn struct {
	a      *c05mAn
	fi     *FuncInfo
	info   *types.Info
	g      *FG
	sum    *c05mSum
	inIdx  map[types.Object]int
	res    []*types.Var
	in     map[*cfg.Block]*c05mState
	calls  map[*ast.CallExpr][]*c05mRet
	fresh  int
	stores map[token.Pos]*c05mStore
	export map[string]c05mVal
}

func (a *c05mAn) insOf(fi *FuncInfo) []*types.Var {
	sig, _ := fi.Obj.Type().(*types.Signature)
	if sig == nil {
		return nil
	}
	var ins []*types.Var
	if r := sig.Recv(); r != nil {
		// the receiver object used in the body is the one declared in the FuncDecl
		var rv *types.Var
		if fi.Decl.Recv != nil && len(fi.Decl.Recv.List) == 1 && len(fi.Decl.Recv.List[0].Names) == 1 {
			rv, _ = fi.Pkg.TypesInfo.Defs[fi.Decl.Recv.List[0].Names[0]].(*types.Var)
		}
		if rv == nil {
			rv = r
		}
		ins = append(ins, rv)
	}
	if fi.Decl.Type.Params != nil {
		k := 0
		for _, f := range fi.Decl.Type.Params.List {
			if len(f.Names) == 0 {
				ins = append(ins, sig.Params().At(k))
				k++
				continue
			}
			for _, nm := range f.Names {
				if v, ok := fi.Pkg.TypesInfo.Defs[nm].(*types.Var); ok && v != nil {
					ins = append(ins, v)
				} else {
					ins = append(ins, sig.Params().At(k))
				}
				k++
			}
		}
	}
	return ins
}

func (a *c05mAn) summary(fi *FuncInfo) *c05mSum {
	if s, ok := a.sums[fi]; ok {
		return s
	}
	if a.busy[fi] || fi.Decl.Body == nil {
		return nil
	}
	a.busy[fi] = true
	defer delete(a.busy, fi)
	f := &c05mFn{a: a, fi: fi, info: fi.Pkg.TypesInfo, inIdx: map[types.Object]int{}, in: map[*cfg.Block]*c05mState{},
		calls: map[*ast.CallExpr][]*c05mRet{}, stores: map[token.Pos]*c05mStore{}, export: map[string]c05mVal{}}
	f.g = a.c.P.Graph(fi)
	sum := &c05mSum{stores: f.stores, exit: &c05mState{env: map[string]c05mVal{}, ptr: map[types.Object]map[string]bool{}}}
	f.sum = sum
	sum.ins = a.insOf(fi)
	entry := &c05mState{env: map[string]c05mVal{}, ptr: map[types.Object]map[string]bool{}}
	for _, l := range a.mleaves {
		entry.env["M"+l] = c05mOf("E:M" + l)
	}
	for i, v := range sum.ins {
		f.inIdx[v] = i
		t := v.Type()
		switch {
		case a.isModel(t):
			sum.hasModel = true
		default:
			if p, ok := t.Underlying().(*types.Pointer); ok {
				if leaves := a.leavesOf(p.Elem()); len(leaves) > 0 {
					if _, isStruct := p.Elem().Underlying().(*types.Struct); isStruct {
						root := fmt.Sprintf("P%d", i)
						entry.ptr[v] = map[string]bool{root: true}
						for _, l := range leaves {
							entry.env[root+l] = c05mOf(fmt.Sprintf("E:A%d%s", i, l))
						}
					}
				}
				continue
			}
			for _, l := range a.leavesOf(t) {
				entry.env[a.idOf(v)+l] = c05mOf(fmt.Sprintf("E:A%d%s", i, l))
			}
		}
	}
	if sig, ok := fi.Obj.Type().(*types.Signature); ok {
		if fi.Decl.Type.Results != nil {
			for _, fl := range fi.Decl.Type.Results.List {
				for _, nm := range fl.Names {
					if v, ok := f.info.Defs[nm].(*types.Var); ok {
						f.res = append(f.res, v)
						for _, l := range a.leavesOf(v.Type()) {
							entry.env[a.idOf(v)+l] = c05mOf(f.nilOrigin(nm.Pos(), "zero value of result "+nm.Name))
						}
					}
				}
			}
		}
		for i := 0; i < sig.Results().Len(); i++ {
			sum.rets = append(sum.rets, f.newRet(sig.Results().At(i).Type()))
			if a.isModel(sig.Results().At(i).Type()) {
				sum.ctor = true
			}
		}
	}
	if f.g == nil || len(f.g.Blocks) == 0 {
		sum.exit = entry
		a.sums[fi] = sum
		return sum
	}
	f.in[f.g.Blocks[0]] = entry
	work := []*cfg.Block{f.g.Blocks[0]}
	queued := map[*cfg.Block]bool{f.g.Blocks[0]: true}
	iter := 0
	exits := map[*cfg.Block]*c05mState{}
	for len(work) > 0 && iter < 20000 {
		iter++
		b := work[0]
		work = work[1:]
		queued[b] = false
		st := f.in[b].clone()
		for _, n := range b.Nodes {
			f.node(st, n)
		}
		if len(b.Succs) == 0 {
			if f.g.isNormalExit(b) {
				exits[b] = st
			}
			continue
		}
		cond := f.g.BranchCond(b)
		for i, s := range b.Succs {
			if !s.Live {
				continue
			}
			out := st
			if cond != nil && cond.Tag == nil && cond.Alts == nil && len(b.Succs) == 2 {
				out = st.clone()
				f.refine(out, cond.Expr, i == 0)
			}
			if old, ok := f.in[s]; !ok {
				f.in[s] = out.clone()
			} else if !old.join(out) {
				continue
			}
			if !queued[s] {
				queued[s] = true
				work = append(work, s)
			}
		}
	}
	first := true
	for _, b := range f.g.Blocks {
		st, ok := exits[b]
		if !ok {
			continue
		}
		if first {
			sum.exit = st.clone()
			first = false
		} else {
			sum.exit.join(st)
		}
	}
	if first {
		// no normal exit (an endless loop): the function leaves nothing behind
		sum.exit = entry.clone()
	}
	for k, v := range f.export {
		sum.exit.env[k] = v
	}
	a.sums[fi] = sum
	return sum
}

func (f *c05mFn) newRet(t types.Type) *c05mRet {
	r := &c05mRet{}
	switch u := t.Underlying().(type) {
	case *types.Map:
		r.kind = 'm'
		r.val = c05mVal{}
	case *types.Struct:
		if len(f.a.leavesOf(t)) > 0 {
			r.kind = 's'
			r.leaves = map[string]c05mVal{}
		}
	case *types.Pointer:
		if _, ok := u.Elem().Underlying().(*types.Struct); ok && len(f.a.leavesOf(u.Elem())) > 0 {
			r.kind = 'p'
			r.pts = map[string]bool{}
			r.known = true
		}
	}
	return r
}

func (f *c05mFn) nilOrigin(pos token.Pos, what string) string {
	return fmt.Sprintf("N@%s|%d|%s", f.fi.Name, int(pos), what)
}

// ---------------------------------------------------------------- locations and values

func (f *c05mFn) isInput(o types.Object) bool { _, ok := f.inIdx[o]; return ok }

// locOf: the locations of the value x denotes (of *x when x is a pointer).
func (f *c05mFn) locOf(st *c05mState, x ast.Expr) ([]string, bool) {
	switch t := unparen(x).(type) {
	case *ast.Ident:
		v, _ := f.info.ObjectOf(t).(*types.Var)
		if v == nil || v.IsField() {
			return nil, false
		}
		if pts, ok := st.ptr[v]; ok {
			if pts["?"] || len(pts) == 0 {
				return nil, false
			}
			return c05mKeys(pts), true
		}
		if f.a.isModel(v.Type()) {
			if f.isInput(v) {
				return []string{"M"}, true
			}
			if _, isPtr := v.Type().Underlying().(*types.Pointer); !isPtr && v.Parent() != nil && v.Parent() != f.a.pk.Types.Scope() {
				return []string{"M"}, true // a local Model value: there is one Model per analysis
			}
			return nil, false
		}
		if _, isPtr := v.Type().Underlying().(*types.Pointer); isPtr {
			return nil, false
		}
		if v.Parent() == nil || v.Parent() == v.Pkg().Scope() {
			return nil, false // package-level variable
		}
		return []string{f.a.idOf(v)}, true
	case *ast.SelectorExpr:
		sel, ok := f.info.Selections[t]
		if !ok || sel.Kind() != types.FieldVal {
			return nil, false
		}
		base, ok := f.locOf(st, t.X)
		if !ok {
			return nil, false
		}
		// the field path (promoted fields go through the embedded structs)
		cur := f.info.TypeOf(t.X)
		path := ""
		for _, idx := range sel.Index() {
			if p, ok := cur.Underlying().(*types.Pointer); ok {
				cur = p.Elem()
				if path != "" {
					return nil, false // through an embedded pointer
				}
			}
			stt, ok := cur.Underlying().(*types.Struct)
			if !ok || idx >= stt.NumFields() {
				return nil, false
			}
			path += "." + stt.Field(idx).Name()
			cur = stt.Field(idx).Type()
		}
		if _, isPtr := cur.Underlying().(*types.Pointer); isPtr {
			return nil, false // a pointer stored in a field is not tracked
		}
		out := make([]string, len(base))
		for i, b := range base {
			out[i] = b + path
		}
		return out, true
	case *ast.StarExpr:
		return f.locOf(st, t.X)
	case *ast.UnaryExpr:
		if t.Op == token.AND {
			if cl, ok := unparen(t.X).(*ast.CompositeLit); ok {
				return f.allocLit(st, cl)
			}
			return f.locOf(st, t.X)
		}
	case *ast.CallExpr:
		if rets := f.calls[t]; len(rets) == 1 && rets[0] != nil && rets[0].kind == 'p' && rets[0].known && len(rets[0].pts) > 0 {
			return c05mKeys(rets[0].pts), true
		}
		if id, ok := t.Fun.(*ast.Ident); ok && id.Name == "new" && len(t.Args) == 1 {
			if _, isB := f.info.Uses[id].(*types.Builtin); isB {
				tt := f.info.TypeOf(t.Args[0])
				root := f.freshRoot(t.Pos(), tt)
				for _, l := range f.a.leavesOf(tt) {
					st.env[root+l] = c05mOf(f.nilOrigin(t.Pos(), "zero value from new("+types.ExprString(t.Args[0])+")"))
				}
				return []string{root}, true
			}
		}
	}
	return nil, false
}

func c05mKeys(m map[string]bool) []string {
	var out []string
	for k := range m {
		out = append(out, k)
	}
	sort.Strings(out)
	return out
}

func (f *c05mFn) freshRoot(pos token.Pos, t types.Type) string {
	if f.a.isModel(t) {
		return "M"
	}
	return fmt.Sprintf("H%d", int(pos))
}

// allocLit: &T{...}: a fresh object (the Model itself for &Model{...}).
func (f *c05mFn) allocLit(st *c05mState, cl *ast.CompositeLit) ([]string, bool) {
	t := f.info.TypeOf(cl)
	if t == nil {
		return nil, false
	}
	if _, ok := t.Underlying().(*types.Struct); !ok {
		return nil, false
	}
	root := f.freshRoot(cl.Pos(), t)
	vals := f.structOf(st, cl, t)
	for _, l := range f.a.leavesOf(t) {
		f.write(st, []string{root}, l, vals[l], cl.Pos())
	}
	return []string{root}, true
}

func (f *c05mFn) read(st *c05mState, locs []string, leaf string) c05mVal {
	out := c05mVal{}
	for _, l := range locs {
		if v, ok := st.env[l+leaf]; ok {
			out = out.union(v)
		} else {
			out["U"] = true
		}
	}
	if len(locs) == 0 {
		out["U"] = true
	}
	return out
}

func (f *c05mFn) write(st *c05mState, locs []string, leaf string, v c05mVal, pos token.Pos) {
	if v == nil {
		v = c05mOf("U")
	}
	for _, l := range locs {
		key := l + leaf
		if len(locs) == 1 {
			st.env[key] = v
		} else if old, ok := st.env[key]; ok {
			st.env[key] = old.union(v)
		} else {
			st.env[key] = v.union(c05mOf("U"))
		}
		if strings.HasPrefix(key, "M.") {
			m := f.a.assigns[f.fi.Name]
			if m == nil {
				m = map[string]token.Pos{}
				f.a.assigns[f.fi.Name] = m
			}
			p := strings.TrimPrefix(key, "M")
			if old, ok := m[p]; !ok || pos < old {
				m[p] = pos
			}
		}
	}
}

// mapOf: the origins of a map-typed expression.
func (f *c05mFn) mapOf(st *c05mState, x ast.Expr) c05mVal {
	if x == nil {
		return c05mOf("U")
	}
	switch t := unparen(x).(type) {
	case *ast.CompositeLit:
		return c05mOf("K")
	case *ast.Ident:
		if t.Name == "nil" {
			if _, ok := f.info.Uses[t].(*types.Nil); ok {
				return c05mOf(f.nilOrigin(t.Pos(), "the nil literal"))
			}
		}
	case *ast.CallExpr:
		if id, ok := t.Fun.(*ast.Ident); ok {
			if _, isB := f.info.Uses[id].(*types.Builtin); isB && id.Name == "make" {
				return c05mOf("K")
			}
		}
		if tv, ok := f.info.Types[t.Fun]; ok && tv.IsType() && len(t.Args) == 1 {
			return f.mapOf(st, t.Args[0]) // conversion
		}
		if fn := calleeOf(f.info, t); fn != nil && fullName(fn) == "maps.Clone" && len(t.Args) == 1 {
			return f.mapOf(st, t.Args[0]) // Clone(nil) is nil
		}
		if rets := f.calls[t]; len(rets) == 1 && rets[0] != nil && rets[0].kind == 'm' && len(rets[0].val) > 0 {
			return rets[0].val
		}
		return c05mOf("U")
	}
	if locs, ok := f.locOf(st, x); ok {
		return f.read(st, locs, "")
	}
	return c05mOf("U")
}

// structOf: the origins of the map leaves of a struct-typed expression.
func (f *c05mFn) structOf(st *c05mState, x ast.Expr, t types.Type) map[string]c05mVal {
	leaves := f.a.leavesOf(t)
	out := map[string]c05mVal{}
	unknown := func() map[string]c05mVal {
		for _, l := range leaves {
			out[l] = c05mOf("U")
		}
		return out
	}
	if x == nil {
		return unknown()
	}
	switch e := unparen(x).(type) {
	case *ast.CompositeLit:
		stt, ok := t.Underlying().(*types.Struct)
		if !ok {
			return unknown()
		}
		given := map[string]ast.Expr{}
		for i, el := range e.Elts {
			if kv, ok := el.(*ast.KeyValueExpr); ok {
				if id, ok := kv.Key.(*ast.Ident); ok {
					given[id.Name] = kv.Value
				}
			} else if i < stt.NumFields() {
				given[stt.Field(i).Name()] = el
			}
		}
		tname := types.TypeString(t, func(*types.Package) string { return "" })
		for i := 0; i < stt.NumFields(); i++ {
			fd := stt.Field(i)
			sub := f.a.leavesOf(fd.Type())
			if len(sub) == 0 {
				continue
			}
			val, has := given[fd.Name()]
			switch fd.Type().Underlying().(type) {
			case *types.Map:
				if has {
					out["."+fd.Name()] = f.mapOf(st, val)
				} else {
					out["."+fd.Name()] = c05mOf(f.nilOrigin(e.Pos(), fmt.Sprintf("%s{...} without field %s (zero value: nil map)", tname, fd.Name())))
				}
			case *types.Struct:
				if has {
					for l, v := range f.structOf(st, val, fd.Type()) {
						out["."+fd.Name()+l] = v
					}
				} else {
					for _, l := range sub {
						out["."+fd.Name()+l] = c05mOf(f.nilOrigin(e.Pos(), fmt.Sprintf("%s{...} without field %s (zero value: nil map %s)", tname, fd.Name(), strings.TrimPrefix(fd.Name()+l, "."))))
					}
				}
			}
		}
		return out
	case *ast.CallExpr:
		if tv, ok := f.info.Types[e.Fun]; ok && tv.IsType() && len(e.Args) == 1 {
			return f.structOf(st, e.Args[0], t)
		}
		if rets := f.calls[e]; len(rets) == 1 && rets[0] != nil && rets[0].kind == 's' {
			for _, l := range leaves {
				if v, ok := rets[0].leaves[l]; ok && len(v) > 0 {
					out[l] = v
				} else {
					out[l] = c05mOf("U")
				}
			}
			return out
		}
		return unknown()
	}
	if locs, ok := f.locOf(st, x); ok {
		for _, l := range leaves {
			out[l] = f.read(st, locs, l)
		}
		return out
	}
	return unknown()
}

// ---------------------------------------------------------------- transfer

func (f *c05mFn) node(st *c05mState, n ast.Node) {
	// calls first (innermost first): effects, stores, results
	var calls []*ast.CallExpr
	inspectNoLit(n, func(m ast.Node) bool {
		switch t := m.(type) {
		case *ast.GoStmt:
			return false
		case *ast.CallExpr:
			calls = append(calls, t)
		}
		return true
	})
	for i := len(calls) - 1; i >= 0; i-- {
		f.applyCall(st, calls[i])
	}
	switch t := n.(type) {
	case *ast.AssignStmt:
		f.assignStmt(st, t)
	case *ast.ValueSpec:
		for i, nm := range t.Names {
			v, _ := f.info.Defs[nm].(*types.Var)
			if v == nil {
				continue
			}
			var rhs ast.Expr
			if len(t.Values) == len(t.Names) {
				rhs = t.Values[i]
			} else if len(t.Values) == 1 && len(t.Names) > 1 {
				f.assignTuple(st, []ast.Expr{nm}, t.Values[0], i, nm)
				continue
			}
			f.assignOne(st, nm, rhs, v.Type(), rhs == nil, nm.Pos())
		}
	case *ast.IncDecStmt:
		f.storeCheck(st, t.X)
	case *ast.ReturnStmt:
		f.ret(st, t)
	}
}

func (f *c05mFn) assignStmt(st *c05mState, as *ast.AssignStmt) {
	if as.Tok != token.ASSIGN && as.Tok != token.DEFINE {
		for _, l := range as.Lhs {
			f.storeCheck(st, l)
		}
		return
	}
	for _, l := range as.Lhs {
		f.storeCheck(st, l)
	}
	if len(as.Lhs) == len(as.Rhs) {
		// parallel assignment: evaluate every right-hand side before storing
		type pend struct {
			lhs   ast.Expr
			t     types.Type
			m     c05mVal
			s     map[string]c05mVal
			pts   []string
			ptsOK bool
			kind  byte
		}
		var ps []pend
		for i, l := range as.Lhs {
			lt := f.info.TypeOf(l)
			if lt == nil {
				if id, ok := l.(*ast.Ident); ok {
					if o := f.info.ObjectOf(id); o != nil {
						lt = o.Type()
					}
				}
			}
			if lt == nil {
				continue
			}
			p := pend{lhs: l, t: lt}
			switch u := lt.Underlying().(type) {
			case *types.Map:
				p.kind = 'm'
				p.m = f.mapOf(st, as.Rhs[i])
			case *types.Struct:
				if len(f.a.leavesOf(lt)) == 0 {
					continue
				}
				p.kind = 's'
				p.s = f.structOf(st, as.Rhs[i], lt)
			case *types.Pointer:
				if _, ok := u.Elem().Underlying().(*types.Struct); !ok || len(f.a.leavesOf(u.Elem())) == 0 {
					continue
				}
				p.kind = 'p'
				p.pts, p.ptsOK = f.locOf(st, as.Rhs[i])
			default:
				continue
			}
			ps = append(ps, p)
		}
		for _, p := range ps {
			switch p.kind {
			case 'm':
				if locs, ok := f.lhsLoc(st, p.lhs); ok {
					f.write(st, locs, "", p.m, p.lhs.Pos())
				}
			case 's':
				if locs, ok := f.lhsLoc(st, p.lhs); ok {
					for _, l := range f.a.leavesOf(p.t) {
						f.write(st, locs, l, p.s[l], p.lhs.Pos())
					}
				}
			case 'p':
				f.bindPtr(st, p.lhs, p.pts, p.ptsOK)
			}
		}
		return
	}
	if len(as.Rhs) == 1 {
		for i, l := range as.Lhs {
			f.assignTuple(st, as.Lhs, as.Rhs[0], i, l)
		}
	}
}

// lhsLoc: the locations an assignment target denotes (a value-typed target).
func (f *c05mFn) lhsLoc(st *c05mState, l ast.Expr) ([]string, bool) {
	if id, ok := unparen(l).(*ast.Ident); ok {
		if id.Name == "_" {
			return nil, false
		}
		v, _ := f.info.ObjectOf(id).(*types.Var)
		if v == nil {
			return nil, false
		}
		if f.a.isModel(v.Type()) {
			return f.locOf(st, id)
		}
		if v.Parent() == nil || v.Parent() == v.Pkg().Scope() {
			return nil, false
		}
		return []string{f.a.idOf(v)}, true
	}
	return f.locOf(st, l)
}

func (f *c05mFn) bindPtr(st *c05mState, l ast.Expr, pts []string, ok bool) {
	id, isId := unparen(l).(*ast.Ident)
	if !isId {
		return // a pointer stored into a field: not tracked
	}
	v, _ := f.info.ObjectOf(id).(*types.Var)
	if v == nil {
		return
	}
	if !ok || len(pts) == 0 {
		delete(st.ptr, v)
		if f.isInput(v) {
			st.ptr[v] = map[string]bool{"?": true}
		}
		return
	}
	m := map[string]bool{}
	for _, p := range pts {
		m[p] = true
	}
	st.ptr[v] = m
}

func (f *c05mFn) assignOne(st *c05mState, l ast.Expr, rhs ast.Expr, lt types.Type, zero bool, pos token.Pos) {
	if lt == nil {
		return
	}
	switch u := lt.Underlying().(type) {
	case *types.Map:
		locs, ok := f.lhsLoc(st, l)
		if !ok {
			return
		}
		v := f.mapOf(st, rhs)
		if zero {
			v = c05mOf(f.nilOrigin(pos, "zero value of `var "+types.ExprString(l)+"`"))
		}
		f.write(st, locs, "", v, pos)
	case *types.Struct:
		leaves := f.a.leavesOf(lt)
		if len(leaves) == 0 {
			return
		}
		locs, ok := f.lhsLoc(st, l)
		if !ok {
			return
		}
		var vals map[string]c05mVal
		if !zero {
			vals = f.structOf(st, rhs, lt)
		}
		for _, lf := range leaves {
			if zero {
				f.write(st, locs, lf, c05mOf(f.nilOrigin(pos, "zero value of `var "+types.ExprString(l)+"` (nil map "+strings.TrimPrefix(lf, ".")+")")), pos)
			} else {
				f.write(st, locs, lf, vals[lf], pos)
			}
		}
	case *types.Pointer:
		if _, ok := u.Elem().Underlying().(*types.Struct); !ok || len(f.a.leavesOf(u.Elem())) == 0 {
			return
		}
		if zero {
			f.bindPtr(st, l, nil, false)
			return
		}
		pts, ok := f.locOf(st, rhs)
		f.bindPtr(st, l, pts, ok)
	}
}

// assignTuple: lhs[i] = the i-th result of a call (or of a comma-ok form: unknown).
func (f *c05mFn) assignTuple(st *c05mState, lhs []ast.Expr, rhs ast.Expr, i int, l ast.Expr) {
	lt := f.info.TypeOf(l)
	if lt == nil {
		if id, ok := l.(*ast.Ident); ok {
			if o := f.info.ObjectOf(id); o != nil {
				lt = o.Type()
			}
		}
	}
	if lt == nil {
		return
	}
	call, _ := unparen(rhs).(*ast.CallExpr)
	var r *c05mRet
	if call != nil {
		if rets := f.calls[call]; i < len(rets) {
			r = rets[i]
		}
	}
	switch u := lt.Underlying().(type) {
	case *types.Map:
		if locs, ok := f.lhsLoc(st, l); ok {
			v := c05mOf("U")
			if r != nil && r.kind == 'm' && len(r.val) > 0 {
				v = r.val
			}
			f.write(st, locs, "", v, l.Pos())
		}
	case *types.Struct:
		leaves := f.a.leavesOf(lt)
		if len(leaves) == 0 {
			return
		}
		if locs, ok := f.lhsLoc(st, l); ok {
			for _, lf := range leaves {
				v := c05mOf("U")
				if r != nil && r.kind == 's' && len(r.leaves[lf]) > 0 {
					v = r.leaves[lf]
				}
				f.write(st, locs, lf, v, l.Pos())
			}
		}
	case *types.Pointer:
		if _, ok := u.Elem().Underlying().(*types.Struct); !ok || len(f.a.leavesOf(u.Elem())) == 0 {
			return
		}
		if r != nil && r.kind == 'p' && r.known && len(r.pts) > 0 {
			f.bindPtr(st, l, c05mKeys(r.pts), true)
		} else {
			f.bindPtr(st, l, nil, false)
		}
	}
}

// storeCheck: l is an assignment target; if it is an entry of a map, the map must not be nil.
func (f *c05mFn) storeCheck(st *c05mState, l ast.Expr) {
	ix, ok := unparen(l).(*ast.IndexExpr)
	if !ok {
		return
	}
	t := f.info.TypeOf(ix.X)
	if t == nil {
		return
	}
	if _, isMap := t.Underlying().(*types.Map); !isMap {
		return
	}
	v := f.mapOf(st, ix.X)
	if locs, ok := f.locOf(st, ix.X); ok {
		for _, l := range locs {
			if strings.HasPrefix(l, "M.") {
				f.a.stored[strings.TrimPrefix(l, "M")] = true
			}
		}
	}
	what := canonPath(f.info, ix.X)
	if what == "" {
		what = types.ExprString(ix.X)
	}
	f.noteStore(ix.Pos(), f.fi.Name, what, v)
}

func (f *c05mFn) noteStore(pos token.Pos, fn, what string, v c05mVal) {
	if s, ok := f.stores[pos]; ok {
		s.val = s.val.union(v)
		return
	}
	f.stores[pos] = &c05mStore{pos: pos, fn: fn, what: what, val: v}
}

func (f *c05mFn) ret(st *c05mState, rs *ast.ReturnStmt) {
	sum := f.sum
	get := func(i int) ast.Expr {
		if len(rs.Results) == len(sum.rets) {
			return rs.Results[i]
		}
		return nil
	}
	if len(rs.Results) == 1 && len(sum.rets) > 1 {
		// return f(): pass the callee's results through
		if call, ok := unparen(rs.Results[0]).(*ast.CallExpr); ok {
			if rets := f.calls[call]; len(rets) == len(sum.rets) {
				for i, r := range rets {
					f.mergeRet(sum.rets[i], r)
				}
				return
			}
		}
		for _, r := range sum.rets {
			f.mergeRet(r, nil)
		}
		return
	}
	for i, r := range sum.rets {
		if r.kind == 0 {
			continue
		}
		x := get(i)
		if x == nil {
			if len(rs.Results) == 0 && i < len(f.res) {
				// bare return with named results
				cur := &c05mRet{kind: r.kind}
				switch r.kind {
				case 'm':
					cur.val = f.read(st, []string{f.a.idOf(f.res[i])}, "")
				case 's':
					cur.leaves = map[string]c05mVal{}
					for _, l := range f.a.leavesOf(f.res[i].Type()) {
						cur.leaves[l] = f.read(st, []string{f.a.idOf(f.res[i])}, l)
					}
				case 'p':
					if pts, ok := st.ptr[f.res[i]]; ok {
						cur.pts, cur.known = pts, true
					}
				}
				f.mergeRet(r, cur)
				continue
			}
			f.mergeRet(r, nil)
			continue
		}
		cur := &c05mRet{kind: r.kind}
		switch r.kind {
		case 'm':
			cur.val = f.mapOf(st, x)
		case 's':
			cur.leaves = f.structOf(st, x, f.fi.Obj.Type().(*types.Signature).Results().At(i).Type())
		case 'p':
			if pts, ok := f.locOf(st, x); ok {
				cur.known = true
				cur.pts = map[string]bool{}
				for _, p := range pts {
					cur.pts[p] = true
				}
				// objects that live in this function's frame travel with the pointer
				f.exportRoots(st, pts)
			}
		}
		f.mergeRet(r, cur)
	}
}

// exportRoots keeps the leaves of locally allocated objects that a returned pointer refers to in the summary's
// exit state under their root names (the caller transplants them).
func (f *c05mFn) exportRoots(st *c05mState, pts []string) {
	for _, p := range pts {
		root := p
		if i := strings.Index(p, "."); i >= 0 {
			root = p[:i]
		}
		if root == "M" || strings.HasPrefix(root, "P") || root == "?" {
			continue
		}
		for k, v := range st.env {
			if k == root || strings.HasPrefix(k, root+".") {
				key := "X:" + k
				if old, ok := f.export[key]; ok {
					f.export[key] = old.union(v)
				} else {
					f.export[key] = v
				}
			}
		}
	}
}

func (f *c05mFn) mergeRet(dst, cur *c05mRet) {
	if dst.kind == 0 {
		return
	}
	if cur == nil || cur.kind != dst.kind {
		switch dst.kind {
		case 'm':
			dst.val = dst.val.union(c05mOf("U"))
		case 's':
			if dst.leaves == nil {
				dst.leaves = map[string]c05mVal{}
			}
			dst.leaves["\x00unknown"] = c05mOf("U")
		case 'p':
			dst.known = false
		}
		return
	}
	switch dst.kind {
	case 'm':
		dst.val = dst.val.union(cur.val)
	case 's':
		for l, v := range cur.leaves {
			if old, ok := dst.leaves[l]; ok {
				dst.leaves[l] = old.union(v)
			} else {
				dst.leaves[l] = v
			}
		}
	case 'p':
		if !cur.known {
			dst.known = false
			return
		}
		for p := range cur.pts {
			dst.pts[p] = true
		}
	}
}

// ---------------------------------------------------------------- calls

func (f *c05mFn) applyCall(st *c05mState, call *ast.CallExpr) {
	fn := calleeOf(f.info, call)
	if fn == nil {
		return
	}
	cf := f.a.c.P.FuncOfObj(fn)
	if cf == nil || cf.Decl.Body == nil || cf.Pkg != f.a.pk {
		return
	}
	sum := f.a.summary(cf)
	if sum == nil {
		return // recursion: the cycle is assumed to preserve what it found so far
	}
	// actual arguments, aligned with the callee's inputs
	var actual []ast.Expr
	sig, _ := fn.Type().(*types.Signature)
	if sig != nil && sig.Recv() != nil {
		if sel, ok := unparen(call.Fun).(*ast.SelectorExpr); ok {
			if s, ok := f.info.Selections[sel]; ok && s.Kind() == types.MethodVal && len(s.Index()) == 1 {
				actual = append(actual, sel.X)
			} else {
				actual = append(actual, nil)
			}
		} else {
			actual = append(actual, nil)
		}
	}
	for _, a := range call.Args {
		actual = append(actual, a)
	}
	argLeaf := func(i int, leaf string) c05mVal {
		if i >= len(actual) || i >= len(sum.ins) || actual[i] == nil {
			return c05mOf("U")
		}
		t := sum.ins[i].Type()
		switch t.Underlying().(type) {
		case *types.Pointer:
			if locs, ok := f.locOf(st, actual[i]); ok {
				return f.read(st, locs, leaf)
			}
		case *types.Map:
			return f.mapOf(st, actual[i])
		case *types.Struct:
			if v, ok := f.structOf(st, actual[i], t)[leaf]; ok {
				return v
			}
		}
		return c05mOf("U")
	}
	subst := func(v c05mVal) c05mVal {
		out := c05mVal{}
		for src := range v {
			switch {
			case strings.HasPrefix(src, "E:M"):
				p := strings.TrimPrefix(src, "E:")
				if cur, ok := st.env[p]; ok {
					for s := range cur {
						out[s] = true
					}
				} else {
					out["U"] = true
				}
			case strings.HasPrefix(src, "E:A"):
				rest := strings.TrimPrefix(src, "E:A")
				idx, leaf := 0, ""
				j := 0
				for j < len(rest) && rest[j] >= '0' && rest[j] <= '9' {
					idx = idx*10 + int(rest[j]-'0')
					j++
				}
				leaf = rest[j:]
				for s := range argLeaf(idx, leaf) {
					out[s] = true
				}
			default:
				out[src] = true
			}
		}
		return out
	}
	type wr struct {
		locs []string
		leaf string
		v    c05mVal
		raw  bool
	}
	var writes []wr
	tag := fmt.Sprintf("T%d", int(call.Pos()))
	mapRoot := func(p string) string {
		root, rest := p, ""
		if i := strings.Index(p, "."); i >= 0 {
			root, rest = p[:i], p[i:]
		}
		switch {
		case root == "M":
			return p
		case strings.HasPrefix(root, "P"):
			return "" // resolved by the caller below
		default:
			return tag + "_" + root + rest
		}
	}
	for key, v := range sum.exit.env {
		switch {
		case strings.HasPrefix(key, "M."):
			if sum.hasModel && !(len(v) == 1 && v["E:"+key]) {
				writes = append(writes, wr{locs: []string{"M"}, leaf: strings.TrimPrefix(key, "M"), v: subst(v)})
			}
		case strings.HasPrefix(key, "P"):
			dot := strings.Index(key, ".")
			root, leaf := key, ""
			if dot >= 0 {
				root, leaf = key[:dot], key[dot:]
			}
			var idx int
			if _, err := fmt.Sscanf(root, "P%d", &idx); err != nil || idx >= len(actual) || actual[idx] == nil {
				continue
			}
			if len(v) == 1 && v[fmt.Sprintf("E:A%d%s", idx, leaf)] {
				continue // unchanged
			}
			if locs, ok := f.locOf(st, actual[idx]); ok {
				writes = append(writes, wr{locs: locs, leaf: leaf, v: subst(v)})
			}
		case strings.HasPrefix(key, "X:"):
			// an object allocated by the callee that a returned pointer refers to
			k := strings.TrimPrefix(key, "X:")
			if nk := mapRoot(k); nk != "" {
				writes = append(writes, wr{locs: []string{nk}, leaf: "", v: subst(v), raw: true})
			}
		}
	}
	// results
	var rets []*c05mRet
	for _, r := range sum.rets {
		nr := &c05mRet{kind: r.kind, known: r.known}
		switch r.kind {
		case 'm':
			nr.val = subst(r.val)
		case 's':
			nr.leaves = map[string]c05mVal{}
			_, unk := r.leaves["\x00unknown"]
			for l, v := range r.leaves {
				if l == "\x00unknown" {
					continue
				}
				nr.leaves[l] = subst(v)
				if unk {
					nr.leaves[l] = nr.leaves[l].union(c05mOf("U"))
				}
			}
		case 'p':
			nr.pts = map[string]bool{}
			for p := range r.pts {
				root, rest := p, ""
				if i := strings.Index(p, "."); i >= 0 {
					root, rest = p[:i], p[i:]
				}
				if strings.HasPrefix(root, "P") {
					var idx int
					if _, err := fmt.Sscanf(root, "P%d", &idx); err == nil && idx < len(actual) && actual[idx] != nil {
						if locs, ok := f.locOf(st, actual[idx]); ok {
							for _, l := range locs {
								nr.pts[l+rest] = true
							}
							continue
						}
					}
					nr.known = false
					continue
				}
				if root == "?" {
					nr.known = false
					continue
				}
				if root == "M" && !sum.hasModel {
					nr.known = false // a Model built by a constructor called from the package: not this Model
					continue
				}
				nr.pts[mapRoot(p)] = true
			}
		}
		rets = append(rets, nr)
	}
	// stores of the callee, seen from here
	for _, s := range sum.stores {
		f.noteStore(s.pos, s.fn, s.what, subst(s.val))
	}
	for _, w := range writes {
		if w.raw {
			st.env[w.locs[0]] = w.v
			continue
		}
		// the callee (or its callees) made the assignment: it is not blamed on this function
		for _, l := range w.locs {
			key := l + w.leaf
			if len(w.locs) == 1 {
				st.env[key] = w.v
			} else if old, ok := st.env[key]; ok {
				st.env[key] = old.union(w.v)
			} else {
				st.env[key] = w.v.union(c05mOf("U"))
			}
		}
	}
	// a constructor called from the package replaces the Model it returns: not modelled (no such call today)
	f.calls[call] = rets
}

// ---------------------------------------------------------------- branch refinement

func (f *c05mFn) refine(st *c05mState, cond ast.Expr, truth bool) {
	switch t := unparen(cond).(type) {
	case *ast.UnaryExpr:
		if t.Op == token.NOT {
			f.refine(st, t.X, !truth)
		}
	case *ast.BinaryExpr:
		switch {
		case t.Op == token.LAND && truth, t.Op == token.LOR && !truth:
			f.refine(st, t.X, truth)
			f.refine(st, t.Y, truth)
		case t.Op == token.EQL || t.Op == token.NEQ:
			var x ast.Expr
			if isNilExpr(f.info, t.Y) {
				x = t.X
			} else if isNilExpr(f.info, t.X) {
				x = t.Y
			}
			if x == nil {
				return
			}
			xt := f.info.TypeOf(x)
			if xt == nil {
				return
			}
			if _, isMap := xt.Underlying().(*types.Map); !isMap {
				return
			}
			nonNil := (t.Op == token.NEQ) == truth
			if !nonNil {
				return
			}
			if locs, ok := f.locOf(st, x); ok && len(locs) == 1 {
				if cur, ok := st.env[locs[0]]; ok {
					// what is left after the test is what was non-nil: made maps, entry values known non-nil
					out := c05mVal{}
					for s := range cur {
						if !strings.HasPrefix(s, "N@") {
							out[s] = true
						}
					}
					if len(out) == 0 {
						out["K"] = true
					}
					// an entry value that passed a nil test is as good as made
					for s := range out {
						if strings.HasPrefix(s, "E:") {
							delete(out, s)
							out["K"] = true
						}
					}
					st.env[locs[0]] = out
				}
			}
		}
	}
}
