package main

// C14.g — a write inside the surface is never dropped.
//
// "Surface addressing is exact: a cell write lands in precisely the addressed cell when it is inside the surface and
// is ignored otherwise." C14.b decides the second half (the store is reached only inside the surface) and C14.f the
// "precisely the addressed cell" part. This rule decides the remaining half: WriteCell may leave WITHOUT having stored
// into Buffer only when the addressed cell is outside the surface.
//
// How it is decided: every acyclic path of WriteCell's control-flow graph from the entry to an exit (return, end of the
// body, panic) that does not pass a store into Surface.Buffer is enumerated with the branch conditions taken on it. A
// condition is put into disjunctive normal form (&&, ||, ! split; boolean locals with one definition and `return expr`
// helpers replaced by what they stand for). The path is justified when one of its conditions implies "outside" on its
// own, i.e. EVERY disjunct of that condition contains a comparison that implies col >= Width or row >= Height (or, for a
// signed coordinate, < 0) — col and row being the parameters that the addressed index row*Width+col is built from.
// A path whose conditions mention only other things (the cell's content, its width, …) drops a write inside the
// surface: violated. The form of the guard (early return, nested if, else, switch without tag, flag variable, split or
// merged tests, mirrored operands, conversions, helper predicate) does not matter.

import (
	"go/ast"
	"go/token"
	"go/types"
	"strings"

	"golang.org/x/tools/go/cfg"
)

func init() { registerExtra("C14", c14NoDroppedWrite) }

type c14wLit struct {
	v   c14V
	pol bool
}

// c14wDNF: disjunctive normal form of (v == pol); ok=false when it grows too large.
func c14wDNF(v c14V, pol bool, depth int) ([][]c14wLit, bool) {
	v.x = unparen(v.x)
	if depth > 12 {
		return [][]c14wLit{{{v, pol}}}, true
	}
	and := func(a, b [][]c14wLit) ([][]c14wLit, bool) {
		var out [][]c14wLit
		for _, x := range a {
			for _, y := range b {
				out = append(out, append(append([]c14wLit{}, x...), y...))
			}
		}
		return out, len(out) <= 256
	}
	switch t := v.x.(type) {
	case *ast.UnaryExpr:
		if t.Op == token.NOT {
			return c14wDNF(v.with(t.X), !pol, depth+1)
		}
	case *ast.BinaryExpr:
		if t.Op == token.LAND || t.Op == token.LOR {
			a, ok1 := c14wDNF(v.with(t.X), pol, depth+1)
			b, ok2 := c14wDNF(v.with(t.Y), pol, depth+1)
			if !ok1 || !ok2 {
				return nil, false
			}
			if (t.Op == token.LAND) == pol {
				return and(a, b)
			}
			out := append(a, b...)
			return out, len(out) <= 256
		}
		return [][]c14wLit{{{v, pol}}}, true
	case *ast.Ident, *ast.CallExpr:
		if c14IsBool(v.sc.info.TypeOf(t)) {
			if id, ok := t.(*ast.Ident); ok {
				if _, isConst := v.sc.info.ObjectOf(id).(*types.Const); isConst {
					break
				}
			}
			w := v.canon()
			w.x = unparen(w.x)
			if w.x != v.x {
				return c14wDNF(w, pol, depth+1)
			}
		}
	}
	return [][]c14wLit{{{v, pol}}}, true
}

// c14wOutside: does the literal imply coord >= dim (coord of the same axis as dim), or coord < 0?
func c14wOutside(l c14wLit, colT, rowT, wT, hT string) bool {
	be, ok := unparen(l.v.x).(*ast.BinaryExpr)
	if !ok {
		return false
	}
	op := be.Op
	switch op {
	case token.LSS, token.LEQ, token.GTR, token.GEQ, token.EQL, token.NEQ:
	default:
		return false
	}
	if !l.pol {
		op = negOp(op)
	}
	a, b := l.v.with(be.X).term(), l.v.with(be.Y).term()
	ge := func(x, y string) bool { // x >= y implied?
		switch {
		case a == x && b == y:
			return op == token.GEQ || op == token.GTR || op == token.EQL
		case a == y && b == x:
			return op == token.LEQ || op == token.LSS || op == token.EQL
		}
		return false
	}
	if ge(colT, wT) || ge(rowT, hT) {
		return true
	}
	// signed coordinates: coord < 0
	isZero := func(x ast.Expr) bool {
		k, ok := constInt(l.v.sc.info, x)
		return ok && k == 0
	}
	for _, ct := range []string{colT, rowT} {
		if a == ct && isZero(be.Y) && op == token.LSS {
			return true
		}
		if b == ct && isZero(be.X) && op == token.GTR {
			return true
		}
	}
	return false
}

func c14wLitString(l c14wLit) string {
	s := types.ExprString(l.v.x)
	if !l.pol {
		return "!(" + s + ")"
	}
	return s
}

func c14NoDroppedWrite(c *Ctx) {
	c.Clauses = append(c.Clauses, "C14.g a write inside the surface is never dropped: every path of WriteCell from its entry to an exit that passes no store into Buffer takes a branch whose condition (DNF; flags and predicate helpers resolved) implies col >= Width or row >= Height in each disjunct; an exit that depends on anything else (the cell's content or width) is violated")
	c.expect("C14.g", 1)
	const fn = "vxfw.(*Surface).WriteCell"
	e := &c14Env{c: &Ctx{P: c.P, counts: map[string]int{}, minima: map[string]int{}}, sizeFns: map[*FuncInfo]bool{}, surfFnsDone: map[*FuncInfo]bool{}, seenKey: map[string]bool{}, inlining: map[*FuncInfo]bool{}}
	if !e.setup() {
		c.undecided("C14.g", fn, 0, "vxfw types not found")
		return
	}
	e.c = c
	key := fn + "/no exit before the store inside the surface"
	fi := c.P.Func(fn)
	if fi == nil || fi.Decl.Body == nil {
		c.undecided("C14.g", key, 0, "function not found")
		return
	}
	sc := e.scopeOf(fi)
	info := sc.info
	g := c.P.Graph(fi)
	recv := c14RecvObj(info, fi.Decl)
	if recv == nil {
		c.undecided("C14.g", key, fi.Decl.Pos(), "unnamed receiver")
		return
	}
	params := c14Params(info, fi.Decl)
	isStore := func(n ast.Node) bool {
		as, ok := n.(*ast.AssignStmt)
		if !ok {
			return false
		}
		for _, l := range as.Lhs {
			if ch := bufIndexChain(info, l, e.fBuffer); ch != nil && len(ch.idx) > 0 {
				return true
			}
		}
		return false
	}
	wID, hID := c14ID(recv, "Size.Width"), c14ID(recv, "Size.Height")
	// the roles of the parameters: from the index of the store of the addressed cell
	ri, ci := -1, -1
	for _, h := range g.Find(isStore) {
		as := h.Node.(*ast.AssignStmt)
		for _, l := range as.Lhs {
			ch := bufIndexChain(info, l, e.fBuffer)
			if ch == nil || len(ch.idx) != 1 {
				continue
			}
			vd := e.wcEval(fi, sc, g).verdict(h.Loc, ch.idx[0], wID, params)
			if vd.kind == "addr" && vd.ri >= 0 && vd.ci >= 0 && ri < 0 {
				ri, ci = vd.ri, vd.ci
			}
		}
	}
	if ri < 0 || ci < 0 || ri == ci || params[ri] == nil || params[ci] == nil {
		// no store of the addressed cell at all: C14.b / C14.f report that; this rule has nothing to anchor col/row on
		c.undecided("C14.g", key, fi.Decl.Pos(), "no store at index row*Width+col found in WriteCell: the coordinate parameters cannot be identified")
		return
	}
	colT, rowT := c14ID(params[ci], ""), c14ID(params[ri], "")

	storeBlock := map[*cfg.Block]bool{}
	for _, b := range g.Blocks {
		for _, n := range b.Nodes {
			if containsNode(n, isStore) {
				storeBlock[b] = true
			}
		}
	}
	type pc struct {
		x   ast.Expr
		pol bool
	}
	justified := func(conds []pc) (bool, bool) {
		for _, cd := range conds {
			dnf, ok := c14wDNF(sc.v(cd.x), cd.pol, 0)
			if !ok {
				continue
			}
			all := len(dnf) > 0
			for _, conj := range dnf {
				has := false
				for _, l := range conj {
					if c14wOutside(l, colT, rowT, wID, hID) {
						has = true
						break
					}
				}
				if !has {
					all = false
					break
				}
			}
			if all {
				return true, true
			}
		}
		return false, true
	}
	describe := func(conds []pc) string {
		var parts []string
		for _, cd := range conds {
			s := types.ExprString(cd.x)
			if !cd.pol {
				s = "!(" + s + ")"
			}
			parts = append(parts, s)
		}
		if len(parts) == 0 {
			return "unconditionally"
		}
		return "when " + strings.Join(parts, " && ")
	}
	paths, exits := 0, 0
	var badPath []pc
	var badPos token.Pos
	found := false
	onPath := map[*cfg.Block]bool{}
	overflow := false
	var dfs func(b *cfg.Block, conds []pc)
	dfs = func(b *cfg.Block, conds []pc) {
		if overflow || onPath[b] || !b.Live {
			return
		}
		if storeBlock[b] {
			return
		}
		if len(b.Succs) == 0 {
			paths++
			if paths > 4096 {
				overflow = true
				return
			}
			exits++
			if ok, _ := justified(conds); !ok && !found {
				found = true
				badPath = append([]pc{}, conds...)
				badPos = fi.Decl.Body.Rbrace
				if len(b.Nodes) > 0 {
					badPos = b.Nodes[len(b.Nodes)-1].Pos()
				}
			}
			return
		}
		onPath[b] = true
		cond := g.BranchCond(b)
		for i, s := range b.Succs {
			next := conds
			if cond != nil && cond.Tag == nil && cond.Alts == nil && len(b.Succs) == 2 {
				next = append(append([]pc{}, conds...), pc{cond.Expr, i == 0})
			}
			dfs(s, next)
		}
		delete(onPath, b)
	}
	dfs(g.Blocks[0], nil)
	switch {
	case overflow:
		c.undecided("C14.g", key, fi.Decl.Pos(), "more than 4096 paths through WriteCell")
	case found:
		c.bad("C14.g", key, badPos, "WriteCell leaves without storing into %s.Buffer %s: none of these conditions implies %s >= %s.Size.Width or %s >= %s.Size.Height, so a write addressed to a cell INSIDE the surface is silently dropped", recv.Name(), describe(badPath), params[ci].Name(), recv.Name(), params[ri].Name(), recv.Name())
	default:
		c.ok("C14.g", key, fi.Decl.Pos(), "%d exit path(s) without a store, each under a condition implying %s >= Width or %s >= Height", exits, params[ci].Name(), params[ri].Name())
	}
}
