package main

// c11o — rule C11.o: Print and Wrap start a new row at column 0 at every line break, wherever the line break sits.
//
// "The text helpers ... start a new row at a line break." Print tests every cluster of a Segment for a line break
// itself. Wrap cuts each Segment's text into line segments with uniseg's resumable line segmenter and the clusters of a
// line segment with Characters; whether a line break starts a new row there depends on how Wrap reads what the segmenter
// tells it, and the segmenter's answer depends on WHERE in a Segment the line break sits:
//
//   - in the interior of a text    the line segment ends after the terminator and mustBreak is true
//   - last character of the text   the line segment is the rest of the text, rest is empty, and mustBreak is true for
//     EVERY text (LB3, end of text) — it says nothing about a terminator
//   - first character of a later Segment, the segmenter called with the state the previous Segment's last call returned:
//     that state (lbAny) classifies the first rune, so the terminator is cut off as a line segment of its own with
//     mustBreak false (followed by a letter) or stays in front of the blanks that follow it (LB7), in the MIDDLE of a
//     line segment
//
// A Wrap that derives the new row from mustBreak (and discounts the end of the text), or that looks only at the last
// cluster of a line segment, is right in the first case only; the per-cluster test uniseg.HasTrailingLineBreakInString
// is right in all of them. The syntactic rule C11.k judges a branch it recognises as the line-break branch on every
// path; a helper without such a branch is judged here, by what it does (C11.k then takes its verdict from here).
//
// Necessary conditions, for every list of Segments and every window:
//
//	o1 reading order  the cells the call changed, read row by row, hold the printable clusters of the Segments in order
//	                  (a prefix of them: what does not fit is dropped at the end), each inside the window; a line
//	                  terminator is never stored in a cell
//	o2 new row        the first cluster placed after n line breaks lies at column 0, at least n rows below the cluster
//	                  placed before them (n rows below the top for leading line breaks)
//	o3 no panic       the call returns
//
// How it is decided: nothing of /repo is built or run. The helper is evaluated by the checker's own evaluator
// (c18_interp.go), together with everything it calls in the repository (Characters, Window.Size, Window.SetCell,
// screen.setCell), on a Window of a Vaxis value whose screens were made by newScreen/resize, for every text of up to
// c11oMaxLen tokens over {a, space, 世, LF, CR LF} cut into one or two Segments at every token boundary, on a narrow and
// a wide window. The uniseg functions are replaced by models: grapheme clusters as in C11.n (c11n.go), line segments by
// the transition table of uniseg v0.4.4 restricted to the classes of the alphabet (AL, ID, SP, BA, CM, LF, CR: LB3-LB7,
// LB9/10, LB18, LB21, LB28, LB31; compared with uniseg itself on all 66430 texts of up to 5 tokens and every state),
// with uniseg's real state values, so that a state carried from one Segment into the next has the effect it has in
// uniseg. The verdict is read off the screen cells (whatever buffer of vaxis.Cell the screens hold), so it does not
// depend on how the helper is written: loop forms, closures, a cursor object, helper functions, a test written with
// strings.ContainsRune / HasSuffix / utf8 are all the same to it.

import (
	"fmt"
	"go/ast"
	"go/token"
	"go/types"
	"strconv"
	"strings"
	"unicode"
	"unicode/utf8"
)

func init() { registerExtra("C11", c11WrapLineBreaks) }

const c11oMaxLen = 4

var c11oAlphabet = []string{"a", " ", "世", "\n", "\r\n"}

// ---- the line segmenter of uniseg v0.4.4 on the classes of the alphabet

// states (uniseg's own numbers: they are what a caller carries from one call into the next)
const (
	c11oAny  = 0
	c11oCR   = 2
	c11oLF   = 3
	c11oSP   = 5
	c11oBA   = 9
	c11oAL   = 27
	c11oIDEM = 31
)

// properties
const (
	c11oPrAny = iota
	c11oPrAL
	c11oPrID
	c11oPrSP
	c11oPrBA
	c11oPrCM
	c11oPrLF
	c11oPrCR
)

const (
	c11oDont = 0
	c11oCan  = 1
	c11oMust = 2
)

func c11oProp(r rune) (int, bool) {
	switch r {
	case 'a', 'b', 'c', 'd':
		return c11oPrAL, true
	case '世':
		return c11oPrID, true
	case ' ':
		return c11oPrSP, true
	case '\t':
		return c11oPrBA, true
	case 0x301:
		return c11oPrCM, true
	case '\n':
		return c11oPrLF, true
	case '\r':
		return c11oPrCR, true
	}
	return 0, false
}

// the rows of uniseg's lbTransitions that mention only these states and properties (the later of two rows with the
// same key wins, as in the map literal): {state, property} -> {new state, break, rule number}
var c11oTransitions = map[[2]int][3]int{
	{c11oAny, c11oPrCR}: {c11oCR, c11oDont, 60},
	{c11oAny, c11oPrLF}: {c11oLF, c11oDont, 60},
	{c11oCR, c11oPrLF}:  {c11oLF, c11oDont, 50},
	{c11oCR, c11oPrAny}: {c11oAny, c11oMust, 50},
	{c11oLF, c11oPrAny}: {c11oAny, c11oMust, 50},
	{c11oAny, c11oPrSP}: {c11oSP, c11oDont, 70},
	{c11oSP, c11oPrAny}: {c11oAny, c11oCan, 180},
	{c11oAny, c11oPrBA}: {c11oBA, c11oDont, 210},
	{c11oAny, c11oPrAL}: {c11oAL, c11oCan, 310},
	{c11oAny, c11oPrID}: {c11oIDEM, c11oCan, 310},
	{c11oAL, c11oPrAL}:  {c11oAL, c11oDont, 280},
}

func c11oKnownState(s int) bool {
	switch s {
	case c11oAny, c11oCR, c11oLF, c11oSP, c11oBA, c11oAL, c11oIDEM:
		return true
	}
	return s < 0
}

// c11oTransition is uniseg's transitionLineBreakState for a rune of the alphabet.
func c11oTransition(state int, prop int) (newState, lineBreak int) {
	if prop == c11oPrCM {
		mustBreakState := state < 0 || state == c11oCR || state == c11oLF
		if !mustBreakState && state != c11oSP {
			return state, c11oDont // LB9
		}
		if mustBreakState {
			return c11oAL, c11oMust // LB10
		}
		return c11oAL, c11oCan
	}
	if t, ok := c11oTransitions[[2]int{state, prop}]; ok {
		return t[0], t[1]
	}
	anyProp, okAnyProp := c11oTransitions[[2]int{state, c11oPrAny}]
	anyState, okAnyState := c11oTransitions[[2]int{c11oAny, prop}]
	switch {
	case okAnyProp && okAnyState:
		newState, lineBreak = anyState[0], anyState[1]
		if anyProp[2] < anyState[2] {
			lineBreak = anyProp[1]
		}
	case okAnyProp:
		newState, lineBreak = anyProp[0], anyProp[1]
	case okAnyState:
		newState, lineBreak = anyState[0], anyState[1]
	default:
		newState, lineBreak = c11oAny, c11oCan
	}
	return
}

// c11oFirstLineSegment is uniseg.FirstLineSegmentInString on a text over the alphabet; ok=false for another text or a
// state the model does not know.
func c11oFirstLineSegment(str string, state int) (segment, rest string, mustBreak bool, newState int, ok bool) {
	if len(str) == 0 {
		return "", "", false, 0, true
	}
	if !c11oKnownState(state) {
		return "", "", false, 0, false
	}
	r, length := utf8.DecodeRuneInString(str)
	p, known := c11oProp(r)
	if !known {
		return "", "", false, 0, false
	}
	if len(str) <= length {
		return str, "", true, c11oAny, true // LB3
	}
	if state < 0 {
		state, _ = c11oTransition(state, p)
	}
	for {
		r, l := utf8.DecodeRuneInString(str[length:])
		p, known := c11oProp(r)
		if !known {
			return "", "", false, 0, false
		}
		var boundary int
		state, boundary = c11oTransition(state, p)
		if boundary != c11oDont {
			return str[:length], str[length:], boundary == c11oMust, state, true
		}
		length += l
		if len(str) <= length {
			return str, "", true, c11oAny, true // LB3
		}
	}
}

// c11oHasTrailingLineBreak is uniseg.HasTrailingLineBreakInString (LB4/LB5: BK, CR, LF, NL).
func c11oHasTrailingLineBreak(s string) bool {
	r, _ := utf8.DecodeLastRuneInString(s)
	switch r {
	case '\n', '\r', '\v', '\f', 0x85, 0x2028, 0x2029:
		return len(s) > 0
	}
	return false
}

// ---- the uniseg model of one run: line segments here, grapheme clusters and widths by the model of C11.n

type c11oModel struct {
	g        c11nModel
	lineCall int
}

func (u *c11oModel) ext(m *c18Machine, fr *c18Frame, full string, call *ast.CallExpr) (c18Val, bool) {
	const pkg = "github.com/rivo/uniseg."
	str := func(i int) string {
		v := m.eval(fr, call.Args[i])
		if v.k != c18Str {
			m.abort("%s on a string the evaluator does not know", full)
		}
		return v.s
	}
	num := func(i int) int64 {
		v := m.eval(fr, call.Args[i])
		if v.k != c18Int {
			m.abort("%s on a number the evaluator does not know", full)
		}
		return v.i
	}
	// the pure string functions a line-break test may be written with
	switch full {
	case "strings.ContainsRune":
		return c18BoolV(strings.ContainsRune(str(0), rune(num(1)))), true
	case "strings.ContainsAny":
		return c18BoolV(strings.ContainsAny(str(0), str(1))), true
	case "strings.IndexRune":
		return c18IntV(int64(strings.IndexRune(str(0), rune(num(1))))), true
	case "strings.IndexByte":
		return c18IntV(int64(strings.IndexByte(str(0), byte(num(1))))), true
	case "strings.IndexAny":
		return c18IntV(int64(strings.IndexAny(str(0), str(1)))), true
	case "strings.LastIndexByte":
		return c18IntV(int64(strings.LastIndexByte(str(0), byte(num(1))))), true
	case "strings.LastIndex":
		return c18IntV(int64(strings.LastIndex(str(0), str(1)))), true
	case "strings.Count":
		return c18IntV(int64(strings.Count(str(0), str(1)))), true
	case "strings.TrimRight":
		return c18StrV(strings.TrimRight(str(0), str(1))), true
	case "strings.TrimLeft":
		return c18StrV(strings.TrimLeft(str(0), str(1))), true
	case "unicode/utf8.RuneCountInString":
		return c18IntV(int64(utf8.RuneCountInString(str(0)))), true
	case "unicode/utf8.DecodeRuneInString":
		r, n := utf8.DecodeRuneInString(str(0))
		return c18Val{k: c18Tuple, ref: []c18Val{c18IntV(int64(r)), c18IntV(int64(n))}}, true
	case "unicode/utf8.DecodeLastRuneInString":
		r, n := utf8.DecodeLastRuneInString(str(0))
		return c18Val{k: c18Tuple, ref: []c18Val{c18IntV(int64(r)), c18IntV(int64(n))}}, true
	case "unicode.IsControl":
		return c18BoolV(unicode.IsControl(rune(num(0)))), true
	case "unicode.IsSpace":
		return c18BoolV(unicode.IsSpace(rune(num(0)))), true
	}
	if !strings.HasPrefix(full, pkg) {
		return c18Val{}, false
	}
	switch strings.TrimPrefix(full, pkg) {
	case "HasTrailingLineBreakInString":
		return c18BoolV(c11oHasTrailingLineBreak(str(0))), true
	case "FirstLineSegmentInString":
		s := str(0)
		st := m.eval(fr, call.Args[1])
		if st.k != c18Int {
			m.abort("%s with a state the evaluator does not know", full)
		}
		u.lineCall++
		if u.lineCall > u.g.limit {
			u.g.runaway = true
			m.abort("line segmenter called %d times", u.lineCall)
		}
		seg, rest, must, ns, ok := c11oFirstLineSegment(s, int(st.i))
		if !ok {
			m.abort("%s(%q, %d): not a text and a state of the modelled alphabet", full, s, st.i)
		}
		return c18Val{k: c18Tuple, ref: []c18Val{c18StrV(seg), c18StrV(rest), c18BoolV(must), c18IntV(int64(ns))}}, true
	case "StepString", "Step", "FirstLineSegment", "HasTrailingLineBreak":
		// (StepString reports line breaks in the low bits of its third result, which the cluster model does not compute)
		m.abort("%s: no model of this form of the line segmenter", full)
	}
	return u.g.ext(m, fr, full, call)
}

// ---- the inputs

type c11oInput struct {
	segs       []string
	cols, rows int
}

func (in c11oInput) String() string {
	var parts []string
	for _, s := range in.segs {
		parts = append(parts, "{"+strconv.Quote(s)+"}")
	}
	return fmt.Sprintf("(%s) on a window of %d columns and %d rows", strings.Join(parts, ", "), in.cols, in.rows)
}

func c11oInputs() []c11oInput {
	var texts [][]string
	var gen func(cur []string, n int)
	gen = func(cur []string, n int) {
		if len(cur) == n {
			texts = append(texts, append([]string{}, cur...))
			return
		}
		for _, g := range c11oAlphabet {
			gen(append(cur, g), n)
		}
	}
	for n := 1; n <= c11oMaxLen; n++ {
		gen(nil, n)
	}
	var out []c11oInput
	// the shapes of the three positions of a line break first (they give the shortest report)
	for _, segs := range [][]string{{"ab\n", "cd"}, {"ab", "\ncd"}, {"ab\ncd"}} {
		out = append(out, c11oInput{segs, 9, 6})
	}
	for _, size := range [][2]int{{9, 6}, {3, 4}} {
		for _, toks := range texts {
			out = append(out, c11oInput{[]string{strings.Join(toks, "")}, size[0], size[1]})
			for k := 0; k < len(toks); k++ {
				// (k == 0: an empty first Segment)
				out = append(out, c11oInput{[]string{strings.Join(toks[:k], ""), strings.Join(toks[k:], "")}, size[0], size[1]})
			}
		}
	}
	return out
}

// c11oItem: one cluster of the Segments in reading order.
type c11oItem struct {
	g      string
	breaks int // line-break clusters between the previous printable cluster and this one
}

// c11oExpected: the printable clusters of the Segments, each with the number of line breaks in front of it; ok=false
// if a text is not over the alphabet.
func c11oExpected(segs []string) (items []c11oItem, ok bool) {
	breaks := 0
	for _, s := range segs {
		toks, fine := c11nTokens(s)
		if !fine {
			return nil, false
		}
		for _, ch := range c11nExpected(toks) {
			switch {
			case c11oHasTrailingLineBreak(ch.g):
				breaks++
			case ch.g == "\t":
				for i := 0; i < 8; i++ {
					items = append(items, c11oItem{" ", breaks})
					breaks = 0
				}
			default:
				items = append(items, c11oItem{ch.g, breaks})
				breaks = 0
			}
		}
	}
	return items, true
}

// ---- the world Wrap runs in

type c11oWorld struct {
	m        *c18Machine
	wrap     *FuncInfo
	newScr   *FuncInfo
	resize   *FuncInfo
	winT     *types.Struct
	vxT      types.Type
	segT     types.Type
	scrField []int // fields of Vaxis of type *screen
}

const c11oMargin = 1 // the window sits at (1, 1) of a screen that is larger by one cell on every side

// c11oGrapheme finds the Grapheme of a cell value.
func c11oGrapheme(v c18Val, depth int) (string, bool) {
	if v.k != c18Struct || depth > 3 {
		return "", false
	}
	sv := v.strct()
	for i := 0; i < sv.t.NumFields(); i++ {
		if sv.t.Field(i).Name() == "Grapheme" {
			if f := sv.field(i); f.k == c18Str {
				return f.s, true
			}
			return "", false
		}
	}
	for i := 0; i < sv.t.NumFields(); i++ {
		if _, isStruct := sv.t.Field(i).Type().Underlying().(*types.Struct); isStruct && sv.t.Field(i).Embedded() {
			if g, ok := c11oGrapheme(*sv.field(i), depth+1); ok {
				return g, true
			}
		}
	}
	return "", false
}

type c11oCell struct {
	row, col int // screen coordinates
	g        string
}

// cells lists the non-empty cells of a screen value row by row; msg != "" if the screen is not understood.
func (w *c11oWorld) cells(scr c18Val, scols, srows int) (out []c11oCell, msg string) {
	if scr.k != c18Ptr || scr.ptr() == nil || scr.ptr().k != c18Struct {
		return nil, "a screen of the Vaxis value is not a pointer to a struct"
	}
	sv := scr.ptr().strct()
	isCell := func(t types.Type) bool { return c15IsNamed(t, modPath, "Cell") }
	for i := 0; i < sv.t.NumFields(); i++ {
		sl, ok := sv.t.Field(i).Type().Underlying().(*types.Slice)
		if !ok {
			continue
		}
		fv := *sv.field(i)
		if inner, ok := sl.Elem().Underlying().(*types.Slice); ok && isCell(inner.Elem()) {
			// rows of cells
			if fv.k != c18Slice {
				return nil, "the cell buffer of the screen is not a slice the evaluator knows"
			}
			rows := fv.slice()
			for r := rows.lo; r < rows.hi; r++ {
				rv := (*rows.arr)[r]
				if rv.k == c18Nil {
					continue
				}
				if rv.k != c18Slice {
					return nil, "a row of the screen is not a slice the evaluator knows"
				}
				line := rv.slice()
				for cidx := line.lo; cidx < line.hi; cidx++ {
					g, ok := c11oGrapheme((*line.arr)[cidx], 0)
					if !ok {
						return nil, "the Grapheme of a screen cell is not known to the evaluator"
					}
					if g != "" {
						out = append(out, c11oCell{r - rows.lo, cidx - line.lo, g})
					}
				}
			}
			return out, ""
		}
		if isCell(sl.Elem()) {
			// one flat buffer, row after row
			if fv.k != c18Slice {
				return nil, "the cell buffer of the screen is not a slice the evaluator knows"
			}
			flat := fv.slice()
			if flat.hi-flat.lo != scols*srows {
				return nil, "a flat cell buffer whose length is not columns x rows"
			}
			for k := flat.lo; k < flat.hi; k++ {
				g, ok := c11oGrapheme((*flat.arr)[k], 0)
				if !ok {
					return nil, "the Grapheme of a screen cell is not known to the evaluator"
				}
				if g != "" {
					out = append(out, c11oCell{(k - flat.lo) / scols, (k - flat.lo) % scols, g})
				}
			}
			return out, ""
		}
	}
	return nil, "no buffer of vaxis.Cell found in the screen"
}

func c11oSetup(c *Ctx, fn string) (*c11oWorld, string) {
	w := &c11oWorld{}
	w.wrap = c.P.Func(fn)
	if w.wrap == nil || w.wrap.Decl.Body == nil {
		return nil, fn + " not found"
	}
	w.newScr = c.P.Func("vaxis.newScreen")
	w.resize = c.P.Func("vaxis.(*screen).resize")
	if w.newScr == nil || w.resize == nil {
		return nil, "vaxis.newScreen / vaxis.(*screen).resize not found (the rule makes the screen Wrap draws on with them)"
	}
	sig := w.wrap.Obj.Type().(*types.Signature)
	if sig.Recv() == nil || sig.Params().Len() != 1 || !sig.Variadic() {
		return nil, fn + " is not a method with one variadic parameter"
	}
	rt := sig.Recv().Type()
	if p, ok := rt.(*types.Pointer); ok {
		rt = p.Elem()
	}
	wt, ok := rt.Underlying().(*types.Struct)
	if !ok {
		return nil, "the receiver of " + fn + " is not a struct"
	}
	w.winT = wt
	w.segT = sig.Params().At(0).Type().(*types.Slice).Elem()
	if st, ok := w.segT.Underlying().(*types.Struct); !ok || func() bool {
		for i := 0; i < st.NumFields(); i++ {
			if st.Field(i).Name() == "Text" {
				return false
			}
		}
		return true
	}() {
		return nil, "the elements " + fn + " takes are not structs with a Text"
	}
	for i := 0; i < wt.NumFields(); i++ {
		if c15IsNamed(wt.Field(i).Type(), modPath, "Vaxis") {
			if p, ok := wt.Field(i).Type().(*types.Pointer); ok {
				w.vxT = p.Elem()
			}
		}
	}
	if w.vxT == nil {
		return nil, "Window has no *Vaxis field"
	}
	vs, ok := w.vxT.Underlying().(*types.Struct)
	if !ok {
		return nil, "Vaxis is not a struct"
	}
	for i := 0; i < vs.NumFields(); i++ {
		if _, isPtr := vs.Field(i).Type().(*types.Pointer); isPtr && c15IsNamed(vs.Field(i).Type(), modPath, "screen") {
			w.scrField = append(w.scrField, i)
		}
	}
	if len(w.scrField) == 0 {
		return nil, "Vaxis has no *screen field"
	}
	return w, ""
}

// window builds Window{Vx: &Vaxis{every *screen: newScreen() resized, caps: all set}, Column: 1, Row: 1, Width: cols,
// Height: rows}; to be called under m.protect.
func (w *c11oWorld) window(cols, rows int) (win c18Val, vx *c18Val) {
	m := w.m
	vxv := c18Zero(w.vxT)
	vs := vxv.strct()
	for _, i := range w.scrField {
		ret := m.callFunc(w.newScr, nil, nil, false)
		if len(ret) != 1 || ret[0].k != c18Ptr || ret[0].ptr() == nil {
			m.abort("newScreen does not return a pointer to a screen")
		}
		scr := ret[0]
		m.callFunc(w.resize, &scr, []c18Val{c18IntV(int64(cols + 2*c11oMargin)), c18IntV(int64(rows + 2*c11oMargin))}, false)
		*vs.field(i) = scr
	}
	// the terminal measures like uniseg: the widths Characters found are used as they are. (Every capability is set;
	// with them unset Wrap asks Vaxis.characterWidth, which measures through the terminal's own method.)
	for i := 0; i < vs.t.NumFields(); i++ {
		if c15IsNamed(vs.t.Field(i).Type(), modPath, "capabilities") {
			if cv := vs.field(i); cv.k == c18Struct {
				cs := cv.strct()
				for j := 0; j < cs.t.NumFields(); j++ {
					if b, ok := cs.t.Field(j).Type().Underlying().(*types.Basic); ok && b.Info()&types.IsBoolean != 0 {
						*cs.field(j) = c18BoolV(true)
					}
				}
			}
		}
		// a cache of measured widths, should a Wrap consult it all the same
		if mt, ok := vs.t.Field(i).Type().Underlying().(*types.Map); ok {
			kb, kok := mt.Key().Underlying().(*types.Basic)
			vb, vok := mt.Elem().Underlying().(*types.Basic)
			if kok && vok && kb.Kind() == types.String && vb.Kind() == types.Int {
				mv := c18NewMap(mt)
				for _, g := range []string{"a", "b", "c", "d", " ", "世", "\n", "\r\n", "\r"} {
					wd := c18IntV(int64(c11nTokWidth(g)))
					mv.mp().keys = append(mv.mp().keys, c18StrV(g))
					mv.mp().vals = append(mv.mp().vals, &wd)
				}
				*vs.field(i) = mv
			}
		}
	}
	win = c18Val{k: c18Struct, ref: &c18StructV{t: w.winT, f: make([]*c18Val, w.winT.NumFields())}}
	ws := win.strct()
	set := func(name string, v c18Val) {
		f := ws.fieldByName(name)
		if f == nil {
			m.abort("Window has no field %s", name)
		}
		*f = v
	}
	for i := 0; i < w.winT.NumFields(); i++ {
		if c15IsNamed(w.winT.Field(i).Type(), modPath, "Vaxis") {
			*ws.field(i) = c18PtrV(&vxv)
		}
	}
	set("Column", c18IntV(c11oMargin))
	set("Row", c18IntV(c11oMargin))
	set("Width", c18IntV(int64(cols)))
	set("Height", c18IntV(int64(rows)))
	return win, &vxv
}

type c11oFail struct {
	input string
	what  string
	count int
}

// c11oResult: what the evaluation of one text helper found.
type c11oResult struct {
	short     string // Print | Wrap
	pos       token.Pos
	setup     string // != "": the world could not be built
	undecided string // != "": a run could not be evaluated
	noCells   bool   // no cluster was seen in a cell after a line break
	fails     map[string]*c11oFail
	runs      int
	lineCalls int
	placed    int
	afterBrk  int
}

// decided: the evaluation ran on every input and saw what the helper draws.
func (r *c11oResult) decided() bool {
	return r.setup == "" && r.undecided == "" && (!r.noCells || len(r.fails) > 0)
}

// c11oFirstFail: the failure of the first of the given conditions that failed.
func c11oFirstFail(r *c11oResult, ids ...string) *c11oFail {
	for _, id := range ids {
		if f := r.fails[id]; f != nil {
			return f
		}
	}
	return nil
}

var c11oCache = map[*Program]map[string]*c11oResult{}

// c11oEvaluate evaluates the text helper vaxis.Window.<short> on all inputs (once per loaded program).
func c11oEvaluate(c *Ctx, short string) *c11oResult {
	if r := c11oCache[c.P][short]; r != nil {
		return r
	}
	r := c11oRun(c, short)
	if c11oCache[c.P] == nil {
		c11oCache[c.P] = map[string]*c11oResult{}
	}
	c11oCache[c.P][short] = r
	return r
}

func c11oRun(c *Ctx, short string) *c11oResult {
	res := &c11oResult{short: short, fails: map[string]*c11oFail{}}
	w, msg := c11oSetup(c, "vaxis.Window."+short)
	if w == nil {
		res.setup = msg
		return res
	}
	res.pos = w.wrap.Decl.Pos()
	u := &c11oModel{}
	m := newC18Machine(c.P)
	m.trace = false
	m.ext = u.ext
	m.extSegmenter = true
	w.m = m
	fail := func(id string, in c11oInput, format string, a ...any) {
		if res.fails[id] == nil {
			res.fails[id] = &c11oFail{input: short + in.String(), what: fmt.Sprintf(format, a...)}
		}
		res.fails[id].count++
	}
	for _, in := range c11oInputs() {
		want, ok := c11oExpected(in.segs)
		if !ok {
			continue
		}
		total := 0
		for _, s := range in.segs {
			total += len(s)
		}
		u.g.reset(8*total + 64)
		u.lineCall = 0
		var vx *c18Val
		pmsg, amsg := m.protect(func() {
			win, v := w.window(in.cols, in.rows)
			vx = v
			args := make([]c18Val, len(in.segs))
			for i, s := range in.segs {
				sv := c18Zero(w.segT)
				*sv.strct().fieldByName("Text") = c18StrV(s)
				args[i] = sv
			}
			m.callFunc(w.wrap, &win, args, false)
		})
		res.runs++
		res.lineCalls += u.lineCall
		if u.g.runaway {
			fail("o3", in, "does not come to an end: the segmenter is called more than %d times", u.g.limit)
			continue
		}
		if amsg != "" {
			res.undecided = "on " + short + in.String() + ": " + amsg
			return res
		}
		if pmsg != "" {
			fail("o3", in, "panics (%s)", pmsg)
			continue
		}
		var cells []c11oCell
		for _, i := range w.scrField {
			cs, msg := w.cells(*vx.strct().field(i), in.cols+2*c11oMargin, in.rows+2*c11oMargin)
			if msg != "" {
				res.undecided = "on " + short + in.String() + ": " + msg
				return res
			}
			cells = append(cells, cs...)
		}
		// o1 and the alignment of cells with clusters
		matched := 0
		for k, cell := range cells {
			col, row := cell.col-c11oMargin, cell.row-c11oMargin
			where := fmt.Sprintf("the cell at column %d of row %d", col, row)
			if col < 0 || row < 0 || col >= in.cols || row >= in.rows {
				fail("o1", in, "%s, outside the window, is changed (to %s)", where, strconv.Quote(cell.g))
				break
			}
			if c11oHasTrailingLineBreak(cell.g) {
				fail("o1", in, "%s holds the line terminator %s as if it were printable (a terminator has no place in a cell: it is the instruction to start a new row)", where, strconv.Quote(cell.g))
				break
			}
			if k >= len(want) {
				fail("o1", in, "%s holds %s, which is no cluster of the text", where, strconv.Quote(cell.g))
				break
			}
			if cell.g != want[k].g {
				fail("o1", in, "%s holds %s where, in reading order, the cluster %s is due", where, strconv.Quote(cell.g), strconv.Quote(want[k].g))
				break
			}
			matched++
		}
		res.placed += matched
		// o2 on the aligned cells
		for k := 0; k < matched; k++ {
			if want[k].breaks == 0 {
				continue
			}
			res.afterBrk++
			col, row := cells[k].col-c11oMargin, cells[k].row-c11oMargin
			minRow, before := want[k].breaks, "the top of the window"
			if k > 0 {
				prow := cells[k-1].row - c11oMargin
				minRow = prow + want[k].breaks
				before = fmt.Sprintf("%s at column %d of row %d", strconv.Quote(cells[k-1].g), cells[k-1].col-c11oMargin, prow)
			}
			if col != 0 || row < minRow {
				fail("o2", in, "the cluster %s, which follows %d line break(s) after %s, is placed at column %d of row %d, not at column 0 of row %d or below: the line break starts no new row and the text after it continues where the text before it ended",
					strconv.Quote(cells[k].g), want[k].breaks, before, col, row, minRow)
				break
			}
		}
	}
	res.noCells = res.placed == 0 || res.afterBrk == 0
	return res
}

var c11oRules = []struct{ id, what string }{
	{"o1", "the changed cells hold the printable clusters in reading order, inside the window, never a line terminator"},
	{"o2", "the first cluster after a line break lies at column 0 of a new row, wherever the line break sits"},
	{"o3", "no panic"},
}

func c11WrapLineBreaks(c *Ctx) {
	c.Clauses = append(c.Clauses, "C11.o Print and Wrap, evaluated with everything they call on every text of up to 4 tokens over {letter, space, wide character, LF, CR LF} cut into one or two Segments at every token boundary, on a narrow and a wide window, with uniseg replaced by its definition on that alphabet (line segmenter with uniseg's own states, so a state carried into the next Segment acts as it does in uniseg): the changed cells, read row by row, hold the printable clusters in order inside the window and never a line terminator; the first cluster after n line breaks lies at column 0 at least n rows below the cluster before them, wherever the line break sits (inside a text, at its end, at the start of a later Segment); no panic")
	c.expect("C11.o", 6)
	for _, short := range []string{"Print", "Wrap"} {
		name := "vaxis.Window." + short
		r := c11oEvaluate(c, short)
		switch {
		case r.setup != "":
			c.undecided("C11.o", name+"/setup", r.pos, "%s", r.setup)
			continue
		case r.undecided != "":
			c.undecided("C11.o", name+"/evaluation", r.pos, "%s could not be evaluated %s", short, r.undecided)
			continue
		case !r.decided():
			c.undecided("C11.o", name+"/cells", r.pos, "in %d runs no cluster was found in a screen cell after a line break (%d clusters found in all): the rule cannot see what %s draws", r.runs, r.placed, short)
			continue
		}
		for _, rl := range c11oRules {
			key := name + "/" + rl.id + " " + rl.what
			if f := r.fails[rl.id]; f != nil {
				c.bad("C11.o", key, r.pos, "%s: %s (%d of %d inputs fail)", f.input, f.what, f.count, r.runs)
			} else {
				c.ok("C11.o", key, r.pos, "holds on all %d inputs: texts of up to %d tokens over {a, space, 世, LF, CR LF} as one or two Segments, windows of 9x6 and 3x4 (%d clusters placed, %d of them after a line break)", r.runs, c11oMaxLen, r.placed, r.afterBrk)
			}
		}
	}
}
