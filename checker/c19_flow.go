package main

// C19 support: predicate abstraction over a supergraph (the root function's go/cfg graph with small
// same-package helpers inlined at statement-level call sites), ghost typestate bits, and the ordering
// queries (must-precede / must-follow / reaches-avoiding) over the same supergraph.

import (
	"fmt"
	"go/ast"
	"go/token"
	"go/types"
	"math"
	"os"
	"sort"
	"strings"

	"golang.org/x/tools/go/cfg"
)

type c19Pred struct {
	kind  string // "le": base <= k   "eq": base == k   "bool": term is true
	base  *c19Lin
	k     int64
	term  *c19Term
	key   string
	bit   int
	terms []*c19Term
	bkey  string
	q1    *c19Query // le: base <= k ; eq: base <= k
	q2    *c19Query // eq: base <= k-1
}

func (p *c19Pred) atom() *c19Form {
	if p == nil {
		return nil
	}
	return &c19Form{op: 'a', p: p}
}

func (p *c19Pred) String() string {
	switch p.kind {
	case "le":
		return fmt.Sprintf("%s <= %d", p.base, p.k)
	case "eq":
		return fmt.Sprintf("%s == %d", p.base, p.k)
	}
	return types.ExprString(p.term.ex)
}

type c19Form struct {
	op byte // 'a' atom, 'n' not, '&', '|', 'T', 'F', 'U'
	p  *c19Pred
	xs []*c19Form
}

var (
	c19T = &c19Form{op: 'T'}
	c19F = &c19Form{op: 'F'}
	c19U = &c19Form{op: 'U'}
)

func c19Not(x *c19Form) *c19Form {
	switch x.op {
	case 'T':
		return c19F
	case 'F':
		return c19T
	case 'U':
		return c19U
	case 'n':
		return x.xs[0]
	}
	return &c19Form{op: 'n', xs: []*c19Form{x}}
}
func c19And(xs ...*c19Form) *c19Form { return &c19Form{op: '&', xs: xs} }
func c19Or(xs ...*c19Form) *c19Form  { return &c19Form{op: '|', xs: xs} }

func (f *c19Form) preds(out map[*c19Pred]bool) {
	if f.op == 'a' {
		out[f.p] = true
	}
	for _, x := range f.xs {
		x.preds(out)
	}
}

func (f *c19Form) String() string {
	switch f.op {
	case 'a':
		return f.p.String()
	case 'n':
		return "!(" + f.xs[0].String() + ")"
	case '&', '|':
		var s []string
		for _, x := range f.xs {
			s = append(s, x.String())
		}
		sep := " && "
		if f.op == '|' {
			sep = " || "
		}
		return "(" + strings.Join(s, sep) + ")"
	case 'T':
		return "true"
	case 'F':
		return "false"
	}
	return "?"
}

func c19Normalise(l *c19Lin) (base *c19Lin, c int64, flipped bool) {
	base = l.clone()
	base.k = 0
	c = l.k
	ids := base.ids()
	if len(ids) > 0 && base.coef[ids[0]] < 0 {
		base = base.neg()
		flipped = true
	}
	return
}

func c19BaseKey(b *c19Lin) string {
	var s []string
	for _, id := range b.ids() {
		s = append(s, fmt.Sprintf("%s*%d", id, b.coef[id]))
	}
	return strings.Join(s, "+")
}

type c19Effect struct {
	kind    byte // 'a' assignment, 'h' havoc below lhs, 'x' havoc everything
	lhs     c19Path
	lhsID   string
	rhs     *c19Lin
	rhsBool int
	rhsForm *c19Form // boolean right-hand side as a formula over predicates
	lhsEx   ast.Expr
	rhsEx   ast.Expr
	tok     token.Token
	plan    []c19Plan
	planned bool
}

type c19Plan struct {
	p    *c19Pred
	mode byte // 'u' unknown, 'b' constant, 's' substitution evaluated in the old state, 'f' formula evaluated in the old state
	val  int
	cs   *c19Cons
	f    *c19Form
}

// predicate bits occupy [0,16) (solve() admits at most 15), the ghost state of a rule the 16 bits above
const c19GhostShift = 16

// ---- supergraph

type c19SNode struct {
	n      ast.Node // nil for pseudo nodes (parameter binding, result transfer)
	fr     *c19Frame
	loc    Loc
	effs   []*c19Effect
	done   bool
	pseudo string
	skip   *ast.CallExpr // an inlined call inside n: its sub-tree belongs to the "bind" node
	// "ret" nodes: the caller's left-hand sides, the caller's frame and the callee's return statement
	retLhs  []ast.Expr
	retFr   *c19Frame
	retStmt *ast.ReturnStmt
	// "bind" nodes: pointer parameters of the inlined callee that are bound by value (c19BindByValue)
	ptrBinds []c19PtrBind
}

// c19PtrBind: a pointer parameter that the callee re-assigns, bound to a plain variable of the caller by value.
type c19PtrBind struct {
	param types.Object
	arg   ast.Expr // in the caller's frame
}

// c19BindByValue (set by a rule for the duration of its run): pointer parameter types that may be bound by
// value although the callee assigns the parameter. The predicates do not follow the aliasing this creates, the
// rule that sets the hook does (the pager's pending-line typestate tracks which variable holds which line).
var c19BindByValue func(t types.Type) bool

func (sn *c19SNode) pos() token.Pos {
	switch {
	case sn.n != nil:
		return sn.n.Pos()
	case sn.retStmt != nil:
		return sn.retStmt.Pos()
	}
	return token.NoPos
}

func (sn *c19SNode) short() string {
	switch {
	case sn.n != nil:
		return c19Short(sn.n)
	case sn.retStmt != nil:
		return "return of " + sn.fr.fi.Decl.Name.Name
	}
	return sn.pseudo
}

type c19SBlk struct {
	id    int
	nodes []*c19SNode
	succs []*c19SBlk
	cnd   *Cond
	fr    *c19Frame
	form  *c19Form
	rng   *ast.RangeStmt
	rngEf []*c19Effect
	rngOK bool
	exit  bool
	loop  bool // the first block of a loop body (for / range)
	in    map[uint32]bool
}

type c19Pos struct {
	b *c19SBlk
	i int
}

type c19Hit struct {
	c19Pos
	sn   *c19SNode
	node ast.Node
}

type c19Flow struct {
	c      *Ctx
	fi     *FuncInfo
	g      *FG
	info   *types.Info
	bounds c19Bounds

	blks    []*c19SBlk
	rootPos map[Loc]c19Pos
	inlined map[*ast.CallExpr]bool
	nFrames int
	allow   func(*FuncInfo) bool // which helpers may be inlined

	all      map[string]*c19Pred
	tracked  []*c19Pred
	groups   map[string][]*c19Pred
	seeds    map[string]bool
	seedRoot map[types.Object]bool
	// guardSeed: seeds that are relevant only because a condition on the way to a goal mentions them (rank 1 when
	// the predicate set has to be cut down to the limit; the terms of the goals themselves have rank 0)
	guardSeed map[string]bool
	inGuard   bool
	dropped   int // predicates left out because more than the limit were relevant (the farthest from the goals)

	ghostInit uint32
	ghost     func(sn *c19SNode, st uint32) []uint32
	// ghostEdge (optional): the ghost state after taking the edge from b to its k-th successor s (events that are
	// edges of the graph: a branch of a condition taken, a loop body entered)
	ghostEdge func(b *c19SBlk, k int, s *c19SBlk, st uint32) uint32
	feasibleX func(fl *c19Flow, st uint32) bool

	feas    map[uint32]bool
	queries map[string]*c19Query
	bcache  map[string][2]float64
	err     string
	solved  bool
}

func c19NewFlow(c *Ctx, fi *FuncInfo, bounds c19Bounds, allow func(*FuncInfo) bool) *c19Flow {
	g := c19Graph(c, fi)
	fl := &c19Flow{c: c, fi: fi, g: g, info: g.Info, bounds: bounds, allow: allow, rootPos: map[Loc]c19Pos{}, inlined: map[*ast.CallExpr]bool{},
		all: map[string]*c19Pred{}, groups: map[string][]*c19Pred{}, seeds: map[string]bool{}, seedRoot: map[types.Object]bool{}, guardSeed: map[string]bool{},
		feas: map[uint32]bool{}, queries: map[string]*c19Query{}, bcache: map[string][2]float64{}}
	root := &c19Frame{fi: fi, g: g}
	_, exits := fl.buildFrame(root)
	for _, e := range exits {
		e.exit = true
	}
	return fl
}

func (fl *c19Flow) newBlk(fr *c19Frame) *c19SBlk {
	b := &c19SBlk{id: len(fl.blks), fr: fr}
	fl.blks = append(fl.blks, b)
	return b
}

// inlineSite: a statement that is nothing but a call, or an assignment of a call's results.
func c19InlineSite(n ast.Node) (*ast.CallExpr, []ast.Expr) {
	switch s := n.(type) {
	case *ast.ExprStmt:
		if call, ok := unparen(s.X).(*ast.CallExpr); ok {
			return call, nil
		}
	case *ast.AssignStmt:
		if len(s.Rhs) == 1 && (s.Tok == token.ASSIGN || s.Tok == token.DEFINE) {
			if call, ok := unparen(s.Rhs[0]).(*ast.CallExpr); ok {
				return call, s.Lhs
			}
		}
	}
	return nil, nil
}

// c19InlinableBody: a helper small and plain enough to be spliced into its callers.
func c19InlinableBody(c *Ctx, fi *FuncInfo) bool {
	if fi == nil || fi.Decl.Body == nil {
		return false
	}
	if fi.Decl.Type.Results != nil {
		for _, f := range fi.Decl.Type.Results.List {
			if len(f.Names) > 0 {
				return false
			}
		}
	}
	if sig, ok := fi.Obj.Type().(*types.Signature); ok && sig.Variadic() {
		return false
	}
	if fi.Decl.Recv != nil && (len(fi.Decl.Recv.List) != 1 || len(fi.Decl.Recv.List[0].Names) > 1) {
		return false
	}
	plain := true
	ast.Inspect(fi.Decl.Body, func(n ast.Node) bool {
		switch n.(type) {
		case *ast.FuncLit, *ast.DeferStmt, *ast.GoStmt, *ast.SelectStmt:
			plain = false
		}
		return plain
	})
	if !plain {
		return false
	}
	g := c19Graph(c, fi)
	return g != nil && len(g.Blocks) <= 48
}

// prepareInline decides whether the call is spliced in and builds the callee's frame (aliases for the
// receiver and for pointer / slice / map arguments that are access paths; value arguments are bound by
// assignment).
func (fl *c19Flow) prepareInline(fr *c19Frame, call *ast.CallExpr) (*c19Frame, []*c19Effect) {
	info := fl.info
	fn := calleeOf(info, call)
	if fn == nil || fr.depth >= 2 || fl.nFrames >= 16 {
		return nil, nil
	}
	cfi := fl.c.P.FuncOfObj(fn)
	if cfi == nil || cfi.Pkg != fl.g.Pkg || fl.allow == nil || !fl.allow(cfi) || !c19InlinableBody(fl.c, cfi) {
		return nil, nil
	}
	for f := fr; f != nil; f = f.parent {
		if f.fi == cfi {
			return nil, nil
		}
	}
	sub := &c19Frame{fi: cfi, g: c19Graph(fl.c, cfi), alias: map[types.Object]c19Path{}, args: map[types.Object]ast.Expr{}, parent: fr, depth: fr.depth + 1}
	var binds []*c19Effect
	ok := true
	c19With(fr, func() {
		noIndex := func(p c19Path) bool {
			for _, s := range p.path {
				if s == "[]" {
					return false
				}
			}
			return true
		}
		assignsRoot := func(o types.Object) bool {
			found := false
			ast.Inspect(cfi.Decl.Body, func(n ast.Node) bool {
				if n != nil && !found {
					if _, blk := n.(*ast.BlockStmt); !blk {
						switch s := n.(type) {
						case *ast.AssignStmt:
							for _, l := range s.Lhs {
								if id, isID := unparen(l).(*ast.Ident); isID && info.ObjectOf(id) == o {
									found = true
								}
							}
						case *ast.IncDecStmt:
							if id, isID := unparen(s.X).(*ast.Ident); isID && info.ObjectOf(id) == o {
								found = true
							}
						case *ast.UnaryExpr:
							if id, isID := unparen(s.X).(*ast.Ident); isID && s.Op == token.AND && info.ObjectOf(id) == o {
								found = true
							}
						case *ast.RangeStmt:
							for _, kv := range []ast.Expr{s.Key, s.Value} {
								if id, isID := kv.(*ast.Ident); isID && info.ObjectOf(id) == o {
									found = true
								}
							}
						}
					}
				}
				return !found
			})
			return found
		}
		if cfi.Decl.Recv != nil {
			sel, isSel := unparen(call.Fun).(*ast.SelectorExpr)
			if !isSel {
				ok = false
				return
			}
			if len(cfi.Decl.Recv.List[0].Names) == 1 {
				ro := info.Defs[cfi.Decl.Recv.List[0].Names[0]]
				p, isPath := c19Chain(info, sel.X)
				if !isPath || !noIndex(p) || ro == nil {
					ok = false
					return
				}
				if _, ptr := ro.Type().(*types.Pointer); !ptr {
					written := false
					ast.Inspect(cfi.Decl.Body, func(n ast.Node) bool {
						switch s := n.(type) {
						case *ast.AssignStmt:
							for _, l := range s.Lhs {
								if rootObj(info, l) == ro {
									written = true
								}
							}
						case *ast.IncDecStmt:
							if rootObj(info, s.X) == ro {
								written = true
							}
						}
						return !written
					})
					if written {
						ok = false // a value receiver that is written is a copy
						return
					}
				}
				sub.alias[ro] = p
			}
		}
		i := 0
		for _, f := range cfi.Decl.Type.Params.List {
			if len(f.Names) == 0 {
				i++
				continue
			}
			for _, name := range f.Names {
				if i >= len(call.Args) {
					ok = false
					return
				}
				arg := call.Args[i]
				i++
				po := info.Defs[name]
				if po == nil || name.Name == "_" {
					continue
				}
				switch po.Type().Underlying().(type) {
				case *types.Pointer, *types.Slice, *types.Map:
					a := unparen(arg)
					if u, isAddr := a.(*ast.UnaryExpr); isAddr && u.Op == token.AND {
						a = u.X
					}
					p, isPath := c19Chain(info, a)
					_, isPtr := po.Type().Underlying().(*types.Pointer)
					switch {
					case isPath && noIndex(p) && !assignsRoot(po):
						sub.alias[po] = p
					case isPtr && isPath && len(p.path) == 0 && a == unparen(arg) && c19BindByValue != nil && c19BindByValue(po.Type()):
						sub.args[po] = arg
						sub.ptrBinds = append(sub.ptrBinds, c19PtrBind{po, arg})
						binds = append(binds, &c19Effect{kind: 'a', lhs: c19Path{root: po}, lhsID: fmt.Sprintf("%p", po), rhsBool: -1})
					case isPtr || assignsRoot(po):
						ok = false // writes through it could not be attributed
						return
					}
				default:
					sub.args[po] = arg
					// a value parameter that is never assigned, bound to a local variable of the caller that the
					// callee cannot reach, is that variable
					if aid, isID := unparen(arg).(*ast.Ident); isID && !assignsRoot(po) {
						if av, isVar := info.ObjectOf(aid).(*types.Var); isVar && !av.IsField() && av.Parent() != fl.g.Pkg.Types.Scope() && types.Identical(av.Type(), po.Type()) && !c19AddressTaken(info, fr.fi, av) {
							if pth, isPath := c19Chain(info, aid); isPath && len(pth.path) == 0 {
								sub.alias[po] = pth
								continue
							}
						}
					}
					ef := &c19Effect{kind: 'a', lhs: c19Path{root: po}, lhsID: fmt.Sprintf("%p", po), rhsBool: -1}
					if c19IsIntType(po.Type()) && c19IsIntType(info.TypeOf(arg)) {
						ef.rhs = c19LinOf(info, arg)
					}
					if v, isConst := c19BoolConst(info, arg); isConst {
						ef.rhsBool = 0
						if v {
							ef.rhsBool = 1
						}
					}
					binds = append(binds, ef)
				}
			}
		}
		if i != len(call.Args) {
			ok = false
		}
	})
	if !ok {
		return nil, nil
	}
	return sub, binds
}

func (fl *c19Flow) buildFrame(fr *c19Frame) (*c19SBlk, []*c19SBlk) {
	g := fr.g
	fl.nFrames++
	first, last := map[*cfg.Block]*c19SBlk{}, map[*cfg.Block]*c19SBlk{}
	for _, b := range g.Blocks {
		cur := fl.newBlk(fr)
		first[b] = cur
		if b.Kind == cfg.KindRangeBody {
			if rs, ok := b.Stmt.(*ast.RangeStmt); ok {
				cur.rng = rs
			}
		}
		cur.loop = b.Kind == cfg.KindRangeBody || b.Kind == cfg.KindForBody
		for i, n := range b.Nodes {
			if call, lhs := c19InlineSite(n); call != nil {
				if sub, binds := fl.prepareInline(fr, call); sub != nil {
					fl.inlined[call] = true
					if fr.parent == nil {
						fl.rootPos[Loc{b, i}] = c19Pos{cur, len(cur.nodes)}
					}
					// the call itself (arguments are evaluated here), then the callee, then the assignment of its results
					var bindN ast.Node = n
					if len(lhs) > 0 {
						bindN = call
					}
					cur.nodes = append(cur.nodes, &c19SNode{n: bindN, fr: fr, pseudo: "bind", effs: binds, done: true, loc: Loc{b, i}, skip: call, ptrBinds: sub.ptrBinds})
					centry, cexits := fl.buildFrame(sub)
					cur.succs = []*c19SBlk{centry}
					cont := fl.newBlk(fr)
					var temps []*types.Var
					if len(lhs) > 0 {
						res := sub.fi.Obj.Type().(*types.Signature).Results()
						for k := 0; k < res.Len(); k++ {
							temps = append(temps, types.NewVar(token.NoPos, fl.g.Pkg.Types, fmt.Sprintf("result%d·%s", k, sub.fi.Decl.Name.Name), res.At(k).Type()))
						}
					}
					for _, ce := range cexits {
						if len(temps) > 0 {
							rn := fl.retNode(sub, ce, temps)
							rn.retLhs, rn.retFr = lhs, fr
							ce.nodes = append(ce.nodes, rn)
						}
						ce.succs = []*c19SBlk{cont}
					}
					if len(lhs) > 0 {
						cont.nodes = append(cont.nodes, fl.postNode(fr, n, call, lhs, temps, Loc{b, i}))
					}
					cur = cont
					continue
				}
			}
			if fr.parent == nil {
				fl.rootPos[Loc{b, i}] = c19Pos{cur, len(cur.nodes)}
			}
			cur.nodes = append(cur.nodes, &c19SNode{n: n, fr: fr, loc: Loc{b, i}})
		}
		last[b] = cur
	}
	var exits []*c19SBlk
	for _, b := range g.Blocks {
		l := last[b]
		for _, s := range b.Succs {
			if first[s] != nil {
				l.succs = append(l.succs, first[s])
			}
		}
		if c := g.BranchCond(b); c != nil && len(b.Succs) == 2 && b.Succs[0] != b.Succs[1] {
			l.cnd = c
		}
		if len(b.Succs) == 0 && g.isNormalExit(b) {
			exits = append(exits, l)
		}
	}
	return first[g.Blocks[0]], exits
}

func c19TempTerm(v *types.Var) *c19Term {
	return &c19Term{id: fmt.Sprintf("%p", v), ex: ast.NewIdent(v.Name()), paths: []c19Path{{root: v}}}
}

// retNode stores the values of the callee's return statement (the last node of ce) in the result temporaries.
func (fl *c19Flow) retNode(sub *c19Frame, ce *c19SBlk, temps []*types.Var) *c19SNode {
	info := fl.info
	var results []ast.Expr
	if len(ce.nodes) > 0 {
		if rs, ok := ce.nodes[len(ce.nodes)-1].n.(*ast.ReturnStmt); ok {
			results = rs.Results
		}
	}
	sn := &c19SNode{fr: sub, pseudo: "ret", done: true}
	if len(ce.nodes) > 0 {
		sn.retStmt, _ = ce.nodes[len(ce.nodes)-1].n.(*ast.ReturnStmt)
	}
	for i, tv := range temps {
		ef := c19Effect{kind: 'a', lhs: c19Path{root: tv}, lhsID: fmt.Sprintf("%p", tv), rhsBool: -1}
		if len(results) == len(temps) {
			r := results[i]
			c19With(sub, func() {
				if c19IsIntType(tv.Type()) && c19IsIntType(info.TypeOf(r)) {
					ef.rhs = c19LinOf(info, r)
				}
				if c19IsBoolType(tv.Type()) {
					if v, ok := c19BoolConst(info, r); ok {
						ef.rhsBool = 0
						if v {
							ef.rhsBool = 1
						}
					} else if f := fl.form(r); f.op != 'U' {
						ef.rhsForm = f
					}
				}
			})
		}
		e := ef
		sn.effs = append(sn.effs, &e)
	}
	return sn
}

// postNode is the original assignment statement, executed after the inlined callee: lhs_i = result_i.
func (fl *c19Flow) postNode(fr *c19Frame, stmt ast.Node, call *ast.CallExpr, lhs []ast.Expr, temps []*types.Var, loc Loc) *c19SNode {
	info := fl.info
	tok := token.ASSIGN
	if as, ok := stmt.(*ast.AssignStmt); ok {
		tok = as.Tok
	}
	sn := &c19SNode{n: stmt, fr: fr, pseudo: "post", done: true, loc: loc, skip: call}
	for i, l := range lhs {
		var ef c19Effect
		c19With(fr, func() { ef = c19AssignEffect(info, l, nil, tok) })
		if ef.kind == 'a' && len(temps) == len(lhs) {
			tv := temps[i]
			tt := c19TempTerm(tv)
			if c19IsIntType(tv.Type()) && c19IsIntType(info.TypeOf(l)) {
				ef.rhs = c19NewLin()
				ef.rhs.coef[tt.id] = 1
				ef.rhs.tm[tt.id] = tt
			}
			if c19IsBoolType(tv.Type()) {
				ef.rhsForm = &c19Form{op: 'a', p: fl.pred("bool", nil, 0, tt)}
			}
		}
		e := ef
		sn.effs = append(sn.effs, &e)
	}
	return sn
}

// c19AddressTaken: &v occurs in the function (or v is captured by a function literal).
func c19AddressTaken(info *types.Info, fi *FuncInfo, v *types.Var) bool {
	taken := false
	ast.Inspect(fi.Decl.Body, func(n ast.Node) bool {
		switch t := n.(type) {
		case *ast.UnaryExpr:
			if id, ok := unparen(t.X).(*ast.Ident); ok && t.Op == token.AND && info.ObjectOf(id) == types.Object(v) {
				taken = true
			}
		case *ast.FuncLit:
			ast.Inspect(t, func(m ast.Node) bool {
				if id, ok := m.(*ast.Ident); ok && info.ObjectOf(id) == types.Object(v) {
					taken = true
				}
				return true
			})
		}
		return !taken
	})
	return taken
}

// at: the supergraph position of a location of the root function.
func (fl *c19Flow) at(l Loc) c19Pos { return fl.rootPos[l] }

// find returns the AST nodes (in every frame) that satisfy pred; pred runs in the node's alias context.
func (fl *c19Flow) find(pred func(ast.Node) bool) []c19Hit {
	var out []c19Hit
	for _, b := range fl.blks {
		for i, sn := range b.nodes {
			if sn.n == nil {
				continue
			}
			c19With(sn.fr, func() {
				inspectNoLit(sn.n, func(n ast.Node) bool {
					if sn.pseudo == "post" && n == ast.Node(sn.skip) {
						return false
					}
					if pred(n) {
						out = append(out, c19Hit{c19Pos{b, i}, sn, n})
					}
					return true
				})
			})
		}
	}
	return out
}

// locate: the position of the CFG node that contains n (in any frame).
func (fl *c19Flow) locate(n ast.Node) (c19Hit, bool) {
	for _, b := range fl.blks {
		for i, sn := range b.nodes {
			if sn.n != nil && sn.n.Pos() <= n.Pos() && n.End() <= sn.n.End() {
				found := false
				inspectNoLit(sn.n, func(m ast.Node) bool {
					if m == n {
						found = true
					}
					return !found
				})
				if found {
					return c19Hit{c19Pos{b, i}, sn, n}, true
				}
			}
		}
	}
	return c19Hit{}, false
}

// has lifts a predicate on AST nodes to supergraph nodes (any sub-node matches).
func c19Has(pred func(ast.Node) bool) func(*c19SNode) bool {
	return func(sn *c19SNode) bool {
		if sn.n == nil {
			return false
		}
		r := false
		c19With(sn.fr, func() { r = containsNode(sn.n, pred) })
		return r
	}
}

// walk explores forward from start; visit returning false stops propagation past that node; atExit is
// called for every normal exit of the root function that is reached.
func (fl *c19Flow) walk(start c19Pos, visit func(p c19Pos, sn *c19SNode) bool, atExit func(b *c19SBlk)) {
	seen := map[*c19SBlk]bool{}
	work := []c19Pos{start}
	for len(work) > 0 {
		p := work[len(work)-1]
		work = work[:len(work)-1]
		if p.i == 0 {
			if seen[p.b] {
				continue
			}
			seen[p.b] = true
		}
		blocked := false
		for i := p.i; i < len(p.b.nodes); i++ {
			if !visit(c19Pos{p.b, i}, p.b.nodes[i]) {
				blocked = true
				break
			}
		}
		if blocked {
			continue
		}
		if len(p.b.succs) == 0 {
			if p.b.exit && atExit != nil {
				atExit(p.b)
			}
			continue
		}
		for _, s := range p.b.succs {
			if !seen[s] {
				work = append(work, c19Pos{s, 0})
			}
		}
	}
}

func (fl *c19Flow) entry() c19Pos { return c19Pos{fl.blks[0], 0} }

// mustPrecede: every path from the entry to target passes a node satisfying isA.
func (fl *c19Flow) mustPrecede(isA func(*c19SNode) bool, target c19Pos) bool {
	hit := false
	fl.walk(fl.entry(), func(p c19Pos, sn *c19SNode) bool {
		if p == target {
			hit = true
			return false
		}
		return !isA(sn)
	}, nil)
	return !hit
}

// mustFollow: every path from just after `from` to a normal exit of the root passes a node satisfying isB.
func (fl *c19Flow) mustFollow(from c19Pos, isB func(*c19SNode) bool) bool {
	bad := false
	fl.walk(c19Pos{from.b, from.i + 1}, func(p c19Pos, sn *c19SNode) bool { return !isB(sn) }, func(*c19SBlk) { bad = true })
	return !bad
}

// reaches: is `to` reachable from just after `from` without passing a node satisfying avoid?
func (fl *c19Flow) reaches(from, to c19Pos, avoid func(*c19SNode) bool) bool {
	hit := false
	fl.walk(c19Pos{from.b, from.i + 1}, func(p c19Pos, sn *c19SNode) bool {
		if p == to {
			hit = true
			return false
		}
		return avoid == nil || !avoid(sn)
	}, nil)
	return hit
}

func (fl *c19Flow) inLoop(b *c19SBlk) bool {
	seen := map[*c19SBlk]bool{}
	st := append([]*c19SBlk{}, b.succs...)
	for len(st) > 0 {
		x := st[len(st)-1]
		st = st[:len(st)-1]
		if x == b {
			return true
		}
		if seen[x] {
			continue
		}
		seen[x] = true
		st = append(st, x.succs...)
	}
	return false
}

type c19Guard struct {
	b   *c19SBlk
	pol bool
}

// guards: the branch edges that lie on every path from the entry to p.
func (fl *c19Flow) guards(p c19Pos) []c19Guard {
	var out []c19Guard
	for _, b := range fl.blks {
		if b.cnd == nil || len(b.succs) != 2 {
			continue
		}
		for k := 0; k < 2; k++ {
			seen := map[*c19SBlk]bool{fl.blks[0]: true}
			st := []*c19SBlk{fl.blks[0]}
			reached := false
			for len(st) > 0 && !reached {
				x := st[len(st)-1]
				st = st[:len(st)-1]
				if x == p.b {
					reached = true
					break
				}
				for i, s := range x.succs {
					if x == b && i == k {
						continue
					}
					if !seen[s] {
						seen[s] = true
						st = append(st, s)
					}
				}
			}
			if !reached {
				out = append(out, c19Guard{b, k == 0})
			}
		}
	}
	return out
}

func (fl *c19Flow) formOf(b *c19SBlk) *c19Form {
	if b.cnd == nil {
		return nil
	}
	if b.form == nil {
		c19With(b.fr, func() {
			if b.cnd.Tag != nil {
				b.form = fl.cmp(b.cnd.Tag, token.EQL, b.cnd.Expr)
			} else {
				b.form = fl.form(b.cnd.Expr)
			}
		})
	}
	return b.form
}

func (fl *c19Flow) pred(kind string, base *c19Lin, k int64, term *c19Term) *c19Pred {
	var key string
	if kind == "bool" {
		key = "bool|" + term.id
	} else {
		key = fmt.Sprintf("%s|%s|%d", kind, c19BaseKey(base), k)
	}
	if p, ok := fl.all[key]; ok {
		return p
	}
	p := &c19Pred{kind: kind, base: base, k: k, term: term, key: key, bit: -1}
	if kind == "bool" {
		p.terms = []*c19Term{term}
	} else {
		for _, id := range base.ids() {
			p.terms = append(p.terms, base.tm[id])
		}
	}
	fl.all[key] = p
	return p
}

// le: l <= 0
func (fl *c19Flow) le(l *c19Lin) *c19Form {
	base, c, flipped := c19Normalise(l)
	if len(base.ids()) == 0 {
		if c <= 0 {
			return c19T
		}
		return c19F
	}
	if !flipped {
		return &c19Form{op: 'a', p: fl.pred("le", base, -c, nil)}
	}
	return c19Not(&c19Form{op: 'a', p: fl.pred("le", base, c-1, nil)})
}

// ge0: l >= 0
func (fl *c19Flow) ge0(l *c19Lin) *c19Form { return fl.le(l.neg()) }

// eq: l == 0
func (fl *c19Flow) eq(l *c19Lin) *c19Form {
	base, c, flipped := c19Normalise(l)
	if len(base.ids()) == 0 {
		if c == 0 {
			return c19T
		}
		return c19F
	}
	v := -c
	if flipped {
		v = c
	}
	return &c19Form{op: 'a', p: fl.pred("eq", base, v, nil)}
}

func (fl *c19Flow) boolAtom(e ast.Expr) *c19Form {
	if _, ok := c19Chain(fl.info, e); !ok {
		return c19U
	}
	return &c19Form{op: 'a', p: fl.pred("bool", nil, 0, c19NewTerm(fl.info, e))}
}

func c19BoolConst(info *types.Info, e ast.Expr) (bool, bool) {
	if tv, ok := info.Types[e]; ok && tv.Value != nil {
		if b, ok := tv.Type.Underlying().(*types.Basic); ok && b.Info()&types.IsBoolean != 0 {
			return tv.Value.String() == "true", true
		}
	}
	return false, false
}

func c19IsBoolType(t types.Type) bool {
	if t == nil {
		return false
	}
	b, ok := t.Underlying().(*types.Basic)
	return ok && b.Info()&types.IsBoolean != 0
}

// form translates a condition.
func (fl *c19Flow) form(e ast.Expr) *c19Form {
	e = unparen(e)
	if v, ok := c19BoolConst(fl.info, e); ok {
		if v {
			return c19T
		}
		return c19F
	}
	switch t := e.(type) {
	case *ast.UnaryExpr:
		if t.Op == token.NOT {
			return c19Not(fl.form(t.X))
		}
	case *ast.BinaryExpr:
		switch t.Op {
		case token.LAND:
			return c19And(fl.form(t.X), fl.form(t.Y))
		case token.LOR:
			return c19Or(fl.form(t.X), fl.form(t.Y))
		case token.EQL, token.NEQ, token.LSS, token.LEQ, token.GTR, token.GEQ:
			return fl.cmp(t.X, t.Op, t.Y)
		}
	case *ast.CallExpr:
		if ret, fr, bind := c19PureHelper(fl.info, t); ret != nil && c19IsBoolType(fl.info.TypeOf(ret)) {
			oldC, oldB := c19Ctx, c19Bind
			c19Ctx, c19Bind = fr, bind
			c19PureDepth++
			f := fl.form(ret)
			c19PureDepth--
			c19Ctx, c19Bind = oldC, oldB
			return f
		}
	case *ast.Ident, *ast.SelectorExpr:
		if c19IsBoolType(fl.info.TypeOf(e)) {
			return fl.boolAtom(e)
		}
	}
	return c19U
}

func (fl *c19Flow) cmp(x ast.Expr, op token.Token, y ast.Expr) *c19Form {
	if c19IsBoolType(fl.info.TypeOf(x)) && (op == token.EQL || op == token.NEQ) {
		var f *c19Form
		if v, ok := c19BoolConst(fl.info, y); ok {
			f = fl.form(x)
			if !v {
				f = c19Not(f)
			}
		} else if v, ok := c19BoolConst(fl.info, x); ok {
			f = fl.form(y)
			if !v {
				f = c19Not(f)
			}
		} else {
			return c19U
		}
		if op == token.NEQ {
			f = c19Not(f)
		}
		return f
	}
	if !isIntegerExpr(fl.info, x) || !isIntegerExpr(fl.info, y) {
		return c19U
	}
	l := c19LinOf(fl.info, x).plus(c19LinOf(fl.info, y), -1) // x - y
	switch op {
	case token.LSS:
		return fl.le(l.addK(1))
	case token.LEQ:
		return fl.le(l)
	case token.GTR:
		return fl.le(l.neg().addK(1))
	case token.GEQ:
		return fl.le(l.neg())
	case token.EQL:
		return fl.eq(l)
	case token.NEQ:
		return c19Not(fl.eq(l))
	}
	return c19U
}

func (fl *c19Flow) goal(f *c19Form) *c19Form {
	ps := map[*c19Pred]bool{}
	f.preds(ps)
	for p := range ps {
		for _, t := range p.terms {
			if fl.inGuard {
				if !fl.seeds[t.id] {
					fl.guardSeed[t.id] = true
				}
			} else {
				delete(fl.guardSeed, t.id)
			}
			fl.seeds[t.id] = true
		}
	}
	return f
}

// goalAt registers a goal checked at l: the conditions that guard l are relevant as well (their
// predicates may be correlated with the goal only through control flow).

// goalAt registers a goal checked at p: the conditions that guard p are relevant as well (their
// predicates may be correlated with the goal only through control flow).
func (fl *c19Flow) goalAt(f *c19Form, p c19Pos) *c19Form {
	fl.goal(f)
	fl.inGuard = true
	for _, gd := range fl.guards(p) {
		if gf := fl.formOf(gd.b); gf != nil {
			fl.goal(gf)
		}
	}
	fl.inGuard = false
	return f
}

// eval3: 1 true, 0 false, -1 unknown
func (fl *c19Flow) eval3(f *c19Form, st uint32) int {
	switch f.op {
	case 'T':
		return 1
	case 'F':
		return 0
	case 'U':
		return -1
	case 'a':
		if f.p.bit >= 0 {
			return int(st >> uint(f.p.bit) & 1)
		}
		return -1
	case 'n':
		v := fl.eval3(f.xs[0], st)
		if v < 0 {
			return -1
		}
		return 1 - v
	case '&':
		r := 1
		for _, x := range f.xs {
			v := fl.eval3(x, st)
			if v == 0 {
				return 0
			}
			if v < 0 {
				r = -1
			}
		}
		return r
	case '|':
		r := 0
		for _, x := range f.xs {
			v := fl.eval3(x, st)
			if v == 1 {
				return 1
			}
			if v < 0 {
				r = -1
			}
		}
		return r
	}
	return -1
}

// c19Query is the question "base <= v"; what the static bounds and each single fact of a state
// say about it is tabulated once.
type c19Query struct {
	base   *c19Lin
	bkey   string
	v      int64
	bound  int
	byFact [][2]int8
	viaEq  []*c19Cons // per tracked predicate: the same question with a term eliminated by that equality
	ready  bool
	inner  bool // produced by an equality substitution: not substituted again
}

func (fl *c19Flow) query(base *c19Lin, v int64) *c19Query {
	bkey := c19BaseKey(base)
	key := fmt.Sprintf("%s|%d", bkey, v)
	if q, ok := fl.queries[key]; ok {
		return q
	}
	q := &c19Query{base: base, bkey: bkey, v: v}
	fl.queries[key] = q
	return q
}

// facts: the linear expressions known to be >= 0 when the predicate has value val.
func (p *c19Pred) facts(val int) []*c19Lin {
	switch {
	case p.kind == "le" && val == 1:
		return []*c19Lin{p.base.neg().addK(p.k)}
	case p.kind == "le":
		return []*c19Lin{p.base.addK(-p.k - 1)}
	case p.kind == "eq" && val == 1:
		return []*c19Lin{p.base.neg().addK(p.k), p.base.addK(-p.k)}
	}
	return nil
}

func (fl *c19Flow) prepare(q *c19Query) {
	if q.ready {
		return
	}
	q.ready = true
	want := q.base.neg().addK(q.v)  // v - base >= 0
	refute := q.base.addK(-q.v - 1) // base - v - 1 >= 0
	q.bound = -1
	if want.lower(fl.bounds) >= 0 {
		q.bound = 1
	} else if refute.lower(fl.bounds) >= 0 {
		q.bound = 0
	}
	q.viaEq = make([]*c19Cons, len(fl.tracked))
	if !q.inner {
		for i, p := range fl.tracked {
			if p.kind != "eq" || p.bkey == q.bkey {
				continue
			}
			// p: pbase == k. Eliminate a shared term t: base - (c/cp)*(pbase - k)
			for _, id := range p.base.ids() {
				c, cp := q.base.coef[id], p.base.coef[id]
				if c == 0 || cp == 0 || c%cp != 0 {
					continue
				}
				l := q.base.plus(p.base.addK(-p.k), -(c / cp)).addK(-q.v) // base' - v <= 0
				cs := fl.cons(l, "le")
				if cs.q1 != nil {
					cs.q1.inner = true
				}
				q.viaEq[i] = cs
				break
			}
		}
	}
	q.byFact = make([][2]int8, len(fl.tracked))
	for i, p := range fl.tracked {
		q.byFact[i] = [2]int8{-1, -1}
		for val := 0; val < 2; val++ {
			for _, m := range p.facts(val) {
				// one fact used once: goal - fact has a non-negative lower bound
				if want.plus(m, -1).lower(fl.bounds) >= 0 {
					q.byFact[i][val] = 1
					break
				}
				if refute.plus(m, -1).lower(fl.bounds) >= 0 {
					q.byFact[i][val] = 0
					break
				}
			}
		}
	}
}

func (fl *c19Flow) interval(st uint32, base *c19Lin, bkey string) (float64, float64) {
	sb, ok := fl.bcache[bkey]
	if !ok {
		sb = [2]float64{base.lower(fl.bounds), base.upper(fl.bounds)}
		fl.bcache[bkey] = sb
	}
	lo, hi := sb[0], sb[1]
	grp := fl.groups[bkey]
	for _, p := range grp {
		v := st >> uint(p.bit) & 1
		k := float64(p.k)
		switch p.kind {
		case "le":
			if v == 1 {
				hi = math.Min(hi, k)
			} else {
				lo = math.Max(lo, k+1)
			}
		case "eq":
			if v == 1 {
				lo, hi = math.Max(lo, k), math.Min(hi, k)
			}
		}
	}
	for changed := true; changed; {
		changed = false
		for _, p := range grp {
			if p.kind == "eq" && st>>uint(p.bit)&1 == 0 && lo <= hi {
				if lo == float64(p.k) {
					lo++
					changed = true
				}
				if hi == float64(p.k) {
					hi--
					changed = true
				}
			}
		}
	}
	return lo, hi
}

// evalQ decides base <= v in a state: by the interval of the base (bounds from types and the
// predicates on the same base), or with one other fact of the state used once.
func (fl *c19Flow) evalQ(st uint32, q *c19Query, skipOwn bool) int {
	fl.prepare(q)
	if !skipOwn {
		lo, hi := fl.interval(st, q.base, q.bkey)
		if hi <= float64(q.v) {
			return 1
		}
		if lo > float64(q.v) {
			return 0
		}
	}
	if q.bound >= 0 {
		return q.bound
	}
	for i, p := range fl.tracked {
		if p.kind == "bool" || (skipOwn && p.bkey == q.bkey) {
			continue
		}
		if r := q.byFact[i][st>>uint(p.bit)&1]; r >= 0 {
			return int(r)
		}
	}
	// an equality that holds in the state lets one of its terms be replaced
	for i, p := range fl.tracked {
		if cs := q.viaEq[i]; cs != nil && st>>uint(p.bit)&1 == 1 {
			if r := fl.evalC(st, cs); r >= 0 {
				return r
			}
		}
	}
	return -1
}

// c19Cons is a prepared constraint l <= 0 or l == 0.
type c19Cons struct {
	constVal int
	kind     string
	flipped  bool
	q1, q2   *c19Query
	eqKey    string
}

func (fl *c19Flow) cons(l *c19Lin, kind string) *c19Cons {
	base, c, flipped := c19Normalise(l)
	cs := &c19Cons{constVal: -1, kind: kind, flipped: flipped}
	if len(base.ids()) == 0 {
		ok := c <= 0
		if kind == "eq" {
			ok = c == 0
		}
		cs.constVal = 0
		if ok {
			cs.constVal = 1
		}
		return cs
	}
	if kind == "le" {
		if !flipped {
			cs.q1 = fl.query(base, -c)
		} else {
			cs.q1 = fl.query(base, c-1)
		}
		return cs
	}
	v := -c
	if flipped {
		v = c
	}
	cs.q1, cs.q2 = fl.query(base, v), fl.query(base, v-1)
	cs.eqKey = fmt.Sprintf("eq|%s|%d", c19BaseKey(base), v)
	return cs
}

func (fl *c19Flow) evalC(st uint32, cs *c19Cons) int {
	if cs.constVal >= 0 {
		return cs.constVal
	}
	neg3 := func(v int) int {
		if v < 0 {
			return v
		}
		return 1 - v
	}
	if cs.kind == "le" {
		if !cs.flipped {
			return fl.evalQ(st, cs.q1, false)
		}
		return neg3(fl.evalQ(st, cs.q1, false))
	}
	if p, ok := fl.all[cs.eqKey]; ok && p.bit >= 0 {
		return int(st >> uint(p.bit) & 1)
	}
	a := fl.evalQ(st, cs.q1, false)
	b := neg3(fl.evalQ(st, cs.q2, false))
	if a == 0 || b == 0 {
		return 0
	}
	if a == 1 && b == 1 {
		return 1
	}
	return -1
}

func (fl *c19Flow) feasible(st uint32) bool {
	pm := st & (1<<c19GhostShift - 1)
	ok, seen := fl.feas[pm]
	if !seen {
		ok = true
		for bkey, grp := range fl.groups {
			lo, hi := fl.interval(pm, grp[0].base, bkey)
			if lo > hi {
				ok = false
				break
			}
		}
		// a predicate's value must not contradict what the bounds or one fact of another group imply
		for _, p := range fl.tracked {
			if !ok {
				break
			}
			if p.kind == "bool" {
				continue
			}
			v := int(pm >> uint(p.bit) & 1)
			switch p.kind {
			case "le":
				if d := fl.evalQ(pm, p.q1, true); d >= 0 && d != v {
					ok = false
				}
			case "eq":
				if v == 1 && (fl.evalQ(pm, p.q1, true) == 0 || fl.evalQ(pm, p.q2, true) == 1) {
					ok = false
				}
			}
		}
		fl.feas[pm] = ok
	}
	return ok
}

// consistent: feasible, and the ghost part agrees with the predicates (checked after the ghost update of a node).
func (fl *c19Flow) consistent(st uint32) bool {
	return fl.feasible(st) && (fl.feasibleX == nil || fl.feasibleX(fl, st))
}

// ---- effects of a CFG node

var c19ModMemo = map[*types.Func][][]string{}
var c19ModAll = map[*types.Func]bool{}

// c19ModSet: the receiver-relative field paths a repository method may write (nil,false = anything).
func c19ModSet(c *Ctx, fn *types.Func, visiting map[*types.Func]bool) ([][]string, bool) {
	if c19ModAll[fn] {
		return nil, false
	}
	if m, ok := c19ModMemo[fn]; ok {
		return m, true
	}
	fi := c.P.FuncOfObj(fn)
	if fi == nil || fi.Decl.Body == nil || fi.Decl.Recv == nil || len(fi.Decl.Recv.List) != 1 || len(fi.Decl.Recv.List[0].Names) != 1 || visiting[fn] {
		return nil, false
	}
	visiting[fn] = true
	defer delete(visiting, fn)
	info := fi.Pkg.TypesInfo
	recv := info.Defs[fi.Decl.Recv.List[0].Names[0]]
	var out [][]string
	all := false
	add := func(e ast.Expr) {
		if p, ok := c19Chain(info, e); ok {
			if p.root == recv {
				out = append(out, p.path)
			}
		} else if rootObj(info, e) == recv {
			all = true
		}
	}
	ast.Inspect(fi.Decl.Body, func(n ast.Node) bool {
		switch s := n.(type) {
		case *ast.AssignStmt:
			for _, l := range s.Lhs {
				add(l)
			}
		case *ast.IncDecStmt:
			add(s.X)
		case *ast.RangeStmt:
			if s.Key != nil {
				add(s.Key)
			}
			if s.Value != nil {
				add(s.Value)
			}
		case *ast.UnaryExpr:
			if s.Op == token.AND {
				add(s.X)
			}
		case *ast.CallExpr:
			for _, a := range s.Args {
				if id, ok := unparen(a).(*ast.Ident); ok && info.ObjectOf(id) == recv {
					all = true
				}
			}
			if sel, ok := unparen(s.Fun).(*ast.SelectorExpr); ok {
				if ss, ok := info.Selections[sel]; ok && ss.Kind() == types.MethodVal {
					m := ss.Obj().(*types.Func)
					if p, ok := c19Chain(info, sel.X); ok && p.root == recv {
						_, ptr := m.Type().(*types.Signature).Recv().Type().(*types.Pointer)
						if ptr {
							if len(p.path) == 0 {
								if sub, ok := c19ModSet(c, m, visiting); ok {
									out = append(out, sub...)
								} else {
									all = true
								}
							} else {
								out = append(out, p.path)
							}
						}
					}
				}
			}
		}
		return true
	})
	if all {
		c19ModAll[fn] = true
		return nil, false
	}
	c19ModMemo[fn] = out
	return out, true
}

func c19CallEffects(c *Ctx, info *types.Info, call *ast.CallExpr, skip map[*ast.CallExpr]bool) []c19Effect {
	var out []c19Effect
	if skip[call] {
		return nil
	}
	if _, ok := c19IsConversion(info, call); ok {
		return nil
	}
	if id, ok := unparen(call.Fun).(*ast.Ident); ok {
		if _, ok := info.Uses[id].(*types.Builtin); ok {
			return nil
		}
	}
	if sel, ok := unparen(call.Fun).(*ast.SelectorExpr); ok {
		if ss, ok := info.Selections[sel]; ok && ss.Kind() == types.MethodVal {
			m := ss.Obj().(*types.Func)
			if sig, ok := m.Type().(*types.Signature); ok && sig.Recv() != nil {
				if _, ptr := sig.Recv().Type().(*types.Pointer); ptr {
					if p, ok := c19Chain(info, sel.X); ok {
						if mods, ok := c19ModSet(c, m, map[*types.Func]bool{}); ok {
							for _, suffix := range mods {
								out = append(out, c19Effect{kind: 'h', lhs: c19Path{p.root, append(append([]string{}, p.path...), suffix...)}})
							}
						} else {
							out = append(out, c19Effect{kind: 'h', lhs: p})
						}
					} else if !types.IsInterface(info.TypeOf(sel.X)) {
						out = append(out, c19Effect{kind: 'x'})
					}
				}
			}
		}
	}
	for _, a := range call.Args {
		a = unparen(a)
		t := info.TypeOf(a)
		if t == nil {
			continue
		}
		switch t.Underlying().(type) {
		case *types.Pointer:
			if u, ok := a.(*ast.UnaryExpr); ok && u.Op == token.AND {
				continue // handled as an address-of
			}
			if p, ok := c19Chain(info, a); ok {
				out = append(out, c19Effect{kind: 'h', lhs: p})
			}
		case *types.Slice, *types.Map:
			if p, ok := c19Chain(info, a); ok {
				out = append(out, c19Effect{kind: 'h', lhs: c19Path{p.root, append(append([]string{}, p.path...), "[]")}})
			}
		}
	}
	return out
}

func c19AssignEffect(info *types.Info, lhs, rhs ast.Expr, tok token.Token) c19Effect {
	if id, ok := unparen(lhs).(*ast.Ident); ok && id.Name == "_" {
		return c19Effect{kind: 0}
	}
	p, ok := c19Chain(info, lhs)
	if !ok {
		return c19Effect{kind: 'x'}
	}
	ef := c19Effect{kind: 'a', lhs: p, lhsID: c19TermID(info, unparen(lhs)), rhsBool: -1}
	if rhs == nil {
		return ef
	}
	if c19IsIntType(info.TypeOf(lhs)) && c19IsIntType(info.TypeOf(rhs)) {
		switch tok {
		case token.ASSIGN, token.DEFINE:
			ef.rhs = c19LinOf(info, rhs)
		case token.ADD_ASSIGN:
			ef.rhs = c19LinOf(info, lhs).plus(c19LinOf(info, rhs), 1)
		case token.SUB_ASSIGN:
			ef.rhs = c19LinOf(info, lhs).plus(c19LinOf(info, rhs), -1)
		}
	}
	if tok == token.ASSIGN || tok == token.DEFINE {
		if v, ok := c19BoolConst(info, rhs); ok {
			ef.rhsBool = 0
			if v {
				ef.rhsBool = 1
			}
		}
	}
	return ef
}

// c19RawEffects: the writes of one CFG node (assignments, inc/dec, declarations, address-of, calls).
func c19RawEffects(c *Ctx, info *types.Info, n ast.Node, errp *string, where string) []c19Effect {
	var calls, assigns []c19Effect
	one := func(lhs, rhs ast.Expr, tok token.Token) c19Effect {
		ef := c19AssignEffect(info, lhs, rhs, tok)
		ef.lhsEx, ef.rhsEx, ef.tok = lhs, rhs, tok
		return ef
	}
	inspectNoLit(n, func(m ast.Node) bool {
		switch s := m.(type) {
		case *ast.FuncLit:
			if m != n && errp != nil {
				*errp = "function literal inside " + where
			}
		case *ast.GoStmt, *ast.DeferStmt:
			if errp != nil {
				*errp = "go/defer inside " + where
			}
		case *ast.CallExpr:
			calls = append(calls, c19CallEffects(c, info, s, nil)...)
		case *ast.UnaryExpr:
			if s.Op == token.AND {
				if _, isLit := unparen(s.X).(*ast.CompositeLit); !isLit {
					if p, ok := c19Chain(info, s.X); ok {
						calls = append(calls, c19Effect{kind: 'h', lhs: p})
					}
				}
			}
		case *ast.AssignStmt:
			if len(s.Lhs) == 1 && len(s.Rhs) == 1 {
				assigns = append(assigns, one(s.Lhs[0], s.Rhs[0], s.Tok))
			} else if len(s.Lhs) == len(s.Rhs) && c19ParallelIndependent(info, s) {
				// a, b = x, y where no right-hand side reads what another position writes: two assignments
				for i, l := range s.Lhs {
					assigns = append(assigns, one(l, s.Rhs[i], s.Tok))
				}
			} else {
				for _, l := range s.Lhs {
					assigns = append(assigns, one(l, nil, s.Tok))
				}
			}
		case *ast.IncDecStmt:
			ef := one(s.X, nil, token.ASSIGN)
			if ef.kind == 'a' && c19IsIntType(info.TypeOf(s.X)) {
				d := int64(1)
				if s.Tok == token.DEC {
					d = -1
				}
				ef.rhs = c19LinOf(info, s.X).addK(d)
			}
			assigns = append(assigns, ef)
		case *ast.ValueSpec:
			// go/cfg lowers `var x T = v` to one ValueSpec node per specification (constants never reach the graph)
			vs := s
			for i, name := range vs.Names {
				switch {
				case len(vs.Values) == len(vs.Names):
					assigns = append(assigns, one(name, vs.Values[i], token.DEFINE))
				case len(vs.Values) == 0:
					ef := one(name, nil, token.DEFINE)
					if ef.kind == 'a' {
						if c19IsIntType(info.TypeOf(name)) {
							ef.rhs = c19NewLin()
						}
						if c19IsBoolType(info.TypeOf(name)) {
							ef.rhsBool = 0
						}
					}
					assigns = append(assigns, ef)
				default:
					assigns = append(assigns, one(name, nil, token.DEFINE))
				}
			}
		}
		return true
	})
	return append(calls, assigns...)
}

// c19ParallelIndependent: in the tuple assignment no right-hand side reads a location that another position
// writes (and no two positions write overlapping locations), so that it can be read as a sequence.
func c19ParallelIndependent(info *types.Info, s *ast.AssignStmt) bool {
	var lhs []c19Path
	for _, l := range s.Lhs {
		if id, ok := unparen(l).(*ast.Ident); ok && id.Name == "_" {
			lhs = append(lhs, c19Path{})
			continue
		}
		p, ok := c19Chain(info, l)
		if !ok {
			return false
		}
		lhs = append(lhs, p)
	}
	overlap := func(a, b c19Path) bool {
		if a.root == nil || b.root == nil || a.root != b.root {
			return false
		}
		for k := 0; k < len(a.path) && k < len(b.path); k++ {
			if a.path[k] != b.path[k] {
				return false
			}
		}
		return true
	}
	for i := range s.Lhs {
		for j := range s.Lhs {
			if i == j {
				continue
			}
			if overlap(lhs[i], lhs[j]) {
				return false
			}
			for _, rp := range c19ReadPaths(info, s.Rhs[j]) {
				if overlap(lhs[i], rp) {
					return false
				}
			}
			// index operands and the like inside another left-hand side
			for _, rp := range c19ReadPaths(info, s.Lhs[j]) {
				if overlap(lhs[i], rp) {
					return false
				}
			}
		}
	}
	// calls on the right-hand side may write anything the left-hand sides name
	hasCall := false
	for _, r := range s.Rhs {
		inspectNoLit(r, func(n ast.Node) bool {
			if ce, ok := n.(*ast.CallExpr); ok {
				if _, conv := c19IsConversion(info, ce); !conv {
					if id, isID := unparen(ce.Fun).(*ast.Ident); isID {
						if _, bi := info.Uses[id].(*types.Builtin); bi {
							return true
						}
					}
					hasCall = true
				}
			}
			return true
		})
	}
	return !hasCall
}

// effectsOf: the writes of one supergraph node, translated in the node's alias context.
func (fl *c19Flow) effectsOf(sn *c19SNode) []*c19Effect {
	if sn.done {
		return sn.effs
	}
	sn.done = true
	c19With(sn.fr, func() {
		for _, ef := range c19RawEffects(fl.c, fl.info, sn.n, &fl.err, sn.fr.fi.Name) {
			ef := ef
			if ef.kind == 'a' && ef.rhsEx != nil && ef.rhsBool < 0 && (ef.tok == token.ASSIGN || ef.tok == token.DEFINE) && c19IsBoolType(fl.info.TypeOf(ef.lhsEx)) {
				if f := fl.form(ef.rhsEx); f.op != 'U' {
					ef.rhsForm = f
				}
			}
			sn.effs = append(sn.effs, &ef)
		}
	})
	return sn.effs
}

func (p *c19Pred) affectedBy(w c19Path) bool {
	for _, t := range p.terms {
		if t.affected(w) {
			return true
		}
	}
	return false
}

func (fl *c19Flow) expand(out map[uint32]bool, st uint32, unknown []int) {
	n := len(unknown)
	for m := 0; m < 1<<uint(n); m++ {
		s := st
		for i, b := range unknown {
			s &^= 1 << uint(b)
			if m>>uint(i)&1 == 1 {
				s |= 1 << uint(b)
			}
		}
		if fl.feasible(s) {
			out[s] = true
		}
	}
}

func (fl *c19Flow) planOf(ef *c19Effect) []c19Plan {
	if ef.planned {
		return ef.plan
	}
	ef.planned = true
	for _, p := range fl.tracked {
		if ef.kind != 'x' && !p.affectedBy(ef.lhs) {
			continue
		}
		pl := c19Plan{p: p, mode: 'u'}
		if ef.kind == 'a' {
			switch {
			case p.kind == "bool":
				if p.term.id == ef.lhsID {
					if ef.rhsBool >= 0 {
						pl.mode, pl.val = 'b', ef.rhsBool
					} else if ef.rhsForm != nil {
						pl.mode, pl.f = 'f', ef.rhsForm
					}
				}
			case ef.rhs != nil && p.base.coef[ef.lhsID] != 0:
				only := true
				for _, t := range p.terms {
					if t.id != ef.lhsID && t.affected(ef.lhs) {
						only = false
					}
				}
				if only {
					c := p.base.coef[ef.lhsID]
					l := p.base.clone()
					delete(l.coef, ef.lhsID)
					delete(l.tm, ef.lhsID)
					l = l.plus(ef.rhs, c).addK(-p.k) // the predicate after the store: l <= 0 / l == 0 over the old values
					pl.mode, pl.cs = 's', fl.cons(l, p.kind)
				}
			}
		}
		ef.plan = append(ef.plan, pl)
	}
	return ef.plan
}

func (fl *c19Flow) applyEffect(states map[uint32]bool, ef *c19Effect) map[uint32]bool {
	if ef.kind == 0 {
		return states
	}
	plan := fl.planOf(ef)
	if len(plan) == 0 {
		return states
	}
	out := map[uint32]bool{}
	var unknown []int
	for st := range states {
		ns := st
		unknown = unknown[:0]
		for _, pl := range plan {
			val := -1
			switch pl.mode {
			case 'b':
				val = pl.val
			case 's':
				val = fl.evalC(st, pl.cs)
			case 'f':
				val = fl.eval3(pl.f, st)
			}
			if val < 0 {
				unknown = append(unknown, pl.p.bit)
			} else {
				ns &^= 1 << uint(pl.p.bit)
				ns |= uint32(val) << uint(pl.p.bit)
			}
		}
		fl.expand(out, ns, unknown)
	}
	return out
}

func (fl *c19Flow) node(states map[uint32]bool, sn *c19SNode) map[uint32]bool {
	for _, ef := range fl.effectsOf(sn) {
		states = fl.applyEffect(states, ef)
	}
	if fl.ghost != nil || fl.feasibleX != nil {
		out := map[uint32]bool{}
		for st := range states {
			var ns []uint32
			if fl.ghost != nil && (sn.n != nil || sn.pseudo == "ret") {
				c19With(sn.fr, func() { ns = fl.ghost(sn, st) })
			}
			if ns == nil {
				ns = []uint32{st}
			}
			for _, s := range ns {
				if fl.consistent(s) {
					out[s] = true
				}
			}
		}
		states = out
	}
	return states
}

func (fl *c19Flow) rangeEffects(b *c19SBlk) []*c19Effect {
	if b.rng == nil {
		return nil
	}
	if !b.rngOK {
		b.rngOK = true
		c19With(b.fr, func() {
			for _, kv := range []ast.Expr{b.rng.Key, b.rng.Value} {
				if kv != nil {
					ef := c19AssignEffect(fl.info, kv, nil, token.ASSIGN)
					b.rngEf = append(b.rngEf, &ef)
				}
			}
		})
	}
	return b.rngEf
}

func (fl *c19Flow) runBlock(b *c19SBlk, in map[uint32]bool, upTo int) map[uint32]bool {
	cur := in
	for _, ef := range fl.rangeEffects(b) {
		cur = fl.applyEffect(cur, ef)
	}
	for i := 0; i < upTo && i < len(b.nodes); i++ {
		cur = fl.node(cur, b.nodes[i])
	}
	return cur
}

func (fl *c19Flow) termIDs(f *c19Form) map[string]bool {
	ps := map[*c19Pred]bool{}
	f.preds(ps)
	out := map[string]bool{}
	for p := range ps {
		for _, t := range p.terms {
			out[t.id] = true
		}
	}
	return out
}

// solve chooses the predicates relevant to the goals and runs the fixpoint.

// solve chooses the predicates relevant to the goals and runs the fixpoint.
func (fl *c19Flow) solve() {
	fl.solved = true
	type asg struct {
		lhsID string
		ids   []string
	}
	var links []asg
	for _, b := range fl.blks {
		fl.formOf(b)
		fl.rangeEffects(b)
		for _, sn := range b.nodes {
			for _, ef := range fl.effectsOf(sn) {
				if ef.kind != 'a' {
					continue
				}
				if ef.rhs != nil {
					links = append(links, asg{ef.lhsID, ef.rhs.ids()})
					// a variable assigned a linear expression equals it until either side changes: the
					// equality is a predicate of its own (named locals, bound parameters, result transfers)
					if len(ef.lhs.path) == 0 && ef.rhs.coef[ef.lhsID] == 0 && len(ef.rhs.ids()) > 0 && len(ef.rhs.ids()) <= 3 {
						lt := &c19Term{id: ef.lhsID, paths: []c19Path{ef.lhs}}
						if id, ok := ef.lhs.root.(*types.Var); ok {
							lt.ex = ast.NewIdent(id.Name())
						}
						ll := c19NewLin()
						ll.coef[lt.id] = 1
						ll.tm[lt.id] = lt
						fl.eq(ll.plus(ef.rhs, -1))
					}
				}
				if ef.rhsForm != nil {
					var ids []string
					for id := range fl.termIDs(ef.rhsForm) {
						ids = append(ids, id)
					}
					links = append(links, asg{ef.lhsID, ids})
				}
			}
		}
	}
	if fl.err != "" {
		return
	}
	// close the predicates under copies: for x := y + k (x a plain variable) every predicate on x has its
	// precondition on y as a predicate too, so that facts survive parameter passing, result transfer and
	// named locals
	type cp struct {
		x   string
		rhs *c19Lin
	}
	var copies []cp
	for _, b := range fl.blks {
		for _, sn := range b.nodes {
			for _, ef := range sn.effs {
				if ef.kind == 'a' && ef.rhs != nil && len(ef.lhs.path) == 0 && len(ef.rhs.ids()) == 1 && ef.rhs.coef[ef.lhsID] == 0 {
					if id := ef.rhs.ids()[0]; ef.rhs.coef[id] == 1 {
						copies = append(copies, cp{ef.lhsID, ef.rhs})
					}
				}
			}
		}
	}
	for round, added := 0, 0; round < 3 && added < 40; round++ {
		var cur []*c19Pred
		for _, p := range fl.all {
			if p.kind != "bool" {
				cur = append(cur, p)
			}
		}
		sort.Slice(cur, func(i, j int) bool { return cur[i].key < cur[j].key })
		n0 := len(fl.all)
		for _, p := range cur {
			for _, c := range copies {
				k := p.base.coef[c.x]
				if k == 0 {
					continue
				}
				l := p.base.clone()
				delete(l.coef, c.x)
				delete(l.tm, c.x)
				l = l.plus(c.rhs, k).addK(-p.k)
				if p.kind == "le" {
					fl.le(l)
				} else {
					fl.eq(l)
				}
			}
		}
		added += len(fl.all) - n0
		if len(fl.all) == n0 {
			break
		}
	}
	for _, p := range fl.all {
		for _, t := range p.terms {
			for _, rp := range t.paths {
				if fl.seedRoot[rp.root] {
					fl.seeds[t.id] = true
				}
			}
		}
	}
	const maxBits, softBits = 15, 11
	for depth := 2; depth >= 0; depth-- {
		rel := map[string]bool{}
		for id := range fl.seeds {
			rel[id] = true
		}
		for d := 0; d < depth; d++ {
			add := map[string]bool{}
			for _, b := range fl.blks {
				if b.form == nil {
					continue
				}
				ids := fl.termIDs(b.form)
				hit := false
				for id := range ids {
					if rel[id] {
						hit = true
					}
				}
				if hit {
					for id := range ids {
						add[id] = true
					}
				}
			}
			for id := range add {
				rel[id] = true
			}
		}
		// definitions of relevant variables are always followed (both ways for plain copies)
		for changed := true; changed; {
			changed = false
			for _, ln := range links {
				if rel[ln.lhsID] {
					for _, id := range ln.ids {
						if !rel[id] {
							rel[id] = true
							changed = true
						}
					}
				}
			}
		}
		var keys []string
		for k, p := range fl.all {
			in := true
			for _, t := range p.terms {
				if !rel[t.id] {
					in = false
				}
			}
			if in {
				keys = append(keys, k)
			}
		}
		if len(keys) > softBits && depth > 0 {
			continue // too many predicates: follow fewer links from the goals
		}
		if len(keys) > maxBits {
			// Too many even without following any condition: the predicate set is sliced for the goals. Every
			// subset of the predicates is a sound abstraction (what is not tracked is unknown), so the ones
			// farthest from the goals are left out: rank 0 the terms of the goals, 1 the terms of the conditions
			// on the way to them, +1 for every definition that has to be followed to reach a term.
			rank := map[string]int{}
			for id := range fl.seeds {
				if fl.guardSeed[id] {
					rank[id] = 1
				} else {
					rank[id] = 0
				}
			}
			for changed := true; changed; {
				changed = false
				for _, ln := range links {
					r, ok := rank[ln.lhsID]
					if !ok {
						continue
					}
					for _, id := range ln.ids {
						if old, seen := rank[id]; !seen || old > r+1 {
							rank[id] = r + 1
							changed = true
						}
					}
				}
			}
			prank := func(k string) int {
				r := 0
				for _, t := range fl.all[k].terms {
					if tr, ok := rank[t.id]; !ok {
						r = 1 << 20
					} else if tr > r {
						r = tr
					}
				}
				return r
			}
			ppos := func(k string) token.Pos { // where the predicate's terms are written (ties between equal texts)
				var m token.Pos
				for _, t := range fl.all[k].terms {
					if t.ex != nil && t.ex.Pos().IsValid() && (m == 0 || t.ex.Pos() < m) {
						m = t.ex.Pos()
					}
				}
				return m
			}
			sort.Slice(keys, func(i, j int) bool {
				ri, rj := prank(keys[i]), prank(keys[j])
				if ri != rj {
					return ri < rj
				}
				si, sj := fl.all[keys[i]].String(), fl.all[keys[j]].String()
				if si != sj {
					return si < sj
				}
				if pi, pj := ppos(keys[i]), ppos(keys[j]); pi != pj {
					return pi < pj
				}
				return keys[i] < keys[j]
			})
			if os.Getenv("C19_DEBUG") != "" {
				fmt.Fprintf(os.Stderr, "C19 %s: %d predicates relevant (limit %d); left out:\n", fl.fi.Name, len(keys), maxBits)
				for _, k := range keys[maxBits:] {
					fmt.Fprintf(os.Stderr, "    [rank %d] %s\n", prank(k), fl.all[k])
				}
			}
			fl.dropped = len(keys) - maxBits
			keys = keys[:maxBits]
		}
		sort.Slice(keys, func(i, j int) bool {
			si, sj := fl.all[keys[i]].String(), fl.all[keys[j]].String()
			if si != sj {
				return si < sj
			}
			return keys[i] < keys[j]
		})
		for i, k := range keys {
			p := fl.all[k]
			p.bit = i
			fl.tracked = append(fl.tracked, p)
			if p.kind != "bool" {
				p.bkey = c19BaseKey(p.base)
				fl.groups[p.bkey] = append(fl.groups[p.bkey], p)
				p.q1 = fl.query(p.base, p.k)
				if p.kind == "eq" {
					p.q2 = fl.query(p.base, p.k-1)
				}
			}
		}
		break
	}
	entry := map[uint32]bool{}
	var bits []int
	for _, p := range fl.tracked {
		bits = append(bits, p.bit)
	}
	fl.expand(entry, fl.ghostInit<<c19GhostShift, bits)
	fl.blks[0].in = entry
	work := []*c19SBlk{fl.blks[0]}
	for len(work) > 0 {
		b := work[len(work)-1]
		work = work[:len(work)-1]
		out := fl.runBlock(b, b.in, len(b.nodes))
		f := b.form
		for i, s := range b.succs {
			changed := false
			for st := range out {
				if f != nil && len(b.succs) == 2 {
					v := fl.eval3(f, st)
					if (i == 0 && v == 0) || (i == 1 && v == 1) {
						continue
					}
				}
				if s.in == nil {
					s.in = map[uint32]bool{}
				}
				if fl.ghostEdge != nil {
					st = fl.ghostEdge(b, i, s, st)
				}
				if !s.in[st] {
					s.in[st] = true
					changed = true
				}
			}
			if changed {
				work = append(work, s)
			}
		}
	}
}

func (fl *c19Flow) statesAt(p c19Pos) map[uint32]bool {
	if p.b == nil {
		return nil
	}
	return fl.runBlock(p.b, p.b.in, p.i)
}

func (fl *c19Flow) exitStates() map[uint32]bool {
	out := map[uint32]bool{}
	for _, b := range fl.blks {
		if b.exit {
			for st := range fl.runBlock(b, b.in, len(b.nodes)) {
				out[st] = true
			}
		}
	}
	return out
}

func (fl *c19Flow) describe(st uint32) string {
	var s []string
	for _, p := range fl.tracked {
		v := "false"
		if st>>uint(p.bit)&1 == 1 {
			v = "true"
		}
		s = append(s, fmt.Sprintf("[%s]=%s", p, v))
	}
	if len(s) == 0 {
		return "no guard of the function constrains it"
	}
	return strings.Join(s, " ")
}

// holds: is f true in every state of the set? Returns a witness state description otherwise.
func (fl *c19Flow) holds(states map[uint32]bool, f *c19Form) (bool, string) {
	var sts []uint32
	for st := range states {
		sts = append(sts, st)
	}
	sort.Slice(sts, func(i, j int) bool { return sts[i] < sts[j] })
	for _, st := range sts {
		if fl.eval3(f, st) != 1 {
			return false, fl.describe(st)
		}
	}
	return true, ""
}

// prove checks goal f at location l and records the obligation.

// prove checks goal f at position p and records the obligation.
func (fl *c19Flow) prove(rule, key string, pos token.Pos, p c19Pos, f *c19Form, what, consequence string) bool {
	c := fl.c
	if fl.err != "" {
		c.undecided(rule, key, pos, "the flow analysis does not understand %s: %s", fl.fi.Name, fl.err)
		return false
	}
	sts := fl.statesAt(p)
	if len(sts) == 0 {
		c.undecided(rule, key, pos, "no abstract state reaches the site in %s: the guards on the way contradict each other (or the rule's model of them does)", fl.fi.Name)
		return false
	}
	ok, wit := fl.holds(sts, f)
	if ok {
		note := ""
		if fl.dropped > 0 {
			note = fmt.Sprintf(", the %d farthest from the goal left out", fl.dropped)
		}
		c.ok(rule, key, pos, "%s holds in all %d abstract states reaching the site (predicates tracked: %d%s)", what, len(sts), len(fl.tracked), note)
		return true
	}
	c.bad(rule, key, pos, "%s is not established on every path to the site (%s reachable with %s): %s", what, f, wit, consequence)
	return false
}
