package main

// C05.p — every slice expression on a screen ([][]cell) or a row ([]cell) has bounds within the
// slice: 0 <= low <= high <= len (<= max <= len for the three-index form).
//
// Companion of C05.g (index expressions), decided at the same program points with the same
// engine state (bounds relative to ROWS/COLS/other variables plus the linear guard facts of the
// path), so a guard `if col+w <= len(line)`, a clamp `n = min(n, len(line)-col)`, an early return,
// a helper that receives the row and the bounds (checked in the context of its callers like every
// other helper) all count. A memmove written as `copy(line[a:], line[b:])` is as good as the
// hand-written loop exactly when a and b are proved <= len(line): unlike the loop, which simply runs
// zero times, the slice expression panics when a bound lies beyond the end — and the cursor column
// may legitimately be COLS (deferred wrap), a glyph may be wider than what is left of the line.
//
// The bound is len, not cap: rows and screens are allocated with make([]cell, w) / make([][]cell, h)
// (cap == len, C05.c), and a window reaching beyond len would expose cells that are not part of
// the screen.
//
// The obligations are produced by the hook of c05InvRound (c05.go); this file holds the judgement
// of one expression, the transfer of copy() into a screen, and the registration of the clause.

import (
	"fmt"
	"go/ast"
	"go/token"
	"go/types"
	"reflect"
)

const c05pClause = "C05.p every slice expression on a screen ([][]cell) or row ([]cell) has 0 <= low <= high <= len (and high <= max <= len)"

// c05SliceObligations judges one slice expression x (on a screen or a row) in state st.
func c05SliceObligations(e *c05Eng, fr *c05Frame, st *c05State, x *ast.SliceExpr, fn string,
	add func(rule, key string, pos token.Pos, ok bool, format string, args ...any)) {
	xt := fr.info.TypeOf(x.X)
	grid, row := e.isGrid(xt), e.isRow(xt)
	if !grid && !row {
		return
	}
	what := "column"
	if grid {
		what = "row"
	}
	ex := types.ExprString(x)
	s2 := st.clone()
	ln := e.canon(s2, e.lenLin(fr, s2, x.X))
	type bound struct {
		name string
		x    ast.Expr
		l    c05Lin
	}
	var bs []bound
	if x.Low != nil {
		bs = append(bs, bound{"low", x.Low, e.linOf(fr, s2, x.Low)})
	}
	if x.High != nil {
		bs = append(bs, bound{"high", x.High, e.linOf(fr, s2, x.High)})
	}
	if x.Max != nil {
		bs = append(bs, bound{"max", x.Max, e.linOf(fr, s2, x.Max)})
	}
	judge := func(key string, pos token.Pos, l c05Lin, okMsg, badMsg string) {
		// l <= 0 ?
		if e.prove(s2, l) {
			add("C05.p", fmt.Sprintf("%s/%s: %s", fn, ex, key), pos, true, "%s", okMsg)
		} else {
			add("C05.p", fmt.Sprintf("%s/%s: %s", fn, ex, key), pos, false, "%s", badMsg)
		}
	}
	// the first bound is >= 0, consecutive bounds are ordered, the last one is <= len
	for i, b := range bs {
		val := e.showVal(e.evalLin(s2, b.l))
		if i == 0 {
			judge(fmt.Sprintf("%s slice %s bound >= 0", what, b.name), b.x.Pos(), b.l.neg(),
				fmt.Sprintf("%s bound %s is %s", b.name, e.showLin(b.l), val),
				fmt.Sprintf("the %s bound %s of the %s window can be negative (bounds: %s): slice bounds out of range panic on child output", b.name, e.showLin(b.l), what, val))
		} else {
			p := bs[i-1]
			judge(fmt.Sprintf("%s slice %s bound <= %s bound", what, p.name, b.name), p.x.Pos(), p.l.addScaled(b.l, -1),
				fmt.Sprintf("%s <= %s", e.showLin(p.l), e.showLin(b.l)),
				fmt.Sprintf("the %s bound %s is not bounded by the %s bound %s (%s is %s): slice bounds out of range panic on child output", p.name, e.showLin(p.l), b.name, e.showLin(b.l), e.showLin(b.l), val))
		}
		if i == len(bs)-1 {
			judge(fmt.Sprintf("%s slice %s bound <= len", what, b.name), b.x.Pos(), b.l.addScaled(ln, -1),
				fmt.Sprintf("%s bound %s is %s, length %s", b.name, e.showLin(b.l), val, e.showLin(ln)),
				fmt.Sprintf("the %s bound %s of the %s window is not bounded by the length %s (bounds: %s): where an index loop would simply not run, the slice expression panics (slice bounds out of range) on child output", b.name, e.showLin(b.l), what, e.showLin(ln), val))
		}
	}
	if len(bs) == 0 {
		add("C05.p", fmt.Sprintf("%s/%s: %s slice without bounds", fn, ex, what), x.Pos(), true, "x[:] cannot fail")
	}
}

// c05IsBuiltin: call of the builtin `name`.
func c05IsBuiltin(info *types.Info, call *ast.CallExpr, name string) bool {
	id, ok := unparen(call.Fun).(*ast.Ident)
	if !ok || id.Name != name {
		return false
	}
	_, isB := info.Uses[id].(*types.Builtin)
	return isB
}

// c05CopyDst: for copy(dst, src) with dst a screen (or a window of one): the screen expression.
func (e *c05Eng) c05CopyDst(info *types.Info, call *ast.CallExpr) ast.Expr {
	if len(call.Args) != 2 || !c05IsBuiltin(info, call, "copy") {
		return nil
	}
	if !e.isGrid(info.TypeOf(call.Args[0])) {
		return nil
	}
	return c05StripSlices(call.Args[0])
}

// copyIntoGrid: copy(dst[a:], src[b:]) replaces rows of dst by rows of src. Rows moved within one
// screen keep its row length; rows of another screen bring theirs (weak update, like X[i] = row).
func (e *c05Eng) copyIntoGrid(fr *c05Frame, st *c05State, n ast.Node) {
	if st == nil || st.env == nil || c05NilNode(n) {
		return
	}
	inspectNoLit(n, func(m ast.Node) bool {
		call, ok := m.(*ast.CallExpr)
		if !ok {
			return true
		}
		dst := e.c05CopyDst(fr.info, call)
		if dst == nil {
			return true
		}
		dk := e.pathKey(fr, dst)
		if dk == "" {
			return true
		}
		sk := e.pathKey(fr, c05StripSlices(call.Args[1]))
		if sk == dk {
			return true
		}
		rlK := e.derived("rowlen:", dk)
		if sk == "" {
			delete(st.env, rlK)
			return true
		}
		srcK := e.derived("rowlen:", sk)
		if sv, ok := st.env[srcK]; !ok || sv.bot {
			delete(st.env, rlK)
			return true
		}
		if old, ok := st.env[rlK]; ok && old.bot {
			v := c05Top()
			v.addLo("", 0)
			st.env[rlK] = v
			return true
		}
		a := c05NewState()
		a.env[rlK] = e.valOf(st, rlK)
		b := c05NewState()
		w := e.evalLin(st, c05Atom(srcK))
		delete(w.lo, rlK)
		delete(w.hi, rlK)
		b.env[rlK] = w
		if v, ok := e.join(a, b, false).env[rlK]; ok {
			st.env[rlK] = v
		} else {
			delete(st.env, rlK)
		}
		return true
	})
}

// enterCtxCalls: a contextual helper (one whose proof needs what its callers know) that is called
// in expression position with a non-integer result — `copy(vt.rowFrom(r, c+w), vt.rowFrom(r, c))` —
// is entered with the caller's state like a helper called as a statement, so that its constructs
// are judged where the facts are. Integer-valued calls are entered when their value is computed
// (linOf), statement-level calls by callStmt.
func (e *c05Eng) enterCtxCalls(fr *c05Frame, st *c05State, n ast.Node) {
	if len(e.ctx) == 0 || st == nil || st.env == nil || c05NilNode(n) {
		return
	}
	var top *ast.CallExpr
	if es, ok := n.(*ast.ExprStmt); ok {
		top, _ = unparen(es.X).(*ast.CallExpr)
	}
	var calls []*ast.CallExpr
	inspectNoLit(n, func(m ast.Node) bool {
		call, ok := m.(*ast.CallExpr)
		if !ok || call == top {
			return true
		}
		if t := fr.info.TypeOf(call); t != nil && isIntType(t) {
			return true
		}
		if fn := calleeOf(fr.info, call); fn != nil {
			if fi := e.c.P.FuncOfObj(fn); fi != nil && fi.Pkg == e.pk && fi.Decl.Body != nil && e.ctx[fi] {
				calls = append(calls, call)
			}
		}
		return true
	})
	// innermost first (arguments are evaluated before the call)
	for i := len(calls) - 1; i >= 0; i-- {
		if st.env == nil {
			return
		}
		fi := e.c.P.FuncOfObj(calleeOf(fr.info, calls[i]))
		e.inlineCall(fr, st, calls[i], fi, false)
	}
}

// c05NilNode: a nil interface or a typed nil pointer (the C06 executor transfers optional statements as they are).
func c05NilNode(n ast.Node) bool {
	if n == nil {
		return true
	}
	v := reflect.ValueOf(n)
	return v.Kind() == reflect.Ptr && v.IsNil()
}
