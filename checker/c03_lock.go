package main

// C03.n — the input goroutine never waits while it holds a mutex the application side takes.
//
// "an unsolicited, repeated, truncated or malformed reply can neither wedge the loop nor crash the program":
// the loop that turns terminal reports into events runs handleSequence on the input goroutine. C03.b decides
// which of its channel operations may block at all (the event-queue send of PostEventBlocking, which waits
// for the application to receive). That wait is only harmless while the application can get to its receive:
// if the input goroutine holds a mutex across it that the application's side also takes (Render, Resize and
// the query functions take Vaxis.mu), a report that arrives while the queue is full stops both sides for good
// (seed C03_b_r7: the pixel-size and in-band-resize reports posted their event before vx.mu.Unlock()).
//
// The rule reuses the lock engine of C10 (may-held locksets, calling contexts resolved through types): for
// every unbounded blocking operation (channel send/receive that is not an arm of a select with a way out, a
// blocking external call) that can execute in a context in which handleSequence runs, no real mutex may be
// held there — locally or by any caller in that context. C10.b states the same for every goroutine; this
// rule is the clause of C03 and names the report loop.

import (
	"fmt"
)

func init() { registerExtra("C03", c03NoWaitUnderLock) }

func c03NoWaitUnderLock(c *Ctx) {
	c.Clauses = append(c.Clauses, "C03.n the input goroutine never waits while holding a mutex: every unbounded blocking operation (event-queue send, blocking receive, blocking external call) that can run in a context of handleSequence is reached with no mutex held, locally or by a caller in that context (lock engine of C10)")
	c.expect("C03.n", 1)
	e := c10EngCache
	if e == nil || e.p != c.P {
		e = c10Build(c)
	}
	h := e.byName["vaxis.(*Vaxis).handleSequence"]
	if h == nil {
		c.undecided("C03.n", "vaxis.(*Vaxis).handleSequence", 0, "handleSequence not found in the lock engine")
		return
	}
	input := e.ctxSet(h, 1)
	if input == 0 {
		c.undecided("C03.n", "vaxis.(*Vaxis).handleSequence/contexts", h.pos(), "handleSequence runs in no goroutine context the engine knows")
		return
	}
	agg := newC10Agg("C03.n")
	for _, f := range e.fns {
		for _, s := range f.sites {
			what := ""
			switch {
			case (s.kind == "send" || s.kind == "recv") && s.block == "unbounded":
				what = s.desc
			case s.kind == "call":
				if why, ok := c10ExternalBlocking[s.ext]; ok {
					if e.boundedExternal(s) != "" {
						continue
					}
					what = s.ext + " (" + why + ")"
				}
			}
			if what == "" {
				continue
			}
			var held c10Bits
			in := false
			for _, cfg := range f.cfgList[1] {
				if input&(1<<uint(cfg.ctx)) == 0 {
					continue
				}
				in = true
				held |= s.st.may | e.heldAt(s, cfg, 1)
			}
			if !in {
				continue
			}
			held = e.realMutexes(held)
			key := what + " in the input context"
			agg.add(key, s.node.Pos(), false, "no mutex is held when the input goroutine waits here")
			for _, m := range e.mux.list(held) {
				if _, allowed := c10BlockingAllowed[m]; allowed {
					continue // its safety condition is an obligation of C10.b
				}
				agg.add(key, s.node.Pos(), true, fmt.Sprintf("%s (in %s) can run on the input goroutine while %s is held: when the operation has to wait (event queue full) and the application takes %s before it receives again, neither side continues — a report arriving at that moment wedges the loop", what, f.key, m, m))
			}
		}
	}
	agg.flush(c)
}
