package main

// c19norm — source normalisation for C19, complementing the global helper inliner (gnorm.go / c15norm.go):
// a LOCAL CLOSURE that is nothing but a named block of statements of its function
//
//	endLine := func() { m.lines = append(m.lines, l); l = &line{}; col = 0 }
//	...
//	endLine()
//
// is spliced into its call sites (`{ body }`) and its definition is dropped, so that the rules see the
// statements where they are executed. The rewrite is purely syntactic and conservative; a closure is
// inlined only if
//   - it is defined once (`name := func(...) {...}` or `var name = func(...) {...}`), has no results, is not
//     variadic, and its name is used only as the callee of calls that stand alone as a statement (never
//     assigned again, passed, returned, deferred or started as a goroutine), never inside itself;
//   - its body has no return, defer or label (function literals nested in it are left alone);
//   - every name the body takes from its surroundings resolves to the same object at each call site (no
//     shadowing between the definition and the call): variables are captured by reference, so executing
//     the body at the call site reads and writes the very same variables;
//   - parameters are bound in evaluation order by one short variable declaration in front of the body.
//
// The changed files are printed, re-parsed and re-type-checked (c15Recheck). Nothing is executed.

import (
	"go/ast"
	"go/token"
	"go/types"

	"golang.org/x/tools/go/packages"
)

var c19AnchorPkgs = []string{"widgets/list", "widgets/pager", "widgets/scrollbar", "vxfw/list"}

func c19NormaliseClosures(c *Ctx) {
	for round := 0; round < 4; round++ {
		changed := map[*packages.Package]map[*ast.File]bool{}
		for _, sh := range c19AnchorPkgs {
			pk := c.P.Pkg(sh)
			if pk == nil || pk.TypesInfo == nil || pk.Types == nil {
				continue
			}
			for _, f := range pk.Syntax {
				for _, d := range f.Decls {
					fd, ok := d.(*ast.FuncDecl)
					if !ok || fd.Body == nil {
						continue
					}
					if n := c19InlineClosuresIn(pk, fd); n != "" {
						if changed[pk] == nil {
							changed[pk] = map[*ast.File]bool{}
						}
						changed[pk][f] = true
						c.info("normalised: local closure %s spliced into %s.%s", n, sh, funcDeclName(fd))
					}
				}
			}
		}
		if len(changed) == 0 {
			return
		}
		if err := c15Recheck(c, c19AnchorPkgs, changed); err != nil {
			c.undecided("LOAD", "normalise", 0, "splicing local closures produced code that does not type-check (%v); analysing the original text is no longer possible in this run", err)
			return
		}
		installAccessorResolver(c.P)
	}
}

// c19StmtList: the statement list that directly contains statements (nil for other nodes).
func c19StmtList(n ast.Node) *[]ast.Stmt {
	switch t := n.(type) {
	case *ast.BlockStmt:
		return &t.List
	case *ast.CaseClause:
		return &t.Body
	case *ast.CommClause:
		return &t.Body
	}
	return nil
}

// c19InlineClosuresIn splices ONE closure of fd (the first that qualifies) and returns its name; the caller
// re-type-checks and calls again.
func c19InlineClosuresIn(pk *packages.Package, fd *ast.FuncDecl) string {
	info := pk.TypesInfo
	parents := map[ast.Node]ast.Node{}
	var stack []ast.Node
	ast.Inspect(fd.Body, func(n ast.Node) bool {
		if n == nil {
			stack = stack[:len(stack)-1]
			return true
		}
		if len(stack) > 0 {
			parents[n] = stack[len(stack)-1]
		}
		stack = append(stack, n)
		return true
	})
	type cand struct {
		def  ast.Stmt
		name *ast.Ident
		lit  *ast.FuncLit
	}
	var cands []cand
	ast.Inspect(fd.Body, func(n ast.Node) bool {
		switch s := n.(type) {
		case *ast.AssignStmt:
			if s.Tok == token.DEFINE && len(s.Lhs) == 1 && len(s.Rhs) == 1 {
				if id, ok := s.Lhs[0].(*ast.Ident); ok && id.Name != "_" {
					if lit, ok := s.Rhs[0].(*ast.FuncLit); ok {
						cands = append(cands, cand{s, id, lit})
					}
				}
			}
		case *ast.DeclStmt:
			if gd, ok := s.Decl.(*ast.GenDecl); ok && gd.Tok == token.VAR && len(gd.Specs) == 1 {
				if vs, ok := gd.Specs[0].(*ast.ValueSpec); ok && len(vs.Names) == 1 && len(vs.Values) == 1 && vs.Names[0].Name != "_" {
					if lit, ok := vs.Values[0].(*ast.FuncLit); ok {
						cands = append(cands, cand{s, vs.Names[0], lit})
					}
				}
			}
		}
		return true
	})
	for _, cd := range cands {
		obj := info.Defs[cd.name]
		if obj == nil || c19StmtList(parents[cd.def]) == nil {
			continue
		}
		lit := cd.lit
		if lit.Type.Results != nil && len(lit.Type.Results.List) > 0 {
			continue
		}
		sig, _ := info.TypeOf(lit).(*types.Signature)
		if sig == nil || sig.Variadic() {
			continue
		}
		// parameters: all named (or none)
		var params []*ast.Ident
		okParams := true
		if lit.Type.Params != nil {
			for _, f := range lit.Type.Params.List {
				if len(f.Names) == 0 {
					okParams = false
				}
				params = append(params, f.Names...)
			}
		}
		if !okParams {
			continue
		}
		// the body: no return / defer / label outside nested literals
		plain := true
		var visit func(n ast.Node) bool
		visit = func(n ast.Node) bool {
			switch n.(type) {
			case *ast.FuncLit:
				return false
			case *ast.ReturnStmt, *ast.DeferStmt, *ast.LabeledStmt:
				plain = false
			}
			return plain
		}
		ast.Inspect(lit.Body, visit)
		if !plain {
			continue
		}
		// every use is a statement-level call outside the literal
		type site struct {
			es   *ast.ExprStmt
			call *ast.CallExpr
		}
		var sites []site
		okUses := true
		ast.Inspect(fd.Body, func(n ast.Node) bool {
			id, ok := n.(*ast.Ident)
			if !ok || !okUses {
				return okUses
			}
			if info.Uses[id] != obj {
				if id != cd.name && info.Defs[id] == obj {
					okUses = false
				}
				return true
			}
			if id.Pos() >= lit.Pos() && id.End() <= lit.End() {
				okUses = false
				return false
			}
			call, isCall := parents[id].(*ast.CallExpr)
			if !isCall || call.Fun != ast.Expr(id) || len(call.Args) != len(params) || call.Ellipsis.IsValid() {
				okUses = false
				return false
			}
			es, isStmt := parents[call].(*ast.ExprStmt)
			if !isStmt || c19StmtList(parents[es]) == nil {
				okUses = false
				return false
			}
			sites = append(sites, site{es, call})
			return true
		})
		if !okUses || len(sites) == 0 {
			continue
		}
		// names taken from the surroundings mean the same thing at every call site
		okNames := true
		ast.Inspect(lit.Body, func(n ast.Node) bool {
			id, ok := n.(*ast.Ident)
			if !ok || !okNames {
				return okNames
			}
			o := info.Uses[id]
			if o == nil || o.Parent() == nil || o.Parent() == types.Universe {
				return true
			}
			if o.Pos() >= lit.Pos() && o.Pos() < lit.End() {
				return true // declared by the literal itself (parameters, locals)
			}
			for _, st := range sites {
				inner := pk.Types.Scope().Innermost(st.call.Pos())
				if inner == nil {
					okNames = false
					return false
				}
				if _, found := inner.LookupParent(id.Name, st.call.Pos()); found != o {
					okNames = false
					return false
				}
			}
			return true
		})
		if !okNames {
			continue
		}
		// splice
		for _, st := range sites {
			body := c15Copy(lit.Body, nil).(*ast.BlockStmt)
			if len(params) > 0 {
				var lhs, rhs []ast.Expr
				var keep []ast.Stmt
				for i, p := range params {
					name := p.Name
					if name == "_" {
						// the argument is still evaluated
						lhs = append(lhs, ast.NewIdent("_"))
						rhs = append(rhs, c15Copy(st.call.Args[i], nil).(ast.Expr))
						continue
					}
					lhs = append(lhs, ast.NewIdent(name))
					rhs = append(rhs, c15Copy(st.call.Args[i], nil).(ast.Expr))
					keep = append(keep, &ast.AssignStmt{Lhs: []ast.Expr{ast.NewIdent("_")}, Tok: token.ASSIGN, Rhs: []ast.Expr{ast.NewIdent(name)}})
				}
				allBlank := true
				for _, l := range lhs {
					if l.(*ast.Ident).Name != "_" {
						allBlank = false
					}
				}
				tok := token.DEFINE
				if allBlank {
					tok = token.ASSIGN
				}
				pre := []ast.Stmt{&ast.AssignStmt{Lhs: lhs, Tok: tok, Rhs: rhs}}
				pre = append(pre, keep...)
				body.List = append(pre, body.List...)
			}
			list := c19StmtList(parents[st.es])
			for i, s := range *list {
				if s == ast.Stmt(st.es) {
					(*list)[i] = body
				}
			}
		}
		list := c19StmtList(parents[cd.def])
		var out []ast.Stmt
		for _, s := range *list {
			if s != cd.def {
				out = append(out, s)
			}
		}
		*list = out
		return cd.name.Name
	}
	return ""
}
