package main

// C12.h — a freshly entered alternate screen is repainted in full.
//
// Entering the alternate screen (CSI ?1049h, also ?47h / ?1047h) hands the renderer a terminal grid that is
// blank — the embedded emulator clears it, and Suspend leaves it cleared — while Vaxis.screenLast still holds the
// last frame. The diff renderer skips every cell equal to screenLast unless the full-repaint flag is up, so the
// next frame reproduces the application's screen only if, between the entry and that frame, the flag is raised
// (or screenLast is re-allocated blank). This is a necessary condition of C12 for every history that contains
// Suspend/Resume at an unchanged size.
//
// Decided as a typestate over the call graph of package vaxis, independent of where the code puts the
// statements (in the entry helper, in its callers, before or after the write, in a new helper):
//
//	state   dirty  the alternate screen was entered and no full repaint has been painted since
//	        full   the full-repaint state is established (flag up, or screenLast blank)
//	events  ENTER    a terminal write whose bytes contain the alt-screen DECSET      dirty := true
//	        EST      flag = true | Vaxis.screenLast re-allocated                     full := true
//	        KILL     flag = false                                                    full := false
//	        FRAME    a read of the flag (the diff renderer honouring it)             dirty ∧ ¬full: VIOLATION; full: dirty := false
//
// Every function gets a summary (input state → set of output states) by forward dataflow over its CFG with the
// summaries of its static callees (fixpoint); deferred calls are applied at the exits. Every API boundary
// (exported function or method, function literal or function without static caller) is started in each state that
// satisfies the invariant dirty ⇒ full, and must re-establish it at every successful return: the application's
// next call may be Render. The flag is the bool field of Vaxis that a condition of package vaxis reads together
// with Vaxis.screenLast (the skip test of the diff renderer); nothing is matched by name except the anchor types.

import (
	"fmt"
	"go/ast"
	"go/constant"
	"go/token"
	"go/types"
	"sort"
	"strings"

	"golang.org/x/tools/go/cfg"
)

func init() { registerExtra("C12", c12AltScreenRepaint) }

// c12LastEms: the emissions of package vaxis as resolved and expanded by runC12 (shared with the extra rules).
var c12LastEms []*Emission

type c12hEvKind int

const (
	c12hEnter c12hEvKind = iota
	c12hEst
	c12hKill
	c12hFrame
	c12hCall
)

type c12hEvent struct {
	kind c12hEvKind
	pos  token.Pos
	u    *c12hUnit // c12hCall
}

type c12hUnit struct {
	name     string
	fi       *FuncInfo
	lit      *ast.FuncLit
	g        *FG
	events   map[ast.Node][]c12hEvent // per CFG node
	deferred []c12hEvent
	direct   bool // has an event of its own
	relevant bool
	called   bool
	sum      [8]uint8
	hasEnter bool
	reaches  map[c12hEvKind]bool
}

const (
	c12hDirty = 1
	c12hFull  = 2
	c12hBad   = 4
)

func c12hApply(k c12hEvKind, s int) int {
	switch k {
	case c12hEnter:
		return s | c12hDirty
	case c12hEst:
		return s | c12hFull
	case c12hKill:
		return s &^ c12hFull
	case c12hFrame:
		if s&c12hDirty != 0 && s&c12hFull == 0 {
			return s | c12hBad
		}
		if s&c12hFull != 0 {
			return s &^ c12hDirty
		}
	}
	return s
}

func c12hApplySet(ev c12hEvent, in uint8) uint8 {
	var out uint8
	for s := 0; s < 8; s++ {
		if in&(1<<uint(s)) == 0 {
			continue
		}
		if ev.kind == c12hCall {
			out |= ev.u.sum[s]
		} else {
			out |= 1 << uint(c12hApply(ev.kind, s))
		}
	}
	return out
}

// c12hRepaintFlags: the bool fields of Vaxis that (a) package vaxis assigns both the constant true and the constant
// false, and (b) a condition reads inside a function that touches the remembered frame (mentions Vaxis.screenLast,
// directly or through a local alias, or receives a value of its type as a parameter): the flag the diff renderer
// consults before it skips a cell equal to the last frame. Independent of the shape of that test.
func c12hRepaintFlags(c *Ctx) map[*types.Var]bool {
	out := map[*types.Var]bool{}
	setTrue, setFalse := map[*types.Var]bool{}, map[*types.Var]bool{}
	readWithLast := map[*types.Var]bool{}
	var lastT types.Type
	if pk := c.P.Pkg("vaxis"); pk != nil {
		if o := pk.Types.Scope().Lookup("Vaxis"); o != nil {
			if st, ok := o.Type().Underlying().(*types.Struct); ok {
				for i := 0; i < st.NumFields(); i++ {
					if st.Field(i).Name() == "screenLast" {
						lastT = st.Field(i).Type()
					}
				}
			}
		}
	}
	vaxisBoolField := func(info *types.Info, e ast.Expr) *types.Var {
		sel, ok := unparen(e).(*ast.SelectorExpr)
		if !ok {
			return nil
		}
		s, ok := info.Selections[sel]
		if !ok || s.Kind() != types.FieldVal {
			return nil
		}
		f, _ := s.Obj().(*types.Var)
		if f == nil {
			return nil
		}
		if b, ok := f.Type().Underlying().(*types.Basic); !ok || b.Kind() != types.Bool {
			return nil
		}
		if p := canonPath(info, sel); !strings.HasPrefix(p, "Vaxis.") || strings.Count(p, ".") != 1 {
			return nil
		}
		return f
	}
	for _, fi := range c.P.FuncsIn("vaxis") {
		if fi.Decl.Body == nil {
			continue
		}
		info := fi.Pkg.TypesInfo
		touches := false
		if lastT != nil {
			for _, f := range fi.Decl.Type.Params.List {
				if t := info.TypeOf(f.Type); t != nil && types.Identical(t, lastT) {
					touches = true
				}
			}
		}
		var condReads []*types.Var
		ast.Inspect(fi.Decl.Body, func(n ast.Node) bool {
			switch t := n.(type) {
			case *ast.SelectorExpr:
				if p := canonPath(info, t); p == "Vaxis.screenLast" || strings.HasPrefix(p, "Vaxis.screenLast.") {
					touches = true
				}
			case *ast.AssignStmt:
				if len(t.Lhs) == len(t.Rhs) && t.Tok == token.ASSIGN {
					for i, l := range t.Lhs {
						if f := vaxisBoolField(info, l); f != nil {
							switch c12hConstBool(info, t.Rhs[i]) {
							case 1:
								setTrue[f] = true
							case 0:
								setFalse[f] = true
							}
						}
					}
				}
			case *ast.IfStmt:
				ast.Inspect(t.Cond, func(m ast.Node) bool {
					if e, ok := m.(ast.Expr); ok {
						if f := vaxisBoolField(info, e); f != nil {
							condReads = append(condReads, f)
						}
					}
					return true
				})
			case *ast.CaseClause:
				for _, ce := range t.List {
					ast.Inspect(ce, func(m ast.Node) bool {
						if e, ok := m.(ast.Expr); ok {
							if f := vaxisBoolField(info, e); f != nil {
								condReads = append(condReads, f)
							}
						}
						return true
					})
				}
			case *ast.SwitchStmt:
				if t.Tag != nil {
					if f := vaxisBoolField(info, t.Tag); f != nil {
						condReads = append(condReads, f)
					}
				}
			}
			return true
		})
		if touches {
			for _, f := range condReads {
				readWithLast[f] = true
			}
		}
	}
	for f := range readWithLast {
		if setTrue[f] && setFalse[f] {
			out[f] = true
		}
	}
	return out
}

// c12hReallocates: the method re-allocates a slice field of its receiver unconditionally (screen.resize): called
// on Vaxis.screenLast it leaves the remembered frame blank.
func c12hReallocates(fi *FuncInfo) bool {
	if fi == nil || fi.Decl.Body == nil || fi.Decl.Recv == nil || len(fi.Decl.Recv.List) != 1 || len(fi.Decl.Recv.List[0].Names) != 1 {
		return false
	}
	info := fi.Pkg.TypesInfo
	recv := info.Defs[fi.Decl.Recv.List[0].Names[0]]
	for _, s := range fi.Decl.Body.List {
		as, ok := s.(*ast.AssignStmt)
		if !ok || len(as.Lhs) != 1 || len(as.Rhs) != 1 || as.Tok != token.ASSIGN {
			continue
		}
		sel, ok := unparen(as.Lhs[0]).(*ast.SelectorExpr)
		if !ok {
			continue
		}
		id, ok := unparen(sel.X).(*ast.Ident)
		if !ok || info.ObjectOf(id) != recv {
			continue
		}
		if _, isSlice := info.TypeOf(sel).Underlying().(*types.Slice); !isSlice {
			continue
		}
		if call, ok := unparen(as.Rhs[0]).(*ast.CallExpr); ok {
			if fid, ok := unparen(call.Fun).(*ast.Ident); ok {
				if _, isB := info.Uses[fid].(*types.Builtin); isB && fid.Name == "make" {
					return true
				}
			}
		}
	}
	return false
}

func c12hAltScreenEntry(tmpl string) bool {
	for _, s := range parseSeqs(tmpl) {
		if s.Kind != "CSI" || s.Private != "?" || s.Final != "h" || s.Inter != "" {
			continue
		}
		for _, p := range strings.Split(s.Params, ";") {
			if p == "1049" || p == "1047" || p == "47" {
				return true
			}
		}
	}
	return false
}

func c12AltScreenRepaint(c *Ctx) {
	const rule = "C12.h"
	c.Clauses = append(c.Clauses, rule+" every way of entering the alternate screen (a terminal write containing CSI ?1049h) leaves the renderer in the full-repaint state (repaint flag raised or screenLast re-allocated) at every API boundary, the flag is lowered only after a frame honoured it, and no frame is diffed against a stale screenLast on a freshly entered screen (typestate over the call graph of package vaxis)")
	c.expect(rule, 3)
	pk := c.P.Pkg("vaxis")
	if pk == nil {
		c.undecided(rule, "package vaxis", 0, "not loaded")
		return
	}
	info := pk.TypesInfo
	flags := c12hRepaintFlags(c)
	if len(flags) == 0 {
		c.undecided(rule, "coverage/full-repaint flag", 0, "no bool field of Vaxis is both raised and lowered by the package and read in a condition of a function that touches Vaxis.screenLast: the repaint flag of the diff renderer was not recognised")
		return
	}
	for f := range flags {
		c.info("C12.h repaint flag: Vaxis.%s", f.Name())
	}
	// ENTER sites
	ems := c12LastEms
	if ems == nil {
		st := &c12State{c: c, lang: newC12Lang(c.P)}
		for _, e := range ExtractEmissions(c.P, c.P.FuncsIn("vaxis"), vaxisTerminalSink) {
			if !e.Resolved {
				st.resolveByExec(e)
			}
			ems = append(ems, e)
		}
	}
	enterCalls := map[*ast.CallExpr]bool{}
	for _, e := range ems {
		call := e.Call
		if s := c12SiteOf[e]; s != nil && s.call != nil {
			call = s.call
		}
		if !e.Resolved {
			continue
		}
		for _, t := range e.Templates {
			if c12hAltScreenEntry(t) {
				enterCalls[call] = true
			}
		}
	}
	// units
	var units []*c12hUnit
	byDecl := map[*FuncInfo]*c12hUnit{}
	byLit := map[*ast.FuncLit]*c12hUnit{}
	for _, fi := range c.P.FuncsIn("vaxis") {
		if fi.Decl.Body == nil || fi.Pkg != pk {
			continue
		}
		u := &c12hUnit{name: fi.Name, fi: fi, g: c.P.Graph(fi)}
		units = append(units, u)
		byDecl[fi] = u
		n := 0
		ast.Inspect(fi.Decl.Body, func(x ast.Node) bool {
			if lit, ok := x.(*ast.FuncLit); ok {
				n++
				nm := fmt.Sprintf("%s$%d", fi.Name, n)
				lu := &c12hUnit{name: nm, fi: fi, lit: lit, g: c.P.GraphOfLit(fi.Pkg, nm, lit)}
				units = append(units, lu)
				byLit[lit] = lu
			}
			return true
		})
	}
	isFlag := func(e ast.Expr) bool {
		sel, ok := unparen(e).(*ast.SelectorExpr)
		if !ok {
			return false
		}
		s, ok := info.Selections[sel]
		if !ok || s.Kind() != types.FieldVal {
			return false
		}
		f, _ := s.Obj().(*types.Var)
		return f != nil && flags[f]
	}
	var undec []string
	calleeUnit := func(u *c12hUnit, call *ast.CallExpr) *c12hUnit {
		if id, ok := unparen(call.Fun).(*ast.Ident); ok {
			if obj, isVar := info.ObjectOf(id).(*types.Var); isVar && !obj.IsField() && !c12AssignedElsewhere(u.fi, obj) {
				if lit, ok := unparen(c12LocalInit(u.fi, obj)).(*ast.FuncLit); ok {
					return byLit[lit]
				}
			}
		}
		if lit, ok := unparen(call.Fun).(*ast.FuncLit); ok {
			return byLit[lit]
		}
		if fn := calleeOf(info, call); fn != nil {
			if fi := c.P.FuncOfObj(fn); fi != nil {
				return byDecl[fi]
			}
		}
		return nil
	}
	// events of one CFG node, in source order (calls take effect at their closing parenthesis)
	scan := func(u *c12hUnit, node ast.Node) []c12hEvent {
		var evs []c12hEvent
		lhs := map[ast.Expr]bool{}
		inspectNoLit(node, func(n ast.Node) bool {
			switch t := n.(type) {
			case *ast.FuncLit:
				if t != node {
					return false
				}
			case *ast.GoStmt:
				return false // runs concurrently: not part of this path
			case *ast.AssignStmt:
				for i, l := range t.Lhs {
					if isFlag(l) {
						lhs[unparen(l)] = true
						switch {
						case len(t.Lhs) == len(t.Rhs) && t.Tok == token.ASSIGN && c12hConstBool(info, t.Rhs[i]) == 1:
							evs = append(evs, c12hEvent{kind: c12hEst, pos: t.End()})
						case len(t.Lhs) == len(t.Rhs) && t.Tok == token.ASSIGN && c12hConstBool(info, t.Rhs[i]) == 0:
							evs = append(evs, c12hEvent{kind: c12hKill, pos: t.End()})
						default:
							undec = append(undec, fmt.Sprintf("%s assigns the repaint flag a value that is not a constant (%s)", u.name, c.P.Pos(t.Pos())))
						}
					} else if p := canonPath(info, l); p == "Vaxis.screenLast" {
						if _, isId := unparen(l).(*ast.Ident); !isId && len(t.Lhs) == len(t.Rhs) {
							if _, plain := unparen(t.Rhs[i]).(*ast.Ident); !plain {
								evs = append(evs, c12hEvent{kind: c12hEst, pos: t.End()})
							}
						}
					}
				}
			case *ast.UnaryExpr:
				if t.Op == token.AND && isFlag(t.X) {
					undec = append(undec, fmt.Sprintf("%s takes the address of the repaint flag (%s)", u.name, c.P.Pos(t.Pos())))
				}
			case *ast.SelectorExpr:
				if isFlag(t) && !lhs[t] {
					evs = append(evs, c12hEvent{kind: c12hFrame, pos: t.Pos()})
				}
			case *ast.CallExpr:
				if enterCalls[t] {
					evs = append(evs, c12hEvent{kind: c12hEnter, pos: t.Rparen})
				}
				if sel, ok := unparen(t.Fun).(*ast.SelectorExpr); ok {
					if p := canonPath(info, sel.X); p == "Vaxis.screenLast" {
						if fn := calleeOf(info, t); fn != nil && c12hReallocates(c.P.FuncOfObj(fn)) {
							evs = append(evs, c12hEvent{kind: c12hEst, pos: t.Rparen})
						}
					}
				}
				if cu := calleeUnit(u, t); cu != nil {
					cu.called = true
					evs = append(evs, c12hEvent{kind: c12hCall, pos: t.Rparen, u: cu})
				}
			}
			return true
		})
		sort.SliceStable(evs, func(i, j int) bool { return evs[i].pos < evs[j].pos })
		return evs
	}
	for _, u := range units {
		u.events = map[ast.Node][]c12hEvent{}
		u.reaches = map[c12hEvKind]bool{}
		if u.g == nil {
			continue
		}
		for _, b := range u.g.Blocks {
			for _, n := range b.Nodes {
				if d, ok := n.(*ast.DeferStmt); ok {
					evs := scan(u, d.Call)
					// deferred calls run at the exits, last deferred first
					u.deferred = append(append([]c12hEvent{}, evs...), u.deferred...)
					continue
				}
				if evs := scan(u, n); len(evs) > 0 {
					u.events[n] = evs
				}
			}
		}
	}
	// relevance: units with an event of their own, closed over callers
	all := func(u *c12hUnit, f func(c12hEvent)) {
		for _, evs := range u.events {
			for _, e := range evs {
				f(e)
			}
		}
		for _, e := range u.deferred {
			f(e)
		}
	}
	for _, u := range units {
		all(u, func(e c12hEvent) {
			if e.kind != c12hCall {
				u.direct, u.relevant = true, true
				u.reaches[e.kind] = true
			}
		})
	}
	for changed := true; changed; {
		changed = false
		for _, u := range units {
			all(u, func(e c12hEvent) {
				if e.kind != c12hCall {
					return
				}
				if e.u.relevant && !u.relevant {
					u.relevant, changed = true, true
				}
				for k := range e.u.reaches {
					if !u.reaches[k] {
						u.reaches[k], changed = true, true
					}
				}
			})
		}
	}
	anyEnter, anyFrame, anyEst := false, false, false
	for _, u := range units {
		anyEnter = anyEnter || u.reaches[c12hEnter]
		anyFrame = anyFrame || u.reaches[c12hFrame]
		anyEst = anyEst || u.reaches[c12hEst]
	}
	if !anyEnter {
		c.undecided(rule, "coverage/alternate screen entry", 0, "no terminal write of package vaxis was recognised as the alt-screen DECSET (CSI ?1049h): the renderer cannot work full-screen without it, so the extractor no longer understands the code")
		return
	}
	if !anyFrame {
		c.undecided(rule, "coverage/frame honouring the repaint flag", 0, "the repaint flag is never read")
		return
	}
	// summaries (fixpoint); irrelevant units are the identity
	run := func(u *c12hUnit, in uint8, exits func(b *cfg.Block, states uint8)) uint8 {
		if u.g == nil || len(u.g.Blocks) == 0 {
			return in
		}
		inOf := map[*cfg.Block]uint8{u.g.Blocks[0]: in}
		work := []*cfg.Block{u.g.Blocks[0]}
		outOf := map[*cfg.Block]uint8{}
		for len(work) > 0 {
			b := work[len(work)-1]
			work = work[:len(work)-1]
			s := inOf[b]
			for _, n := range b.Nodes {
				for _, ev := range u.events[n] {
					s = c12hApplySet(ev, s)
				}
			}
			outOf[b] = s
			for _, nb := range b.Succs {
				if inOf[nb]|s != inOf[nb] {
					inOf[nb] |= s
					work = append(work, nb)
				} else if _, seen := outOf[nb]; !seen {
					work = append(work, nb)
				}
			}
		}
		var total uint8
		for _, b := range u.g.Blocks {
			if len(b.Succs) != 0 {
				continue
			}
			s, reached := outOf[b]
			if !reached || c12hNoReturn(u.g, b) {
				continue
			}
			for _, ev := range u.deferred {
				s = c12hApplySet(ev, s)
			}
			if exits != nil {
				exits(b, s)
			}
			total |= s
		}
		return total
	}
	for _, u := range units {
		for s := 0; s < 8; s++ {
			if u.relevant {
				u.sum[s] = 0
			} else {
				u.sum[s] = 1 << uint(s)
			}
		}
	}
	for iter, changed := 0, true; changed && iter < 50; iter++ {
		changed = false
		for _, u := range units {
			if !u.relevant {
				continue
			}
			for s := 0; s < 8; s++ {
				out := run(u, 1<<uint(s), nil)
				if out|u.sum[s] != u.sum[s] {
					u.sum[s] |= out
					changed = true
				}
			}
		}
	}
	if len(undec) > 0 {
		c.undecided(rule, "repaint flag updates", 0, "%s", strings.Join(c12Dedup(undec), "; "))
		return
	}
	// roots: API boundaries
	for _, u := range units {
		if !u.relevant {
			continue
		}
		isRoot := false
		switch {
		case u.lit != nil:
			isRoot = !u.called
		case ast.IsExported(u.fi.Decl.Name.Name):
			isRoot = true
		default:
			isRoot = !u.called
		}
		if !isRoot || !(u.reaches[c12hEnter] || u.reaches[c12hFrame] || u.reaches[c12hKill]) {
			continue
		}
		key := u.name + "/a frame painted after the alternate screen was entered repaints every cell"
		var pos token.Pos
		if u.lit != nil {
			pos = u.lit.Pos()
		} else {
			pos = u.fi.Decl.Pos()
		}
		var stale, diffed []string
		for _, s0 := range []int{0, c12hFull, c12hDirty | c12hFull} {
			run(u, 1<<uint(s0), func(b *cfg.Block, states uint8) {
				if c12hFailedExit(u, b) {
					return
				}
				for s := 0; s < 8; s++ {
					if states&(1<<uint(s)) == 0 {
						continue
					}
					at := c.P.Pos(u.g.Body.End())
					if len(b.Nodes) > 0 {
						at = c.P.Pos(b.Nodes[len(b.Nodes)-1].Pos())
					}
					if s&c12hBad != 0 {
						diffed = append(diffed, at)
					} else if s&c12hDirty != 0 && s&c12hFull == 0 {
						stale = append(stale, at)
					}
				}
			})
		}
		stale, diffed = c12Dedup(stale), c12Dedup(diffed)
		switch {
		case len(diffed) > 0:
			c.bad(rule, key, pos, "on a path to the return at %s a frame is diffed against screenLast although the alternate screen was (re-)entered and neither the repaint flag is up nor screenLast blank: the terminal's grid is blank, every cell equal to the last frame is skipped and stays blank", strings.Join(diffed, ", "))
		case len(stale) > 0:
			what := "enters the alternate screen"
			if !u.reaches[c12hEnter] {
				what = "lowers the repaint flag"
			}
			c.bad(rule, key, pos, "%s %s and can return (%s) with the full-repaint state not established (repaint flag not raised, screenLast not re-allocated): the terminal's alternate screen is blank while screenLast still holds the previous frame, so the next Render at an unchanged size skips every unchanged cell and the embedded terminal keeps blanks there (Suspend; Resume; Render)", u.name, what, strings.Join(stale, ", "))
		default:
			var has []string
			for k, nm := range map[c12hEvKind]string{c12hEnter: "enters the alternate screen", c12hEst: "establishes the full repaint", c12hKill: "lowers the flag", c12hFrame: "paints a frame"} {
				if u.reaches[k] {
					has = append(has, nm)
				}
			}
			sort.Strings(has)
			c.ok(rule, key, pos, "%s; from every state with (entered ⇒ full repaint pending) every successful return re-establishes it", strings.Join(has, ", "))
		}
	}
	_ = anyEst
}

// c12hNoReturn: the block ends in a call that does not return (panic, os.Exit, log.Fatal).
func c12hNoReturn(g *FG, b *cfg.Block) bool {
	if len(b.Nodes) == 0 {
		return false
	}
	es, ok := b.Nodes[len(b.Nodes)-1].(*ast.ExprStmt)
	if !ok {
		return false
	}
	call, ok := unparen(es.X).(*ast.CallExpr)
	if !ok {
		return false
	}
	return !g.P.mayReturn(g.Info)(call)
}

// c12hConstBool: 1 for the constant true, 0 for the constant false, -1 otherwise.
func c12hConstBool(info *types.Info, e ast.Expr) int {
	tv, ok := info.Types[e]
	if !ok || tv.Value == nil || tv.Value.Kind() != constant.Bool {
		return -1
	}
	if constant.BoolVal(tv.Value) {
		return 1
	}
	return 0
}

// c12hFailedExit: the exit returns a non-nil error — the last result is of type error and is either a freshly
// built value (a call, a composite) or a variable that a dominating guard compares unequal to nil: the call
// failed, the history does not continue with a frame.
func c12hFailedExit(u *c12hUnit, b *cfg.Block) bool {
	if len(b.Nodes) == 0 {
		return false
	}
	ret, ok := b.Nodes[len(b.Nodes)-1].(*ast.ReturnStmt)
	if !ok || len(ret.Results) == 0 {
		return false
	}
	var ft *ast.FuncType
	if u.lit != nil {
		ft = u.lit.Type
	} else {
		ft = u.fi.Decl.Type
	}
	if ft.Results == nil || len(ft.Results.List) == 0 {
		return false
	}
	info := u.g.Info
	rt := info.TypeOf(ft.Results.List[len(ft.Results.List)-1].Type)
	if rt == nil || rt.String() != "error" {
		return false
	}
	last := unparen(ret.Results[len(ret.Results)-1])
	switch t := last.(type) {
	case *ast.CallExpr, *ast.CompositeLit, *ast.UnaryExpr:
		return true
	case *ast.Ident:
		obj := info.ObjectOf(t)
		if _, isNil := obj.(*types.Nil); isNil || obj == nil {
			return false
		}
		for _, gd := range u.g.Guards(Loc{B: b, Idx: len(b.Nodes) - 1}) {
			if gd.Cond == nil || gd.Cond.Tag != nil || gd.Cond.Alts != nil {
				continue
			}
			be, ok := unparen(gd.Cond.Expr).(*ast.BinaryExpr)
			if !ok || !((be.Op == token.NEQ && gd.Pol) || (be.Op == token.EQL && !gd.Pol)) {
				continue
			}
			x, y := unparen(be.X), unparen(be.Y)
			if id, ok := y.(*ast.Ident); ok && info.ObjectOf(id) == obj {
				x, y = y, x
			}
			xid, ok1 := x.(*ast.Ident)
			yid, ok2 := y.(*ast.Ident)
			if ok1 && ok2 && info.ObjectOf(xid) == obj {
				if _, isNil := info.ObjectOf(yid).(*types.Nil); isNil {
					return true
				}
			}
		}
	}
	return false
}
