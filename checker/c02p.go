package main

// C02.p — U+FFFD stands for an invalid byte only together with size 1 (genuine defects found in round 11: a valid
// U+FFFD in the input, bytes EF BF BD, was delivered as the three raw bytes "ï", "¿", "½"; an invalid byte after a
// Prepend character was delivered as U+FFFD inside the preceding cluster).
//
// The property: "Printable text, including every valid UTF-8 scalar and raw invalid bytes, is delivered in order with
// nothing lost, duplicated or altered". bufio's ReadRune reports an encoding error as (U+FFFD, 1); a genuine U+FFFD
// in the input is (U+FFFD, 3). The rune alone does not tell them apart, the size does. Two necessary conditions,
// decided path-sensitively on every ReadRune of the input reader in package ansi whose first result is kept:
//
//	(a) nothing is done under the belief "the rune is U+FFFD" (a branch taken because r == U+FFFD) unless size == 1
//	    is known as well on that path: otherwise the valid scalar U+FFFD takes the raw-byte path and is altered;
//	(a') the input is re-read as a raw byte (ReadByte and the like, after the ReadRune) only on paths on which
//	    r == U+FFFD and size == 1 are both known;
//	(b) the rune is used as a value (appended to the cluster, returned, handed on) only on paths on which it is known
//	    not to be the stand-in of an invalid byte (r != U+FFFD, or size != 1), or after it was replaced: otherwise
//	    an invalid byte is delivered as U+FFFD.
//
// Path-sensitive walk over go/cfg from the ReadRune assignment: the state is what the branch conditions passed so far
// say about (r == U+FFFD) and about the possible values of size; a path ends where r is assigned again.

import (
	"fmt"
	"go/ast"
	"go/constant"
	"go/token"
	"go/types"

	"golang.org/x/tools/go/cfg"
)

func init() { registerExtra("C02", c02ReplacementCharWithSize) }

func c02ReplacementCharWithSize(c *Ctx) {
	c.Clauses = append(c.Clauses, "C02.p a rune read from the input is taken for an invalid byte only when ReadRune reported U+FFFD with size 1, and is used as text only when it is not that stand-in: a valid U+FFFD is delivered unaltered and an invalid byte is never delivered as U+FFFD")
	c.expect("C02.p", 2)
	pk := c.P.Pkg("ansi")
	if pk == nil {
		c.undecided("C02.p", "package ansi", 0, "package ansi not loaded")
		return
	}
	info := pk.TypesInfo
	isReadRune := func(e ast.Expr) bool {
		call, ok := unparen(e).(*ast.CallExpr)
		if !ok {
			return false
		}
		sel, ok := unparen(call.Fun).(*ast.SelectorExpr)
		if !ok || sel.Sel.Name != "ReadRune" {
			return false
		}
		if s, ok := info.Selections[sel]; !ok || s.Kind() != types.MethodVal {
			return false
		}
		return c02mIsReader(info.TypeOf(sel.X))
	}
	constInt := func(e ast.Expr) (int64, bool) {
		if tv, ok := info.Types[e]; ok && tv.Value != nil && tv.Value.Kind() == constant.Int {
			v, ok := constant.Int64Val(tv.Value)
			return v, ok
		}
		return 0, false
	}
	for _, fi := range c.P.FuncsIn("ansi") {
		if fi.Decl.Body == nil {
			continue
		}
		g := c.P.Graph(fi)
		// ReadRune calls that are not the sole right-hand side of an assignment keeping the results
		kept := map[*ast.CallExpr]bool{}
		type site struct {
			loc  Loc
			asg  *ast.AssignStmt
			r, s types.Object
		}
		var sites []site
		for _, b := range g.Blocks {
			for i, n := range b.Nodes {
				asg, ok := n.(*ast.AssignStmt)
				if !ok || len(asg.Rhs) != 1 || !isReadRune(asg.Rhs[0]) || len(asg.Lhs) != 3 {
					continue
				}
				kept[unparen(asg.Rhs[0]).(*ast.CallExpr)] = true
				rid, ok := asg.Lhs[0].(*ast.Ident)
				if !ok || rid.Name == "_" {
					continue // the rune is dropped: nothing to judge
				}
				st := site{loc: Loc{b, i}, asg: asg, r: info.ObjectOf(rid)}
				if sid, ok := asg.Lhs[1].(*ast.Ident); ok && sid.Name != "_" {
					st.s = info.ObjectOf(sid)
				}
				sites = append(sites, st)
			}
		}
		ast.Inspect(fi.Decl.Body, func(n ast.Node) bool {
			if call, ok := n.(*ast.CallExpr); ok && isReadRune(call) && !kept[call] {
				c.undecided("C02.p", fi.Name+"/ReadRune whose results are not bound to variables", call.Pos(), "the rule follows the rune and the size through local variables; this ReadRune hands its results on directly")
			}
			return true
		})
		for k, st := range sites {
			key := fmt.Sprintf("%s/ReadRune#%d: U+FFFD stands for an invalid byte only with size 1", fi.Name, k+1)
			why := c02pWalk(g, info, st.loc, st.asg, st.r, st.s, constInt)
			if why == "" {
				c.ok("C02.p", key, st.asg.Pos(), "on every path the rune is acted on as an invalid byte only with size == 1 known, and used as a value only where it is known not to stand for an invalid byte")
			} else {
				c.bad("C02.p", key, st.asg.Pos(), "%s", why)
			}
		}
	}
}

const c02pAll = 0x1f // possible sizes 0..4

// c02pWalk returns "" or the description of the first offending path.
func c02pWalk(g *FG, info *types.Info, start Loc, def *ast.AssignStmt, r, s types.Object, constInt func(ast.Expr) (int64, bool)) string {
	type state struct {
		b    *cfg.Block
		i    int
		a    int8 // 0 unknown, 1 r == U+FFFD, -1 r != U+FFFD
		mask uint8
	}
	seen := map[state]bool{}
	isR := func(e ast.Expr) bool {
		id, ok := unparen(e).(*ast.Ident)
		return ok && info.ObjectOf(id) == r
	}
	isS := func(e ast.Expr) bool {
		id, ok := unparen(e).(*ast.Ident)
		return ok && s != nil && info.ObjectOf(id) == s
	}
	isFFFD := func(e ast.Expr) bool { v, ok := constInt(e); return ok && v == 0xFFFD }
	// refine: what the condition says on its true/false edge
	var refine1 func(e ast.Expr, tag ast.Expr, pol bool, st state) (state, bool)
	// refine: the states in which the condition has the given truth value (&&, || and ! are split here: go/cfg keeps
	// a compound condition as one node)
	var refine func(e ast.Expr, tag ast.Expr, pol bool, st state) []state
	refine = func(e ast.Expr, tag ast.Expr, pol bool, st state) []state {
		e = unparen(e)
		if tag == nil {
			switch t := e.(type) {
			case *ast.Ident:
				// a boolean local with a single definition stands for its defining expression
				if def := c02BoolDef(g, info, t); def != nil {
					return refine(def, nil, pol, st)
				}
			case *ast.UnaryExpr:
				if t.Op == token.NOT {
					return refine(t.X, nil, !pol, st)
				}
			case *ast.BinaryExpr:
				if t.Op == token.LAND || t.Op == token.LOR {
					// x && y true: both; false: !x, or x and !y.   x || y: the dual
					both := pol == (t.Op == token.LAND)
					var out []state
					if both {
						for _, s1 := range refine(t.X, nil, pol, st) {
							out = append(out, refine(t.Y, nil, pol, s1)...)
						}
						return out
					}
					out = append(out, refine(t.X, nil, pol, st)...)
					for _, s1 := range refine(t.X, nil, !pol, st) {
						out = append(out, refine(t.Y, nil, pol, s1)...)
					}
					return out
				}
			}
		}
		if ns, ok := refine1(e, tag, pol, st); ok {
			return []state{ns}
		}
		return nil
	}
	refine1 = func(e ast.Expr, tag ast.Expr, pol bool, st state) (state, bool) {
		e = unparen(e)
		if tag != nil {
			e = &ast.BinaryExpr{X: tag, Op: token.EQL, Y: e}
		}
		be, ok := e.(*ast.BinaryExpr)
		if !ok {
			return st, true
		}
		x, y, op := be.X, be.Y, be.Op
		if _, isConst := constInt(x); isConst { // constant on the left: mirror
			x, y = y, x
			switch op {
			case token.LSS:
				op = token.GTR
			case token.LEQ:
				op = token.GEQ
			case token.GTR:
				op = token.LSS
			case token.GEQ:
				op = token.LEQ
			}
		}
		switch {
		case isR(x) && isFFFD(y) && (op == token.EQL || op == token.NEQ):
			want := int8(1)
			if (op == token.EQL) != pol {
				want = -1
			}
			if st.a != 0 && st.a != want {
				return st, false
			}
			st.a = want
		case isS(x):
			cv, ok := constInt(y)
			if !ok {
				return st, true
			}
			var m uint8
			for v := int64(0); v <= 4; v++ {
				var holds bool
				switch op {
				case token.EQL:
					holds = v == cv
				case token.NEQ:
					holds = v != cv
				case token.LSS:
					holds = v < cv
				case token.LEQ:
					holds = v <= cv
				case token.GTR:
					holds = v > cv
				case token.GEQ:
					holds = v >= cv
				default:
					return st, true
				}
				if holds == pol {
					m |= 1 << uint(v)
				}
			}
			st.mask &= m
			if st.mask == 0 {
				return st, false
			}
		}
		return st, true
	}
	// uses of r as a value inside n (not: the comparison with the constant, the tag of a switch over it, _ = r)
	valueUse := func(n ast.Node) ast.Node {
		var hit ast.Node
		var visit func(n ast.Node) bool
		visit = func(n ast.Node) bool {
			if hit != nil {
				return false
			}
			switch t := n.(type) {
			case *ast.FuncLit:
				return false
			case *ast.BinaryExpr:
				if (t.Op == token.EQL || t.Op == token.NEQ) && ((isR(t.X) && isFFFD(t.Y)) || (isR(t.Y) && isFFFD(t.X))) {
					return false
				}
			case *ast.AssignStmt:
				for _, rhs := range t.Rhs {
					ast.Inspect(rhs, visit)
				}
				for _, l := range t.Lhs {
					if !isR(l) {
						if id, ok := l.(*ast.Ident); !ok || id.Name != "_" {
							ast.Inspect(l, visit)
						}
					}
				}
				return false
			case *ast.Ident:
				if info.ObjectOf(t) == r {
					hit = t
				}
			}
			return true
		}
		if as, ok := n.(*ast.AssignStmt); ok && len(as.Lhs) == 1 && len(as.Rhs) == 1 {
			if id, ok := as.Lhs[0].(*ast.Ident); ok && id.Name == "_" && isR(as.Rhs[0]) {
				return nil
			}
		}
		ast.Inspect(n, visit)
		return hit
	}
	assigns := func(n ast.Node, o types.Object) bool {
		if o == nil {
			return false
		}
		switch t := n.(type) {
		case *ast.AssignStmt:
			for _, l := range t.Lhs {
				if id, ok := unparen(l).(*ast.Ident); ok && info.ObjectOf(id) == o {
					return true
				}
			}
		case *ast.IncDecStmt:
			if id, ok := unparen(t.X).(*ast.Ident); ok && info.ObjectOf(id) == o {
				return true
			}
		case *ast.RangeStmt:
			for _, l := range []ast.Expr{t.Key, t.Value} {
				if id, ok := l.(*ast.Ident); ok && info.ObjectOf(id) == o {
					return true
				}
			}
		}
		return false
	}
	pos := func(n ast.Node) string { return g.P.Fset.Position(n.Pos()).String() }
	// consuming: n contains a consuming operation on the input reader other than ReadRune (the raw re-read)
	consuming := func(n ast.Node) string {
		op := ""
		ast.Inspect(n, func(x ast.Node) bool {
			if _, ok := x.(*ast.FuncLit); ok {
				return false
			}
			if call, ok := x.(*ast.CallExpr); ok {
				if sel, ok := unparen(call.Fun).(*ast.SelectorExpr); ok && c02oConsuming[sel.Sel.Name] {
					if sl, ok := info.Selections[sel]; ok && sl.Kind() == types.MethodVal && c02mIsReader(info.TypeOf(sel.X)) {
						op = sel.Sel.Name
					}
				}
			}
			return op == ""
		})
		return op
	}
	// believed: the location is control-dependent on a test of the rune against U+FFFD (it is not merely reached
	// after one, at a join)
	mentionsAtom := func(e ast.Expr) bool {
		if e == nil {
			return false
		}
		found := false
		ast.Inspect(e, func(x ast.Node) bool {
			if be, ok := x.(*ast.BinaryExpr); ok && (be.Op == token.EQL || be.Op == token.NEQ) && ((isR(be.X) && isFFFD(be.Y)) || (isR(be.Y) && isFFFD(be.X))) {
				found = true
			}
			return !found
		})
		return found
	}
	believed := func(l Loc) bool {
		for _, gd := range g.Guards(l) {
			if gd.Cond.Alts != nil || !(mentionsAtom(gd.Cond.Expr) || (gd.Cond.Tag != nil && isR(gd.Cond.Tag) && isFFFD(gd.Cond.Expr))) {
				continue
			}
			// the guard, with the polarity in force, implies r == U+FFFD
			sts := refine(gd.Cond.Expr, gd.Cond.Tag, gd.Pol, state{mask: c02pAll})
			implied := len(sts) > 0
			for _, x := range sts {
				if x.a != 1 {
					implied = false
				}
			}
			if implied {
				return true
			}
		}
		return false
	}
	var why string
	var dfs func(st state)
	dfs = func(st state) {
		for why == "" {
			if seen[st] {
				return
			}
			seen[st] = true
			if st.i < len(st.b.Nodes) {
				n := st.b.Nodes[st.i]
				isCond := false
				if _, ok := n.(ast.Expr); ok && st.i == len(st.b.Nodes)-1 && g.BranchCond(st.b) != nil {
					isCond = true
				}
				if n == ast.Node(def) {
					return // the next read: judged from its own start
				}
				sizes := st.mask
				if st.a == 1 {
					sizes &^= 1 // a decoded U+FFFD has a size of at least 1
				}
				if u := valueUse(n); u != nil && st.a != -1 && st.mask&2 != 0 {
					why = fmt.Sprintf("%s: the rune is used as a value on a path on which it may be the U+FFFD that ReadRune reports for an invalid byte (nothing on the path excludes r == U+FFFD with size 1): the invalid byte is delivered as U+FFFD instead of as the raw byte", pos(u))
					return
				}
				if !isCond && st.a == 1 && sizes != 2 && believed(Loc{st.b, st.i}) {
					if _, isExpr := n.(ast.Expr); !isExpr || containsCall(n) {
						why = fmt.Sprintf("%s: reached because the rune is U+FFFD, without size == 1 being established on the path: a valid U+FFFD in the input (EF BF BD, size 3) is treated as an invalid byte and delivered as raw bytes", pos(n))
						return
					}
				}
				if op := consuming(n); op != "" && !(st.a == 1 && sizes == 2) {
					why = fmt.Sprintf("%s: %s re-reads the input as a raw byte on a path on which ReadRune is not known to have reported an invalid byte (U+FFFD with size 1): a valid character is delivered as raw bytes", pos(n), op)
					return
				}
				if assigns(n, r) {
					return // the rune is replaced: the path ends
				}
				if assigns(n, s) {
					st.mask = c02pAll
				}
				st.i++
				continue
			}
			// end of block
			if cond := g.BranchCond(st.b); cond != nil && len(st.b.Succs) == 2 {
				for k, pol := range []bool{true, false} {
					nss := []state{st}
					if cond.Alts == nil {
						nss = refine(cond.Expr, cond.Tag, pol, st)
					}
					for _, ns := range nss {
						ns.b, ns.i = st.b.Succs[k], 0
						dfs(ns)
					}
				}
				return
			}
			for _, sb := range st.b.Succs {
				ns := st
				ns.b, ns.i = sb, 0
				dfs(ns)
			}
			return
		}
	}
	dfs(state{b: start.B, i: start.Idx + 1, a: 0, mask: c02pAll})
	return why
}

func containsCall(n ast.Node) bool {
	found := false
	ast.Inspect(n, func(x ast.Node) bool {
		if _, ok := x.(*ast.FuncLit); ok {
			return false
		}
		if _, ok := x.(*ast.CallExpr); ok {
			found = true
		}
		return !found
	})
	return found
}

// c02BoolDef: id names a boolean local of g's function that is assigned exactly once (its definition) from one
// expression; that expression, else nil. (The variables the expression reads are the results of the ReadRune the
// caller is following; they are not assigned again before the next read.)
func c02BoolDef(g *FG, info *types.Info, id *ast.Ident) ast.Expr {
	obj := info.ObjectOf(id)
	if obj == nil {
		return nil
	}
	if b, ok := obj.Type().Underlying().(*types.Basic); !ok || b.Info()&types.IsBoolean == 0 {
		return nil
	}
	var def ast.Expr
	n := 0
	ast.Inspect(g.Body, func(x ast.Node) bool {
		switch t := x.(type) {
		case *ast.AssignStmt:
			for i, l := range t.Lhs {
				if lid, ok := unparen(l).(*ast.Ident); ok && info.ObjectOf(lid) == obj {
					n++
					if len(t.Lhs) == len(t.Rhs) {
						def = t.Rhs[i]
					} else {
						def = nil
						n++
					}
				}
			}
		case *ast.ValueSpec:
			for i, nm := range t.Names {
				if info.ObjectOf(nm) == obj && len(t.Values) == len(t.Names) {
					n++
					def = t.Values[i]
				}
			}
		case *ast.UnaryExpr:
			if t.Op == token.AND {
				if lid, ok := unparen(t.X).(*ast.Ident); ok && info.ObjectOf(lid) == obj {
					n += 2
				}
			}
		}
		return true
	})
	if n != 1 {
		return nil
	}
	return def
}
