package main

// C18 — styled-text codecs and SGR agreement.
//
// Producers: (*Vaxis).render (its per-cell SGR region), EncodeCells, (*StyledString).Encode.
// Consumers: parseSGR (behind ParseStyledString), (*Vaxis).NewStyledString, widgets/term (*Model).sgr.
//
// The rules evaluate the type-checked AST of these six functions with the concrete
// evaluator of c18_interp.go (no code of the repository is built or run) and combine it
// with the emission extractor (E1) for the static list of SGR emission sites:
//
//   a  every SGR template a producer can emit (every emission site, every variant incl. the
//      legacy ';' forms) is decoded by every consumer to the style component the producer meant
//      (all 8 hole values of 3x/4x/9x/10x, 38/48/58 :5:n and :2:r:g:b, 4:n for n=0..5, 39/49/59, 22..29, m);
//      every emission site must be exercised by the transition classes (else undecided)
//   b  attribute algebra: all (previous, next) pairs of attribute masks, for every producer x consumer,
//      plus mixed transitions where every component changes at once
//   c  every change of a style component makes the producer emit at least one SGR
//   d  the string encoders leave every consumer in the zero style at the end of the string, and
//      two encoded strings can be concatenated
//   e  parsing never panics: every index/slice expression of the three consumers is inside
//      bounds established by dominating guards (LG), plus malformed-list probes through the evaluator

import (
	"fmt"
	"go/ast"
	"go/token"
	"go/types"
	"regexp"
	"sort"
	"strings"

	"golang.org/x/tools/go/packages"
)

func init() { register("C18", false, runC18) }

// c18Style is the SGR-relevant part of a vaxis.Style, as numbers computed by the code under analysis.
type c18Style struct{ fg, bg, ul, us, attr int64 }

var c18Comps = []string{"Foreground", "Background", "UnderlineColor", "UnderlineStyle", "Attribute"}

func (s c18Style) get(i int) int64 {
	switch i {
	case 0:
		return s.fg
	case 1:
		return s.bg
	case 2:
		return s.ul
	case 3:
		return s.us
	}
	return s.attr
}

func (s *c18Style) set(i int, v int64) {
	switch i {
	case 0:
		s.fg = v
	case 1:
		s.bg = v
	case 2:
		s.ul = v
	case 3:
		s.us = v
	default:
		s.attr = v
	}
}

type c18World struct {
	c        *Ctx
	p        *Program
	pk       *packages.Package
	m        *c18Machine
	styleT   types.Type
	cellT    types.Type
	colNames map[int64]string // colour value -> display
	usNames  map[int64]string
	attrBits []int64
	attrName map[int64]string
	usOff    int64
	usSingle int64
	legacy   map[types.Object]string
	failed   bool
	// legacyOnly: see c18Producer
	legacyOnly map[string]bool
	legacyUse  map[*FuncInfo]bool
}

func (w *c18World) show(s c18Style) string {
	col := func(v int64) string {
		if n, ok := w.colNames[v]; ok {
			return n
		}
		return fmt.Sprintf("%#x", v)
	}
	var at []string
	for _, b := range w.attrBits {
		if s.attr&b != 0 {
			at = append(at, w.attrName[b])
		}
	}
	a := "0"
	if len(at) > 0 {
		a = strings.Join(at, "|")
	}
	us := fmt.Sprint(s.us)
	if n, ok := w.usNames[s.us]; ok {
		us = n
	}
	return fmt.Sprintf("{fg=%s bg=%s ul=%s us=%s attr=%s}", col(s.fg), col(s.bg), col(s.ul), us, a)
}

// ---- value construction / extraction

func c18IsNamed(t types.Type, name string) bool {
	if p, ok := t.(*types.Pointer); ok {
		t = p.Elem()
	}
	return typeName(t) == modPath+"."+name
}

func (w *c18World) styleVal(s c18Style) c18Val {
	v := c18Zero(w.styleT)
	st := v.strct()
	vals := []int64{s.fg, s.bg, s.ul, s.us, s.attr}
	for i, n := range c18Comps {
		f := st.fieldByName(n)
		if f == nil {
			panic(c18AbortT{"vaxis.Style has no field " + n})
		}
		*f = c18IntV(vals[i])
	}
	return v
}

func (w *c18World) cellVal(s c18Style, grapheme string) c18Val {
	v := c18Zero(w.cellT)
	st := v.strct()
	sf := st.fieldByName("Style")
	ch := st.fieldByName("Character")
	if sf == nil || ch == nil || ch.k != c18Struct {
		panic(c18AbortT{"vaxis.Cell does not embed Character and Style"})
	}
	*sf = w.styleVal(s)
	g, wd := ch.strct().fieldByName("Grapheme"), ch.strct().fieldByName("Width")
	if g == nil || wd == nil {
		panic(c18AbortT{"vaxis.Character has no Grapheme/Width"})
	}
	*g = c18StrV(grapheme)
	*wd = c18IntV(1)
	return v
}

func (w *c18World) readStyle(v c18Val) (c18Style, bool) {
	if v.k == c18Ptr && v.ptr() != nil {
		v = *v.ptr()
	}
	if v.k != c18Struct {
		return c18Style{}, false
	}
	var out c18Style
	for i, n := range c18Comps {
		f := v.strct().fieldByName(n)
		if f == nil || f.k != c18Int {
			return out, false
		}
		out.set(i, f.i)
	}
	return out, true
}

// findStyle locates the (materialised) vaxis.Style inside a value (e.g. Model.cursor.Cell.Style).
func (w *c18World) findStyle(v c18Val, depth int) *c18Val {
	if depth > 6 {
		return nil
	}
	if v.k == c18Ptr && v.ptr() != nil {
		v = *v.ptr()
	}
	if v.k != c18Struct {
		return nil
	}
	st := v.strct()
	for i, f := range st.f {
		if f == nil {
			continue
		}
		if c18IsNamed(st.t.Field(i).Type(), "Style") && f.k == c18Struct {
			return f
		}
		if r := w.findStyle(*f, depth+1); r != nil {
			return r
		}
	}
	return nil
}

func (w *c18World) sliceVal(vs []c18Val) c18Val {
	arr := vs
	return c18Val{k: c18Slice, ref: &c18SliceV{arr: &arr, lo: 0, hi: len(arr)}}
}

// callByName interprets a repository function on plain values.
func (w *c18World) callPure(name string, args ...c18Val) (c18Val, string) {
	fi := w.p.Func(name)
	if fi == nil {
		return c18Val{}, "function " + name + " not found"
	}
	var ret []c18Val
	pmsg, amsg := w.m.protect(func() { ret = w.m.callFunc(fi, nil, args, false) })
	if pmsg != "" || amsg != "" {
		return c18Val{}, name + ": " + pmsg + amsg
	}
	if len(ret) != 1 {
		return c18Val{}, name + ": no single result"
	}
	return ret[0], ""
}

// ---- tokeniser of producer output (trusted reference for the ansi parser, which C02 covers)

type c18Tok struct {
	kind   string // "sgr", "text", "other"
	params string
	text   string
}

func c18Tokenise(s string) []c18Tok {
	var out []c18Tok
	i := 0
	for i < len(s) {
		if s[i] == 0x1b && i+1 < len(s) && s[i+1] == '[' {
			j := i + 2
			ps := j
			for j < len(s) && s[j] >= 0x30 && s[j] <= 0x3f {
				j++
			}
			params := s[ps:j]
			is := j
			for j < len(s) && s[j] >= 0x20 && s[j] <= 0x2f {
				j++
			}
			inter := s[is:j]
			fin := byte(0)
			if j < len(s) {
				fin = s[j]
				j++
			}
			if fin == 'm' && inter == "" && !strings.ContainsAny(params, "<=>?") {
				out = append(out, c18Tok{kind: "sgr", params: params, text: s[i:j]})
			} else {
				out = append(out, c18Tok{kind: "other", text: s[i:j]})
			}
			i = j
			continue
		}
		if s[i] == 0x1b && i+1 < len(s) && (s[i+1] == ']' || s[i+1] == 'P' || s[i+1] == '_') {
			j := i + 2
			for j < len(s) {
				if s[j] == 0x07 {
					j++
					break
				}
				if s[j] == 0x1b && j+1 < len(s) && s[j+1] == '\\' {
					j += 2
					break
				}
				j++
			}
			out = append(out, c18Tok{kind: "other", text: s[i:j]})
			i = j
			continue
		}
		out = append(out, c18Tok{kind: "text", text: s[i : i+1]})
		i++
	}
	return out
}

// c18ParseParams mirrors (*ansi.Parser).csiDispatch: ';' separates parameters, ':' sub-parameters, missing = 0.
func (w *c18World) paramsVal(s string) c18Val {
	if s == "" {
		return c18Val{k: c18Nil}
	}
	var list []c18Val
	var cur []c18Val
	n := int64(0)
	for i := 0; i < len(s); i++ {
		switch s[i] {
		case ';':
			cur = append(cur, c18IntV(n))
			list = append(list, w.sliceVal(cur))
			cur, n = nil, 0
		case ':':
			cur = append(cur, c18IntV(n))
			n = 0
		default:
			n = n*10 + int64(s[i]-'0')
		}
	}
	cur = append(cur, c18IntV(n))
	list = append(list, w.sliceVal(cur))
	return w.sliceVal(list)
}

// ---- consumers

type c18Decoded struct {
	styles    []c18Style
	graphemes []string
	final     *c18Style // state after the whole string (stream consumers only)
	panicMsg  string
	abortMsg  string
}

type c18Consumer struct {
	name   string // "vaxis.parseSGR"
	fi     *FuncInfo
	stream bool
	decode func(out string) c18Decoded
}

// streamConsumer: fn(params [][]int [, style *Style]) called once per CSI ... m, cells take the style in force.
func (w *c18World) streamConsumer(name string) (*c18Consumer, string) {
	fi := w.p.Func(name)
	if fi == nil {
		return nil, "function not found"
	}
	sig := fi.Obj.Type().(*types.Signature)
	pi, si := -1, -1
	for i := 0; i < sig.Params().Len(); i++ {
		t := sig.Params().At(i).Type()
		switch {
		case t.String() == "[][]int":
			pi = i
		case c18IsNamed(t, "Style"):
			if _, ok := t.(*types.Pointer); ok {
				si = i
			}
		}
	}
	if pi < 0 || sig.Params().Len() > 2 || (sig.Params().Len() == 2 && si < 0) || (sig.Recv() == nil && si < 0) {
		return nil, "signature is not (params [][]int[, style *Style]) or a method with (params [][]int)"
	}
	cons := &c18Consumer{name: name, fi: fi, stream: true}
	smemo := map[string]c18Decoded{}
	cons.decode = func(out string) (d c18Decoded) {
		// identical strings (the three encoders usually agree) are decoded once
		if r, ok := smemo[out]; ok {
			return r
		}
		defer func() { smemo[out] = d }()
		var recv *c18Val
		var styleBox *c18Val
		if sig.Recv() != nil {
			obj := c18Zero(sig.Recv().Type().(*types.Pointer).Elem())
			rv := c18PtrV(&obj)
			recv = &rv
		}
		if si >= 0 {
			sv := w.styleVal(c18Style{})
			styleBox = &sv
		}
		cur := func() (c18Style, bool) {
			if styleBox != nil {
				return w.readStyle(*styleBox)
			}
			f := w.findStyle(*recv, 0)
			if f == nil {
				return c18Style{}, true // nothing touched yet: zero style
			}
			return w.readStyle(*f)
		}
		d.panicMsg, d.abortMsg = w.m.protect(func() {
			for _, tk := range c18Tokenise(out) {
				switch tk.kind {
				case "text":
					s, ok := cur()
					if !ok {
						w.m.abort("style of %s is not a plain value", name)
					}
					d.styles = append(d.styles, s)
					d.graphemes = append(d.graphemes, tk.text)
				case "sgr":
					args := make([]c18Val, sig.Params().Len())
					args[pi] = w.paramsVal(tk.params)
					if si >= 0 {
						args[si] = c18PtrV(styleBox)
					}
					w.m.callFunc(fi, recv, args, false)
				}
			}
			s, ok := cur()
			if !ok {
				w.m.abort("style of %s is not a plain value", name)
			}
			d.final = &s
		})
		return
	}
	return cons, ""
}

// stringConsumer: (vx *Vaxis).NewStyledString(s string, defaultStyle Style) *StyledString
func (w *c18World) stringConsumer(name string) (*c18Consumer, string) {
	fi := w.p.Func(name)
	if fi == nil {
		return nil, "function not found"
	}
	sig := fi.Obj.Type().(*types.Signature)
	strI, stI := -1, -1
	for i := 0; i < sig.Params().Len(); i++ {
		t := sig.Params().At(i).Type()
		if b, ok := t.Underlying().(*types.Basic); ok && b.Kind() == types.String {
			strI = i
		} else if c18IsNamed(t, "Style") {
			stI = i
		}
	}
	if strI < 0 || stI < 0 || sig.Params().Len() != 2 || sig.Results().Len() != 1 {
		return nil, "signature is not (s string, defaultStyle Style) *StyledString"
	}
	cons := &c18Consumer{name: name, fi: fi}
	memo := map[string]c18Decoded{}
	cons.decode = func(out string) (d c18Decoded) {
		if r, ok := memo[out]; ok {
			return r
		}
		defer func() { memo[out] = d }()
		var recv *c18Val
		if sig.Recv() != nil {
			rt := sig.Recv().Type()
			if p, ok := rt.(*types.Pointer); ok {
				obj := c18Zero(p.Elem())
				rv := c18PtrV(&obj)
				recv = &rv
			} else {
				rv := c18Zero(rt)
				recv = &rv
			}
		}
		args := make([]c18Val, 2)
		args[strI] = c18StrV(out)
		args[stI] = w.styleVal(c18Style{})
		d.panicMsg, d.abortMsg = w.m.protect(func() {
			ret := w.m.callFunc(fi, recv, args, false)
			if len(ret) != 1 {
				w.m.abort("%s returned %d values", name, len(ret))
			}
			r := ret[0]
			if r.k == c18Ptr && r.ptr() != nil {
				r = *r.ptr()
			}
			if r.k != c18Struct {
				w.m.abort("%s did not return a struct", name)
			}
			cells := r.strct().fieldByName("Cells")
			if cells == nil {
				w.m.abort("result of %s has no Cells", name)
			}
			if cells.k == c18Nil {
				return
			}
			if cells.k != c18Slice {
				w.m.abort("Cells is not a slice value")
			}
			sl := cells.slice()
			for _, cv := range (*sl.arr)[sl.lo:sl.hi] {
				sf := cv.strct().fieldByName("Style")
				ch := cv.strct().fieldByName("Character")
				if sf == nil || ch == nil {
					w.m.abort("Cell shape")
				}
				s, ok := w.readStyle(*sf)
				if !ok {
					w.m.abort("decoded style is not a plain value")
				}
				d.styles = append(d.styles, s)
				g := ch.strct().fieldByName("Grapheme")
				d.graphemes = append(d.graphemes, g.s)
			}
		})
		return
	}
	return cons, ""
}

// ======================================================================
// c18_prod.go — the three SGR producers as seen by the C18 check.

type c18Site struct {
	em        *Emission
	templates []string // SGR templates (with holes) of this site
	keys      []string // display keys, same order
	res       []*regexp.Regexp
	fired     map[int]bool
}

type c18Encoded struct {
	out      string
	segments [][]c18Event // events emitted for cell j (before its grapheme)
	tail     []c18Event   // events after the last grapheme (epilogue)
	panicMsg string
	abortMsg string
}

type c18Producer struct {
	name     string // "vaxis.EncodeCells"
	variant  string // "" | "legacy-sgr" | "-rgb" ...
	fi       *FuncInfo
	sites    map[*ast.CallExpr]*c18Site
	su       bool // styled underlines available (always true for the string encoders)
	rgb      bool
	isLegacy bool
	epilogue bool // whole-string encoder (has an end of string)
	encode   func(cells []c18Style) c18Encoded
	// legacyOnly: template strings that exist only in the legacy-sgr configuration (variant values of the
	// package-level template variables that differ from the initial value)
	legacyOnly map[string]bool
}

func (p *c18Producer) label() string {
	if p.variant == "" {
		return p.name
	}
	return p.name + " [" + p.variant + "]"
}

var c18Graphemes = "abcdefghijklmnopqrstuvwxyz"

func c18Grapheme(i int) string { return c18Graphemes[i%26 : i%26+1] }

// c18BuilderSink: writes into a local strings.Builder / bytes.Buffer (the string encoders' sink).
func c18BuilderSink(pk *packages.Package, call *ast.CallExpr, fn *types.Func) (int, bool, string, bool) {
	if fn == nil {
		return 0, false, "", false
	}
	info := pk.TypesInfo
	isB := func(e ast.Expr) bool {
		t := info.TypeOf(e)
		if t == nil {
			return false
		}
		if p, ok := t.(*types.Pointer); ok {
			t = p.Elem()
		}
		return c18IsBuilderType(t)
	}
	switch fullName(fn) {
	case "strings.Builder.WriteString", "bytes.Buffer.WriteString":
		return 0, false, "builder.WriteString", true
	case "fmt.Fprintf":
		if len(call.Args) >= 2 && isB(call.Args[0]) {
			return 1, true, "fmt.Fprintf(builder)", true
		}
	case "fmt.Fprint":
		if len(call.Args) >= 2 && isB(call.Args[0]) {
			return 1, false, "fmt.Fprint(builder)", true
		}
	}
	return 0, false, "", false
}

func c18HasSGR(text string) bool {
	for _, tk := range c18Tokenise(text) {
		if tk.kind == "sgr" {
			return true
		}
	}
	return false
}

var c18HoleRe = regexp.MustCompile(`%[-+# 0-9.]*[a-zA-Z]`)

// c18TemplateKey renders "\x1b[38:5:%dm" as "CSI 38:5:%dm".
func c18TemplateKey(t string) string {
	var parts []string
	for _, s := range parseSeqs(t) {
		if s.Kind == "CSI" {
			parts = append(parts, "CSI "+s.Private+s.Params+s.Inter+s.Final)
		} else {
			parts = append(parts, fmt.Sprintf("%s %q", s.Kind, s.Raw))
		}
	}
	return strings.Join(parts, " ")
}

func c18TemplateRe(t string) *regexp.Regexp {
	var sb strings.Builder
	sb.WriteString("^")
	last := 0
	for _, loc := range c18HoleRe.FindAllStringIndex(t, -1) {
		sb.WriteString(regexp.QuoteMeta(t[last:loc[0]]))
		verb := t[loc[1]-1]
		if verb == 'd' {
			sb.WriteString(`-?[0-9]+`)
		} else {
			sb.WriteString(`.*`)
		}
		last = loc[1]
	}
	sb.WriteString(regexp.QuoteMeta(t[last:]))
	sb.WriteString("$")
	return regexp.MustCompile(sb.String())
}

// c18Sites: the static SGR emission sites of the functions reachable from fi.
func (w *c18World) sitesOf(fi *FuncInfo, sink SinkFn, reach bool) map[*ast.CallExpr]*c18Site {
	fis := []*FuncInfo{fi}
	if reach {
		fis = nil
		for n := range staticReach(w.p, fi) {
			if f := w.p.Func(n); f != nil && f.Pkg.PkgPath == fi.Pkg.PkgPath {
				fis = append(fis, f)
			}
		}
	}
	sort.Slice(fis, func(i, j int) bool { return fis[i].Name < fis[j].Name })
	out := map[*ast.CallExpr]*c18Site{}
	for _, em := range ExtractEmissions(w.p, fis, sink) {
		if !em.Resolved {
			continue
		}
		st := &c18Site{em: em, fired: map[int]bool{}}
		for _, t := range em.Templates {
			hasSGR := false
			for _, s := range parseSeqs(t) {
				if s.Kind == "CSI" && s.Final == "m" && s.Private == "" && s.Inter == "" {
					hasSGR = true
				}
			}
			if hasSGR {
				st.templates = append(st.templates, t)
				st.keys = append(st.keys, c18TemplateKey(t))
				st.res = append(st.res, c18TemplateRe(t))
			}
		}
		if len(st.templates) > 0 {
			out[em.Call] = st
		}
	}
	return out
}

// c18LegacyTag marks the key of a template variant that a producer emits only in the legacy-sgr configuration.
const c18LegacyTag = " [legacy-sgr]"

// keyOf maps an emitted text to the template key of its site (and marks the template as exercised).
func (p *c18Producer) keyOf(ev c18Event) (key string, pos token.Pos) {
	if st := p.sites[ev.call]; st != nil {
		for i, re := range st.res {
			if re.MatchString(ev.text) {
				st.fired[i] = true
				if p.isLegacy && i > 0 && len(st.templates) > 1 && (p.legacyOnly == nil || p.legacyOnly[st.templates[i]]) {
					// a variant form that only exists under VAXIS_FORCE_LEGACY_SGR: keyed per producer (see ruleUnit)
					return st.keys[i] + c18LegacyTag, ev.call.Pos()
				}
				return st.keys[i], ev.call.Pos()
			}
		}
	}
	// A site the emission extractor has no template for (the template is a struct field, a table entry or a
	// parameter of a helper): the evaluator knows the string that was formatted / written.
	if ev.tmpl != "" {
		key = c18TemplateKey(ev.tmpl)
		if p.isLegacy && p.legacyOnly[ev.tmpl] {
			key += c18LegacyTag
		}
		return key, ev.call.Pos()
	}
	// dynamic text: normalise digits
	norm := regexp.MustCompile(`[0-9]+`).ReplaceAllString(ev.text, "%d")
	return "dynamic " + c18TemplateKey(norm), ev.call.Pos()
}

// ---- whole-function string encoders

func (w *c18World) stringEncoder(name string) (*c18Producer, string) {
	fi := w.p.Func(name)
	if fi == nil {
		return nil, "function not found"
	}
	sig := fi.Obj.Type().(*types.Signature)
	if sig.Results().Len() != 1 {
		return nil, "does not return one string"
	}
	isCells := func(t types.Type) bool {
		sl, ok := t.Underlying().(*types.Slice)
		return ok && c18IsNamed(sl.Elem(), "Cell")
	}
	mode := ""
	var recvElem types.Type
	switch {
	case sig.Recv() == nil && sig.Params().Len() == 1 && isCells(sig.Params().At(0).Type()):
		mode = "arg"
	case sig.Recv() != nil && sig.Params().Len() == 0:
		rt := sig.Recv().Type()
		if p, ok := rt.(*types.Pointer); ok {
			recvElem = p.Elem()
		} else {
			recvElem = rt
		}
		if st, ok := recvElem.Underlying().(*types.Struct); ok {
			for i := 0; i < st.NumFields(); i++ {
				if st.Field(i).Name() == "Cells" && isCells(st.Field(i).Type()) {
					mode = "recv"
				}
			}
		}
	}
	if mode == "" {
		return nil, "signature is neither func([]Cell) string nor a method of a struct with Cells []Cell"
	}
	prod := &c18Producer{name: name, fi: fi, su: true, rgb: true, epilogue: true, legacyOnly: w.legacyOnly}
	prod.sites = w.sitesOf(fi, c18BuilderSink, true)
	prod.encode = func(cells []c18Style) (e c18Encoded) {
		vals := make([]c18Val, len(cells))
		for i, s := range cells {
			vals[i] = w.cellVal(s, c18Grapheme(i))
		}
		w.m.sink = nil
		w.m.events = w.m.events[:0]
		e.panicMsg, e.abortMsg = w.m.protect(func() {
			var ret []c18Val
			if mode == "arg" {
				ret = w.m.callFunc(fi, nil, []c18Val{w.sliceVal(vals)}, false)
			} else {
				obj := c18Zero(recvElem)
				*obj.strct().fieldByName("Cells") = w.sliceVal(vals)
				var rv c18Val
				if _, ok := sig.Recv().Type().(*types.Pointer); ok {
					rv = c18PtrV(&obj)
				} else {
					rv = obj
				}
				ret = w.m.callFunc(fi, &rv, nil, false)
			}
			if len(ret) != 1 || ret[0].k != c18Str {
				w.m.abort("%s did not return a known string", name)
			}
			e.out = ret[0].s
		})
		if e.panicMsg != "" || e.abortMsg != "" {
			return
		}
		if !w.m.trace {
			return
		}
		// split the event list at the grapheme writes
		e.segments = make([][]c18Event, len(cells))
		j := 0
		for _, ev := range c18Coalesce(w.m.events) {
			if j < len(cells) && ev.text == c18Grapheme(j) {
				j++
				continue
			}
			cp := ev
			if j < len(cells) {
				e.segments[j] = append(e.segments[j], cp)
			} else {
				e.tail = append(e.tail, cp)
			}
		}
		if j != len(cells) {
			e.abortMsg = fmt.Sprintf("%s wrote %d of %d graphemes", name, j, len(cells))
		}
		return
	}
	return prod, ""
}

// ---- render: the per-cell SGR region
//
// The region is the part of the body of the cell loop that compares the pen (a local of type Style) with the next cell
// and writes the difference: it ends at the statement `<pen> = <cell>.Style` and begins at the first statement that
// writes an SGR itself or mentions an SGR component of the pen. The SGRs may be written by the region's own statements
// (static emission sites, known to the extractor E1) or by helpers, methods of a sequence-table type and closures the
// region calls (the evaluator follows them; the template of such a write is the string value that is formatted).
// Locals the region uses but does not define (tables of sequences, closures, flags) are bound from their single
// definition in an enclosing block (c18LocalDef); anything else the region reads from outside is unknown.

type c18Region struct {
	fi    *FuncInfo
	stmts []ast.Stmt
	prev  types.Object
	next  types.Object
	recv  types.Object
	flags []string // capability flags read in the region: "rgb", "styledUnderlines"
	pos   token.Pos
	// prelude: single-definition locals defined before the region that the region uses (see c18LocalDef)
	prelude []c18LocalDef
}

func (w *c18World) renderRegion(fi *FuncInfo, sites map[*ast.CallExpr]*c18Site) (*c18Region, string) {
	info := fi.Pkg.TypesInfo
	parents := w.p.Parents(fi.Pkg)
	var calls []*ast.CallExpr
	for c, st := range sites {
		if st.em.Fn == fi {
			calls = append(calls, c)
		}
	}
	if len(calls) != len(sites) {
		return nil, "SGR emission sites are spread over helper functions (region shape not recognised)"
	}
	sort.Slice(calls, func(i, j int) bool { return calls[i].Pos() < calls[j].Pos() })
	// the statements that advance the pen: <Style local> = <Cell local>.Style
	type advance struct {
		stmt       *ast.AssignStmt
		prev, next types.Object
	}
	isAdvance := func(s ast.Stmt) (advance, bool) {
		as, ok := s.(*ast.AssignStmt)
		if !ok || as.Tok != token.ASSIGN || len(as.Lhs) != 1 || len(as.Rhs) != 1 {
			return advance{}, false
		}
		id, ok := as.Lhs[0].(*ast.Ident)
		if !ok || !c18IsNamed(info.TypeOf(id), "Style") {
			return advance{}, false
		}
		if _, isVar := info.ObjectOf(id).(*types.Var); !isVar {
			return advance{}, false
		}
		ro := rootObj(info, as.Rhs[0])
		if ro == nil || !c18IsNamed(ro.Type(), "Cell") || !c18IsNamed(info.TypeOf(as.Rhs[0]), "Style") {
			return advance{}, false
		}
		return advance{as, info.ObjectOf(id), ro}, true
	}
	listOf := func(n ast.Node) []ast.Stmt {
		switch t := n.(type) {
		case *ast.BlockStmt:
			return t.List
		case *ast.CaseClause:
			return t.Body
		}
		return nil
	}
	var owner ast.Node
	var list []ast.Stmt
	if len(calls) > 0 {
		// innermost statement list containing every site
		for cur := parents[calls[0]]; cur != nil; cur = parents[cur] {
			l := listOf(cur)
			if l == nil {
				if _, isLit := cur.(*ast.FuncLit); isLit {
					return nil, "an SGR emission site of the function is inside a function literal"
				}
				continue
			}
			all := true
			for _, c := range calls {
				if !(cur.Pos() <= c.Pos() && c.End() <= cur.End()) {
					all = false
				}
			}
			if all {
				owner, list = cur, l
				break
			}
		}
	} else {
		// every SGR is written by helpers (tables, methods of a sequence type): the region is found from the
		// statement that advances the pen, which must be unique
		var found []ast.Stmt
		inspectNoLit(fi.Decl.Body, func(n ast.Node) bool {
			if st, ok := n.(ast.Stmt); ok {
				if _, ok := isAdvance(st); ok {
					found = append(found, st)
				}
			}
			return true
		})
		if len(found) != 1 {
			return nil, fmt.Sprintf("no SGR emission site in the function itself and %d statements of the form `<pen> = <cell>.Style`", len(found))
		}
		owner = parents[found[0]]
		list = listOf(owner)
	}
	if owner == nil || list == nil {
		return nil, "no common statement list"
	}
	contains := func(s ast.Stmt, c *ast.CallExpr) bool { return s.Pos() <= c.Pos() && c.End() <= s.End() }
	first, lastSite := -1, -1
	for i, s := range list {
		for _, c := range calls {
			if contains(s, c) {
				if first < 0 {
					first = i
				}
				lastSite = i
			}
		}
	}
	from := lastSite
	if from < 0 {
		from = 0
	}
	end := -1
	var prev, next types.Object
	for i := from; i < len(list); i++ {
		if adv, ok := isAdvance(list[i]); ok {
			end, prev, next = i, adv.prev, adv.next
			break
		}
	}
	if end < 0 {
		return nil, "no `<pen> = <cell>.Style` statement after the last SGR emission"
	}
	// The region is the part of the cell loop that compares the pen with the next cell: it begins at the first
	// statement that writes an SGR itself or mentions an SGR component of the pen (or the pen as a whole, e.g. as an
	// argument of a helper); mentions of the other fields (Hyperlink, HyperlinkParams) do not count.
	for i, s := range list[:end] {
		if first >= 0 && i >= first {
			break
		}
		if c18MentionsPenSGR(info, s, prev) {
			first = i
			break
		}
	}
	if first < 0 {
		return nil, "no statement before `<pen> = <cell>.Style` writes an SGR or reads an SGR component of the pen"
	}
	// nothing before the region may modify the pen or (other than defining it) the cell
	for _, s := range list[:first] {
		if c18AssignsSGRField(info, s, prev) {
			return nil, "an SGR component of the pen variable is assigned between the top of the cell loop and the SGR region (" + w.p.Pos(s.Pos()) + ")"
		}
		if assignsAny(info, s, map[types.Object]bool{next: true}) {
			if as, ok := s.(*ast.AssignStmt); !ok || as.Tok != token.DEFINE {
				return nil, "the cell variable is modified before the SGR region"
			}
		}
	}
	r := &c18Region{fi: fi, stmts: list[first : end+1], prev: prev, next: next, pos: list[first].Pos()}
	if fi.Decl.Recv != nil && len(fi.Decl.Recv.List) == 1 && len(fi.Decl.Recv.List[0].Names) == 1 {
		r.recv = info.Defs[fi.Decl.Recv.List[0].Names[0]]
	}
	if why := w.regionPrelude(r, owner); why != "" {
		return nil, why
	}
	// reads of receiver state inside the region (and the definitions it uses)
	flagSet := map[string]bool{}
	bad := ""
	scan := func(root ast.Node) {
		ast.Inspect(root, func(n ast.Node) bool {
			sel, ok := n.(*ast.SelectorExpr)
			if !ok {
				return true
			}
			if _, isField := info.Selections[sel]; !isField || info.Selections[sel].Kind() != types.FieldVal {
				return true
			}
			if rootObj(info, sel) != r.recv || r.recv == nil {
				return true
			}
			path := canonPath(info, sel)
			switch {
			case path == "Vaxis.caps.rgb":
				flagSet["rgb"] = true
			case path == "Vaxis.caps.styledUnderlines":
				flagSet["styledUnderlines"] = true
			case path == "Vaxis.caps" || path == "Vaxis.tw":
			default:
				if par, ok := parents[sel].(*ast.SelectorExpr); ok && par.X == sel {
					return true // inner part of a longer path
				}
				bad = path
			}
			return true
		})
	}
	for _, s := range r.stmts {
		scan(s)
	}
	for _, d := range r.prelude {
		if d.init != nil {
			scan(d.init)
		}
	}
	if bad != "" {
		return nil, "the SGR region reads " + bad + ", which the check has no model for"
	}
	for f := range flagSet {
		r.flags = append(r.flags, f)
	}
	sort.Strings(r.flags)
	return r, ""
}

// c18MentionsPenSGR: does s mention the pen variable other than through its non-SGR fields?
func c18MentionsPenSGR(info *types.Info, s ast.Node, pen types.Object) bool {
	found := false
	var visit func(n ast.Node) bool
	visit = func(n ast.Node) bool {
		if found {
			return false
		}
		switch t := n.(type) {
		case *ast.SelectorExpr:
			if id, ok := unparen(t.X).(*ast.Ident); ok && info.ObjectOf(id) == pen {
				if _, isField := info.Selections[t]; isField {
					for _, c := range c18Comps {
						if t.Sel.Name == c {
							found = true
						}
					}
					return false // pen.Hyperlink etc.
				}
			}
		case *ast.Ident:
			if info.ObjectOf(t) == pen {
				found = true
			}
		}
		return !found
	}
	ast.Inspect(s, visit)
	return found
}

// c18LocalDef is a local variable of the producer that the SGR region uses but does not define: a table of
// sequences, a closure, a flag computed from the capabilities. It is defined exactly once, by a declaration in a
// block enclosing the region, and mentioned nowhere outside the region and the definitions of other such variables,
// so the value the region sees is the value of its initialiser.
type c18LocalDef struct {
	obj     types.Object
	init    ast.Expr // nil: zero value
	perCell bool     // defined in the statement list of the region itself: evaluated for every cell
}

func listOfNode(n ast.Node) []ast.Stmt {
	switch t := n.(type) {
	case *ast.BlockStmt:
		return t.List
	case *ast.CaseClause:
		return t.Body
	}
	return nil
}

// regionPrelude collects the definitions of r.prelude in source order. Locals that do not qualify stay unbound: the
// evaluator reads them as unknown and aborts (undecided) where a decision depends on them.
func (w *c18World) regionPrelude(r *c18Region, owner ast.Node) string {
	fi := r.fi
	info := fi.Pkg.TypesInfo
	parents := w.p.Parents(fi.Pkg)
	inRegion := func(n ast.Node) bool {
		return len(r.stmts) > 0 && r.stmts[0].Pos() <= n.Pos() && n.End() <= r.stmts[len(r.stmts)-1].End()
	}
	// the blocks enclosing the region
	enclosing := map[ast.Node]bool{}
	for cur := owner; cur != nil; cur = parents[cur] {
		enclosing[cur] = true
	}
	type def struct {
		stmt ast.Node // *ast.AssignStmt (:=) or *ast.ValueSpec
		init ast.Expr
		id   *ast.Ident
	}
	// every definition of a local by a declaration that is a direct statement of an enclosing block, before the region
	defs := map[types.Object]def{}
	multi := map[types.Object]bool{}
	note := func(o types.Object, d def) {
		if o == nil {
			return
		}
		if _, dup := defs[o]; dup {
			multi[o] = true
		}
		defs[o] = d
	}
	for blk := range enclosing {
		var l []ast.Stmt
		switch t := blk.(type) {
		case *ast.BlockStmt:
			l = t.List
		case *ast.CaseClause:
			l = t.Body
		default:
			continue
		}
		for _, s := range l {
			if s.Pos() >= r.stmts[0].Pos() {
				break
			}
			switch t := s.(type) {
			case *ast.AssignStmt:
				if t.Tok != token.DEFINE || len(t.Lhs) != len(t.Rhs) {
					continue
				}
				for i, lh := range t.Lhs {
					if id, ok := lh.(*ast.Ident); ok && id.Name != "_" {
						if o := info.Defs[id]; o != nil {
							note(o, def{t, t.Rhs[i], id})
						}
					}
				}
			case *ast.DeclStmt:
				gd, ok := t.Decl.(*ast.GenDecl)
				if !ok || gd.Tok != token.VAR {
					continue
				}
				for _, sp := range gd.Specs {
					vs, ok := sp.(*ast.ValueSpec)
					if !ok || (len(vs.Values) != 0 && len(vs.Values) != len(vs.Names)) {
						continue
					}
					for i, id := range vs.Names {
						if id.Name == "_" {
							continue
						}
						var init ast.Expr
						if len(vs.Values) > 0 {
							init = vs.Values[i]
						}
						note(info.Defs[id], def{vs, init, id})
					}
				}
			}
		}
	}
	// mentions of every local of the function, by place
	uses := map[types.Object][]*ast.Ident{}
	ast.Inspect(fi.Decl.Body, func(n ast.Node) bool {
		if id, ok := n.(*ast.Ident); ok {
			if o, ok := info.Uses[id].(*types.Var); ok && !o.IsField() && o.Pkg() != nil && o.Parent() != o.Pkg().Scope() {
				uses[o] = append(uses[o], id)
			}
		}
		return true
	})
	// wanted: locals the region mentions, closed under the initialisers of accepted definitions
	accepted := map[types.Object]bool{}
	var order []types.Object
	var want func(root ast.Node)
	inInit := func(id *ast.Ident, of types.Object) bool {
		d := defs[of]
		return d.init != nil && d.init.Pos() <= id.Pos() && id.End() <= d.init.End()
	}
	qmemo := map[types.Object]int{} // 1 = being decided, 2 = yes, 3 = no
	var qualifies func(o types.Object) bool
	var qualifies1 func(o types.Object) bool
	qualifies = func(o types.Object) bool {
		switch qmemo[o] {
		case 1, 3:
			return false
		case 2:
			return true
		}
		qmemo[o] = 1
		if qualifies1(o) {
			qmemo[o] = 2
			return true
		}
		qmemo[o] = 3
		return false
	}
	qualifies1 = func(o types.Object) bool {
		d, ok := defs[o]
		if !ok || multi[o] || o == r.prev || o == r.next || o == r.recv {
			return false
		}
		// mentioned only in the region and in the initialisers of other qualifying definitions (closure bodies)
		for _, id := range uses[o] {
			if inRegion(id) {
				continue
			}
			inOther := false
			for other := range defs {
				if other != o && inInit(id, other) && qualifies(other) {
					inOther = true
				}
			}
			if !inOther {
				return false
			}
		}
		// outside the region the variable (or a part of it) is never the target of an assignment
		bad := false
		ast.Inspect(fi.Decl.Body, func(n ast.Node) bool {
			if n == nil {
				return true
			}
			if inRegion(n) && n != fi.Decl.Body {
				return false
			}
			switch t := n.(type) {
			case *ast.AssignStmt:
				for _, lh := range t.Lhs {
					if rootObj(info, lh) == o && !(t == d.stmt) {
						bad = true
					}
				}
			case *ast.IncDecStmt:
				if rootObj(info, t.X) == o {
					bad = true
				}
			case *ast.RangeStmt:
				for _, e := range []ast.Expr{t.Key, t.Value} {
					if e != nil && rootObj(info, e) == o {
						bad = true
					}
				}
			}
			return !bad
		})
		return !bad
	}
	want = func(root ast.Node) {
		ast.Inspect(root, func(n ast.Node) bool {
			id, ok := n.(*ast.Ident)
			if !ok {
				return true
			}
			o, ok := info.Uses[id].(*types.Var)
			if !ok || accepted[o] {
				return true
			}
			if _, isDef := defs[o]; !isDef {
				return true
			}
			if !qualifies(o) {
				return true
			}
			accepted[o] = true
			if d := defs[o]; d.init != nil {
				want(d.init) // its own free variables first
			}
			order = append(order, o)
			return true
		})
	}
	for _, s := range r.stmts {
		want(s)
	}
	sort.SliceStable(order, func(i, j int) bool { return defs[order[i]].id.Pos() < defs[order[j]].id.Pos() })
	for _, o := range order {
		perCell := false
		for _, s := range listOfNode(owner) {
			if s.Pos() <= defs[o].id.Pos() && defs[o].id.End() <= s.End() {
				perCell = true
			}
		}
		r.prelude = append(r.prelude, c18LocalDef{obj: o, init: defs[o].init, perCell: perCell})
	}
	return ""
}

func (w *c18World) renderProducer(name string, rgb, su, legacy bool) (*c18Producer, *c18Region, string) {
	fi := w.p.Func(name)
	if fi == nil {
		return nil, nil, "function not found"
	}
	prod := &c18Producer{name: name, fi: fi, su: su, rgb: rgb, isLegacy: legacy, legacyOnly: w.legacyOnly}
	var vs []string
	if !rgb {
		vs = append(vs, "-rgb")
	}
	if !su {
		vs = append(vs, "-styledUnderlines")
	}
	if legacy {
		vs = append(vs, "legacy-sgr")
	}
	prod.variant = strings.Join(vs, " ")
	prod.sites = w.sitesOf(fi, vaxisTerminalSink, false)
	// only the sites of render itself (helpers such as showCursor emit no SGR)
	reg, why := w.renderRegion(fi, prod.sites)
	if reg == nil {
		return nil, nil, why
	}
	info := fi.Pkg.TypesInfo
	prod.encode = func(cells []c18Style) (e c18Encoded) {
		fr := &c18Frame{info: info, pk: fi.Pkg, env: map[types.Object]*c18Val{}, lax: true}
		if reg.recv != nil {
			obj := c18Zero(reg.recv.Type().(*types.Pointer).Elem())
			caps := obj.strct().fieldByName("caps")
			if caps == nil || caps.k != c18Struct {
				e.abortMsg = "Vaxis.caps is not a struct"
				return
			}
			for f, v := range map[string]bool{"rgb": rgb, "styledUnderlines": su} {
				fb := caps.strct().fieldByName(f)
				if fb == nil {
					e.abortMsg = "Vaxis.caps." + f + " not found"
					return
				}
				*fb = c18BoolV(v)
			}
			rv := c18PtrV(&obj)
			fr.env[reg.recv] = &rv
		}
		pen := w.styleVal(c18Style{})
		fr.env[reg.prev] = &pen
		w.m.sink = vaxisTerminalSink
		defer func() { w.m.sink = nil }()
		var sb strings.Builder
		e.segments = make([][]c18Event, len(cells))
		// definitions the region uses: a definition whose initialiser cannot be evaluated (or writes to the
		// terminal) leaves the variable unbound, i.e. unknown to the region
		define := func(perCell bool) {
			for _, d := range reg.prelude {
				if d.perCell != perCell {
					continue
				}
				delete(fr.env, d.obj)
				var v c18Val
				if d.init == nil {
					v = c18Zero(d.obj.Type())
				} else {
					n, outLen := len(w.m.events), w.m.out.Len()
					steps, depth := w.m.steps, w.m.depth
					pm, am := w.m.protect(func() { v = c18Copy(w.m.eval(fr, d.init)) })
					w.m.steps, w.m.depth = steps, depth
					if pm != "" || am != "" || len(w.m.events) != n || w.m.out.Len() != outLen {
						w.m.events = w.m.events[:n]
						kept := w.m.out.String()[:outLen]
						w.m.out.Reset()
						w.m.out.WriteString(kept)
						continue
					}
				}
				box := v
				fr.env[d.obj] = &box
			}
		}
		define(false)
		e.panicMsg, e.abortMsg = w.m.protect(func() {
			for j, s := range cells {
				cv := w.cellVal(s, c18Grapheme(j))
				fr.env[reg.next] = &cv
				w.m.events = w.m.events[:0]
				w.m.out.Reset()
				define(true)
				for _, st := range reg.stmts {
					if ctl := w.m.stmt(fr, st, ""); ctl.kind != c18CtlNone {
						w.m.abort("control leaves the SGR region of %s", name)
					}
				}
				e.segments[j] = append([]c18Event(nil), c18Coalesce(w.m.events)...)
				sb.WriteString(w.m.out.String())
				sb.WriteString(c18Grapheme(j))
			}
		})
		e.out = sb.String()
		return
	}
	return prod, reg, ""
}

// c18AssignsSGRField: does s assign the variable obj as a whole, take its address, or assign one of its
// SGR components (Foreground, Background, UnderlineColor, UnderlineStyle, Attribute)? Assignments to other
// fields (Hyperlink, HyperlinkParams) do not matter to the SGR region.
func c18AssignsSGRField(info *types.Info, s ast.Node, obj types.Object) bool {
	found := false
	lhs := func(l ast.Expr) {
		if rootObj(info, l) != obj {
			return
		}
		if sel, ok := unparen(l).(*ast.SelectorExpr); ok {
			if id, ok := unparen(sel.X).(*ast.Ident); ok && info.ObjectOf(id) == obj {
				for _, c := range c18Comps {
					if sel.Sel.Name == c {
						found = true
					}
				}
				return
			}
		}
		found = true
	}
	inspectNoLit(s, func(n ast.Node) bool {
		switch t := n.(type) {
		case *ast.AssignStmt:
			for _, l := range t.Lhs {
				lhs(l)
			}
		case *ast.IncDecStmt:
			lhs(t.X)
		case *ast.RangeStmt:
			if t.Key != nil {
				lhs(t.Key)
			}
			if t.Value != nil {
				lhs(t.Value)
			}
		case *ast.UnaryExpr:
			if t.Op == token.AND && rootObj(info, t.X) == obj {
				found = true
			}
		}
		return !found
	})
	return found
}
