package main

import (
	"crypto/sha1"
	"encoding/json"
	"fmt"
	"go/token"
	"os"
	"path/filepath"
	"sort"
	"strings"
	"time"
)

type Status string

const (
	Discharged Status = "discharged"
	Violated   Status = "violated"
	Undecided  Status = "undecided"
)

// Obligation is one rule instance. Key is stable across behaviour-preserving
// edits: rule / function / normalised construct, never a line number.
type Obligation struct {
	Prop       string `json:"property"`
	Rule       string `json:"rule"`
	Key        string `json:"key"`
	Pos        string `json:"pos"`
	Status     Status `json:"status"`
	Reason     string `json:"reason"`
	Nontrivial bool   `json:"nontrivial"`
}

type KnownFinding struct {
	Property string `json:"property"`
	Rule     string `json:"rule"`
	Key      string `json:"key"`
	Status   string `json:"status"` // "open" or "fixed"
	ID       string `json:"id,omitempty"`
	What     string `json:"what"`
	Commit   string `json:"commit,omitempty"`
	Line     string `json:"line,omitempty"` // "fixed: property=<id> <commit> <what failed>"
}

// Ctx is the per-run collector passed to every rule.
type Ctx struct {
	Prop     string
	Tier     string
	P        *Program
	Obs      []*Obligation
	counts   map[string]int
	minima   map[string]int
	Info     []string // informational lines (not obligations)
	Clauses  []string
	NotDec   []string
	Assume   []string
	verifDir string
}

func (c *Ctx) add(rule, key string, pos token.Pos, st Status, nontrivial bool, reason string, args ...any) *Obligation {
	o := &Obligation{Prop: c.Prop, Rule: rule, Key: rule + "/" + key, Status: st, Nontrivial: nontrivial, Reason: fmt.Sprintf(reason, args...)}
	if c.P != nil {
		o.Pos = c.P.Pos(pos)
	}
	c.Obs = append(c.Obs, o)
	c.counts[rule]++
	return o
}

// ok / bad / undecided record obligations.
func (c *Ctx) ok(rule, key string, pos token.Pos, reason string, args ...any) {
	c.add(rule, key, pos, Discharged, true, reason, args...)
}
func (c *Ctx) okTrivial(rule, key string, pos token.Pos, reason string, args ...any) {
	c.add(rule, key, pos, Discharged, false, reason, args...)
}
func (c *Ctx) bad(rule, key string, pos token.Pos, reason string, args ...any) {
	c.add(rule, key, pos, Violated, true, reason, args...)
}
func (c *Ctx) undecided(rule, key string, pos token.Pos, reason string, args ...any) {
	c.add(rule, key, pos, Undecided, true, reason, args...)
}
func (c *Ctx) check(cond bool, rule, key string, pos token.Pos, okReason, badReason string) bool {
	if cond {
		c.ok(rule, key, pos, "%s", okReason)
	} else {
		c.bad(rule, key, pos, "%s", badReason)
	}
	return cond
}

// expect declares the minimum number of instances a rule must match
// (non-vacuity: confirmed by hand on the pinned tree).
func (c *Ctx) expect(rule string, min int) { c.minima[rule] = min }

func (c *Ctx) info(format string, args ...any) { c.Info = append(c.Info, fmt.Sprintf(format, args...)) }

func loadKnown(verifDir string) ([]KnownFinding, error) {
	b, err := os.ReadFile(filepath.Join(verifDir, "known_findings.json"))
	if err != nil {
		if os.IsNotExist(err) {
			return nil, nil
		}
		return nil, err
	}
	var doc struct {
		Findings []KnownFinding `json:"findings"`
	}
	if err := json.Unmarshal(b, &doc); err != nil {
		return nil, fmt.Errorf("known_findings.json: %v", err)
	}
	return doc.Findings, nil
}

type PropSpec struct {
	ID        string
	NeedSSA   bool
	Run       func(c *Ctx)
	Clauses   []string // decided
	NotDec    []string // not decided
	DesignRef string
}

// finish evaluates vacuity, matches known findings, writes evidence and
// replay files, prints the verdict lines and returns the exit code.
func (c *Ctx) finish(start time.Time, onlyKey string, cmdline string, writeEvidence bool) int {
	// vacuity
	rules := make([]string, 0, len(c.minima))
	for r := range c.minima {
		rules = append(rules, r)
	}
	sort.Strings(rules)
	for _, r := range rules {
		if c.counts[r] < c.minima[r] {
			c.add("VACUOUS", r, token.NoPos, Undecided, true, "rule %s matched %d instances, confirmed minimum is %d", r, c.counts[r], c.minima[r])
		}
	}
	// every rule that recorded obligations must have a declared minimum
	for r := range c.counts {
		if _, ok := c.minima[r]; !ok && r != "VACUOUS" && r != "LOAD" && r != "PANIC" {
			c.minima[r] = 1
		}
	}
	known, kerr := loadKnown(c.verifDir)
	if kerr != nil {
		c.add("LOAD", "known_findings", token.NoPos, Undecided, true, "%v", kerr)
	}
	open := map[string]KnownFinding{}
	for _, k := range known {
		if k.Property == c.Prop && k.Status == "open" {
			open[k.Key] = k
		}
	}
	sort.SliceStable(c.Obs, func(i, j int) bool {
		if c.Obs[i].Rule != c.Obs[j].Rule {
			return c.Obs[i].Rule < c.Obs[j].Rule
		}
		return c.Obs[i].Key < c.Obs[j].Key
	})
	// duplicate keys get a numeric suffix in order of appearance (stable within a function)
	seen := map[string]int{}
	for _, o := range c.Obs {
		seen[o.Key]++
		if n := seen[o.Key]; n > 1 {
			o.Key = fmt.Sprintf("%s#%d", o.Key, n)
		}
	}
	if os.Getenv("VX_LIST") != "" {
		// debug aid: every obligation with its verdict (used to diff rule instances between two trees)
		for _, o := range c.Obs {
			fmt.Printf("OBLIGATION %v %s :: %s\n", o.Status, o.Key, o.Reason)
		}
	}
	nDis, nViol, nUnd, nKnown, nNontriv := 0, 0, 0, 0, 0
	var lines []string
	replayDir := filepath.Join(c.verifDir, "evidence", "replays")
	os.MkdirAll(replayDir, 0o755)
	distinct := map[string]bool{}
	var viol []*Obligation
	var knownHit []*Obligation
	for _, o := range c.Obs {
		if onlyKey != "" && o.Key != onlyKey {
			continue
		}
		if o.Nontrivial {
			distinct[o.Key] = true
		}
		switch o.Status {
		case Discharged:
			nDis++
		case Violated, Undecided:
			if k, ok := open[o.Key]; ok && o.Status == Violated {
				nKnown++
				knownHit = append(knownHit, o)
				lines = append(lines, fmt.Sprintf("KNOWN-FINDING: property=%s %s — %s [%s]", c.Prop, o.Key, k.What, o.Pos))
				continue
			}
			if o.Status == Violated {
				nViol++
			} else {
				nUnd++
			}
			viol = append(viol, o)
		}
	}
	nNontriv = len(distinct)
	for _, o := range viol {
		h := sha1.Sum([]byte(o.Key))
		path := filepath.Join(replayDir, fmt.Sprintf("%s-%x.json", c.Prop, h[:6]))
		b, _ := json.MarshalIndent(o, "", " ")
		os.WriteFile(path, b, 0o644)
		lines = append(lines, fmt.Sprintf("%s %s: %s: %s", strings.ToUpper(string(o.Status)), o.Pos, o.Key, o.Reason))
		lines = append(lines, fmt.Sprintf("VIOLATION property=%s replay=%s", c.Prop, path))
	}
	// evidence
	total := nDis + nViol + nUnd + nKnown
	samples := []any{}
	addSample := func(o *Obligation) {
		if len(samples) < 12 {
			samples = append(samples, map[string]any{"key": o.Key, "pos": o.Pos, "status": o.Status, "reason": o.Reason})
		}
	}
	for _, o := range viol {
		addSample(o)
	}
	for _, o := range knownHit {
		addSample(o)
	}
	perRuleSeen := map[string]int{}
	for _, o := range c.Obs {
		if o.Status == Discharged && o.Nontrivial && perRuleSeen[o.Rule] < 1 {
			perRuleSeen[o.Rule]++
			addSample(o)
		}
	}
	ruleCounts := map[string]int{}
	for r, n := range c.counts {
		ruleCounts[r] = n
	}
	expl := "Static analysis of the type-checked source of " + c.P.repoDesc() + ". DECIDED clauses: " + strings.Join(c.Clauses, " | ") +
		". NOT DECIDED (behavioural residue, not claimed): " + strings.Join(c.NotDec, " | ") +
		". An obligation is one rule instance keyed by rule/function/construct; a check passes iff every obligation is discharged or is an open entry of known_findings.json."
	ev := map[string]any{
		"property_id": c.Prop,
		"tier":        c.Tier,
		"seed":        seedFromEnv(),
		"level":       "other",
		"coverage": map[string]any{
			"explanation":         expl,
			"obligations":         total,
			"discharged":          nDis,
			"known_findings":      nKnown,
			"violated":            nViol,
			"undecided":           nUnd,
			"evaluations":         total,
			"distinct_nontrivial": nNontriv,
			"rule":                "one obligation per (rule, function, construct) instance extracted from the current source; non-trivial = its verdict needed at least one guard/ordering/table/ownership fact (not discharged by absence); distinct by key",
			"samples":             samples,
			"per_rule_instances":  ruleCounts,
			"per_rule_minimum":    c.minima,
			"checker_cmd":         cmdline,
			"trusted_base":        []string{"go/types type checker", "golang.org/x/tools v0.29.0 go/packages, go/cfg, go/ssa, callgraph/vta", "reference tables in /verif/checker (ref_*.go)", "the rule definitions in /verif/DESIGN.md section 4"},
			"exhaustive":          false,
			"info":                c.Info,
			"packages_analysed":   len(c.P.All),
			"goos":                c.P.goosDesc(),
		},
		"assumptions": append([]string{"the Go type checker and x/tools CFG/SSA construction are correct", "each decided clause is a necessary condition of the property, not the property itself"}, c.Assume...),
		"wall_s":      time.Since(start).Seconds(),
		"violations":  nViol + nUnd,
	}
	if log := os.Getenv("VERIF_SELFTEST_LOG"); log != "" {
		if b, err := os.ReadFile(log); err == nil {
			var ctl []string
			for _, l := range strings.Split(string(b), "\n") {
				if strings.HasPrefix(l, "selftest ") {
					ctl = append(ctl, strings.Join(strings.Fields(l), " "))
				}
			}
			ev["coverage"].(map[string]any)["positive_controls"] = ctl
		}
	}
	if onlyKey == "" && writeEvidence {
		evPath := filepath.Join(c.verifDir, "evidence", c.Prop+".json")
		b, _ := json.MarshalIndent(ev, "", " ")
		if err := os.WriteFile(evPath, b, 0o644); err != nil {
			fmt.Println("cannot write evidence:", err)
			return 2
		}
	}
	for _, l := range lines {
		fmt.Println(l)
	}
	fmt.Printf("SUMMARY property=%s tier=%s obligations=%d discharged=%d known=%d violated=%d undecided=%d rules=%d wall=%.1fs\n",
		c.Prop, c.Tier, total, nDis, nKnown, nViol, nUnd, len(c.counts), time.Since(start).Seconds())
	if nViol+nUnd > 0 {
		return 1
	}
	return 0
}

func (p *Program) repoDesc() string {
	if p == nil {
		return "?"
	}
	return p.Repo
}
func (p *Program) goosDesc() string {
	if p == nil || p.GOOS == "" {
		return "linux"
	}
	return p.GOOS
}

func seedFromEnv() int {
	var n int
	fmt.Sscanf(os.Getenv("VERIF_SEED"), "%d", &n)
	return n
}
