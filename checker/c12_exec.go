package main

// C12 — symbolic mini-executor: driver and statements.
//
// run(entry, args) enumerates the paths of a repository function on symbolic
// arguments by deterministic re-execution: every branch whose condition depends
// on an unknown is a choice point; the decision vector is advanced like an
// odometer until all combinations have been explored (bounded).

import (
	"fmt"
	"go/ast"
	"go/token"
	"go/types"

	"golang.org/x/tools/go/packages"
)

const (
	c12MaxPaths = 256
	c12MaxSteps = 40000
	c12MaxDepth = 8
	c12MaxIter  = 64
	c12InlineSz = 80 // statements: helpers of the entry's package up to this size are inlined
)

type c12Ctl int

const (
	c12Next c12Ctl = iota
	c12Return
	c12Break
	c12Continue
	c12Abort
)

type c12Frame struct {
	pk      *packages.Package
	info    *types.Info
	env     map[types.Object]c12Val
	fn      string
	results []c12Val
	named   []types.Object
	label   string // label targeted by a pending break/continue ("" = innermost)
	defers  []*ast.DeferStmt
}

type c12Exec struct {
	p        *Program
	sink     SinkFn
	entryPkg *packages.Package
	recvType string // type name of the entry's receiver: its methods are always inlined

	prefix  []int
	arity   []int
	nchoice int

	// generic: loops whose bound is unknown are executed for one symbolic iteration
	generic bool
	// inlineIf overrides the inlining policy when set
	inlineIf func(fi *FuncInfo, args []c12Val) bool
	nloop    int
	memo     map[string]bool
	// reverse explores the last alternative of every choice point first (else-branches before then-branches)
	reverse bool
	// snap: call records carry a snapshot of the receiver state written so far
	snap bool
	// defers: deferred calls are executed when their function returns (last in, first out); without it they are ignored
	defers bool
	// writerNative: fmt.Fprintf / fmt.Fprint / io.WriteString on a repository type with a declared Write method
	// call that method with the formatted bytes
	writerNative bool

	// globals != nil: a start-up table is being built (c12_init.go): package-level variables are read from and
	// written to this map, make(map) yields a mutable map
	globals  map[types.Object]c12Val
	initInfo *c12InitInfo

	path  *c12Path
	store map[string]c12Val
	init  map[string]c12Val
	depth int
	steps int
}

// c12Run explores the paths of fi on the given receiver-less argument list (receiver is implicit).
func c12Run(p *Program, fi *FuncInfo, sink SinkFn, init map[string]c12Val, args ...c12Val) (paths []*c12Path, complete bool) {
	return c12RunOpt(p, fi, &c12Exec{sink: sink, init: init}, args...)
}

// c12RunOpt is c12Run with executor options taken from opt (sink, init, generic, inlineIf).
func c12RunOpt(p *Program, fi *FuncInfo, opt *c12Exec, args ...c12Val) (paths []*c12Path, complete bool) {
	ex := &c12Exec{p: p, sink: opt.sink, entryPkg: fi.Pkg, init: opt.init, generic: opt.generic, inlineIf: opt.inlineIf, reverse: opt.reverse, snap: opt.snap, defers: opt.defers, writerNative: opt.writerNative}
	init := opt.init
	if fi.Decl.Recv != nil && len(fi.Decl.Recv.List) == 1 {
		ex.recvType = anchorType(fi.Pkg.TypesInfo.TypeOf(fi.Decl.Recv.List[0].Type))
	}
	prefix := []int{}
	for n := 0; n < c12MaxPaths; n++ {
		ex.prefix, ex.arity, ex.nchoice = prefix, nil, 0
		ex.path = &c12Path{}
		ex.store = map[string]c12Val{}
		for k, v := range init {
			if b, isBuilder := v.(c12Builder); isBuilder {
				// builders are mutable: every path starts from its own copy
				v = c12Builder{S: &c12Str{Parts: append([]c12Part{}, b.S.Parts...)}}
			}
			ex.store[k] = v
		}
		ex.depth, ex.steps, ex.nloop = 0, 0, 0
		ex.memo = map[string]bool{}
		var recv c12Val
		if ex.recvType != "" {
			recv = c12Ref{Path: ex.recvType}
		}
		res := ex.callDecl(fi, recv, args)
		ex.path.Ret = res
		ex.path.Final = ex.store
		paths = append(paths, ex.path)
		// advance the odometer
		taken := make([]int, len(ex.arity))
		copy(taken, prefix)
		i := len(ex.arity) - 1
		for i >= 0 && taken[i]+1 >= ex.arity[i] {
			i--
		}
		if i < 0 {
			return paths, true
		}
		prefix = append(append([]int{}, taken[:i]...), taken[i]+1)
	}
	return paths, false
}

func (ex *c12Exec) choose(n int) int {
	k := 0
	if ex.nchoice < len(ex.prefix) {
		k = ex.prefix[ex.nchoice]
	}
	ex.arity = append(ex.arity, n)
	ex.nchoice++
	if k >= n {
		k = n - 1
	}
	if ex.reverse {
		return n - 1 - k
	}
	return k
}

func (ex *c12Exec) unsupported(fr *c12Frame, n ast.Node, what string) {
	ex.path.Unsupp = append(ex.path.Unsupp, fmt.Sprintf("%s in %s (%s)", what, fr.fn, ex.p.Pos(n.Pos())))
}

func c12StmtCount(b *ast.BlockStmt) int {
	n := 0
	ast.Inspect(b, func(x ast.Node) bool {
		if _, ok := x.(ast.Stmt); ok {
			n++
		}
		return true
	})
	return n
}

// shouldInline: methods of the entry's receiver type, and small helpers of the entry's package.
func (ex *c12Exec) shouldInline(fi *FuncInfo, args []c12Val) bool {
	if fi == nil || fi.Decl.Body == nil || ex.depth >= c12MaxDepth {
		return false
	}
	if fi.Pkg != ex.entryPkg {
		return false
	}
	if ex.inlineIf != nil {
		return ex.inlineIf(fi, args)
	}
	if fi.Decl.Recv != nil && len(fi.Decl.Recv.List) == 1 && ex.recvType != "" &&
		anchorType(fi.Pkg.TypesInfo.TypeOf(fi.Decl.Recv.List[0].Type)) == ex.recvType {
		return true
	}
	// a function that is handed a pointer into the receiver's state (`applySGR(params, &vt.cursor.Style)`) acts on
	// that state exactly as a method of the receiver would: it is followed whatever its size (the step and depth
	// budgets still apply)
	for _, a := range args {
		if r, isRef := a.(c12Ref); isRef && r.Path != "" {
			return true
		}
	}
	return c12StmtCount(fi.Decl.Body) <= c12InlineSz
}

func (ex *c12Exec) callDecl(fi *FuncInfo, recv c12Val, args []c12Val) []c12Val {
	fr := &c12Frame{pk: fi.Pkg, info: fi.Pkg.TypesInfo, env: map[types.Object]c12Val{}, fn: fi.Name}
	if fi.Decl.Recv != nil && len(fi.Decl.Recv.List) == 1 && len(fi.Decl.Recv.List[0].Names) == 1 {
		fr.env[fr.info.Defs[fi.Decl.Recv.List[0].Names[0]]] = recv
	}
	i := 0
	sig := fi.Obj.Type().(*types.Signature)
	for _, f := range fi.Decl.Type.Params.List {
		for _, n := range f.Names {
			var v c12Val = c12Sym{Hole: -1, Desc: n.Name}
			if sig.Variadic() && i == sig.Params().Len()-1 {
				if i < len(args) {
					v = c12Slice{Elems: append([]c12Val{}, args[i:]...)}
				} else {
					v = c12Slice{}
				}
			} else if i < len(args) {
				v = args[i]
			}
			fr.env[fr.info.Defs[n]] = v
			i++
		}
	}
	if fi.Decl.Type.Results != nil {
		for _, f := range fi.Decl.Type.Results.List {
			for _, n := range f.Names {
				o := fr.info.Defs[n]
				fr.named = append(fr.named, o)
				fr.env[o] = ex.zero(o.Type())
			}
		}
	}
	ex.depth++
	ctl := ex.block(fr, fi.Decl.Body.List)
	if ex.defers && ctl != c12Abort {
		// (arguments are evaluated when the function returns, not at the defer statement: exact for constant
		// arguments and for receivers that are pieces of the state)
		for i := len(fr.defers) - 1; i >= 0; i-- {
			d := fr.defers[i]
			if lit, ok := unparen(d.Call.Fun).(*ast.FuncLit); ok && len(d.Call.Args) == 0 {
				saved := fr.results
				ex.block(fr, lit.Body.List)
				fr.results = saved
				continue
			}
			ex.expr(fr, d.Call)
		}
	}
	ex.depth--
	if ctl == c12Return && fr.results != nil {
		return fr.results
	}
	if len(fr.named) > 0 {
		var out []c12Val
		for _, o := range fr.named {
			out = append(out, fr.env[o])
		}
		return out
	}
	n := sig.Results().Len()
	out := make([]c12Val, n)
	for i := range out {
		out[i] = c12Sym{Hole: -1, Desc: "result of " + fi.Name}
	}
	return out
}

func (ex *c12Exec) zero(t types.Type) c12Val {
	switch u := t.Underlying().(type) {
	case *types.Basic:
		switch {
		case u.Info()&types.IsInteger != 0:
			return c12Int{0}
		case u.Info()&types.IsBoolean != 0:
			return c12Bool{false}
		case u.Info()&types.IsString != 0:
			return c12Lit("")
		}
	case *types.Struct:
		if tn := typeName(t); tn == "strings.Builder" || tn == "bytes.Buffer" {
			return c12Builder{S: &c12Str{}}
		}
		return &c12Struct{Typ: t, Fields: map[string]c12Val{}}
	case *types.Slice, *types.Pointer, *types.Map, *types.Interface, *types.Chan, *types.Signature:
		return c12Nil{}
	case *types.Array:
		// an array is the list of its elements (fixed length)
		if u.Len() <= 1024 {
			out := c12Slice{Elems: make([]c12Val, u.Len())}
			for i := range out.Elems {
				out.Elems[i] = ex.zero(u.Elem())
			}
			return out
		}
	}
	return c12Sym{Hole: -1, Desc: "zero " + t.String()}
}

func (ex *c12Exec) block(fr *c12Frame, list []ast.Stmt) c12Ctl {
	for _, s := range list {
		if ctl := ex.stmt(fr, s); ctl != c12Next {
			return ctl
		}
	}
	return c12Next
}

// truth evaluates a condition; an unknown atom is a choice point recorded on the path. Negation,
// && and || are evaluated structurally so that every atom is recorded with its own polarity.
func (ex *c12Exec) truth(fr *c12Frame, e ast.Expr) bool {
	e = unparen(e)
	switch t := e.(type) {
	case *ast.UnaryExpr:
		if t.Op == token.NOT {
			return !ex.truth(fr, t.X)
		}
	case *ast.BinaryExpr:
		switch t.Op {
		case token.LAND:
			return ex.truth(fr, t.X) && ex.truth(fr, t.Y)
		case token.LOR:
			return ex.truth(fr, t.X) || ex.truth(fr, t.Y)
		}
	}
	v := ex.rv(ex.expr(fr, e))
	if b, ok := v.(c12Bool); ok {
		return b.V
	}
	// the same unknown asked again on this path gets the same answer
	memoKey := ""
	if sv, ok := v.(c12Sym); ok && sv.Hole < 0 && len(sv.Desc) > 1 {
		memoKey = fmt.Sprintf("%s%+d", sv.Desc, sv.K)
		if ans, seen := ex.memo[memoKey]; seen {
			return ans
		}
	}
	k := ex.choose(2)
	if memoKey != "" {
		ex.memo[memoKey] = k == 0
	}
	c := c12Cond{Expr: canonExpr(fr.info, e), Val: fmt.Sprint(k == 0), Node: e}
	if sel, ok := e.(*ast.SelectorExpr); ok {
		if s, ok := fr.info.Selections[sel]; ok {
			c.Field, _ = s.Obj().(*types.Var)
		}
	} else if sv, ok := v.(c12Sym); ok && sv.From != nil && sv.K == 0 {
		// a local or helper parameter that carries the value of a state field: the test is a test of that field
		c.Expr, c.Field = sv.Desc, sv.From
	}
	ex.path.Conds = append(ex.path.Conds, c)
	return k == 0
}

func (ex *c12Exec) stmt(fr *c12Frame, s ast.Stmt) c12Ctl {
	ex.steps++
	if ex.steps > c12MaxSteps {
		ex.unsupported(fr, s, "step budget exceeded")
		return c12Abort
	}
	switch st := s.(type) {
	case *ast.BlockStmt:
		return ex.block(fr, st.List)
	case *ast.DeferStmt:
		if ex.defers {
			fr.defers = append(fr.defers, st)
		}
		return c12Next
	case *ast.EmptyStmt, *ast.GoStmt:
		return c12Next
	case *ast.ExprStmt:
		ex.expr(fr, st.X)
		return c12Next
	case *ast.DeclStmt:
		gd, ok := st.Decl.(*ast.GenDecl)
		if !ok || gd.Tok != token.VAR {
			return c12Next
		}
		for _, sp := range gd.Specs {
			vs := sp.(*ast.ValueSpec)
			for i, n := range vs.Names {
				o := fr.info.Defs[n]
				if o == nil {
					continue
				}
				if i < len(vs.Values) {
					fr.env[o] = ex.rv(ex.expr(fr, vs.Values[i]))
				} else {
					fr.env[o] = ex.zero(o.Type())
				}
			}
		}
		return c12Next
	case *ast.AssignStmt:
		ex.assignStmt(fr, st)
		return c12Next
	case *ast.IncDecStmt:
		one := c12Int{1}
		op := token.ADD
		if st.Tok == token.DEC {
			op = token.SUB
		}
		cur := ex.rv(ex.expr(fr, st.X))
		ex.assign(fr, st.X, token.ASSIGN, ex.arith(op, cur, one), st)
		return c12Next
	case *ast.ReturnStmt:
		if len(st.Results) == 0 {
			fr.results = nil
			if len(fr.named) > 0 {
				for _, o := range fr.named {
					fr.results = append(fr.results, fr.env[o])
				}
			}
			return c12Return
		}
		var out []c12Val
		for _, r := range st.Results {
			// a returned pointer into the receiver state stays a reference (func (m *Model) slot() *T { return &m.a })
			v := ex.argVal(fr, r)
			if t, ok := v.(c12Tuple); ok && len(st.Results) == 1 {
				out = append(out, t.Vals...)
			} else {
				out = append(out, v)
			}
		}
		fr.results = out
		if fr.results == nil {
			fr.results = []c12Val{}
		}
		return c12Return
	case *ast.IfStmt:
		if st.Init != nil {
			if ctl := ex.stmt(fr, st.Init); ctl != c12Next {
				return ctl
			}
		}
		if ex.truth(fr, st.Cond) {
			return ex.block(fr, st.Body.List)
		}
		if st.Else != nil {
			return ex.stmt(fr, st.Else)
		}
		return c12Next
	case *ast.LabeledStmt:
		ctl := ex.stmt(fr, st.Stmt)
		if (ctl == c12Break) && fr.label == st.Label.Name {
			fr.label = ""
			return c12Next
		}
		return ctl
	case *ast.BranchStmt:
		fr.label = ""
		if st.Label != nil {
			fr.label = st.Label.Name
		}
		switch st.Tok {
		case token.BREAK:
			return c12Break
		case token.CONTINUE:
			return c12Continue
		}
		ex.unsupported(fr, st, st.Tok.String())
		return c12Abort
	case *ast.SwitchStmt:
		return ex.switchStmt(fr, st)
	case *ast.TypeSwitchStmt:
		return ex.typeSwitch(fr, st)
	case *ast.ForStmt:
		return ex.forStmt(fr, st)
	case *ast.RangeStmt:
		return ex.rangeStmt(fr, st)
	case *ast.SendStmt:
		ch := ex.expr(fr, st.Chan)
		v := ex.rv(ex.expr(fr, st.Value))
		name := c12Show(ch)
		if r, ok := ch.(c12Ref); ok {
			name = r.Path
		}
		ex.path.Sends = append(ex.path.Sends, c12Send{Chan: name, Val: v, Typ: fr.info.TypeOf(st.Value)})
		return c12Next
	case *ast.SelectStmt:
		// every communication clause is a possible continuation
		n := len(st.Body.List)
		if n == 0 {
			return c12Next
		}
		k := ex.choose(n)
		cc := st.Body.List[k].(*ast.CommClause)
		what := "default"
		switch cm := cc.Comm.(type) {
		case *ast.SendStmt:
			ex.stmt(fr, cm)
			what = "send " + canonExpr(fr.info, cm.Chan)
		case *ast.AssignStmt:
			for i, l := range cm.Lhs {
				var v c12Val = c12Sym{Hole: -1, Desc: "received " + canonExpr(fr.info, cm.Rhs[0])}
				if i == 0 {
					v = ex.rv(ex.expr(fr, cm.Rhs[0]))
				}
				ex.bind(fr, l, v, cm.Tok == token.DEFINE, cm)
			}
			what = "receive " + canonExpr(fr.info, cm.Rhs[0])
		case *ast.ExprStmt:
			what = "receive " + canonExpr(fr.info, cm.X)
		}
		ex.path.Conds = append(ex.path.Conds, c12Cond{Expr: "select", Val: what, Node: st})
		ctl := ex.block(fr, cc.Body)
		if ctl == c12Break && fr.label == "" {
			return c12Next
		}
		return ctl
	}
	ex.unsupported(fr, s, fmt.Sprintf("statement %T", s))
	return c12Abort
}

// loopCtl maps the control signal of a loop body to the loop's own behaviour.
func (ex *c12Exec) loopCtl(fr *c12Frame, ctl c12Ctl, myLabel string) (exit bool, out c12Ctl) {
	switch ctl {
	case c12Break:
		if fr.label == "" || fr.label == myLabel {
			fr.label = ""
			return true, c12Next
		}
		return true, c12Break
	case c12Continue:
		if fr.label == "" || fr.label == myLabel {
			fr.label = ""
			return false, c12Next
		}
		return true, c12Continue
	case c12Return, c12Abort:
		return true, ctl
	}
	return false, c12Next
}

func (ex *c12Exec) labelOf(fr *c12Frame, s ast.Stmt) string {
	par := ex.p.Parents(fr.pk)
	if l, ok := par[s].(*ast.LabeledStmt); ok {
		return l.Label.Name
	}
	return ""
}

func (ex *c12Exec) forStmt(fr *c12Frame, st *ast.ForStmt) c12Ctl {
	if st.Init != nil {
		if ctl := ex.stmt(fr, st.Init); ctl != c12Next {
			return ctl
		}
	}
	lbl := ex.labelOf(fr, st)
	for it := 0; ; it++ {
		if st.Cond != nil {
			v := ex.rv(ex.expr(fr, st.Cond))
			b, ok := v.(c12Bool)
			if !ok && ex.generic {
				return ex.genericFor(fr, st, lbl)
			}
			if !ok {
				ex.path.Skipped = append(ex.path.Skipped, fmt.Sprintf("loop with unknown bound %s in %s", canonExpr(fr.info, st.Cond), fr.fn))
				ex.path.SkippedAt = append(ex.path.SkippedAt, c12SkippedLoop{Node: st, Pkg: fr.pk, Fn: fr.fn})
				return c12Next
			}
			if !b.V {
				return c12Next
			}
		}
		if it >= c12MaxIter {
			ex.unsupported(fr, st, "iteration budget exceeded")
			return c12Abort
		}
		ctl := ex.block(fr, st.Body.List)
		if exit, out := ex.loopCtl(fr, ctl, lbl); exit {
			return out
		}
		if st.Post != nil {
			ex.stmt(fr, st.Post)
		}
	}
}

func (ex *c12Exec) rangeStmt(fr *c12Frame, st *ast.RangeStmt) c12Ctl {
	x := ex.rv(ex.expr(fr, st.X))
	lbl := ex.labelOf(fr, st)
	var elems []c12Val
	switch t := x.(type) {
	case c12Slice:
		elems = t.Elems
	case c12Nil:
		return c12Next
	default:
		if ref, isRef := ex.expr(fr, st.X).(c12Ref); isRef && ex.generic {
			return ex.genericRange(fr, st, ref, lbl)
		}
		if ex.generic {
			// an unknown local value (a string parameter, …): one symbolic iteration with unknown key and element
			ex.nloop++
			for _, o := range c12AssignedIn(fr.info, st.Body) {
				if _, local := fr.env[o]; local {
					fr.env[o] = c12Sym{Hole: -1, Desc: fmt.Sprintf("loop%d:%s", ex.nloop, o.Name())}
				}
			}
			name := fmt.Sprintf("loop%d:range", ex.nloop)
			if st.Key != nil {
				ex.bind(fr, st.Key, c12Sym{Hole: -1, Desc: name}, st.Tok == token.DEFINE, st)
			}
			if st.Value != nil {
				ex.bind(fr, st.Value, c12Sym{Hole: -1, Desc: name + ":elem"}, st.Tok == token.DEFINE, st)
			}
			ex.path.Loops = append(ex.path.Loops, c12Loop{Sym: name, Kind: "range", Over: c12Show(x)})
			ctl := ex.block(fr, st.Body.List)
			_, out := ex.loopCtl(fr, ctl, lbl)
			if ctl == c12Return || ctl == c12Abort {
				return ctl
			}
			return out
		}
		ex.path.Skipped = append(ex.path.Skipped, fmt.Sprintf("range over unknown %s in %s", canonExpr(fr.info, st.X), fr.fn))
		ex.path.SkippedAt = append(ex.path.SkippedAt, c12SkippedLoop{Node: st, Pkg: fr.pk, Fn: fr.fn})
		return c12Next
	}
	for i, el := range elems {
		if st.Key != nil {
			ex.bind(fr, st.Key, c12Int{int64(i)}, st.Tok == token.DEFINE, st)
		}
		if st.Value != nil {
			ex.bind(fr, st.Value, el, st.Tok == token.DEFINE, st)
		}
		ctl := ex.block(fr, st.Body.List)
		if exit, out := ex.loopCtl(fr, ctl, lbl); exit {
			return out
		}
	}
	return c12Next
}

// assignedIn: local variables assigned in the loop (body, post statement).
func c12AssignedIn(info *types.Info, nodes ...ast.Node) []types.Object {
	var out []types.Object
	seen := map[types.Object]bool{}
	add := func(e ast.Expr) {
		if id, ok := unparen(e).(*ast.Ident); ok {
			if v, ok := info.ObjectOf(id).(*types.Var); ok && !v.IsField() && !seen[v] {
				seen[v] = true
				out = append(out, v)
			}
		}
	}
	for _, n := range nodes {
		if n == nil {
			continue
		}
		ast.Inspect(n, func(x ast.Node) bool {
			switch t := x.(type) {
			case *ast.AssignStmt:
				if t.Tok != token.DEFINE {
					for _, l := range t.Lhs {
						add(l)
					}
				}
			case *ast.IncDecStmt:
				add(t.X)
			case *ast.FuncLit:
				return false
			}
			return true
		})
	}
	return out
}

// genericFor executes one symbolic iteration of a loop whose condition is unknown: every local the loop
// assigns becomes a fresh symbol, the loop is recorded, the body runs once.
func (ex *c12Exec) genericFor(fr *c12Frame, st *ast.ForStmt, lbl string) c12Ctl {
	ex.nloop++
	var post ast.Node
	if st.Post != nil {
		post = st.Post
	}
	before := map[types.Object]c12Val{}
	for _, o := range c12AssignedIn(fr.info, st.Body, post) {
		if _, local := fr.env[o]; !local {
			continue
		}
		before[o] = fr.env[o]
		fr.env[o] = c12Sym{Hole: -1, Desc: fmt.Sprintf("loop%d:%s", ex.nloop, o.Name())}
	}
	rec := c12Loop{Kind: "for", Cond: canonExpr(fr.info, st.Cond)}
	if b, ok := unparen(st.Cond).(*ast.BinaryExpr); ok {
		l, r := ex.rv(ex.expr(fr, b.X)), ex.rv(ex.expr(fr, b.Y))
		op := b.Op
		if _, isLoopVar := c12LoopSym(r); isLoopVar {
			l, r = r, l
			switch op {
			case token.LSS:
				op = token.GTR
			case token.GTR:
				op = token.LSS
			case token.LEQ:
				op = token.GEQ
			case token.GEQ:
				op = token.LEQ
			}
		}
		if name, isLoopVar := c12LoopSym(l); isLoopVar {
			rec.Sym, rec.Op, rec.Bound = name, op.String(), r
			for o, v := range before {
				if s, ok := fr.env[o].(c12Sym); ok && s.Desc == name {
					rec.Init = v
				}
			}
		}
	}
	ex.path.Loops = append(ex.path.Loops, rec)
	ctl := ex.block(fr, st.Body.List)
	_, out := ex.loopCtl(fr, ctl, lbl)
	if ctl == c12Return || ctl == c12Abort {
		return ctl
	}
	return out
}

func c12LoopSym(v c12Val) (string, bool) {
	s, ok := v.(c12Sym)
	if ok && s.Hole < 0 && s.K == 0 && len(s.Desc) > 4 && s.Desc[:4] == "loop" {
		return s.Desc, true
	}
	return "", false
}

func (ex *c12Exec) genericRange(fr *c12Frame, st *ast.RangeStmt, ref c12Ref, lbl string) c12Ctl {
	ex.nloop++
	key := ref.Path
	for _, ix := range ref.Idx {
		key += "[" + c12Show(ix) + "]"
	}
	name := fmt.Sprintf("loop%d:range", ex.nloop)
	if id, ok := st.Key.(*ast.Ident); ok {
		name = fmt.Sprintf("loop%d:%s", ex.nloop, id.Name)
	}
	sym := c12Sym{Hole: -1, Desc: name}
	for _, o := range c12AssignedIn(fr.info, st.Body) {
		if _, local := fr.env[o]; local {
			fr.env[o] = c12Sym{Hole: -1, Desc: fmt.Sprintf("loop%d:%s", ex.nloop, o.Name())}
		}
	}
	if st.Key != nil {
		ex.bind(fr, st.Key, sym, st.Tok == token.DEFINE, st)
	}
	if st.Value != nil {
		ex.bind(fr, st.Value, c12Ref{Path: ref.Path + "[]", Field: ref.Field, Idx: append(append([]c12Val{}, ref.Idx...), sym)}, st.Tok == token.DEFINE, st)
	}
	ex.path.Loops = append(ex.path.Loops, c12Loop{Sym: name, Kind: "range", Over: key})
	ctl := ex.block(fr, st.Body.List)
	_, out := ex.loopCtl(fr, ctl, lbl)
	if ctl == c12Return || ctl == c12Abort {
		return ctl
	}
	return out
}

func (ex *c12Exec) bind(fr *c12Frame, lhs ast.Expr, v c12Val, define bool, at ast.Node) {
	if id, ok := lhs.(*ast.Ident); ok {
		if id.Name == "_" {
			return
		}
		if define {
			if o := fr.info.Defs[id]; o != nil {
				fr.env[o] = v
				return
			}
		}
	}
	ex.assign(fr, lhs, token.ASSIGN, v, at)
}

func (ex *c12Exec) switchStmt(fr *c12Frame, st *ast.SwitchStmt) c12Ctl {
	if st.Init != nil {
		if ctl := ex.stmt(fr, st.Init); ctl != c12Next {
			return ctl
		}
	}
	lbl := ex.labelOf(fr, st)
	var deflt *ast.CaseClause
	var clauses []*ast.CaseClause
	for _, cl := range st.Body.List {
		cc := cl.(*ast.CaseClause)
		if cc.List == nil {
			deflt = cc
		} else {
			clauses = append(clauses, cc)
		}
	}
	var chosen *ast.CaseClause
	matched := false
	if st.Tag != nil {
		tag := ex.rv(ex.expr(fr, st.Tag))
		unknown := false
		for _, cc := range clauses {
			for _, ce := range cc.List {
				eq, known := c12Eq(tag, ex.rv(ex.expr(fr, ce)))
				if !known {
					unknown = true
				} else if eq {
					chosen, matched = cc, true
				}
				if matched {
					break
				}
			}
			if matched {
				break
			}
		}
		if !matched && unknown {
			// choice point over the clauses (plus "none")
			boolTotal := false
			if b, ok := fr.info.TypeOf(st.Tag).Underlying().(*types.Basic); ok && b.Info()&types.IsBoolean != 0 && len(clauses) == 2 {
				boolTotal = true
			}
			n := len(clauses) + 1
			if boolTotal {
				n = len(clauses)
			}
			k := ex.choose(n)
			c := c12Cond{Expr: canonExpr(fr.info, st.Tag), Node: st.Tag}
			if sel, ok := unparen(st.Tag).(*ast.SelectorExpr); ok {
				if s, ok := fr.info.Selections[sel]; ok {
					c.Field, _ = s.Obj().(*types.Var)
				}
			} else if sv, ok := tag.(c12Sym); ok && sv.From != nil && sv.K == 0 {
				c.Expr, c.Field = sv.Desc, sv.From
			}
			if k < len(clauses) {
				chosen, matched = clauses[k], true
				c.Val = canonExpr(fr.info, chosen.List[0])
			} else {
				c.Val = "<other>"
			}
			ex.path.Conds = append(ex.path.Conds, c)
		}
		if !matched && deflt == nil && !unknown {
			ex.path.NoCase = append(ex.path.NoCase, fmt.Sprintf("%s: switch %s has no case for %s", fr.fn, canonExpr(fr.info, st.Tag), c12Show(tag)))
		}
	} else {
		for _, cc := range clauses {
			for _, ce := range cc.List {
				if ex.truth(fr, ce) {
					chosen, matched = cc, true
					break
				}
			}
			if matched {
				break
			}
		}
	}
	if !matched {
		chosen = deflt
	}
	if chosen == nil {
		return c12Next
	}
	ctl := ex.block(fr, chosen.Body)
	if ctl == c12Break && (fr.label == "" || fr.label == lbl) {
		fr.label = ""
		return c12Next
	}
	return ctl
}

func (ex *c12Exec) typeSwitch(fr *c12Frame, st *ast.TypeSwitchStmt) c12Ctl {
	if st.Init != nil {
		if ctl := ex.stmt(fr, st.Init); ctl != c12Next {
			return ctl
		}
	}
	var operand ast.Expr
	switch a := st.Assign.(type) {
	case *ast.AssignStmt:
		operand = a.Rhs[0].(*ast.TypeAssertExpr).X
	case *ast.ExprStmt:
		operand = a.X.(*ast.TypeAssertExpr).X
	}
	v := ex.rv(ex.expr(fr, operand))
	var dyn types.Type
	switch t := v.(type) {
	case *c12Struct:
		dyn = t.Typ
	case c12Conv:
		dyn = t.Typ
	}
	var chosen, deflt *ast.CaseClause
	var clauses []*ast.CaseClause
	for _, cl := range st.Body.List {
		cc := cl.(*ast.CaseClause)
		if cc.List == nil {
			deflt = cc
			continue
		}
		clauses = append(clauses, cc)
		if dyn != nil && chosen == nil {
			for _, ce := range cc.List {
				if ct := fr.info.TypeOf(ce); ct != nil && types.Identical(ct, dyn) {
					chosen = cc
				}
			}
		}
	}
	if dyn == nil {
		k := ex.choose(len(clauses) + 1)
		c := c12Cond{Expr: "type of " + canonExpr(fr.info, operand), Val: "<other>", Node: operand}
		if k < len(clauses) {
			chosen = clauses[k]
			c.Val = types.ExprString(chosen.List[0])
		}
		ex.path.Conds = append(ex.path.Conds, c)
	}
	if chosen == nil {
		if dyn != nil && deflt == nil {
			ex.path.NoCase = append(ex.path.NoCase, fmt.Sprintf("%s: type switch has no case for %s", fr.fn, typeName(dyn)))
		}
		chosen = deflt
	}
	if chosen == nil {
		return c12Next
	}
	if o := fr.info.Implicits[chosen]; o != nil {
		fr.env[o] = v
	}
	ctl := ex.block(fr, chosen.Body)
	if ctl == c12Break && fr.label == "" {
		return c12Next
	}
	return ctl
}

func (ex *c12Exec) assignStmt(fr *c12Frame, st *ast.AssignStmt) {
	define := st.Tok == token.DEFINE
	if len(st.Lhs) == len(st.Rhs) {
		vals := make([]c12Val, len(st.Rhs))
		for i, r := range st.Rhs {
			if define || (st.Tok == token.ASSIGN && c12IsLocalPtr(fr, st.Lhs[i])) {
				// p := &m.a[i] / p := m.slot() / var p *T; p = &m.a: a local pointer into the receiver state is an alias of that state
				vals[i] = ex.argVal(fr, r)
			} else {
				vals[i] = ex.rv(ex.expr(fr, r))
			}
		}
		for i, l := range st.Lhs {
			if define {
				ex.bind(fr, l, vals[i], true, st)
				continue
			}
			ex.assign(fr, l, st.Tok, vals[i], st)
		}
		return
	}
	if ta, isTA := unparen(st.Rhs[0]).(*ast.TypeAssertExpr); isTA && len(st.Rhs) == 1 && len(st.Lhs) == 2 && ta.Type != nil {
		// v, ok := x.(T)
		x := ex.rv(ex.expr(fr, ta.X))
		var dyn types.Type
		switch t := x.(type) {
		case *c12Struct:
			dyn = t.Typ
		case c12Conv:
			dyn = t.Typ
		}
		want := fr.info.TypeOf(ta.Type)
		var val, okv c12Val = c12Sym{Hole: -1, Desc: canonExpr(fr.info, ta)}, c12Sym{Hole: -1, Desc: "ok:" + canonExpr(fr.info, ta)}
		if dyn != nil && want != nil {
			match := types.Identical(want, dyn)
			if iface, isI := want.Underlying().(*types.Interface); isI && !match {
				match = types.Implements(dyn, iface)
			}
			okv = c12Bool{match}
			if match {
				val = x
			} else {
				val = ex.zero(want)
			}
		}
		ex.bind(fr, st.Lhs[0], val, define, st)
		ex.bind(fr, st.Lhs[1], okv, define, st)
		return
	}
	if ix, isIx := unparen(st.Rhs[0]).(*ast.IndexExpr); isIx && len(st.Rhs) == 1 && len(st.Lhs) == 2 {
		// v, ok := m[k] on a read-only table with known keys
		mv := ex.rv(ex.expr(fr, ix.X))
		if mm, isMut := mv.(*c12MutMap); isMut && !mm.Poisoned {
			mv = mm.frozen()
		}
		if m, isMap := mv.(c12Map); isMap {
			if val, found, known := ex.mapLookup(fr, m, ex.rv(ex.expr(fr, ix.Index)), nil); known {
				ex.bind(fr, st.Lhs[0], val, define, st)
				ex.bind(fr, st.Lhs[1], c12Bool{found}, define, st)
				return
			}
		}
	}
	if len(st.Rhs) == 1 {
		v := ex.rv(ex.expr(fr, st.Rhs[0]))
		t, ok := v.(c12Tuple)
		for i, l := range st.Lhs {
			var x c12Val = c12Sym{Hole: -1, Desc: canonExpr(fr.info, st.Rhs[0])}
			if ok && i < len(t.Vals) {
				x = t.Vals[i]
			}
			ex.bind(fr, l, x, define, st)
		}
		return
	}
	ex.unsupported(fr, st, "assignment shape")
}

// c12IsLocalPtr: e is a plain local variable of pointer type (not a field, not a package-level variable).
func c12IsLocalPtr(fr *c12Frame, e ast.Expr) bool {
	id, ok := unparen(e).(*ast.Ident)
	if !ok || id.Name == "_" {
		return false
	}
	v, ok := fr.info.ObjectOf(id).(*types.Var)
	if !ok || v.IsField() || v.Pkg() == nil || v.Parent() == v.Pkg().Scope() {
		return false
	}
	_, isPtr := v.Type().Underlying().(*types.Pointer)
	return isPtr
}

// assign stores v into lhs (local variable, field of a local struct, or receiver state).
func (ex *c12Exec) assign(fr *c12Frame, lhs ast.Expr, op token.Token, v c12Val, at ast.Node) {
	lhs = unparen(lhs)
	if id, ok := lhs.(*ast.Ident); ok {
		if id.Name == "_" {
			return
		}
		o := fr.info.ObjectOf(id)
		if ex.globals != nil && c12IsPkgLevel(o) {
			if op != token.ASSIGN && op != token.DEFINE {
				v = ex.arith(c12BinOf(op), ex.rv(ex.expr(fr, id)), v)
			}
			ex.globals[o] = c12Thaw(v)
			return
		}
		if op != token.ASSIGN && op != token.DEFINE {
			v = ex.arith(c12BinOf(op), ex.rv(fr.env[o]), v)
		}
		fr.env[o] = v
		return
	}
	target := ex.expr(fr, lhs)
	switch t := target.(type) {
	case c12Ref:
		key := t.Path
		for _, ix := range t.Idx {
			key += "[" + c12Show(ix) + "]"
		}
		newv := v
		if op != token.ASSIGN && op != token.DEFINE {
			newv = ex.arith(c12BinOf(op), ex.rv(t), v)
		}
		ex.store[key] = newv
		ex.path.Effects = append(ex.path.Effects, c12Effect{Path: t.Path, Field: t.Field, Op: op, Val: v, Idx: t.Idx, Node: at, Fn: fr.fn})
		return
	}
	// field of / element of a local value
	switch l := lhs.(type) {
	case *ast.SelectorExpr:
		base := ex.rv(ex.expr(fr, l.X))
		if s, ok := base.(*c12Struct); ok {
			if op != token.ASSIGN {
				// the current value; a field the literal did not mention holds its zero value
				v = ex.arith(c12BinOf(op), ex.rv(ex.fieldOf(fr, s, l)), v)
			}
			ex.setField(fr, s, l, v)
			return
		}
		return // store into an unknown local object: no observable effect
	case *ast.IndexExpr:
		base := ex.rv(ex.expr(fr, l.X))
		idx := ex.rv(ex.expr(fr, l.Index))
		if m, ok := base.(*c12MutMap); ok {
			if op != token.ASSIGN {
				cur, _, known := ex.mapLookup(fr, m.frozen(), idx, nil)
				if !known || m.Poisoned {
					m.Poisoned = true
					return
				}
				v = ex.arith(c12BinOf(op), ex.rv(cur), v)
			}
			m.store(idx, c12Clone(v))
			return
		}
		if s, ok := base.(c12Slice); ok {
			if i, ok := idx.(c12Int); ok && i.V >= 0 && int(i.V) < len(s.Elems) {
				if op != token.ASSIGN && op != token.DEFINE {
					v = ex.arith(c12BinOf(op), ex.rv(s.Elems[i.V]), v)
				}
				s.Elems[i.V] = c12Clone(v)
			} else if ex.globals != nil {
				ex.unsupported(fr, at, "store at an unknown or out-of-range index while a start-up table is built")
			}
		}
		return
	case *ast.StarExpr:
		ex.assign(fr, l.X, op, v, at)
		return
	}
	ex.unsupported(fr, at, "assignment target "+types.ExprString(lhs))
}

// setField writes through embedded structs following the selection path.
func (ex *c12Exec) setField(fr *c12Frame, s *c12Struct, sel *ast.SelectorExpr, v c12Val) {
	selInfo, ok := fr.info.Selections[sel]
	if !ok {
		s.Fields[sel.Sel.Name] = v
		return
	}
	cur := s
	t := selInfo.Recv()
	idx := selInfo.Index()
	for n, i := range idx {
		if p, ok := t.(*types.Pointer); ok {
			t = p.Elem()
		}
		stt, ok := t.Underlying().(*types.Struct)
		if !ok {
			return
		}
		f := stt.Field(i)
		if n == len(idx)-1 {
			cur.Fields[f.Name()] = v
			return
		}
		next, ok := cur.Fields[f.Name()].(*c12Struct)
		if !ok {
			next = &c12Struct{Typ: f.Type(), Fields: map[string]c12Val{}}
			cur.Fields[f.Name()] = next
		}
		cur = next
		t = f.Type()
	}
}

func c12BinOf(op token.Token) token.Token {
	switch op {
	case token.ADD_ASSIGN:
		return token.ADD
	case token.SUB_ASSIGN:
		return token.SUB
	case token.OR_ASSIGN:
		return token.OR
	case token.AND_ASSIGN:
		return token.AND
	case token.AND_NOT_ASSIGN:
		return token.AND_NOT
	case token.MUL_ASSIGN:
		return token.MUL
	case token.SHL_ASSIGN:
		return token.SHL
	case token.SHR_ASSIGN:
		return token.SHR
	case token.XOR_ASSIGN:
		return token.XOR
	case token.QUO_ASSIGN:
		return token.QUO
	case token.REM_ASSIGN:
		return token.REM
	}
	return op
}
