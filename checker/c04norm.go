package main

// c04norm — source normalisation of C04 (run before the rules, after the global pre-normalisation).
//
// The pairing rules (C04.a, C04.g) read the emission table: which template is written where, under which
// dominating guards. Three refactorings keep the written bytes and their conditions but hide them from that
// table; this pass undoes them, so that the rules see the writes where they are executed:
//
//  1. a LOCAL CLOSURE that only names a block of statements (`emit := func(seq string) { _, _ = vx.tw.WriteString(seq) }`)
//     is spliced into its statement-level call sites (c19InlineClosuresIn, the splicer written for C19: same
//     conditions, parameters bound by one short declaration in front of the body);
//  2. a local that is defined by a side-effect-free expression and used exactly once, as an argument of the call
//     in the very next statement (`seq := decset(mode); _, _ = vx.tw.WriteString(seq)`), is replaced by its
//     definition (nothing runs between the two statements, the other operands of that statement are pure too);
//  3. a range loop over a small constant table whose body writes to the terminal
//         for _, m := range []struct{ wanted bool; seq string }{{vx.caps.sixels, decset(sixelScrolling)}, …} {
//             if !m.wanted { continue }
//             _, _ = vx.tw.WriteString(m.seq)
//         }
//     is unrolled: one copy of the body per row, the row's expressions in place of the value variable (and of its
//     fields), `if c { continue }; rest` turned into `if !c { rest }`, conditions that became constant folded.
//     The table is a composite literal in the range clause, a local defined by a literal in the statement just
//     before the loop and used nowhere else, or a package-level table that is never written (Program.ReadOnlyTable).
//     The row expressions must be free of side effects and must read nothing that the loop body (or anything it
//     statically calls) writes, so evaluating them where they are used gives the values the table held.
//     Before that, `for i := 0; i < len(T); i++` over such a table becomes `for i := range T`, and reads `T[i]` in
//     the body become the range value;
//  4. a local bound to a method value of the terminal writer (`w := vx.tw.WriteString` ... `w(seq)`) is replaced by
//     the method expression at its calls (the receiver path is not written anywhere the function reaches).
//
// The rewrite is purely syntactic; the changed files are printed, re-parsed and re-type-checked (c15Recheck).
// If the result does not type-check the program is loaded again and analysed as it is written.
// On a tree without such closures / loops nothing happens.

import (
	"fmt"
	"go/ast"
	"go/token"
	"go/types"
	"os"
	"strconv"

	"golang.org/x/tools/go/ast/astutil"
	"golang.org/x/tools/go/packages"
)

const (
	c04RowMark = "c04row__"
	c04KeyMark = "c04key__"
)

func c04Normalise(c *Ctx) {
	if os.Getenv("VX_NO_NORMALISE") != "" || os.Getenv("VX_NO_C04NORM") != "" {
		return
	}
	shorts := []string{"vaxis"}
	failed := false
	func() {
		defer func() {
			if r := recover(); r != nil {
				failed = true
			}
		}()
		for round := 0; round < 24; round++ {
			pk := c.P.Pkg("vaxis")
			if pk == nil || pk.TypesInfo == nil || pk.Types == nil {
				return
			}
			changed := map[*ast.File]bool{}
			what := ""
			for step := 0; step < 6 && len(changed) == 0; step++ {
				for _, f := range pk.Syntax {
					for _, d := range f.Decls {
						fd, ok := d.(*ast.FuncDecl)
						if !ok || fd.Body == nil {
							continue
						}
						switch step {
						case 0:
							if !c04HasSinkCall(pk, fd.Body, true) && !c04HasHookCall(c, pk, fd.Body) {
								continue
							}
							if n := c19InlineClosuresIn(pk, fd); n != "" {
								changed[f] = true
								what = fmt.Sprintf("local closure %s spliced into %s", n, funcDeclName(fd))
							}
						case 1:
							if n := c04PropagateAdjacent(c, pk, fd); n != "" {
								changed[f] = true
								what = fmt.Sprintf("single-use local %s of %s replaced by its definition", n, funcDeclName(fd))
							}
						case 2:
							if n := c04InlineMethodValue(c, pk, fd); n != "" {
								changed[f] = true
								what = fmt.Sprintf("method value %s of %s replaced by the method expression it was bound to", n, funcDeclName(fd))
							}
						case 3:
							if n := c04IndexLoopToRange(c, pk, fd); n != "" {
								changed[f] = true
								what = fmt.Sprintf("counted loop over the table %s in %s written as a range loop", n, funcDeclName(fd))
							}
						case 4:
							if n := c04IndexUsesToValue(c, pk, fd); n != "" {
								changed[f] = true
								what = fmt.Sprintf("indexed reads of the table %s in %s written as the range value", n, funcDeclName(fd))
							}
						case 5:
							if n := c04UnrollTableLoops(c, pk, fd); n != "" {
								changed[f] = true
								what = fmt.Sprintf("table loop over %s unrolled in %s", n, funcDeclName(fd))
							}
						}
					}
				}
			}
			if len(changed) == 0 {
				return
			}
			if err := c15Recheck(c, shorts, map[*packages.Package]map[*ast.File]bool{pk: changed}); err != nil {
				c.info("C04 normalisation abandoned (%s: %v)", what, err)
				failed = true
				return
			}
			c.info("normalised: %s", what)
			installAccessorResolver(c.P)
		}
	}()
	if failed {
		// the syntax trees may be half rewritten: load again, redo the global pre-pass, analyse the text as written
		if p, err := Load(c.P.Repo, c.P.GOOS, loadNeedSSA); err == nil {
			c.P = p
			installAccessorResolver(p)
			globalNormalise(c)
		} else {
			c.undecided("LOAD", "normalise", 0, "C04 normalisation failed and the program could not be reloaded: %v", err)
		}
	}
}

// c04HasHookCall: n contains (also inside function literals) a call of os/signal.Notify / Stop, or a static call
// of a function of the package that reaches one (C04.k follows those calls; a local closure that only names
// such statements is spliced into its call sites like one that writes to the terminal).
var c04HookReachCache = map[*types.Info]map[*types.Func]bool{}

func c04HookReach(c *Ctx, pk *packages.Package) map[*types.Func]bool {
	if m, ok := c04HookReachCache[pk.TypesInfo]; ok {
		return m
	}
	info := pk.TypesInfo
	reach := map[*types.Func]bool{}
	calls := map[*types.Func][]*types.Func{}
	for _, f := range pk.Syntax {
		for _, d := range f.Decls {
			fd, ok := d.(*ast.FuncDecl)
			if !ok || fd.Body == nil {
				continue
			}
			self, _ := info.Defs[fd.Name].(*types.Func)
			if self == nil {
				continue
			}
			ast.Inspect(fd.Body, func(m ast.Node) bool {
				if call, ok := m.(*ast.CallExpr); ok {
					if fn := calleeOf(info, call); fn != nil {
						switch fullName(fn) {
						case "os/signal.Notify", "os/signal.Stop":
							reach[self] = true
						default:
							if fn.Pkg() == pk.Types {
								calls[self] = append(calls[self], fn)
							}
						}
					}
				}
				return true
			})
		}
	}
	for changed := true; changed; {
		changed = false
		for f, cs := range calls {
			if reach[f] {
				continue
			}
			for _, g := range cs {
				if reach[g] {
					reach[f] = true
					changed = true
					break
				}
			}
		}
	}
	c04HookReachCache = map[*types.Info]map[*types.Func]bool{info: reach}
	return reach
}

func c04HasHookCall(c *Ctx, pk *packages.Package, n ast.Node) bool {
	reach := c04HookReach(c, pk)
	found := false
	ast.Inspect(n, func(m ast.Node) bool {
		if found {
			return false
		}
		if call, ok := m.(*ast.CallExpr); ok {
			if fn := calleeOf(pk.TypesInfo, call); fn != nil {
				switch fullName(fn) {
				case "os/signal.Notify", "os/signal.Stop":
					found = true
				default:
					if reach[fn] {
						found = true
					}
				}
			}
		}
		return !found
	})
	return found
}

// c04HasSinkCall: n contains a write to the host terminal (withLits: also inside function literals).
func c04HasSinkCall(pk *packages.Package, n ast.Node, withLits bool) bool {
	found := false
	ast.Inspect(n, func(m ast.Node) bool {
		if found {
			return false
		}
		if _, ok := m.(*ast.FuncLit); ok && !withLits {
			return false
		}
		if call, ok := m.(*ast.CallExpr); ok {
			if fn := calleeOf(pk.TypesInfo, call); fn != nil {
				if _, _, _, ok := vaxisTerminalSink(pk, call, fn); ok {
					found = true
				}
			}
		}
		return !found
	})
	return found
}

// ---------------------------------------------------------------------------
// purity

// c04Pure: evaluating e has no side effect (constants, variables, field selections, operators, conversions,
// len/cap, fmt.Sprintf/strconv/strings on basic-typed operands, repository functions of the form `return <pure>`).
func c04Pure(p *Program, info *types.Info, e ast.Expr, depth int) bool {
	pure := true
	ast.Inspect(e, func(n ast.Node) bool {
		if !pure {
			return false
		}
		switch t := n.(type) {
		case *ast.CompositeLit:
			// a literal list (`[]os.Signal{syscall.SIGWINCH}`) has no effect but the allocation; its elements are
			// visited. Other literals (structs, maps, pointers to them) are kept out: they carry identity.
			switch tt := info.TypeOf(t); u := tt.(type) {
			case nil:
				pure = false
			default:
				switch u.Underlying().(type) {
				case *types.Slice, *types.Array:
					for _, el := range t.Elts {
						if _, kv := el.(*ast.KeyValueExpr); kv {
							pure = false
						}
					}
				default:
					pure = false
				}
			}
		case *ast.FuncLit, *ast.TypeAssertExpr, *ast.SliceExpr, *ast.IndexExpr, *ast.StarExpr:
			// (index/slice/deref can panic: keep to what templates are made of)
			pure = false
		case *ast.UnaryExpr:
			if t.Op == token.ARROW || t.Op == token.AND {
				pure = false
			}
		case *ast.BinaryExpr:
			if t.Op == token.QUO || t.Op == token.REM || t.Op == token.SHL || t.Op == token.SHR {
				pure = false // may panic
			}
		case *ast.CallExpr:
			if tv, ok := info.Types[t.Fun]; ok && tv.IsType() {
				return true
			}
			if id, ok := unparen(t.Fun).(*ast.Ident); ok {
				if b, ok := info.Uses[id].(*types.Builtin); ok {
					if b.Name() != "len" && b.Name() != "cap" {
						pure = false
					}
					return pure
				}
			}
			fn := calleeOf(info, t)
			if fn == nil || fn.Pkg() == nil {
				pure = false
				return false
			}
			switch fn.Pkg().Path() {
			case "fmt":
				if fn.Name() != "Sprintf" && fn.Name() != "Sprint" {
					pure = false
					return false
				}
				// operands of basic type only (no String()/Format() methods run)
				for _, a := range t.Args {
					if at := info.TypeOf(a); at == nil {
						pure = false
					} else if _, basic := at.Underlying().(*types.Basic); !basic {
						pure = false
					} else if nt, named := at.(*types.Named); named && nt.NumMethods() > 0 {
						pure = false
					}
				}
				return pure
			case "strconv", "strings", "unicode/utf8", "encoding/hex":
				if sig, ok := fn.Type().(*types.Signature); !ok || sig.Recv() != nil {
					pure = false
				}
				return pure
			}
			fi := p.FuncOfObj(fn)
			if fi == nil || fi.Decl.Body == nil || depth >= 4 || len(fi.Decl.Body.List) != 1 {
				pure = false
				return false
			}
			rs, ok := fi.Decl.Body.List[0].(*ast.ReturnStmt)
			if !ok || len(rs.Results) != 1 {
				pure = false
				return false
			}
			if t.Ellipsis.IsValid() {
				pure = false
				return false
			}
			// the callee's own fmt.Sprintf(s, args...) forwards the caller's operands: they are checked here
			if !c04PureBody(p, fi, rs.Results[0], depth+1) {
				pure = false
				return false
			}
			for _, a := range t.Args {
				if at := info.TypeOf(a); at != nil {
					if _, basic := at.Underlying().(*types.Basic); !basic {
						pure = false
					} else if nt, named := at.(*types.Named); named && nt.NumMethods() > 0 {
						pure = false
					}
				}
			}
			return pure
		}
		return pure
	})
	return pure
}

// c04PureBody: the result expression of a one-line repository function; `fmt.Sprintf(s, args...)` forwarding the
// function's own variadic parameter is accepted (the caller's operands are checked at the call).
func c04PureBody(p *Program, fi *FuncInfo, res ast.Expr, depth int) bool {
	info := fi.Pkg.TypesInfo
	if call, ok := unparen(res).(*ast.CallExpr); ok && call.Ellipsis.IsValid() {
		fn := calleeOf(info, call)
		if fn != nil && fullName(fn) == "fmt.Sprintf" && len(call.Args) == 2 {
			if id, ok := unparen(call.Args[1]).(*ast.Ident); ok {
				if v, ok := info.Uses[id].(*types.Var); ok && !v.IsField() && v.Parent() != nil && v.Parent() != v.Pkg().Scope() {
					return c04Pure(p, info, call.Args[0], depth)
				}
			}
		}
		return false
	}
	return c04Pure(p, info, res, depth)
}

// ---------------------------------------------------------------------------
// step 2: x := E ; [_ = x ;] S(x)

func c04PropagateAdjacent(c *Ctx, pk *packages.Package, fd *ast.FuncDecl) string {
	info := pk.TypesInfo
	// how often each local is mentioned in the function
	uses := map[types.Object]int{}
	inLit := map[types.Object]bool{}
	var litDepth int
	var count func(n ast.Node) bool
	count = func(n ast.Node) bool {
		switch t := n.(type) {
		case *ast.FuncLit:
			litDepth++
			ast.Inspect(t.Body, count)
			litDepth--
			return false
		case *ast.Ident:
			if o := info.Uses[t]; o != nil {
				uses[o]++
				if litDepth > 0 {
					inLit[o] = true
				}
			}
		}
		return true
	}
	ast.Inspect(fd.Body, count)
	done := ""
	var lists []*[]ast.Stmt
	ast.Inspect(fd.Body, func(n ast.Node) bool {
		if l := c19StmtList(n); l != nil {
			lists = append(lists, l)
		}
		return true
	})
	for _, lp := range lists {
		list := *lp
		for i := 0; i+1 < len(list) && done == ""; i++ {
			as, ok := list[i].(*ast.AssignStmt)
			if !ok || as.Tok != token.DEFINE || len(as.Lhs) != 1 || len(as.Rhs) != 1 {
				continue
			}
			id, ok := as.Lhs[0].(*ast.Ident)
			if !ok || id.Name == "_" {
				continue
			}
			obj := info.Defs[id]
			if obj == nil || !c04HasSinkCall(pk, list[i+1], false) && (i+2 >= len(list) || !c04HasSinkCall(pk, list[i+2], false)) {
				continue
			}
			if !c04Pure(c.P, info, as.Rhs[0], 0) {
				continue
			}
			// a constant initialiser takes its type from the declaration only when that is the default type
			if tv := info.Types[as.Rhs[0]]; tv.Value != nil && !types.Identical(obj.Type(), types.Default(tv.Type)) {
				continue
			}
			j := i + 1
			var keep ast.Stmt
			wantUses := 1
			if b, ok := list[j].(*ast.AssignStmt); ok && b.Tok == token.ASSIGN && len(b.Lhs) == 1 && len(b.Rhs) == 1 {
				if l, ok := b.Lhs[0].(*ast.Ident); ok && l.Name == "_" {
					if r, ok := unparen(b.Rhs[0]).(*ast.Ident); ok && info.Uses[r] == obj {
						keep = b
						wantUses = 2
						j++
					}
				}
			}
			if j >= len(list) || uses[obj] != wantUses || inLit[obj] {
				continue
			}
			// S: [lhs =] F(args...) with x one of the args, everything else in S pure
			var call *ast.CallExpr
			switch s := list[j].(type) {
			case *ast.ExprStmt:
				call, _ = s.X.(*ast.CallExpr)
			case *ast.AssignStmt:
				if len(s.Rhs) == 1 && (s.Tok == token.ASSIGN || s.Tok == token.DEFINE) {
					call, _ = s.Rhs[0].(*ast.CallExpr)
					for _, l := range s.Lhs {
						if li, ok := l.(*ast.Ident); !ok || (s.Tok == token.ASSIGN && li.Name != "_") {
							call = nil
						}
					}
				}
			}
			if call == nil || call.Ellipsis.IsValid() {
				continue
			}
			if sel, ok := call.Fun.(*ast.SelectorExpr); ok {
				if !c04Pure(c.P, info, sel.X, 0) {
					continue
				}
			} else if _, ok := call.Fun.(*ast.Ident); !ok {
				continue
			}
			at := -1
			okArgs := true
			for k, a := range call.Args {
				if aid, ok := unparen(a).(*ast.Ident); ok && info.Uses[aid] == obj {
					at = k
					continue
				}
				if !c04Pure(c.P, info, a, 0) {
					okArgs = false
				}
			}
			if at < 0 || !okArgs {
				continue
			}
			call.Args[at] = &ast.ParenExpr{X: c15Copy(as.Rhs[0], nil).(ast.Expr)}
			var out []ast.Stmt
			for _, s := range list {
				if s != ast.Stmt(as) && s != keep {
					out = append(out, s)
				}
			}
			*lp = out
			done = id.Name
		}
		if done != "" {
			break
		}
	}
	return done
}

// ---------------------------------------------------------------------------
// step 3: unrolling of range loops over constant tables

// c04WriteSets: canonical field paths assigned (or address-taken) per function, and the closure over static calls.
type c04WriteSets struct {
	p    *Program
	own  map[string]map[string]bool
	memo map[string]map[string]bool
}

func (w *c04WriteSets) of(fi *FuncInfo) map[string]bool {
	if m, ok := w.memo[fi.Name]; ok {
		return m
	}
	out := map[string]bool{}
	w.memo[fi.Name] = out
	for fn := range staticReach(w.p, fi) {
		f := w.p.Func(fn)
		if f == nil || f.Decl.Body == nil {
			continue
		}
		for k := range c04WrittenPaths(f.Pkg.TypesInfo, f.Decl.Body) {
			out[k] = true
		}
	}
	return out
}

// c04WrittenPaths: canonical paths (fields, package-level variables as "var:<name>") that n assigns, increments or
// takes the address of.
func c04WrittenPaths(info *types.Info, n ast.Node) map[string]bool {
	out := map[string]bool{}
	ast.Inspect(n, func(m ast.Node) bool {
		for _, p := range c04NodeWrites(info, m) {
			out[p] = true
		}
		return true
	})
	return out
}

// c04TargetPath: the canonical path of an assignment target ("" for locals and things that are not paths).
func c04TargetPath(info *types.Info, e ast.Expr) string {
	e = unparen(e)
	if id, ok := e.(*ast.Ident); ok {
		if v, ok := info.ObjectOf(id).(*types.Var); ok && v.Pkg() != nil && v.Parent() == v.Pkg().Scope() {
			return "var:" + v.Name()
		}
		return ""
	}
	return lhsPath(info, e)
}

// c04NodeWrites: the paths that node m itself (not the statements nested in it) assigns, increments or takes the
// address of.
func c04NodeWrites(info *types.Info, m ast.Node) []string {
	var out []string
	note := func(e ast.Expr) {
		if p := c04TargetPath(info, e); p != "" {
			out = append(out, p)
		}
	}
	switch t := m.(type) {
	case *ast.AssignStmt:
		for _, l := range t.Lhs {
			note(l)
		}
	case *ast.IncDecStmt:
		note(t.X)
	case *ast.UnaryExpr:
		if t.Op == token.AND {
			note(t.X)
		}
	case *ast.RangeStmt:
		if t.Tok == token.ASSIGN {
			if t.Key != nil {
				note(t.Key)
			}
			if t.Value != nil {
				note(t.Value)
			}
		}
	}
	return out
}

type c04Row struct {
	whole  ast.Expr            // the row expression (nil when the literal elides its type: `{a, b}`)
	fields map[string]ast.Expr // struct rows: field name -> value expression
}

func c04UnrollTableLoops(c *Ctx, pk *packages.Package, fd *ast.FuncDecl) string {
	info := pk.TypesInfo
	parents := map[ast.Node]ast.Node{}
	var stack []ast.Node
	var loops []*ast.RangeStmt
	ast.Inspect(fd.Body, func(n ast.Node) bool {
		if n == nil {
			stack = stack[:len(stack)-1]
			return true
		}
		if len(stack) > 0 {
			parents[n] = stack[len(stack)-1]
		}
		stack = append(stack, n)
		if rs, ok := n.(*ast.RangeStmt); ok {
			loops = append(loops, rs)
		}
		return true
	})
	ws := &c04WriteSets{p: c.P, memo: map[string]map[string]bool{}}
	// innermost first: a loop nested in another one is unrolled before its parent is looked at (next round)
	for i := len(loops) - 1; i >= 0; i-- {
		rs := loops[i]
		lp := c19StmtList(parents[rs])
		if lp == nil {
			continue // labelled, or not in a statement list
		}
		if name := c04UnrollOne(c, pk, info, fd, rs, lp, ws); name != "" {
			return name
		}
	}
	return ""
}

func c04UnrollOne(c *Ctx, pk *packages.Package, info *types.Info, fd *ast.FuncDecl, rs *ast.RangeStmt, lp *[]ast.Stmt, ws *c04WriteSets) string {
	if rs.Tok != token.DEFINE && (rs.Key != nil || rs.Value != nil) {
		return ""
	}
	if !c04HasSinkCall(pk, rs.Body, false) && !c04HasHookCall(c, pk, rs.Body) {
		return ""
	}
	var keyObj, valObj types.Object
	if rs.Key != nil {
		id, ok := rs.Key.(*ast.Ident)
		if !ok {
			return ""
		}
		if id.Name != "_" {
			keyObj = info.Defs[id]
		}
	}
	if rs.Value != nil {
		id, ok := rs.Value.(*ast.Ident)
		if !ok {
			return ""
		}
		if id.Name != "_" {
			valObj = info.Defs[id]
		}
	}
	// the table
	var lit *ast.CompositeLit
	var dropDef ast.Stmt
	pkgLevel := false
	name := ""
	switch t := unparen(rs.X).(type) {
	case *ast.CompositeLit:
		lit, name = t, "a literal table"
	case *ast.Ident:
		v, ok := info.ObjectOf(t).(*types.Var)
		if !ok || v.Pkg() == nil {
			return ""
		}
		name = t.Name
		if v.Parent() == v.Pkg().Scope() {
			lit = c.P.ReadOnlyTable(v)
			pkgLevel = true
			break
		}
		// a local defined by a literal in the statement just before the loop, used nowhere else
		list := *lp
		for k, s := range list {
			if s != ast.Stmt(rs) || k == 0 {
				continue
			}
			switch d := list[k-1].(type) {
			case *ast.AssignStmt:
				if d.Tok == token.DEFINE && len(d.Lhs) == 1 && len(d.Rhs) == 1 {
					if id, ok := d.Lhs[0].(*ast.Ident); ok && info.Defs[id] == types.Object(v) {
						lit, _ = d.Rhs[0].(*ast.CompositeLit)
						dropDef = d
					}
				}
			case *ast.DeclStmt:
				if gd, ok := d.Decl.(*ast.GenDecl); ok && gd.Tok == token.VAR && len(gd.Specs) == 1 {
					if vs, ok := gd.Specs[0].(*ast.ValueSpec); ok && len(vs.Names) == 1 && len(vs.Values) == 1 && vs.Type == nil && info.Defs[vs.Names[0]] == types.Object(v) {
						lit, _ = vs.Values[0].(*ast.CompositeLit)
						dropDef = d
					}
				}
			}
		}
		if lit == nil {
			return ""
		}
		n := 0
		ast.Inspect(fd.Body, func(m ast.Node) bool {
			if id, ok := m.(*ast.Ident); ok && info.Uses[id] == types.Object(v) {
				n++
			}
			return true
		})
		if n != 1 {
			return ""
		}
	default:
		return ""
	}
	if lit == nil || len(lit.Elts) == 0 || len(lit.Elts) > 40 {
		return ""
	}
	var elem types.Type
	switch tt := info.TypeOf(lit).Underlying().(type) {
	case *types.Slice:
		elem = tt.Elem()
	case *types.Array:
		if int(tt.Len()) != len(lit.Elts) {
			return ""
		}
		elem = tt.Elem()
	default:
		return ""
	}
	if c15CountNodes(rs.Body)*len(lit.Elts) > 6000 {
		return ""
	}
	litInfo := info
	if pkgLevel {
		// (the literal belongs to the same package: vaxis)
		litInfo = pk.TypesInfo
	}
	// rows
	st, isStruct := elem.Underlying().(*types.Struct)
	var rows []c04Row
	var rowExprs []ast.Expr
	for _, el := range lit.Elts {
		if _, keyed := el.(*ast.KeyValueExpr); keyed {
			return ""
		}
		r := c04Row{}
		cl, isCL := el.(*ast.CompositeLit)
		if isStruct && isCL {
			r.fields = map[string]ast.Expr{}
			for k, fe := range cl.Elts {
				if kv, ok := fe.(*ast.KeyValueExpr); ok {
					kid, ok := kv.Key.(*ast.Ident)
					if !ok {
						return ""
					}
					r.fields[kid.Name] = kv.Value
					rowExprs = append(rowExprs, kv.Value)
				} else {
					if k >= st.NumFields() {
						return ""
					}
					r.fields[st.Field(k).Name()] = fe
					rowExprs = append(rowExprs, fe)
				}
			}
			if cl.Type != nil {
				r.whole = el
			}
		} else {
			if isCL {
				return ""
			}
			r.whole = el
			rowExprs = append(rowExprs, el)
		}
		rows = append(rows, r)
	}
	// row expressions: pure; package-level tables read no variable at all
	reads := map[string]bool{}
	readLocals := map[types.Object]bool{}
	for _, e := range rowExprs {
		if !c04Pure(c.P, litInfo, e, 0) {
			return ""
		}
		okRow := true
		ast.Inspect(e, func(n ast.Node) bool {
			switch t := n.(type) {
			case *ast.SelectorExpr:
				if _, isField := litInfo.Selections[t]; isField {
					reads[canonPath(litInfo, t)] = true
				}
			case *ast.Ident:
				v, ok := litInfo.Uses[t].(*types.Var)
				if !ok || v.IsField() {
					return true
				}
				if pkgLevel {
					okRow = false
				} else if v.Pkg() != nil && v.Parent() == v.Pkg().Scope() {
					reads["var:"+v.Name()] = true
				} else {
					readLocals[v] = true
				}
			}
			return true
		})
		if !okRow {
			return ""
		}
	}
	// the body: what it may write, directly or through static calls
	written := c04WrittenPaths(info, rs.Body)
	dynamic := false
	ast.Inspect(rs.Body, func(n ast.Node) bool {
		if call, ok := n.(*ast.CallExpr); ok {
			if fn := calleeOf(info, call); fn != nil {
				if fi := c.P.FuncOfObj(fn); fi != nil {
					for k := range ws.of(fi) {
						written[k] = true
					}
				}
			} else if tv, ok := info.Types[call.Fun]; !(ok && tv.IsType()) {
				if id, ok := unparen(call.Fun).(*ast.Ident); !ok || info.Uses[id] == nil || info.Uses[id].Parent() != types.Universe {
					dynamic = true // call of a function value
				}
			}
		}
		return true
	})
	if dynamic && len(reads) > 0 {
		return ""
	}
	for r := range reads {
		for w := range written {
			if r == w || len(r) > len(w) && r[:len(w)] == w && (r[len(w)] == '.' || r[len(w)] == '[') || len(w) > len(r) && w[:len(r)] == r && (w[len(r)] == '.' || w[len(r)] == '[') {
				return ""
			}
		}
	}
	// locals: the value/key variables and the locals the rows read are not written in the body, the value variable
	// is not captured; names the rows use mean the same thing inside the body
	bad := false
	bodyDefs := map[string]bool{}
	litDepth := 0
	var scan func(n ast.Node) bool
	scan = func(n ast.Node) bool {
		switch t := n.(type) {
		case *ast.FuncLit:
			litDepth++
			ast.Inspect(t.Body, scan)
			litDepth--
			return false
		case *ast.LabeledStmt, *ast.DeferStmt:
			bad = true
		case *ast.BranchStmt:
			if t.Label != nil || t.Tok == token.GOTO {
				bad = true
			}
		case *ast.Ident:
			if o := info.Defs[t]; o != nil {
				bodyDefs[t.Name] = true
			}
			if o := info.Uses[t]; o != nil && (o == valObj || o == keyObj) && litDepth > 0 {
				bad = true
			}
		case *ast.AssignStmt:
			for _, l := range t.Lhs {
				if id, ok := unparen(l).(*ast.Ident); ok {
					if o := info.ObjectOf(id); o != nil && (o == valObj || o == keyObj || readLocals[o]) && info.Defs[id] == nil {
						bad = true
					}
				}
			}
		case *ast.IncDecStmt:
			if id, ok := unparen(t.X).(*ast.Ident); ok {
				if o := info.ObjectOf(id); o != nil && (o == valObj || o == keyObj || readLocals[o]) {
					bad = true
				}
			}
		case *ast.UnaryExpr:
			if t.Op == token.AND {
				if o := rootObj(info, t.X); o != nil && (o == valObj || o == keyObj || readLocals[o]) {
					bad = true
				}
			}
		}
		return !bad
	}
	ast.Inspect(rs.Body, scan)
	if bad {
		return ""
	}
	for o := range readLocals {
		if c04CapturedAndWritten(info, fd, o) {
			return ""
		}
	}
	inner := pk.Types.Scope().Innermost(rs.Body.Lbrace + 1)
	for _, e := range rowExprs {
		okNames := true
		selNames := map[*ast.Ident]bool{}
		ast.Inspect(e, func(n ast.Node) bool {
			if sel, ok := n.(*ast.SelectorExpr); ok {
				selNames[sel.Sel] = true
			}
			return true
		})
		ast.Inspect(e, func(n ast.Node) bool {
			id, ok := n.(*ast.Ident)
			if !ok || selNames[id] {
				return true
			}
			o := litInfo.Uses[id]
			if o == nil || o.Parent() == types.Universe {
				return true
			}
			if bodyDefs[id.Name] {
				okNames = false
			}
			if inner != nil {
				if _, found := inner.LookupParent(id.Name, rs.Body.Lbrace+1); found != o {
					okNames = false
				}
			}
			return okNames
		})
		if !okNames {
			return ""
		}
	}
	// uses of the value variable: v.f with f given by every row, or v itself where every row has a printable form
	needWhole := false
	okUses := true
	bodyParents := map[ast.Node]ast.Node{}
	var stk []ast.Node
	ast.Inspect(rs.Body, func(n ast.Node) bool {
		if n == nil {
			stk = stk[:len(stk)-1]
			return true
		}
		if len(stk) > 0 {
			bodyParents[n] = stk[len(stk)-1]
		}
		stk = append(stk, n)
		return true
	})
	ast.Inspect(rs.Body, func(n ast.Node) bool {
		id, ok := n.(*ast.Ident)
		if !ok || valObj == nil || info.Uses[id] != valObj {
			return true
		}
		if sel, ok := bodyParents[id].(*ast.SelectorExpr); ok && sel.X == ast.Expr(id) && isStruct {
			if _, isField := info.Selections[sel]; isField && info.Selections[sel].Kind() == types.FieldVal && len(info.Selections[sel].Index()) == 1 {
				for _, r := range rows {
					if r.fields == nil || r.fields[sel.Sel.Name] == nil {
						okUses = false
					}
				}
				// v.f must be read, not written
				switch gp := bodyParents[sel].(type) {
				case *ast.AssignStmt:
					for _, l := range gp.Lhs {
						if l == ast.Expr(sel) {
							okUses = false
						}
					}
				case *ast.IncDecStmt:
					okUses = false
				case *ast.UnaryExpr:
					if gp.Op == token.AND {
						okUses = false
					}
				}
				return true
			}
		}
		needWhole = true
		return true
	})
	if !okUses {
		return ""
	}
	if needWhole {
		for _, r := range rows {
			if r.whole == nil {
				return ""
			}
		}
	}
	// conversions that keep the static type of a substituted constant
	wrap := func(e ast.Expr, want types.Type) (ast.Expr, bool) {
		cp := c15Copy(e, nil).(ast.Expr)
		tv := litInfo.Types[e]
		if tv.Type == nil {
			return nil, false
		}
		if tv.Value == nil {
			if !types.Identical(types.Default(tv.Type), want) {
				return nil, false
			}
			return &ast.ParenExpr{X: cp}, true
		}
		if types.Identical(types.Default(tv.Type), want) {
			return &ast.ParenExpr{X: cp}, true
		}
		switch wt := want.(type) {
		case *types.Basic:
			return &ast.CallExpr{Fun: ast.NewIdent(wt.Name()), Args: []ast.Expr{cp}}, true
		case *types.Named:
			if wt.Obj().Pkg() == pk.Types && wt.TypeArgs() == nil {
				return &ast.CallExpr{Fun: ast.NewIdent(wt.Obj().Name()), Args: []ast.Expr{cp}}, true
			}
		}
		return nil, false
	}
	// continue / break that refer to this loop
	if !c04LoopJumpsOK(rs.Body) {
		return ""
	}
	var out []ast.Stmt
	for i, r := range rows {
		body := c15Copy(rs.Body, func(id *ast.Ident) ast.Node {
			switch o := info.Uses[id]; {
			case o != nil && o == valObj:
				return ast.NewIdent(c04RowMark)
			case o != nil && o == keyObj:
				return ast.NewIdent(c04KeyMark)
			}
			return nil
		}).(*ast.BlockStmt)
		failed := false
		res := astutil.Apply(body, func(cur *astutil.Cursor) bool {
			switch t := cur.Node().(type) {
			case *ast.SelectorExpr:
				if id, ok := t.X.(*ast.Ident); ok && id.Name == c04RowMark && r.fields != nil && r.fields[t.Sel.Name] != nil {
					var ft types.Type
					for k := 0; k < st.NumFields(); k++ {
						if st.Field(k).Name() == t.Sel.Name {
							ft = st.Field(k).Type()
						}
					}
					e, ok := wrap(r.fields[t.Sel.Name], ft)
					if !ok {
						failed = true
						return false
					}
					cur.Replace(e)
					return false
				}
			case *ast.Ident:
				switch t.Name {
				case c04RowMark:
					if r.whole == nil {
						failed = true
						return false
					}
					e, ok := wrap(r.whole, elem)
					if !ok {
						failed = true
						return false
					}
					cur.Replace(e)
				case c04KeyMark:
					cur.Replace(&ast.BasicLit{Kind: token.INT, Value: strconv.Itoa(i)})
				}
			}
			return true
		}, nil)
		if failed {
			return ""
		}
		body = res.(*ast.BlockStmt)
		body.List = c04GuardContinues(body.List)
		body = c04FoldConstIfs(body).(*ast.BlockStmt)
		out = append(out, body)
	}
	var list []ast.Stmt
	for _, s := range *lp {
		switch {
		case s == dropDef && dropDef != nil:
		case s == ast.Stmt(rs):
			list = append(list, out...)
		default:
			list = append(list, s)
		}
	}
	*lp = list
	return name
}

// c04CapturedAndWritten: o is assigned inside a function literal of fd (then a call in a loop body could change it).
func c04CapturedAndWritten(info *types.Info, fd *ast.FuncDecl, o types.Object) bool {
	found := false
	ast.Inspect(fd.Body, func(n ast.Node) bool {
		fl, ok := n.(*ast.FuncLit)
		if !ok {
			return true
		}
		ast.Inspect(fl.Body, func(m ast.Node) bool {
			switch t := m.(type) {
			case *ast.AssignStmt:
				for _, l := range t.Lhs {
					if id, ok := unparen(l).(*ast.Ident); ok && info.ObjectOf(id) == o {
						found = true
					}
				}
			case *ast.IncDecStmt:
				if id, ok := unparen(t.X).(*ast.Ident); ok && info.ObjectOf(id) == o {
					found = true
				}
			case *ast.UnaryExpr:
				if t.Op == token.AND && rootObj(info, t.X) == o {
					found = true
				}
			}
			return true
		})
		return false
	})
	return found
}

// c04LoopJumpsOK: no unlabelled break refers to the loop whose body this is, and every unlabelled continue that
// does is the whole body of a top-level `if cond { continue }` (no else, no init statement).
func c04LoopJumpsOK(body *ast.BlockStmt) bool {
	allowed := map[*ast.BranchStmt]bool{}
	for _, s := range body.List {
		if is, ok := s.(*ast.IfStmt); ok && is.Init == nil && is.Else == nil && len(is.Body.List) == 1 {
			if br, ok := is.Body.List[0].(*ast.BranchStmt); ok && br.Tok == token.CONTINUE && br.Label == nil {
				allowed[br] = true
			}
		}
	}
	ok := true
	var walk func(n ast.Node, breakable, loop bool)
	walk = func(n ast.Node, breakable, loop bool) {
		ast.Inspect(n, func(m ast.Node) bool {
			if m == nil || m == n {
				return true
			}
			switch t := m.(type) {
			case *ast.FuncLit:
				return false
			case *ast.ForStmt:
				walk(t, true, true)
				return false
			case *ast.RangeStmt:
				walk(t, true, true)
				return false
			case *ast.SwitchStmt:
				walk(t, true, loop)
				return false
			case *ast.TypeSwitchStmt:
				walk(t, true, loop)
				return false
			case *ast.SelectStmt:
				walk(t, true, loop)
				return false
			case *ast.BranchStmt:
				if t.Label != nil {
					ok = false
				}
				if t.Tok == token.BREAK && !breakable {
					ok = false
				}
				if t.Tok == token.CONTINUE && !loop && !allowed[t] {
					ok = false
				}
			}
			return ok
		})
	}
	walk(body, false, false)
	return ok
}

// c04GuardContinues:  A; if c { continue }; B   ==>   A; if !c { B }   (statement list of one unrolled iteration)
func c04GuardContinues(list []ast.Stmt) []ast.Stmt {
	for i, s := range list {
		is, ok := s.(*ast.IfStmt)
		if !ok || is.Init != nil || is.Else != nil || len(is.Body.List) != 1 {
			continue
		}
		br, ok := is.Body.List[0].(*ast.BranchStmt)
		if !ok || br.Tok != token.CONTINUE || br.Label != nil {
			continue
		}
		rest := c04GuardContinues(list[i+1:])
		out := append([]ast.Stmt{}, list[:i]...)
		return append(out, &ast.IfStmt{Cond: c04Negate(is.Cond), Body: &ast.BlockStmt{List: rest}})
	}
	return list
}

func c04Negate(e ast.Expr) ast.Expr {
	if u, ok := unparen(e).(*ast.UnaryExpr); ok && u.Op == token.NOT {
		return u.X
	}
	return &ast.UnaryExpr{Op: token.NOT, X: &ast.ParenExpr{X: e}}
}

// c04ConstBool: e is built from the literals true/false with !, &&, || and parentheses only (folded value), or
// simplifies by a literal operand (true && x == x): returns the simplified expression.
func c04SimplifyBool(e ast.Expr) (simp ast.Expr, val, isConst bool) {
	switch t := e.(type) {
	case *ast.ParenExpr:
		s, v, k := c04SimplifyBool(t.X)
		if k {
			return s, v, true
		}
		return &ast.ParenExpr{X: s}, false, false
	case *ast.Ident:
		if t.Name == "true" || t.Name == "false" {
			return t, t.Name == "true", true
		}
	case *ast.UnaryExpr:
		if t.Op == token.NOT {
			s, v, k := c04SimplifyBool(t.X)
			if k {
				return ast.NewIdent(strconv.FormatBool(!v)), !v, true
			}
			return &ast.UnaryExpr{Op: token.NOT, X: s}, false, false
		}
	case *ast.BinaryExpr:
		if t.Op == token.LAND || t.Op == token.LOR {
			a, va, ka := c04SimplifyBool(t.X)
			b, vb, kb := c04SimplifyBool(t.Y)
			and := t.Op == token.LAND
			switch {
			case ka && kb:
				v := va && vb
				if !and {
					v = va || vb
				}
				return ast.NewIdent(strconv.FormatBool(v)), v, true
			case ka:
				if va == and { // true && y, false || y
					return b, false, false
				}
				return ast.NewIdent(strconv.FormatBool(va)), va, true // false && y, true || y: y is not evaluated
			case kb:
				if vb == and { // x && true, x || false
					return a, false, false
				}
				// x && false / x || true: x is still evaluated; it is pure here only if the caller knows: keep
				return &ast.BinaryExpr{X: a, Op: t.Op, Y: b}, false, false
			}
			return &ast.BinaryExpr{X: a, Op: t.Op, Y: b}, false, false
		}
	}
	return e, false, false
}

// c04FoldConstIfs: `if true { A } else { B }` -> { A }, `if false { A } else { B }` -> { B } / {}.
func c04FoldConstIfs(n ast.Node) ast.Node {
	return astutil.Apply(n, nil, func(cur *astutil.Cursor) bool {
		is, ok := cur.Node().(*ast.IfStmt)
		if !ok || is.Init != nil {
			return true
		}
		s, v, k := c04SimplifyBool(is.Cond)
		if !k {
			is.Cond = s
			return true
		}
		switch {
		case v:
			cur.Replace(is.Body)
		case is.Else != nil:
			cur.Replace(is.Else)
		default:
			cur.Replace(&ast.BlockStmt{})
		}
		return true
	})
}

// ---------------------------------------------------------------------------
// method values, counted loops, indexed reads

// c04InlineMethodValue:  w := X.M  (M a method that writes to the terminal, X a pure path that nothing the function
// reaches writes), every use of w is the callee of a call outside function literals: the calls become X.M(...).
func c04InlineMethodValue(c *Ctx, pk *packages.Package, fd *ast.FuncDecl) string {
	info := pk.TypesInfo
	var self *FuncInfo
	for _, fi := range c.P.FuncsIn("vaxis") {
		if fi.Decl == fd {
			self = fi
		}
	}
	if self == nil {
		return ""
	}
	done := ""
	var lists []*[]ast.Stmt
	ast.Inspect(fd.Body, func(n ast.Node) bool {
		if l := c19StmtList(n); l != nil {
			lists = append(lists, l)
		}
		return true
	})
	for _, lp := range lists {
		for _, s := range *lp {
			as, ok := s.(*ast.AssignStmt)
			if !ok || as.Tok != token.DEFINE || len(as.Lhs) != 1 || len(as.Rhs) != 1 {
				continue
			}
			id, ok := as.Lhs[0].(*ast.Ident)
			if !ok || id.Name == "_" {
				continue
			}
			obj := info.Defs[id]
			sel, ok := unparen(as.Rhs[0]).(*ast.SelectorExpr)
			if obj == nil || !ok {
				continue
			}
			sn, ok := info.Selections[sel]
			if !ok || sn.Kind() != types.MethodVal {
				continue
			}
			fn, _ := sn.Obj().(*types.Func)
			if fn == nil {
				continue
			}
			fake := &ast.CallExpr{Fun: sel, Args: []ast.Expr{ast.NewIdent("_")}}
			if _, _, _, isSink := vaxisTerminalSink(pk, fake, fn); !isSink {
				continue
			}
			if writeCountTables[info][obj] != 1 || !c04Pure(c.P, info, sel.X, 0) {
				continue
			}
			if _, isIface := info.TypeOf(sel.X).Underlying().(*types.Interface); isIface {
				continue // binding evaluates (and nil-checks) the interface value
			}
			// the receiver path keeps its value: its root is not reassigned, nothing reachable writes the path
			if root := rootObj(info, sel.X); root == nil || writeCountTables[info][root] > 1 {
				continue
			}
			path := canonPath(info, sel.X)
			ws := &c04WriteSets{p: c.P, memo: map[string]map[string]bool{}}
			clobbered := false
			for w := range ws.of(self) {
				if c04PathsOverlap(w, path) {
					clobbered = true
				}
			}
			if clobbered {
				continue
			}
			// uses
			parents := map[ast.Node]ast.Node{}
			var stk []ast.Node
			okUses := true
			var calls []*ast.CallExpr
			litDepth := 0
			ast.Inspect(fd.Body, func(n ast.Node) bool {
				if n == nil {
					if _, ok := stk[len(stk)-1].(*ast.FuncLit); ok {
						litDepth--
					}
					stk = stk[:len(stk)-1]
					return true
				}
				if len(stk) > 0 {
					parents[n] = stk[len(stk)-1]
				}
				stk = append(stk, n)
				if _, ok := n.(*ast.FuncLit); ok {
					litDepth++
				}
				if u, ok := n.(*ast.Ident); ok && info.Uses[u] == obj {
					call, isCall := parents[u].(*ast.CallExpr)
					if !isCall || call.Fun != ast.Expr(u) || litDepth > 0 {
						okUses = false
					} else {
						calls = append(calls, call)
					}
				}
				return true
			})
			if !okUses || len(calls) == 0 {
				continue
			}
			for _, call := range calls {
				call.Fun = c15Copy(sel, nil).(ast.Expr)
			}
			var out []ast.Stmt
			for _, x := range *lp {
				if x != s {
					out = append(out, x)
				}
			}
			*lp = out
			done = id.Name
			break
		}
		if done != "" {
			break
		}
	}
	return done
}

// c04TableIdent: id names a constant table: a package-level variable that is never written (ReadOnlyTable), or a
// local defined once by a composite literal whose only uses in fd are range X, len(X) and reads X[k].
func c04TableIdent(c *Ctx, info *types.Info, fd *ast.FuncDecl, id *ast.Ident) bool {
	v, ok := info.ObjectOf(id).(*types.Var)
	if !ok || v.Pkg() == nil || v.IsField() {
		return false
	}
	switch info.TypeOf(id).Underlying().(type) {
	case *types.Slice, *types.Array:
	default:
		return false
	}
	if v.Parent() == v.Pkg().Scope() {
		return c.P.ReadOnlyTable(v) != nil
	}
	def := singleDefOf(info, v)
	if def == nil {
		return false
	}
	if _, isLit := unparen(def).(*ast.CompositeLit); !isLit {
		return false
	}
	parents := map[ast.Node]ast.Node{}
	var stk []ast.Node
	okUses := true
	ast.Inspect(fd.Body, func(n ast.Node) bool {
		if n == nil {
			stk = stk[:len(stk)-1]
			return true
		}
		if len(stk) > 0 {
			parents[n] = stk[len(stk)-1]
		}
		stk = append(stk, n)
		u, ok := n.(*ast.Ident)
		if !ok || info.Uses[u] != types.Object(v) {
			return true
		}
		switch pt := parents[u].(type) {
		case *ast.RangeStmt:
			if pt.X != ast.Expr(u) {
				okUses = false
			}
		case *ast.CallExpr:
			if f, ok := pt.Fun.(*ast.Ident); !ok || f.Name != "len" || info.Uses[f] == nil || info.Uses[f].Parent() != types.Universe {
				okUses = false
			}
		case *ast.IndexExpr:
			if pt.X != ast.Expr(u) {
				return true
			}
			switch gp := parents[pt].(type) {
			case *ast.AssignStmt:
				for _, l := range gp.Lhs {
					if l == ast.Expr(pt) {
						okUses = false
					}
				}
			case *ast.IncDecStmt:
				okUses = false
			case *ast.UnaryExpr:
				if gp.Op == token.AND {
					okUses = false
				}
			}
		default:
			okUses = false
		}
		return true
	})
	return okUses
}

// c04LoopVarUntouched: the loop variable is not assigned, incremented, address-taken or captured in body.
func c04LoopVarUntouched(info *types.Info, body *ast.BlockStmt, obj types.Object) bool {
	ok := true
	litDepth := 0
	var scan func(n ast.Node) bool
	scan = func(n ast.Node) bool {
		switch t := n.(type) {
		case *ast.FuncLit:
			litDepth++
			ast.Inspect(t.Body, scan)
			litDepth--
			return false
		case *ast.Ident:
			if info.Uses[t] == obj && litDepth > 0 {
				ok = false
			}
		case *ast.AssignStmt:
			for _, l := range t.Lhs {
				if id, isId := unparen(l).(*ast.Ident); isId && info.ObjectOf(id) == obj {
					ok = false
				}
			}
		case *ast.IncDecStmt:
			if id, isId := unparen(t.X).(*ast.Ident); isId && info.ObjectOf(id) == obj {
				ok = false
			}
		case *ast.UnaryExpr:
			if t.Op == token.AND && rootObj(info, t.X) == obj {
				ok = false
			}
		case *ast.RangeStmt:
			for _, kv := range []ast.Expr{t.Key, t.Value} {
				if id, isId := kv.(*ast.Ident); isId && t.Tok == token.ASSIGN && info.ObjectOf(id) == obj {
					ok = false
				}
			}
		}
		return ok
	}
	ast.Inspect(body, scan)
	return ok
}

// c04IndexLoopToRange:  for i := 0; i < len(T); i++ { B }  ==>  for i := range T { B }   (T a constant table, B
// writes to the terminal and leaves i alone).
func c04IndexLoopToRange(c *Ctx, pk *packages.Package, fd *ast.FuncDecl) string {
	info := pk.TypesInfo
	done := ""
	astutil.Apply(fd.Body, func(cur *astutil.Cursor) bool {
		if done != "" {
			return false
		}
		fs, ok := cur.Node().(*ast.ForStmt)
		if !ok || fs.Init == nil || fs.Cond == nil || fs.Post == nil {
			return true
		}
		if _, labelled := cur.Parent().(*ast.LabeledStmt); labelled {
			return true
		}
		init, ok := fs.Init.(*ast.AssignStmt)
		if !ok || init.Tok != token.DEFINE || len(init.Lhs) != 1 || len(init.Rhs) != 1 {
			return true
		}
		iv, ok := init.Lhs[0].(*ast.Ident)
		if !ok || iv.Name == "_" {
			return true
		}
		if v, isConst := constInt(info, init.Rhs[0]); !isConst || v != 0 {
			return true
		}
		obj := info.Defs[iv]
		if b, isInt := obj.Type().(*types.Basic); !isInt || b.Kind() != types.Int {
			return true
		}
		post, ok := fs.Post.(*ast.IncDecStmt)
		if !ok || post.Tok != token.INC {
			return true
		}
		if pid, isId := unparen(post.X).(*ast.Ident); !isId || info.Uses[pid] != obj {
			return true
		}
		cond, ok := unparen(fs.Cond).(*ast.BinaryExpr)
		if !ok || cond.Op != token.LSS {
			return true
		}
		if cid, isId := unparen(cond.X).(*ast.Ident); !isId || info.Uses[cid] != obj {
			return true
		}
		lc, ok := unparen(cond.Y).(*ast.CallExpr)
		if !ok || len(lc.Args) != 1 {
			return true
		}
		if f, isId := lc.Fun.(*ast.Ident); !isId || f.Name != "len" || info.Uses[f] == nil || info.Uses[f].Parent() != types.Universe {
			return true
		}
		tid, ok := unparen(lc.Args[0]).(*ast.Ident)
		if !ok || !c04TableIdent(c, info, fd, tid) {
			return true
		}
		if !c04HasSinkCall(pk, fs.Body, false) && !c04HasHookCall(c, pk, fs.Body) || !c04LoopVarUntouched(info, fs.Body, obj) {
			return true
		}
		cur.Replace(&ast.RangeStmt{Key: ast.NewIdent(iv.Name), Tok: token.DEFINE, X: ast.NewIdent(tid.Name), Body: fs.Body})
		done = tid.Name
		return false
	}, nil)
	return done
}

// c04IndexUsesToValue:  for i := range T { … T[i] … }  ==>  for i, e := range T { … e … }   (T a constant table).
func c04IndexUsesToValue(c *Ctx, pk *packages.Package, fd *ast.FuncDecl) string {
	info := pk.TypesInfo
	names := map[string]bool{}
	ast.Inspect(fd, func(n ast.Node) bool {
		if id, ok := n.(*ast.Ident); ok {
			names[id.Name] = true
		}
		return true
	})
	done := ""
	ast.Inspect(fd.Body, func(n ast.Node) bool {
		rs, ok := n.(*ast.RangeStmt)
		if !ok || done != "" {
			return done == ""
		}
		if rs.Tok != token.DEFINE || rs.Value != nil || rs.Key == nil {
			return true
		}
		kid, ok := rs.Key.(*ast.Ident)
		if !ok || kid.Name == "_" {
			return true
		}
		tid, ok := unparen(rs.X).(*ast.Ident)
		if !ok || !c04TableIdent(c, info, fd, tid) || !c04HasSinkCall(pk, rs.Body, false) && !c04HasHookCall(c, pk, rs.Body) {
			return true
		}
		kobj, tobj := info.Defs[kid], info.ObjectOf(tid)
		if kobj == nil || !c04LoopVarUntouched(info, rs.Body, kobj) {
			return true
		}
		fresh := ""
		for k := 0; fresh == ""; k++ {
			if nm := "c04elem" + strconv.Itoa(k); !names[nm] {
				fresh = nm
			}
		}
		hits, otherKeyUses := 0, 0
		inLit := false
		var reps []*ast.IndexExpr
		var scan func(m ast.Node) bool
		scan = func(m ast.Node) bool {
			switch t := m.(type) {
			case *ast.FuncLit:
				inLit = true
				return false
			case *ast.IndexExpr:
				x, okX := unparen(t.X).(*ast.Ident)
				k, okK := unparen(t.Index).(*ast.Ident)
				if okX && okK && info.Uses[x] == tobj && info.Uses[k] == kobj {
					hits++
					reps = append(reps, t)
					return false
				}
			case *ast.Ident:
				if info.Uses[t] == kobj {
					otherKeyUses++
				}
			}
			return true
		}
		ast.Inspect(rs.Body, scan)
		if hits == 0 || inLit {
			return true
		}
		isRep := map[*ast.IndexExpr]bool{}
		for _, r := range reps {
			isRep[r] = true
		}
		astutil.Apply(rs.Body, func(cur *astutil.Cursor) bool {
			if ix, ok := cur.Node().(*ast.IndexExpr); ok && isRep[ix] {
				cur.Replace(ast.NewIdent(fresh))
				return false
			}
			return true
		}, nil)
		if otherKeyUses == 0 {
			rs.Key = ast.NewIdent("_")
		}
		rs.Value = ast.NewIdent(fresh)
		done = tid.Name
		return false
	})
	return done
}
