package main

// C08.i — no shared storage inside a delivered sequence (round-10 seed C08_a_r10).
//
// The property: "A sequence already delivered is never modified by later parsing until the consumer hands it back".
// Finish() puts every slice of a sequence (Intermediate, Parameters and every element of Parameters) into the
// pools, from which later dispatches take their storage. This is exclusive ownership only if every slice that is
// stored into a sequence value is owned by that one sequence: taken from a pool or freshly allocated by the
// dispatch (or it is the parser's own accumulator, which C08.b requires to be replaced after the hand-over).
// A slice that lives in a package-level variable (or is a re-slice / element / field of one) is shared by every
// sequence it is stored into: the first Finish puts the shared array on the free list and later parsing writes
// into sequences the consumer still retains.
//
// Decided here, flow-insensitively over package ansi: for every store of a slice into a field of a sequence
// struct (every named struct type of the package other than Parser that has a slice field) —
//
//	x.F = v      x.F = append(x.F, v...)      T{F: v}      T{..., v, ...}
//
// the origin of v (and, where F is a slice of slices, of every slice appended as an element, also through local
// lists that are built first and stored later) is traced back through local variables (every definition),
// re-slices, index expressions, append, conversions, composite literals, parameters (every call site in the
// package) and results of package functions (every return). The store is a violation when an origin is a
// package-level variable. Origins the rule cannot resolve (external calls, type assertions, interface values)
// are not judged. A parser field stored as an ELEMENT (which C08.b, that follows direct hand-overs only, does
// not see) must be replaced by an assignment to that field on every path after the store.

import (
	"go/ast"
	"go/token"
	"go/types"
	"sort"
	"strings"
)

func init() { registerExtra("C08", c08NoSharedStorage) }

type c08iEng struct {
	c       *Ctx
	pkg     *types.Package
	info    *types.Info
	parser  types.Type // *Parser
	visited map[types.Object]bool
	// parser fields met as elements during the current trace
	elemFields []string
}

func c08NoSharedStorage(c *Ctx) {
	c.Clauses = append(c.Clauses, "C08.i every slice stored into a sequence value (field, element of Parameters) originates from a pool, a fresh allocation or the parser's own accumulator: no package-level (shared) slice enters a delivered sequence")
	c.expect("C08.i", 4)
	pk := c.P.Pkg("ansi")
	if pk == nil {
		c.undecided("C08.i", "package ansi", 0, "package ansi not loaded")
		return
	}
	info := pk.TypesInfo
	e := &c08iEng{c: c, pkg: pk.Types, info: info}
	if tn, _ := pk.Types.Scope().Lookup("Parser").(*types.TypeName); tn != nil {
		e.parser = types.NewPointer(tn.Type())
	}
	type agg struct {
		pos   token.Pos
		n     int
		bad   []string
		elems []string
	}
	sites := map[string]*agg{}
	var order []string
	for _, fi := range c.P.FuncsIn("ansi") {
		if fi.Decl.Body == nil {
			continue
		}
		fi := fi
		var g *FG
		record := func(field *types.Var, owner string, v ast.Expr, at ast.Node) {
			key := fi.Name + "/" + owner + "." + field.Name() + " receives only pool, fresh or accumulator storage"
			a := sites[key]
			if a == nil {
				a = &agg{pos: at.Pos()}
				sites[key] = a
				order = append(order, key)
			}
			a.n++
			e.visited = map[types.Object]bool{}
			e.elemFields = nil
			if why := e.origin(fi, v, 0, false); why != "" {
				a.bad = append(a.bad, types.ExprString(v)+": "+why)
			}
			// parser fields stored as elements: replaced after the store on every path
			for _, f := range e.elemFields {
				if g == nil {
					g = c.P.Graph(fi)
				}
				loc, ok := g.Locate(at)
				if !ok {
					continue
				}
				f := f
				okF, _ := g.MustFollow(loc, func(n ast.Node) bool {
					as, ok := n.(*ast.AssignStmt)
					if !ok {
						return false
					}
					for i, l := range as.Lhs {
						if e.parserField(l) == f && i < len(as.Rhs) && e.parserField(as.Rhs[i]) != f {
							if sl, ok := unparen(as.Rhs[i]).(*ast.SliceExpr); ok && e.parserField(sl.X) == f {
								return false
							}
							return true
						}
					}
					return false
				})
				if !okF {
					a.elems = append(a.elems, "p."+f+" is stored as an element and not replaced afterwards on every path")
				}
			}
		}
		ast.Inspect(fi.Decl.Body, func(n ast.Node) bool {
			switch t := n.(type) {
			case *ast.AssignStmt:
				if len(t.Lhs) != len(t.Rhs) {
					return true
				}
				for i, l := range t.Lhs {
					if f, owner := e.seqField(l); f != nil {
						record(f, owner, t.Rhs[i], t)
					}
				}
			case *ast.CompositeLit:
				tt := info.TypeOf(t)
				if tt == nil {
					return true
				}
				st, owner := e.seqStruct(tt)
				if st == nil {
					return true
				}
				for i, el := range t.Elts {
					var f *types.Var
					v := el
					if kv, ok := el.(*ast.KeyValueExpr); ok {
						if id, ok := kv.Key.(*ast.Ident); ok {
							for j := 0; j < st.NumFields(); j++ {
								if st.Field(j).Name() == id.Name {
									f = st.Field(j)
								}
							}
						}
						v = kv.Value
					} else if i < st.NumFields() {
						f = st.Field(i)
					}
					if f == nil {
						continue
					}
					if _, ok := f.Type().Underlying().(*types.Slice); ok {
						record(f, owner, v, el)
					}
				}
			}
			return true
		})
	}
	sort.Strings(order)
	for _, k := range order {
		a := sites[k]
		switch {
		case len(a.bad) > 0:
			c.bad("C08.i", k, a.pos, "storage shared between sequences is stored into a sequence that is delivered (%s): every such sequence carries the same backing array, Finish of one of them puts it into the pool and later parsing writes into the sequences the consumer still retains", strings.Join(a.bad, "; "))
		case len(a.elems) > 0:
			c.bad("C08.i", k, a.pos, "%s: the next sequence is built in storage the consumer already holds", strings.Join(a.elems, "; "))
		default:
			c.ok("C08.i", k, a.pos, "%d store(s): every origin is a pool Get, a fresh allocation, nil or the parser's accumulator", a.n)
		}
	}
}

// seqStruct: t (or *t) is a named struct type of package ansi, other than Parser, with at least one slice field.
func (e *c08iEng) seqStruct(t types.Type) (*types.Struct, string) {
	if p, ok := t.Underlying().(*types.Pointer); ok {
		t = p.Elem()
	}
	n, ok := t.(*types.Named)
	if !ok || n.Obj().Pkg() != e.pkg || n.Obj().Name() == "Parser" || n.TypeParams().Len() > 0 || n.TypeArgs().Len() > 0 {
		return nil, ""
	}
	st, ok := n.Underlying().(*types.Struct)
	if !ok {
		return nil, ""
	}
	for i := 0; i < st.NumFields(); i++ {
		if _, ok := st.Field(i).Type().Underlying().(*types.Slice); ok {
			return st, n.Obj().Name()
		}
	}
	return nil, ""
}

// seqField: x is `v.F` with F a slice field of a sequence struct.
func (e *c08iEng) seqField(x ast.Expr) (*types.Var, string) {
	sel, ok := unparen(x).(*ast.SelectorExpr)
	if !ok {
		return nil, ""
	}
	s, ok := e.info.Selections[sel]
	if !ok || s.Kind() != types.FieldVal {
		return nil, ""
	}
	f, _ := s.Obj().(*types.Var)
	if f == nil {
		return nil, ""
	}
	if _, ok := f.Type().Underlying().(*types.Slice); !ok {
		return nil, ""
	}
	xt := e.info.TypeOf(sel.X)
	if xt == nil {
		return nil, ""
	}
	st, owner := e.seqStruct(xt)
	if st == nil {
		return nil, ""
	}
	return f, owner
}

// parserField: x is p.F with p of type *Parser (or Parser) and F of slice type.
func (e *c08iEng) parserField(x ast.Expr) string {
	sel, ok := unparen(x).(*ast.SelectorExpr)
	if !ok || e.parser == nil {
		return ""
	}
	s, ok := e.info.Selections[sel]
	if !ok || s.Kind() != types.FieldVal {
		return ""
	}
	xt := e.info.TypeOf(sel.X)
	if xt == nil || !(types.Identical(xt, e.parser) || types.Identical(types.NewPointer(xt), e.parser)) {
		return ""
	}
	if _, ok := s.Obj().Type().Underlying().(*types.Slice); !ok {
		return ""
	}
	return sel.Sel.Name
}

func c08iIsSlice(t types.Type) bool {
	if t == nil {
		return false
	}
	_, ok := t.Underlying().(*types.Slice)
	return ok
}

func c08iPkgLevel(o types.Object) bool {
	v, ok := o.(*types.Var)
	return ok && !v.IsField() && v.Pkg() != nil && v.Parent() == v.Pkg().Scope()
}

// origin: "" = no shared origin found; otherwise a description of the shared storage x can refer to.
// asElem: x is stored as an element of a list (a parser field met here is recorded in e.elemFields).
func (e *c08iEng) origin(fi *FuncInfo, x ast.Expr, depth int, asElem bool) string {
	if x == nil || depth > 6 {
		return ""
	}
	info := e.info
	x = unparen(x)
	switch t := x.(type) {
	case *ast.Ident:
		o := info.ObjectOf(t)
		v, ok := o.(*types.Var)
		if !ok {
			return ""
		}
		if c08iPkgLevel(v) {
			return "package-level variable " + v.Name()
		}
		if e.visited[v] {
			return ""
		}
		e.visited[v] = true
		return e.varOrigin(fi, v, depth, asElem)
	case *ast.SelectorExpr:
		if _, isSel := info.Selections[t]; !isSel {
			if o := info.ObjectOf(t.Sel); o != nil && c08iPkgLevel(o) {
				return "package-level variable " + types.ExprString(t)
			}
			return ""
		}
		if r := rootObj(info, t); r != nil && c08iPkgLevel(r) {
			return "field of package-level variable " + r.Name()
		}
		if asElem {
			if f := e.parserField(t); f != "" {
				e.elemFields = append(e.elemFields, f)
			}
		}
		return ""
	case *ast.IndexExpr:
		if c08iIsSlice(info.TypeOf(t)) || depth == 0 {
			return e.origin(fi, t.X, depth, false)
		}
		return ""
	case *ast.SliceExpr:
		return e.origin(fi, t.X, depth, asElem)
	case *ast.StarExpr:
		return e.origin(fi, t.X, depth, asElem)
	case *ast.UnaryExpr:
		if t.Op == token.AND {
			return e.origin(fi, t.X, depth, asElem)
		}
		return ""
	case *ast.CompositeLit:
		for _, el := range t.Elts {
			v := el
			if kv, ok := el.(*ast.KeyValueExpr); ok {
				v = kv.Value
			}
			if c08iIsSlice(info.TypeOf(v)) {
				if why := e.origin(fi, v, depth, true); why != "" {
					return why
				}
			}
		}
		return ""
	case *ast.CallExpr:
		if tv, ok := info.Types[t.Fun]; ok && tv.IsType() {
			if len(t.Args) == 1 && c08iIsSlice(info.TypeOf(t.Args[0])) {
				return e.origin(fi, t.Args[0], depth, asElem)
			}
			return ""
		}
		if id, ok := unparen(t.Fun).(*ast.Ident); ok {
			if b, ok := info.Uses[id].(*types.Builtin); ok {
				if b.Name() != "append" || len(t.Args) == 0 {
					return ""
				}
				if why := e.origin(fi, t.Args[0], depth, asElem); why != "" {
					return why
				}
				for i, a := range t.Args[1:] {
					at := info.TypeOf(a)
					if !c08iIsSlice(at) {
						continue
					}
					if t.Ellipsis.IsValid() && i == len(t.Args)-2 {
						// append(list, other...): the elements of other are copied; they matter when they are slices
						if !c08iIsSlice(at.Underlying().(*types.Slice).Elem()) {
							continue
						}
					}
					if why := e.origin(fi, a, depth, true); why != "" {
						return why
					}
				}
				return ""
			}
		}
		fn := calleeOf(info, t)
		if fn == nil || fn.Pkg() != e.pkg {
			return ""
		}
		cfi := e.c.P.FuncOfObj(fn)
		if cfi == nil || cfi.Decl.Body == nil || cfi.Pkg.Types != e.pkg {
			return ""
		}
		why := ""
		inspectNoLit(cfi.Decl.Body, func(n ast.Node) bool {
			if why != "" {
				return false
			}
			if rs, ok := n.(*ast.ReturnStmt); ok {
				for _, r := range rs.Results {
					if c08iIsSlice(info.TypeOf(r)) {
						if w := e.origin(cfi, r, depth+1, asElem); w != "" {
							why = w + " (returned by " + cfi.Name + ")"
						}
					}
				}
			}
			return true
		})
		return why
	}
	return ""
}

// varOrigin: every definition of the local variable / every argument bound to the parameter.
func (e *c08iEng) varOrigin(fi *FuncInfo, v *types.Var, depth int, asElem bool) string {
	info := e.info
	// parameter (or receiver) of fi?
	isParam, idx := false, 0
	if fi.Decl.Type.Params != nil {
		k := 0
		for _, fl := range fi.Decl.Type.Params.List {
			if len(fl.Names) == 0 {
				k++
				continue
			}
			for _, nm := range fl.Names {
				if info.Defs[nm] == v {
					isParam, idx = true, k
				}
				k++
			}
		}
	}
	why := ""
	if isParam {
		for _, cf := range e.c.P.FuncsIn("ansi") {
			if cf.Decl.Body == nil || why != "" {
				continue
			}
			cf := cf
			ast.Inspect(cf.Decl.Body, func(n ast.Node) bool {
				if why != "" {
					return false
				}
				call, ok := n.(*ast.CallExpr)
				if !ok || calleeOf(info, call) != fi.Obj || idx >= len(call.Args) {
					return true
				}
				if w := e.origin(cf, call.Args[idx], depth+1, asElem); w != "" {
					why = w + " (passed by " + cf.Name + ")"
				}
				return true
			})
		}
		// a parameter can also be reassigned in the body: fall through to the definitions
	}
	if why != "" {
		return why
	}
	ast.Inspect(fi.Decl.Body, func(n ast.Node) bool {
		if why != "" {
			return false
		}
		switch t := n.(type) {
		case *ast.AssignStmt:
			for i, l := range t.Lhs {
				id, ok := unparen(l).(*ast.Ident)
				if !ok || info.ObjectOf(id) != v {
					continue
				}
				if len(t.Lhs) == len(t.Rhs) {
					why = e.origin(fi, t.Rhs[i], depth, asElem)
				} else if len(t.Rhs) == 1 {
					why = e.origin(fi, t.Rhs[0], depth, asElem)
				}
			}
		case *ast.ValueSpec:
			for i, nm := range t.Names {
				if info.Defs[nm] != v {
					continue
				}
				if len(t.Values) == len(t.Names) {
					why = e.origin(fi, t.Values[i], depth, asElem)
				} else if len(t.Values) == 1 {
					why = e.origin(fi, t.Values[0], depth, asElem)
				}
			}
		case *ast.RangeStmt:
			if id, ok := t.Value.(*ast.Ident); ok && info.ObjectOf(id) == v && c08iIsSlice(v.Type()) {
				why = e.origin(fi, t.X, depth, false)
			}
		}
		return true
	})
	return why
}
