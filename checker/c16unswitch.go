package main

// c16unswitch — normalisation pass F of c16norm.go: a labelled one-shot switch whose only jumps leave its final loop.
//
//	L: switch { default:                         {
//	       A...                                      A...
//	       for ... { ... break L ... }      =>       for ... { ... break ... }
//	   }                                         }
//
// The inliner of c15norm.go turns `return` inside a helper's loop into `break L` of a labelled one-shot switch that
// wraps the copied body ("split a long function into phases": the helper's last statement is the loop, and the return
// inside it only ends the helper early). When the loop is the LAST statement of the switch body, leaving the switch
// and leaving the loop continue at the same statement, so `break L` whose innermost enclosing breakable statement is
// that loop is the plain `break` of the loop. Conditions (all syntactic):
//   - the switch has no init, no tag and exactly one clause, `default:`;
//   - the last statement of the clause is an unlabelled for/range loop;
//   - every jump to L is a `break L` inside that loop whose innermost enclosing for/range/switch/select is the loop;
//   - no unlabelled `break` binds to the switch itself (it would bind to something else once the switch is gone).
// The clause body becomes a block (same scope as the clause had). Labels are unique per function, so they are compared
// by name.

import (
	"go/ast"
	"go/token"

	"golang.org/x/tools/go/packages"
)

func c16UnswitchLoops(c *Ctx, pk *packages.Package, file *ast.File, fd *ast.FuncDecl, counter *int) bool {
	changed := false
	c16StmtLists(fd.Body, func(_ ast.Node, owner *[]ast.Stmt) {
		for i, st := range *owner {
			ls, ok := st.(*ast.LabeledStmt)
			if !ok {
				continue
			}
			sw, ok := ls.Stmt.(*ast.SwitchStmt)
			if !ok || sw.Init != nil || sw.Tag != nil || sw.Body == nil || len(sw.Body.List) != 1 {
				continue
			}
			cc, ok := sw.Body.List[0].(*ast.CaseClause)
			if !ok || cc.List != nil || len(cc.Body) == 0 {
				continue
			}
			last := cc.Body[len(cc.Body)-1]
			var loopBody *ast.BlockStmt
			switch t := last.(type) {
			case *ast.ForStmt:
				loopBody = t.Body
			case *ast.RangeStmt:
				loopBody = t.Body
			}
			if loopBody == nil {
				continue
			}
			label := ls.Label.Name
			// jumps: walk with the stack of enclosing breakable statements (nil = the switch itself)
			good := true
			var jumps []*ast.BranchStmt
			var walk func(n ast.Node, inner ast.Node)
			walk = func(n ast.Node, inner ast.Node) {
				ast.Inspect(n, func(m ast.Node) bool {
					if !good || m == nil {
						return false
					}
					if m == n {
						return true
					}
					switch t := m.(type) {
					case *ast.FuncLit:
						return false // its own jump scope (it cannot jump to L)
					case *ast.ForStmt, *ast.RangeStmt, *ast.SwitchStmt, *ast.TypeSwitchStmt, *ast.SelectStmt:
						walk(m, m)
						return false
					case *ast.BranchStmt:
						if t.Label != nil {
							if t.Label.Name == label {
								if t.Tok != token.BREAK || inner != ast.Node(last) {
									good = false
								} else {
									jumps = append(jumps, t)
								}
							}
						} else if t.Tok == token.BREAK && inner == nil {
							good = false
						}
					}
					return true
				})
			}
			for _, s := range cc.Body {
				if s == last {
					walk(s, s)
				} else {
					walk(&ast.BlockStmt{List: []ast.Stmt{s}}, nil)
				}
			}
			if !good || len(jumps) == 0 {
				continue
			}
			for _, j := range jumps {
				j.Label = nil
			}
			(*owner)[i] = &ast.BlockStmt{List: cc.Body}
			changed = true
		}
	})
	return changed
}
