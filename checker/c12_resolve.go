package main

// C12 — complements of the shared emission extractor, local to this property.
//
//  resolveByExec  an emission whose bytes come from a string-building helper that the extractor's
//                 shape-bound evaluator does not understand (locals, concatenation of intermediates, early
//                 returns …) is resolved by executing the helper symbolically: the strings it can return,
//                 with the unknown pieces as holes, are the emission's templates.
//  emptyFrame     C12.g decided on the symbolic execution of (*writer).Flush instead of on guard strings.

import (
	"fmt"
	"go/ast"
	"go/types"
	"sort"
	"strings"
)

// c12StripConv removes conversions ([]byte(x), string(x)) and parentheses.
func c12StripConv(info *types.Info, x ast.Expr) ast.Expr {
	for {
		x = unparen(x)
		c, ok := x.(*ast.CallExpr)
		if !ok || len(c.Args) != 1 {
			return x
		}
		if tv, ok := info.Types[c.Fun]; !ok || !tv.IsType() {
			return x
		}
		x = c.Args[0]
	}
}

// resolveByExec: templates of an unresolved emission whose argument is (a conversion of) a call of a
// repository function returning one string. Constant arguments are passed on, everything else is unknown.
func (st *c12State) resolveByExec(e *Emission) bool {
	info := e.Fn.Pkg.TypesInfo
	x := c12StripConv(info, e.ArgExpr)
	// through a single-definition local: s := vx.showCursor(); w.Write([]byte(s))
	for depth := 0; depth < 2; depth++ {
		id, ok := x.(*ast.Ident)
		if !ok {
			break
		}
		obj := info.ObjectOf(id)
		if obj == nil || c12AssignedElsewhere(e.Fn, obj) {
			return false
		}
		def := c12SingleDef(e.Fn, obj)
		if def == nil {
			return false
		}
		x = c12StripConv(info, def)
	}
	call, ok := x.(*ast.CallExpr)
	if !ok {
		return false
	}
	fn := calleeOf(info, call)
	if fn == nil {
		return false
	}
	fi := st.c.P.FuncOfObj(fn)
	if fi == nil || fi.Decl.Body == nil {
		return false
	}
	sig := fn.Type().(*types.Signature)
	if sig.Results().Len() != 1 || sig.Variadic() {
		return false
	}
	if b, isB := sig.Results().At(0).Type().Underlying().(*types.Basic); !isB || b.Info()&types.IsString == 0 {
		if _, isSlice := sig.Results().At(0).Type().Underlying().(*types.Slice); !isSlice {
			return false
		}
	}
	var args []c12Val
	for i, a := range call.Args {
		var v c12Val = c12Sym{Hole: -1, Desc: fmt.Sprintf("arg%d", i)}
		if tv, ok := info.Types[a]; ok && tv.Value != nil {
			ex := &c12Exec{p: st.c.P}
			if cv, ok := ex.constVal(&c12Frame{info: info}, a); ok {
				v = cv
			}
		}
		args = append(args, v)
	}
	paths, complete := c12RunOpt(st.c.P, fi, &c12Exec{generic: true}, args...)
	if !complete || len(paths) == 0 {
		return false
	}
	seen := map[string]bool{}
	var tmpls []string
	for _, p := range paths {
		if len(p.Unsupp) > 0 || len(p.Skipped) > 0 || len(p.Ret) != 1 {
			return false
		}
		var s c12Str
		switch v := p.Ret[0].(type) {
		case c12Str:
			s = v
		case c12Conv:
			inner, ok := v.X.(c12Str)
			if !ok {
				return false
			}
			s = inner
		default:
			return false
		}
		t, _ := c12Template(s)
		if !seen[t] {
			seen[t] = true
			tmpls = append(tmpls, t)
		}
	}
	sort.Strings(tmpls)
	e.Templates, e.Resolved = tmpls, true
	return true
}

// ---------------------------------------------------------------- C12.g

func init() { registerExtra("C12", c12EmptyFrameCursor) }

// c12EmptyFrameCursor: a frame that produced no output still re-shows a visible cursor whose row, column or
// style alone changed. Decided by executing (*writer).Flush with an empty frame buffer, the cursor visible
// before and after, and exactly one of the three fields different (both directions): every path must write
// a cursor-show (CSI ?25h) to the terminal. Independent of how the decision is written (tagless switch,
// nested ifs, merged || guards through a flag, pointer aliases of the cursor states).
func c12EmptyFrameCursor(c *Ctx) {
	const rule = "C12.g"
	c.Clauses = append(c.Clauses, rule+" an otherwise empty frame re-shows a visible cursor when its row, column or style changed")
	c.expect(rule, 3)
	fi := c.P.Func("vaxis.(*writer).Flush")
	if fi == nil {
		c.undecided(rule, "vaxis.(*writer).Flush", 0, "Flush not found")
		return
	}
	fields := []string{"row", "col", "style"}
	for _, f := range fields {
		key := "vaxis.(*writer).Flush/empty frame shows the cursor again when only its " + f + " changed"
		var undec []string
		silent := false
		shown := 0
		for _, dir := range [][2]int64{{1, 0}, {0, 1}} {
			init := map[string]c12Val{
				"writer.buf":               c12Builder{S: &c12Str{}},
				"Vaxis.cursorNext.visible": c12Bool{true},
				"Vaxis.cursorLast.visible": c12Bool{true},
			}
			for _, g := range fields {
				init["Vaxis.cursorNext."+g] = c12Int{0}
				init["Vaxis.cursorLast."+g] = c12Int{0}
			}
			init["Vaxis.cursorNext."+f] = c12Int{dir[0]}
			init["Vaxis.cursorLast."+f] = c12Int{dir[1]}
			paths, complete := c12RunOpt(c.P, fi, &c12Exec{sink: vaxisTerminalSink, init: init, generic: true})
			if !complete {
				undec = append(undec, "path budget exceeded")
			}
			for _, p := range paths {
				undec = append(undec, p.Unsupp...)
				undec = append(undec, p.Skipped...)
				has := false
				for _, w := range p.Writes {
					t, _ := c12Template(w.S)
					for _, s := range parseSeqs(t) {
						if s.Kind == "CSI" && s.Private == "?" && s.Final == "h" && s.Params == "25" {
							has = true
						}
					}
					for _, part := range w.S.norm().Parts {
						if part.Sym != nil && len(w.S.norm().Parts) == 1 {
							undec = append(undec, "terminal write of unknown bytes "+c12Show(part.Sym))
						}
					}
				}
				if has {
					shown++
				} else {
					silent = true
				}
			}
		}
		undec = c12Dedup(undec)
		switch {
		case silent && len(undec) == 0:
			c.bad(rule, key, fi.Decl.Pos(), "with nothing else to write and the cursor visible before and after, a change of the cursor's %s alone writes nothing: the terminal keeps the old cursor %s", f, f)
		case len(undec) > 0:
			c.undecided(rule, key, fi.Decl.Pos(), "Flush not understood: %s", strings.Join(undec, "; "))
		case shown == 0:
			c.undecided(rule, key, fi.Decl.Pos(), "no path of Flush explored")
		default:
			c.ok(rule, key, fi.Decl.Pos(), "every path with an empty buffer writes a cursor-show (%d path(s))", shown)
		}
	}
}

// ---------------------------------------------------------------- constant tables

// c12Row: the constant fields of one row of a package-level table that a frame-phase loop ranges over
// (`for _, a := range attrsSet { if on&a.attr != 0 { write(a.seq) } }`). An emission inside such a loop is
// expanded into one emission per row; guards that mention a field of the loop variable are evaluated with
// the row's constants.
type c12Row struct {
	obj  types.Object // the loop's value variable
	ints map[string]int64
	strs map[string]string
}

func (r *c12Row) intField(info *types.Info, e ast.Expr) (int64, bool) {
	if r == nil {
		return 0, false
	}
	sel, ok := unparen(e).(*ast.SelectorExpr)
	if !ok {
		return 0, false
	}
	id, ok := unparen(sel.X).(*ast.Ident)
	if !ok || info.ObjectOf(id) != r.obj {
		return 0, false
	}
	v, ok := r.ints[sel.Sel.Name]
	return v, ok
}

// c12PkgVarWritten: the package-level variable is assigned, or its address/elements are written, anywhere in its package.
func c12PkgVarWritten(p *Program, pkShort string, v types.Object) bool {
	pk := p.Pkg(pkShort)
	if pk == nil {
		return true
	}
	info := pk.TypesInfo
	found := false
	for _, f := range pk.Syntax {
		ast.Inspect(f, func(n ast.Node) bool {
			switch t := n.(type) {
			case *ast.AssignStmt:
				for _, l := range t.Lhs {
					if rootObj(info, l) == v {
						found = true
					}
				}
			case *ast.IncDecStmt:
				if rootObj(info, t.X) == v {
					found = true
				}
			case *ast.UnaryExpr:
				if t.Op.String() == "&" && rootObj(info, t.X) == v {
					found = true
				}
			}
			return !found
		})
	}
	return found
}

// tableRows: the rows of the constant table the value variable obj ranges over in fi (nil if it is not one).
func (st *c12State) tableRows(fi *FuncInfo, obj types.Object) []*c12Row {
	info := fi.Pkg.TypesInfo
	var rng *ast.RangeStmt
	n := 0
	ast.Inspect(fi.Decl.Body, func(x ast.Node) bool {
		if r, ok := x.(*ast.RangeStmt); ok {
			if id, ok := r.Value.(*ast.Ident); ok && info.Defs[id] == obj {
				rng = r
				n++
			}
		}
		return true
	})
	if rng == nil || n != 1 || c12SingleDef(fi, obj) != nil {
		return nil
	}
	// the loop variable must not be written in the body
	written := false
	ast.Inspect(rng.Body, func(x ast.Node) bool {
		switch t := x.(type) {
		case *ast.AssignStmt:
			for _, l := range t.Lhs {
				if rootObj(info, l) == obj {
					written = true
				}
			}
		case *ast.IncDecStmt:
			if rootObj(info, t.X) == obj {
				written = true
			}
		case *ast.UnaryExpr:
			if t.Op.String() == "&" && rootObj(info, t.X) == obj {
				written = true
			}
		}
		return !written
	})
	if written {
		return nil
	}
	tid, ok := unparen(rng.X).(*ast.Ident)
	if !ok {
		return nil
	}
	tv, ok := info.ObjectOf(tid).(*types.Var)
	if !ok || tv.Pkg() == nil || tv.Parent() != tv.Pkg().Scope() {
		return nil
	}
	pkShort := shortPkg(tv.Pkg().Path())
	pk := st.c.P.Pkg(pkShort)
	if pk == nil || c12PkgVarWritten(st.c.P, pkShort, tv) {
		return nil
	}
	// the initialiser
	var lit *ast.CompositeLit
	for _, f := range pk.Syntax {
		for _, d := range f.Decls {
			gd, ok := d.(*ast.GenDecl)
			if !ok {
				continue
			}
			for _, sp := range gd.Specs {
				vs, ok := sp.(*ast.ValueSpec)
				if !ok {
					continue
				}
				for i, nm := range vs.Names {
					if pk.TypesInfo.Defs[nm] == tv && i < len(vs.Values) {
						lit, _ = unparen(vs.Values[i]).(*ast.CompositeLit)
					}
				}
			}
		}
	}
	if lit == nil {
		return nil
	}
	var elemT types.Type
	switch u := tv.Type().Underlying().(type) {
	case *types.Slice:
		elemT = u.Elem()
	case *types.Array:
		elemT = u.Elem()
	default:
		return nil
	}
	stt, ok := elemT.Underlying().(*types.Struct)
	if !ok {
		return nil
	}
	var rows []*c12Row
	for _, el := range lit.Elts {
		if kv, ok := el.(*ast.KeyValueExpr); ok {
			if _, isC := pk.TypesInfo.Types[kv.Key]; !isC {
				return nil
			}
			el = kv.Value
		}
		cl, ok := unparen(el).(*ast.CompositeLit)
		if !ok {
			return nil
		}
		row := &c12Row{obj: obj, ints: map[string]int64{}, strs: map[string]string{}}
		// unmentioned fields are zero
		for i := 0; i < stt.NumFields(); i++ {
			if b, ok := stt.Field(i).Type().Underlying().(*types.Basic); ok {
				switch {
				case b.Info()&types.IsInteger != 0:
					row.ints[stt.Field(i).Name()] = 0
				case b.Info()&types.IsString != 0:
					row.strs[stt.Field(i).Name()] = ""
				}
			}
		}
		for i, fe := range cl.Elts {
			name := ""
			val := fe
			if kv, ok := fe.(*ast.KeyValueExpr); ok {
				id, ok := kv.Key.(*ast.Ident)
				if !ok {
					return nil
				}
				name, val = id.Name, kv.Value
			} else if i < stt.NumFields() {
				name = stt.Field(i).Name()
			}
			if v, ok := constInt(pk.TypesInfo, val); ok {
				if _, isInt := row.ints[name]; isInt {
					row.ints[name] = v
					continue
				}
			}
			if s, ok := constString(pk.TypesInfo, val); ok {
				if _, isStr := row.strs[name]; isStr {
					row.strs[name] = s
					continue
				}
			}
			// a non-constant field: unknown, must not be used
			delete(row.ints, name)
			delete(row.strs, name)
		}
		rows = append(rows, row)
	}
	return rows
}

// expandTables replaces every emission whose argument is a string field of a constant-table loop variable by one
// resolved emission per row of the table — also when the shared extractor already resolved it to the set of all
// rows' strings: the guards around such a write speak about other fields of the same row (`on&a.mask != 0`), and
// only a per-row emission lets them be evaluated with that row's constants.
func (st *c12State) expandTables() {
	if st.rows == nil {
		st.rows = map[*Emission]*c12Row{}
	}
	var out []*Emission
	for _, e := range st.ems {
		if e.FnName != e.Fn.Name {
			out = append(out, e)
			continue
		}
		info := e.Fn.Pkg.TypesInfo
		sel, ok := c12StripConv(info, e.ArgExpr).(*ast.SelectorExpr)
		if !ok {
			out = append(out, e)
			continue
		}
		id, ok := unparen(sel.X).(*ast.Ident)
		if !ok || info.ObjectOf(id) == nil {
			out = append(out, e)
			continue
		}
		rows := st.tableRows(e.Fn, info.ObjectOf(id))
		okAll := len(rows) > 0
		for _, r := range rows {
			if _, has := r.strs[sel.Sel.Name]; !has {
				okAll = false
			}
		}
		if !okAll {
			out = append(out, e)
			continue
		}
		for _, r := range rows {
			ne := *e
			ne.Templates, ne.Resolved, ne.Why = []string{r.strs[sel.Sel.Name]}, true, ""
			st.rows[&ne] = r
			out = append(out, &ne)
		}
	}
	st.ems = out
}
